"""C02 configuration.  Two parts (bin/check runs both; see CONFIG["parts"]):
  part 0 "C02"      = the SPEC-LEVEL part: Model/CopyFault.v (CopySpec + fault events), Properties/C02.v,
                      harness cmd/c02 (fault injection, destination monitor, rerun);
  part 1 "C02proto" = the PROTOCOL part: Model/CopyImpl.v (syncutil.Go / LimitedRegion / Tracker),
                      Properties/C02_protocol.v, harness cmd/goimpl."""
import base64 as _b64
import copyvm02 as _copyvm02


def _c02_case(c):
    tok = c.split(" ", 1)[0]
    if tok.startswith("J"):
        pad = "=" * (-len(tok[1:]) % 4)
        return {"case": _b64.urlsafe_b64decode(tok[1:] + pad).decode("utf-8")}
    return {"raw": c}


PROTO = {
    "name": "C02proto",
    "properties_file": "Properties/C02_protocol.v",
    "proof_files": ["Proofs/CopyImplBase.v", "Proofs/CopyImplInv.v", "Proofs/CopyImplInv2.v", "Proofs/CopyImplLive.v",
                    "Proofs/CopyImplDeadlock.v", "Proofs/CopyImplFault.v", "Proofs/CopyImplTerm.v", "Proofs/CopyImplSucc.v", "Proofs/CopyImplSucc2.v", "Proofs/CopyImplOrder.v", "Proofs/CopyImplNoFault.v", "Proofs/CopyImplDst.v", "Proofs/CopyImplRefine.v", "Proofs/CopyImplSrc.v"],
    "model_files": ["Model/CopyImpl.v", "Model/CopyImplDst.v", "Generated/GC02.v", "Model/CopyImplSrc.v"],
    "extract": "XCopyImpl.v",
    "ml_main": "goimpl_main.ml",
    "harness": "goimpl",
    "case_to_replay": _c02_case,
    "timeout_quick": 900,
    "timeout_thorough": 3600,
    "assumptions": [
        "PROTOCOL PART ONLY: the theorems are about the LTS Model/CopyImpl.v (tasks, frames, permits, tracker); the spec-level part of C02 (link-closure of the destination at every instant, retry completes) is a separate part of this check",
        "golang.org/x/sync semaphore.Weighted (acquire blocks until a permit is free or ctx is done; FIFO order abstracted to 'any waiter'), errgroup (Wait returns after all goroutines; first error cancels) and context.WithCancelCause/Cause (cancellation is propagated synchronously to derived contexts) are modelled by hand, not verified; their protocol is exercised on every run by driving the real syncutil.Go / LimitedRegion / Tracker and checking trace acceptance",
        "atomicity abstractions of the model (each merges non-blocking operations that can only enable other tasks' steps): Acquire+eg.Go; return of fn + deferred close(done) + cancel(err) + deferred End; eg.Wait + return of Go + the caller's `if err != nil {return err}`",
        "storage steps (Exists, FindSuccessors/fetch, copyNode incl. callbacks and mounting) are single labels whose outcome (present / absent / failure) is an unconstrained choice; successors = content.Successors minus foreign layers is the Section variable succ with the hypothesis that it strictly decreases a rank (node ids assigned bottom-up)",
        "Go scheduler, memory model and wall-clock time are not modelled: 'bounded time' is proved as a bound on the number of protocol steps (bound = f(graph), independent of K) and observed on the real code with a 20 s watchdog",
        "the recorded event order is conservative (acquisitions logged after, releases/closes/failures logged before they take effect); the value returned by syncutil.Go is read before it can be logged: a trace in which that race is visible and cannot be repaired by moving the event is left UNJUDGED by the model (counted in model_unjudged) and judged by the oracle only",
    ],
    "level_text": "PROTOCOL PART of C02/C04 (syncutil.Go, LimitedRegion.Start/End, status.Tracker, the skeleton of copyGraph.fn and of ExtendedCopyGraph's outer closure). Coq theorems over every interleaving, every fault placement and every cancellation point of a small-step LTS with explicit program counters, cancel-cause context tree, permits and done channels: permits conserved and End/Start idempotent (C04_permits_conserved, C04_*_idempotent), at most K tasks in a storage step (C04_inflight_bounded), every reachable non-final state has an enabled protocol step (C02_no_deadlock), a nat measure decreases on every step so every execution has at most bound(graph) steps (C02_terminates*), a fault or cancellation before completion makes the top-level call return an error (C02_fault_surfaces_protocol), on success every root is Done, copied nodes have Done successors, nothing stays InProgress (C02_success_protocol), at EVERY reachable state -- failed and cancelled executions included -- the push step of a task is enabled only when every successor is Done and copied nodes have Done successors (C02_push_after_done_protocol, C02_past_wait_successors_done_protocol, C02_copied_successors_done_protocol), and an execution without failing step and without cancellation that has ended returned nil (C02_nofault_returns_nil_protocol: with C02_terminates and C02_success_protocol this is 're-running it without faults completes the graph'). Tied to the code by driving the REAL syncutil.Go/LimitedRegion/Tracker with a scripted copy of copyGraph.fn on random OCI DAGs x K x fault plans x cancellation x latencies (recorded trace must be a run of the extracted LTS), by comparing the skeleton's storage-event multiset with the real oras.CopyGraph/ExtendedCopyGraph, and by an independent oracle on both (returns within the watchdog, error iff a fault/cancel fired, in-flight gauge <= K, no goroutine leak, no push before successors, closure present on success)",
    "level_note": "protocol part only; the spec-level part (CopySpec: destination link-closed at every instant, retry) is added by another builder. semaphore/errgroup/context are hand-modelled; wall-clock boundedness is observed (20 s watchdog), the theorem bounds the number of protocol steps; the trace acceptor infers the unobservable steps inside syncutil.Go (dispatch, skip) from the events around them",
    "technique": "machine-checked proof in Coq (invariants over a labelled transition system: permit conservation, context/ frame tree structure, failure propagation, ownership of in-progress nodes; rank-induction for deadlock freedom; potential function for termination) + trace acceptance of the real syncutil/tracker against the extracted model + differential run of the real CopyGraph + independent oracle",
    "explanation": "theorems about all interleavings/fault placements of the protocol LTS; the extracted LTS must accept the event traces of the real syncutil.Go/LimitedRegion/Tracker driven by a scripted copyGraph.fn; the real CopyGraph/ExtendedCopyGraph runs on the same cases under an independent oracle",
}


def _c02_spec_case(c):
    # the last field of a case line is rp=J<base64url JSON {stream, genseed, thorough, seed, variant}>
    for f in c.split(" "):
        if f.startswith("rp=J"):
            import json as _json
            tok = f[4:]
            pad = "=" * (-len(tok) % 4)
            d = _json.loads(_b64.urlsafe_b64decode(tok + pad).decode("utf-8"))
            return {"stream": d["stream"], "genseed": str(d["genseed"]), "thorough": "1" if d.get("thorough") else "0",
                    "seed": str(d["seed"]), "variant": d.get("variant", "")}
    return {"raw": c[:2000]}


_SPEC_ASSUMPTIONS = [
    "SPEC-LEVEL PART: the theorems are about the visible-event transition system Model/CopyFault.v = Model/CopySpec.v (per-node phase, destination content, proxy cache, tag) + fault events (error of dst.Exists, src.Fetch, dst.Push/PushReference before or after the content was stored, of a user callback, of a prologue operation Resolve/MapRoot/Predecessors) + cancellation of the context at any moment; [faccepts] quantifies over every interleaving, every number and placement of faults, every cancellation point, every prefix",
    "what the code does with an error is modelled by hand: the failing task's node becomes Dead and nothing leaves Dead (the deferred close(done) is skipped when err != nil), the waiting parents are abandoned; syncutil.Go returning context.Cause(ctx) is modelled as 'Ret ok needs no cancellation, no prologue failure and no dead node'. Tied to copy.go / extendedcopy.go / limit.go on every run by trace acceptance of the recorded runs (a push of a parent of a dead node, or a successful return after a fault/cancel, is rejected) and by the independent oracle",
    "ExtendedCopyGraph's outer fan-out is a virtual super-root: a node that is not content (hypothesis ext_ok: no store holds it), initially Waiting, whose successors are the roots; findRoots itself is C03's subject: the roots given to the model are the generator's ground truth (ancestors of the start node without predecessors, where a filtering FindPredecessors may cut the walk: nested roots -- a root reachable from another root -- are generated that way; Depth > 0 is not used because its root set depends on findRoots' visiting order)",
    "content.Successors = the generator's edge list (parameter g_succ); standing hypothesis as in C01: during the call the destination is written only by the call itself and never deletes, the source is immutable; mt_consistent (digest-keyed destinations) is a hypothesis of the push-ordering / completion theorems, not of C02_closed_always; the generators of this part produce no two nodes with one digest",
    "user callbacks return nil or an ordinary error: a user PreCopy answering oras.SkipNode (by design: the node is marked done WITHOUT being transferred, so a caller can make the destination non-closed on purpose) is outside the model and never generated; prepareCopy's own internal use of SkipNode (ReferencePusher root) is modelled",
    "the error handling the models assume is tied to the source by the translator kind c02_srcfacts (Generated/GC02.v) + C02_source_facts: named result err, deferred close(done) only when err == nil, the wait's `case <-ctx.Done(): return ctx.Err()`, the errors of Exists / FindSuccessors / syncutil.Go / region.Start / copyNode / doCopyNode returned, exactly two `return nil` in copyGraph.fn, syncutil.Go = eg.Wait + cancel + `return context.Cause(ctx)`, task error cancels the group, skip when cancelled, LimitedRegion.Start returns Acquire's error, ExtendedCopyGraph's outer closure { region.End(); copyGraph(ctx, ...); region.Start() }: these are SYNTACTIC shapes (an equivalent rewrite needs the recogniser to be taught); there is still no refinement theorem CopyImpl -> CopySpec and the protocol harness drives a hand-written copy of fn (skel.fn) -- the facts above are what ties both models to copy.go besides trace acceptance",
    "not generated (outside this check's tie, inside the property's quantifier): an error from Read()/Close() of a fetched stream in the middle of a transfer (the model has no event for it), a source that is a registry.ReferenceFetcher, MaxMetadataBytes overflow, file / remote stores, nil callbacks combined with faults (C01's CopyOpt elaboration is not used here), two nodes with one digest (twins: then closed_nodes, which ranges over stored NODES, says nothing about a digest-keyed store answering Exists for the twin -- C01's F12 region); cancellation comes from inside an operation, before the call, or (controlled schedules) at a quiescent point where every goroutine of the call is blocked -- not from a wall-clock timer",
    "a failing dst.Push stores the content only when the fault is injected after the real push (stored flag of PuX); a real store failing on its own is assumed not to have stored the content",
    "registry.Mounter destinations are exercised through an in-harness Mounter wrapper (PRNG decides whether a candidate repository has the blob), with faults at Mount (before / after the blob was mounted or uploaded: MtX), MountFrom, OnMounted and at PreCopy / src.Fetch inside Mount's getContent; not combined with ReferencePusher destinations (as in C01); 'bounded time' is the protocol part's theorem (C02_terminates) plus the 20 s watchdog here; goroutine scheduling: interleavings of visible events are quantified over, internal races are exercised (free-running goroutines with PRNG latencies and slow nodes, PRNG-controlled schedules under testing/synctest with slow nodes released last), not enumerated",
]

CONFIG = {
    "name": "C02",
    "properties_file": "Properties/C02.v",
    "proof_files": ["Base/Prelude.v", "Proofs/CopySpec.v", "Proofs/CopyFault.v", "Proofs/CopyFnFacts.v"],
    "model_files": ["Generated/GC02.v", "Model/CopySpec.v", "Model/CopyTop.v", "Model/CopyFault.v"],
    "extract": "XC02.v",
    "ml_main": "c02_main.ml",
    "harness_test": True,
    "harness": "c02",
    "case_to_replay": _c02_spec_case,
    "post_model": _copyvm02.vm_sample(),
    "timeout_quick": 900,
    "timeout_thorough": 3600,
    "timeout_search": 1200,
    "parts": [PROTO],
    "assumptions": _SPEC_ASSUMPTIONS + PROTO["assumptions"],
    "level_text": "SPEC-LEVEL PART: Coq theorems over every trace accepted by the fault-extended copyGraph transition system (all graphs, all link-closed initial destinations, all K, CopyGraph / Copy into Tagger and ReferencePusher destinations / ExtendedCopyGraph as a virtual super-root, all interleavings, any number of faults at Exists / Fetch / Push / Tag / Mount (before or after the side effect) / callbacks incl. MountFrom and OnMounted / prologue, cancellation at any point, every prefix): the destination is link-closed after every event (C02_closed_always, C02_closed_every_prefix); when a push completes -- also one that then reports an error -- every successor of the node is present (C02_push_after_successors); a fault or cancellation anywhere excludes the successful return and taint is never lost (C02_fault_surfaces, C02_fault_taints, C02_taint_persists, C02_tainted_only_error_return); a successful call holds everything reachable from all its roots (C02_success_complete) and so does any successful rerun after any failed / cancelled / abandoned first call (C02_retry_completes; C02_retry_completes_C01 states it with the rerun as a run of C01's fault-free system, to which C01_closure applies); without fault events the extended system accepts exactly the traces of C01/C04's system with the same final state (C02_conservative_over_CopySpec); Examples: a shared-successor DAG whose push fails after storing + rerun, an ExtendedCopyGraph run cancelled in flight + rerun, and the two traces of the classic bugs (parent of a failed node goes on; success after cancellation) are rejected. ExtendedCopyGraph is covered under both views of its fan-out (virtual super-root ext=true; CopySpec's c_xroots with ext=false): every theorem holds for both, the model runner requires the same verdict from both on every recorded trace, and a sample of cases is re-evaluated inside Coq with vm_compute (post_model hook). C02_nofault_no_error_return: a run without fault events is never tainted and cannot return an error; C02_source_facts: the error-handling shapes of copyGraph.fn / syncutil.Go / Start / the outer closure re-read from the source hold. Tied to the code by trace acceptance of recorded faulty calls and of their fault-free reruns on random, shared-successor and TWO-LEVEL-sharing DAGs (a shared non-leaf node whose successor is claimed elsewhere, a failing and a slow sibling) x nested roots x API x K x stores x fault plans x schedules, and by an independent oracle: destination monitor at every completed push (generator's edge list), closure after every outcome, fired fault => error, watchdog, goroutines back to baseline, rerun completes (presence + bytes + tag). || " + PROTO["level_text"],
    "level_note": "clauses that are oracle-only: bytes identical after the retry (retry-bytes), wall-clock boundedness (watchdog), goroutines back to baseline; the monitor checks the successors right after the underlying Push returned (a successor stored during the push could hide a violation in free-running mode; under controlled schedules operations are atomic). spec-level part: the error handling of copyGraph.fn (Dead phase, done channel not closed) is hand-modelled and tied by trace acceptance + oracle; Mounter only through the in-harness wrapper, not combined with ReferencePusher; stores exercised: memory and OCI layout as source and destination. || " + PROTO["level_note"],
    "technique": "machine-checked proof in Coq (the C01 invariant of the per-node-phase transition system extended to fault / cancel events; taint monotonicity; closure at every prefix) + constants regenerated from copy.go + trace-acceptance correspondence of faulty runs and reruns + independent monitor oracle || " + PROTO["technique"],
    "explanation": "spec part: every recorded trace of a faulty CopyGraph/Copy/ExtendedCopyGraph call and of its fault-free rerun must be a run of Model/CopyFault.v with the same return value, destination content and tag; the oracle (destination monitor, closure, fault surfaces, hang, leak, rerun completes) uses the generator's ground truth only || protocol part: " + PROTO["explanation"],
}
