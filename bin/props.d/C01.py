"""C01 configuration (loaded by bin/props.py)."""


def _c01_case(c):
    # the last field of a case line is rp=<stream>:<genseed>:<thorough 0|1>:<latency seed>; the case is regenerable
    for f in c.split(" "):
        if f.startswith("rp="):
            p = f[3:].split(":")
            return {"stream": p[0], "genseed": p[1], "thorough": p[2]}
    return {"raw": c[:2000]}


import copyvm as _copyvm

CONFIG = {
    "post_model": _copyvm.vm_sample("GC01"),
    "properties_file": "Properties/C01.v",
    "proof_files": ["Base/Prelude.v", "Proofs/CopySpec.v", "Proofs/CopyAcct.v", "Proofs/CopyOpt.v", "Proofs/CopyCancel.v", "Proofs/CopyLinks.v", "Proofs/CopyCode.v"],
    "model_files": ["Generated/GC01.v", "Model/CopySpec.v", "Model/CopyTop.v", "Model/CopyOpt.v", "Model/CopyCancel.v", "Model/CopyLinks.v"],
    "extract": "XC01.v",
    "ml_main": "c01_main.ml",
    "harness_test": True,
    "harness": "c01",
    "case_to_replay": _c01_case,
    "timeout_quick": 600,
    "timeout_thorough": 3000,
    "assumptions": [
        "ORACLE-ONLY CLAUSES (no theorem): byte identity of every reachable node (oracle fetches and compares; generated blobs <= 64 B, manifests < ~2 KB); the link kinds config/layers/blobs/manifests/subject (g_succ is a parameter of the theorems: the generator's edge list is compared with content.Successors on every generated graph, signature successors-differ, and every probe must be a dispatched successor); the actual reference STRING (TagB/TagE/PushReference events carry no reference: the model proves 'the effective reference is set to the root', the oracle resolves the real string, checks that a pre-existing reference is moved and that the source reference is not tagged as well when another destination reference was given); the link resolve -> MapRoot/platform -> copyGraph root is the harness's ground truth (expectedRoot), the model takes the mapped root as the configuration's root; plat_match is compared with platform.Match on architecture/OS matches and on variant/feature wants that no entry satisfies (generated index entries carry architecture and OS only)",
        "optional callbacks: which of PreCopy/PostCopy/OnCopySkipped/OnMounted/MountFrom (and FindSuccessors, MapRoot) are nil is chosen per run, including all nil = default options; a recorded trace then has no events for nil callbacks and is elaborated by Model/CopyOpt.step_opt (the invocation points of nil callbacks are inserted, an event of a nil callback is rejected); the *_any_callbacks theorems hold for every such choice",
        "ExtendedCopyGraph / ExtendedCopy: the roots above the node (generator's predecessor relation; findRoots itself is C03's) are the model's c_root :: c_xroots, dispatched together and sharing tracker, proxy and limiter; the final Tag of ExtendedCopy is checked by the oracle only",
        "content.Successors (encoding/json decoding of the five manifest kinds) returns the generator's edge list: a parameter `g_succ` of the theorems; checked on every run by trace acceptance (only dispatched successors may be probed) and by dag.SelfTest on every generated graph (oracle signature successors-differ)",
        "standing hypothesis (explicit in the model): during the call the destination is written only by the call itself and never deletes; the source is immutable",
        "a destination accepts a push only for bytes matching the descriptor and the source serves the bytes its descriptor names (C05); byte identity is evaluated by the oracle on the real stores, not in the model",
        "RESTRICTION OF THE PROPERTY'S QUANTIFIER (known finding twin-digest-exists = F12): C01_closure / C01_copy_result assume mt_consistent -- descriptors with the same destination key (digest, for OCI layouts and for titled blobs in a file store) have the same non-foreign successors up to key. 'Same bytes under two media types' is therefore covered only when both descriptors are leaves (or the destination is descriptor-keyed: memory, registry). For a source graph in which a manifest's bytes are also reachable as a blob, Copy into a digest-keyed destination -- even an EMPTY one -- can return success with the manifest's sub-DAG missing: C01_closure_refuted_in_call (empty destination) and C01_closure_refuted_without_mt_consistency (pre-populated); the harness generates both (streams twinreach, twin) and the oracle matches the failures by mechanism (f12Explains), everything else stays closure-missing",
        "file-store destination: descriptor-keyed except for blobs pushed with a title (org.opencontainers.image.title on the layer descriptor inside the manifest), for which Exists answers by digest, asymmetrically; the model's key is symmetric, so file-destination cases with a titled twin are judged by the oracle only (UNJUDGED for the correspondence, counted in input_distribution)",
        "callbacks return nil or the injected error; a user PreCopy returning oras.SkipNode (documented API: 'the blob must exist in the target') is a caller promise the property does not cover: not generated, not modelled",
        "MapRoot is an opaque function in the model (prologue); WithTargetPlatform on a manifest list is modelled (CopyTop.select_manifest / plat_match = platform.SelectManifest / Match with strings abstracted to numbers, C01_platform_selection) and compared with the implementation on every platform case; platform selection on a single image manifest (platform read from the config blob) is not generated",
        "registry.Mounter destinations are modelled (MountFrom -> Mount per candidate -> mounted | skipped | fallback upload) and exercised through an in-harness Mounter wrapper (what remote.Repository implements), except a ReferencePusher root falling back inside Mount; status.Tracker single ownership, semaphore.Weighted and errgroup are modelled by their visible effect (per-node phase, active-task bound), not verified",
        "goroutine scheduling: theorems quantify over all interleavings of visible events accepted by the transition system; internal races are exercised (free-running goroutines with PRNG latencies/yields; controlled release orders under testing/synctest), not enumerated",
    ],
    "level_text": "Coq theorems over every trace accepted by the copyGraph transition system (all mt_consistent graphs -- see assumptions: for digest-keyed destinations this excludes a manifest whose bytes also occur as a blob, known finding twin-digest-exists --, all link-closed initial destinations, all K >= 1, all interleavings): successful return => every reachable node present and final destination = copy_result; Copy => destination reference resolves to the returned root (Tagger, ReferencePusher and Mounter destinations; root copied, already present or mounted -- the latter since the fix f0a2d59, the pre-fix model is refuted by a witness); F12 witness proved. Tied to copy.go by trace acceptance + final-state equality on generated runs and an independent oracle (existence, byte identity, tag).",
    "level_note": "pairings exercised: memory / OCI layout / reopened OCI layout / file store / remote.Repository (over an in-process fake registry behind remote.Client, with real FetchReference, PushReference and cross-repository Mount) as source and as destination; in addition in-harness ReferenceFetcher/ReferencePusher/Mounter wrappers around the local stores; schedules: free-running goroutines with PRNG latencies/yields, plus controlled schedules under testing/synctest (every instrumented operation parks, a PRNG releases one parked operation at each quiescent point; several release orders per graph); MapRoot opaque in the model, platform selection on manifest lists modelled; byte identity by oracle only",
    "technique": "machine-checked proof in Coq (invariants over all accepted traces of a per-node-phase transition system) + constants regenerated from copy.go + trace-acceptance correspondence + independent oracle",
    "explanation": "every recorded event trace of Copy/CopyGraph must be a run of Model/CopySpec.v and the final destination must equal copy_result; the oracle checks existence + bytes of every reachable node and the tag with the generator's ground truth",
}
