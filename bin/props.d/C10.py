"""C10 configuration (loaded by bin/props.py; `unhex` is provided)."""
import json as _json


def _c10_case(c):
    p = c.split(" ")
    # K <j> <enc> <k> <hexjson> | S <enc> <hexjson> | R <enc> <hexjson>
    if p[0] == "K":
        return {"script": _json.loads(unhex(p[4])), "k": int(p[3])}
    if p[0] in ("S", "R"):
        return {"script": _json.loads(unhex(p[2]))}
    return {"raw": c}


CONFIG = {
    "properties_file": "Properties/C10.v",
    "proof_files": ["Base/Prelude.v", "Proofs/OciCrash.v"],
    "model_files": ["Model/OciCrash.v"],
    "extract": "XC10.v",
    "ml_main": "c10_main.ml",
    "harness": "c10",
    "case_to_replay": _c10_case,
    "timeout_quick": 600,
    "timeout_thorough": 3000,
    "assumptions": [],
    "level_text": "",
    "level_note": "",
    "technique": "",
    "explanation": "",
}
