"""C10 configuration (loaded by bin/props.py; `unhex` is provided)."""
import json as _json


def _c10_case(c):
    p = c.split(" ")
    # K <j> <enc> <k> <hexjson> | S <enc> <hexjson> | R <enc> <hexjson>
    if p[0] == "K":
        return {"script": _json.loads(unhex(p[4])), "k": int(p[3])}
    if p[0] in ("S", "R"):
        return {"script": _json.loads(unhex(p[2]))}
    return {"raw": c}


CONFIG = {
    "properties_file": "Properties/C10.v",
    "proof_files": ["Base/Prelude.v", "Proofs/OciCrash.v"],
    "model_files": ["Generated/GC10.v", "Model/OciCrash.v", "Model/OciCrashSpec.v"],
    "extract": "XC10.v",
    "ml_main": "c10_main.ml",
    "harness": "c10",
    "case_to_replay": _c10_case,
    "timeout_quick": 600,
    "timeout_thorough": 3000,
    "assumptions": [
        "kernel file-system semantics are modelled, not verified: rename(2) is atomic, a completed system call's effect survives the death of the process (page cache), a process killed at the entry of a system call has not executed it; power loss / fsync is outside the property",
        "store configuration: AutoSaveIndex = true (default) and AutoGC = false (plain Delete); GC and Delete-with-AutoGC are not scripted or modelled here (defects F1-F4 belong to C08/C09)",
        "digest-and-size verification (content.NewVerifyReader, SHA-256) is the Section variable H: a content c matches the name d iff H c = d; no property of H is assumed",
        "encoding/json of index.json / oci-layout is abstracted: a file holds the marshalled entry list as one write unit and parses back to it; Go's map iteration order in saveIndex is the Section variable shuffle with hypothesis In e (shuffle c l) <-> In e l",
        "one descriptor per digest (the generator's universe); references are never digest strings; manifests are well-formed JSON (graph.Index succeeds)",
        "write(2) is modelled as all-or-nothing at system-call granularity (the process is killed at system-call entries); C10_no_in_place_write shows that only temporaries are ever written, so torn writes cannot reach a file a reader looks at",
        "oci.New on an existing layout is modelled as: no change on disk, tag resolver := loadIndex(index.json) (Model reopen/load); graph.IndexAll during loading is not modelled (it only reads)",
        "crash points = entries of the file-system system calls (strace trace set in harness/crashkit10/trace.go) of the thread running the operation; other system calls (futex, mmap, signals) do not change the directory",
        "oci.New itself (creation of oci-layout / the first index.json) is outside the property (it speaks of an initialised store); oci-layout is still written in place by ensureOCILayoutFile",
    ],
    "trusted_extra": [
        "strace 6.1 fault injection (-e inject=<syscall>:signal=KILL:when=<n>) and its trace output; the child runs with GOMAXPROCS=1 and the main goroutine locked to the first thread; the actual kill point is re-read from the trace of the killed run",
    ],
    "level_text": "Coq theorem over every history of completed Push/Tag/Untag/Delete/SaveIndex operations, every interrupted operation and every cut of its file-system micro-step list (invariant proof, any verification function, any map iteration order): layout valid, every blob file complete and matching its name, index.json parses and names only existing blobs, index.json / tag mapping is the one before or the one after, no completed effect lost; the same after any number of earlier crashes each followed by oci.New on what was left (tag resolver reloaded from index.json, leftover temporaries in place); completed histories refine the sequential specification of the API; no file a reader looks at is ever written in place (write granularity irrelevant); the pre-repair in-place index write and the swapped Delete order are refuted by witnesses. The two orders the proof depends on (temp+rename index write, index before unlink) are re-read from the Go source on every run (translator kind callseq) and configure the model. The model is tied to the code by killing a real child process at every system call of the interrupted operation (strace inject) and comparing the directory with the model after the same number of micro-steps, by comparing the recorded system-call script with the model's micro-step list, and by an independent oracle (oci.New + raw readers + generator ground truth)",
    "level_note": "full for AutoSaveIndex=true, AutoGC=false and the operations Push/Tag/Untag/Delete/SaveIndex; GC and Delete-with-AutoGC not covered (owned by C08/C09); kernel semantics (atomic rename, no loss at process death) modelled, not verified; JSON encoding and SHA-256 abstracted",
    "technique": "machine-checked proof in Coq (invariant over file-system micro-steps, every cut of every operation after every history) + model/implementation correspondence by real SIGKILL at every system-call boundary (strace) + independent oracle",
    "explanation": "theorems over all histories/operations/cuts about the micro-step model of content/oci (Store.Push/Tag/Untag/Delete/SaveIndex, Storage.Push/ingest/Delete, writeIndexFile); each run records the system calls of scripted operations on a real oci.Store in a child process, kills the child before every system call of the final operation, and compares directory, script and results with the extracted model; the oracle reopens the killed directory with oci.New and checks blobs, index entries, tag mapping (before/after) and completed effects against the generator's ground truth",
}
