"""C10 configuration (loaded by bin/props.py; `unhex` is provided)."""
import json as _json


def _c10_case(c):
    p = c.split(" ")
    # K <j> <enc> <k> <hexjson> | S <enc> <hexjson> | R <enc> <hexjson>
    if p[0] == "K":
        return {"script": _json.loads(unhex(p[4])), "k": int(p[3])}
    if p[0] == "C":
        return {"script": _json.loads(unhex(p[1])), "conc_delay_us": 2000}
    if p[0] in ("S", "R"):
        return {"script": _json.loads(unhex(p[2]))}
    return {"raw": c}


# ---- thorough tier: re-evaluation of a sample of kill cases inside Coq (vm_compute), independent of
# the extraction and of the OCaml driver (whose history/crash expansion is restated in Gallina here)
_VM_PRELUDE = """From Oras Require Import Base.Prelude Generated.GC10 Model.OciCrash.
Definition vm_good (d : N) (n : nat) : list N := map (fun i => d * 4096 + N.of_nat i) (seq 0 n).
Definition vm_bad (d : N) (n : nat) : list N :=
  match n with O => [] | S m => vm_good d m ++ [d * 4096 + 4095] end.
Definition vm_H (tbl : list (N * nat)) (c : list N) : N :=
  match find (fun e => list_eqb N.eqb c (vm_good (fst e) (snd e))) tbl with Some e => fst e | None => 0 end.
Definition vm_id (_ : nat) (l : list entry) : list entry := l.
Definition vm_in (l : list N) (d : N) : bool := existsb (N.eqb d) l.
Definition vm_view (H : list N -> N) (mts bads : list N) (hist : list acall) (fin : api) (j : nat)
                   (ids : list N) (expect : list entry) :=
  let mt := vm_in mts in
  let dec := fun d => negb (vm_in bads d) in
  let s := runa H vm_id src_inplace src_unlink_first true mt dec hist init in
  let fsk := crash_seq H vm_id src_inplace src_unlink_first true s (expand H mt dec s fin) j in
  (layout_okb fsk,
   map (fun d => match files fsk (FBlob d) with
                 | Some f => Some (length (fcontent f), fro f) | None => None end) ids,
   match read_index fsk with
   | Some l => Some (length l, forallb (fun e => existsb (entry_eqb e) l) expect)
   | None => None
   end,
   load_okb mt dec fsk).
"""


def _c10_vm_call(toks, blobs):
    n = {b[0]: b[1] for b in blobs}
    k = toks[0]
    if k == "push":
        d = int(toks[1]); return "APush %d (vm_good %d %d)" % (d, d, n[d])
    if k == "pushbad":
        d = int(toks[1]); return "APush %d (vm_bad %d %d)" % (d, d, n[d])
    if k == "tag":
        return "ATag %s %s" % (toks[1], toks[2])
    if k == "untag":
        return "AUntag %s" % toks[1]
    if k == "tagdigest":
        return "ATagDigest %s" % toks[1]
    if k == "untagdigest":
        return "AUntagDigest %s" % toks[1]
    if k == "delete":
        return "ADelete %s []" % toks[1]
    if k == "saveindex":
        return "ASaveIndex"
    if k == "dgc":
        return "ADelete %s [%s]" % (toks[1], "; ".join(toks[2:]))
    if k == "gc":
        swept = [int(x) for x in toks[1:]]
        live = [b[0] for b in blobs if b[0] not in swept]
        return "AGC [%s] [%s]" % ("; ".join(str(x) for x in live), "; ".join(str(x) for x in swept))
    if k == "reopen":
        return "AReopen"
    raise ValueError(k)


def _c10_vm_goal(case, out):
    p = case.split(" ")
    if p[0] != "K" or p[2].endswith("final=init") or "MODEL-NOT" in out or "autosave=0" in p[2]:
        return None
    j = int(p[1])
    f = dict(x.split("=", 1) for x in p[2].split(";") if "=" in x)
    blobs = [tuple(int(y) for y in x.split(":")) for x in f["blobs"].split(",") if x]
    hist = []
    for it in [x for x in f["hist"].split(",") if x]:
        t = it.split(":")
        if t[0] == "crash":
            hist.append("ACrashed (%s) %s%%nat" % (_c10_vm_call(t[2:], blobs), t[1]))
        else:
            hist.append("ADone (%s)" % _c10_vm_call(t, blobs))
    fin = _c10_vm_call(f["final"].split(":"), blobs)
    toks = out.split(" ")[1:]
    layout = "true" if "F:L=ok" in toks else "false"
    view = {}
    idx = None
    for t in toks:
        if t.startswith("F:B"):
            name, val = t[3:].split("=", 1)
            v = val.split(":")
            if v[0] == "?":
                return None
            view[int(name)] = "Some (%s%%nat, %s)" % (v[1], "true" if v[3] == "ro" else "false")
        elif t.startswith("F:I="):
            val = t[4:]
            if val.startswith("["):
                es = [e for e in val[1:-1].split(",") if e]
                idx = "Some (%d%%nat, true)" % len(es)
                exp = "; ".join("(%s, %s)" % (e.split("@")[0], "None" if e.split("@")[1] == "-" else "Some %s" % e.split("@")[1]) for e in es)
    if idx is None:
        idx, exp = "None", ""
    ids = [b[0] for b in blobs]
    tbl = "; ".join("(%d, %d%%nat)" % (b[0], b[1]) for b in blobs)
    mts = "; ".join(str(b[0]) for b in blobs if b[2] >= 1)
    bads = "; ".join(str(b[0]) for b in blobs if b[2] == 2)
    return ("vm_view (vm_H [%s]) [%s] [%s] [%s] (%s) %d%%nat [%s] [%s]\n  = (%s, [%s], %s, true)"
            % (tbl, mts, bads, "; ".join(hist), fin, j, "; ".join(str(i) for i in ids), exp, layout,
               "; ".join(view.get(i, "None") for i in ids), idx))


def _c10_vm_sample(d, tier, coq, build, want=150):
    import os, subprocess
    if tier != "thorough":
        return []
    outs = {}
    with open(os.path.join(d, "model.txt")) as f:
        for l in f:
            i, _, o = l.rstrip("\n").partition(" ")
            outs[i] = o
    cand = []
    with open(os.path.join(d, "cases.txt")) as f:
        for l in f:
            i, _, c = l.rstrip("\n").partition(" ")
            if c.startswith("K ") and i in outs:
                cand.append((i, c))
    goals = []
    stride = max(1, len(cand) // want)
    for i, c in cand[::stride]:
        g = _c10_vm_goal(c, outs[i])
        if g:
            goals.append((i, g))
    vdir = os.path.join(build, "vm")
    os.makedirs(vdir, exist_ok=True)
    vf = os.path.join(vdir, "C10_cases.v")
    with open(vf, "w") as f:
        f.write(_VM_PRELUDE)
        for i, g in goals:
            f.write("\n(* %s *)\nGoal %s.\nProof. vm_compute. reflexivity. Qed.\n" % (i, g))
    p = subprocess.run(["coqc", "-R", coq, "Oras", "-w", "-notation-overridden", vf], cwd=vdir, timeout=1500,
                       stdout=subprocess.PIPE, stderr=subprocess.STDOUT, text=True)
    with open(os.path.join(d, "vm_sample.txt"), "w") as f:
        f.write("%d goals rc=%d\n%s" % (len(goals), p.returncode, p.stdout[-3000:]))
    if p.returncode != 0:
        return ["vm_compute re-evaluation of %d sampled kill cases inside Coq disagrees with the extracted runner (or does not type-check): %s"
                % (len(goals), p.stdout[-1200:])]
    if len(goals) < want // 3:
        return ["vm_compute sample too small: %d goals" % len(goals)]
    return []


CONFIG = {
    "properties_file": "Properties/C10.v",
    "proof_files": ["Base/Prelude.v", "Proofs/OciCrash.v", "Proofs/OciGC.v", "Proofs/OciCrashGC.v", "Proofs/OciCrashConc.v", "Proofs/OciCrashOff.v", "Proofs/OciCrashSync.v", "Proofs/OciCrashGo.v"],
    "model_files": ["Generated/GC10.v", "Model/OciCrash.v", "Model/OciCrashSpec.v", "Model/OciCrashConc.v"],
    "also_translate": ["C09"],
    "extract": "XC10.v",
    "ml_main": "c10_main.ml",
    "harness": "c10",
    "case_to_replay": _c10_case,
    "post_model": _c10_vm_sample,
    "timeout_quick": 600,
    "timeout_thorough": 3000,
    "assumptions": [
        "kernel file-system semantics are modelled, not verified: rename(2) is atomic, a completed system call's effect survives the death of the process (page cache), a process killed at the entry of a system call has not executed it; power loss / fsync is outside the property",
        "store configuration: AutoSaveIndex is a parameter of the model (autosave): every positive theorem is stated for the default true; for false the property is refuted (C10_crash_safe_refuted_autosave_off) and recorded as known finding autosave-off-index-dangling; scripts with AutoSaveIndex off are generated and compared with the model, the oracle judges them against the tag map of the last SaveIndex. AutoGC on or off (also on the plain universe). Delete with AutoGC and GC are modelled as one call that performs a LIST of primitive operations in a row (plain deletes; Forget = drop digest references outside the live set + saveIndex): which nodes a cascade or a sweep visits, and in which order, is C09's subject -- C10_crash_safe_composite holds for every list, the harness reads the list off the recorded run (unlink order); C10_gc_crash_safe states GC with bare removals under the explicit hypothesis 'no swept blob is live or carries a reference name'. Go's map order makes some cascades nondeterministic: a kill run whose order differs from the recorded one is judged by the oracle only (counted cascade-order-differs-unjudged, floor 10 %)",
        "ground truth of scripts with GC / AutoGC: the blob set, tag map and index entry set before and after the interrupted call are observed on disk (killed before its first system call / completed run); on the universe with referrers an independent reference (mark phase of GC, survival of everything a tagged manifest reaches, tags of other blobs untouched) judges the completed call (gc-removed-live, gc-kept-garbage, gc-changed-tags, cascade-removed-tag, cascade-removed-live); plain scripts use the generator's simulator (blobs, tags, index entries incl. digest-only ones)",
        "concurrency model (Model/OciCrashConc.v): temporaries are thread-private (unique random names; C10_no_in_place_write), Storage.Push of a target that appeared meanwhile is the same rename (identical verified bytes), the resolver maps are updated atomically (their mutexes), saveIndex = snapshot + write + rename under indexLock; Delete and GC take the write lock and are sequential. C10_conc_tags_origin proves (and the stream's oracle checks) that every reference on disk was there before or is set by a concurrent Tag. The two models are cross-checked on every generated final call (a call scheduled alone to completion in the concurrent model must leave the same directory and resolver as the sequential operation: CONC-MODEL-DIFFERS otherwise), and C10_conc_alone_refines proves that agreement for every call and state",
        "coverage floors (harness exits non-zero = layer R failure): concurrent kills, concurrent batches run to completion, kills, earlier crashes, GC/init/reopen/cascade finals, cuts inside multi-write pushes, AutoSaveIndex-off scripts; more than 5 % of the injected kills missing their window or more than 10 % unjudged kill cases fail the run",
        "digest-and-size verification (content.NewVerifyReader, SHA-256) is the Section variable H: a content c matches the name d iff H c = d; no property of H is assumed",
        "encoding/json of index.json / oci-layout is abstracted: a file holds the marshalled entry list as one write unit and parses back to it; Go's map iteration order in saveIndex is the Section variable shuffle with hypothesis In e (shuffle c l) <-> In e l",
        "descriptors: Tag/Delete are also generated with a digest+size-only descriptor (MediaType \"\") of the same blob; the model identifies a blob by its digest (so does Store.delete since its repair). A descriptor whose media type LIES about the content (a layer tagged as a manifest) is a caller inconsistency outside the quantifier; Tag refuses it. References that are digest strings are modelled (TagDig / ATagDigest / AUntagDigest) and generated",
        "media type and decodability of content are Section variables mt, dec of the API layer (Model expand/api_res/runa, extracted and run by the driver): a manifest-typed blob that does not decode is stored, unindexable and removed again by Push, refused by Tag; C10_api_reopen_loads proves that loadIndex (parse, blob files exist, every manifest-typed entry decodes: load_okb) succeeds at every cut; graph.IndexAll's recursion into successors during loading is not modelled (it only reads; undecodable successors are skipped by the code)",
        "Store.delete also enters a dangling MANIFEST successor by digest when the resolver does not hold it; the model has no successor relation (C09's subject; the bridge Proofs/OciCrashGC.v is at the level of node sets and names, not of index contents). In the generated universes this needs the leftover of a Push killed between blob rename and index rename that is later reached through a referrer after a reopen: such scripts are abandoned and counted, not judged -- except the dedicated script kinds dgc-unindexed-subject / dgc-unindexed-subject-tagged (process 1 killed after the blob rename of manifest 4, process 2 pushes its referrer and returns, process 3 loads the layout and deletes the referrer, killed at every system call): those are run WITHOUT model case lines and every clause of the property is judged by the oracle at every kill point (modelled: not; oracle only)",
        "write(2) is modelled as all-or-nothing at system-call granularity (the process is killed at system-call entries); C10_no_in_place_write shows that only temporaries are ever written, so torn writes cannot reach a file a reader looks at",
        "oci.New on an existing layout is modelled as: no change on disk, tag resolver := loadIndex(index.json) (Model reopen/load); graph.IndexAll during loading is not modelled (it only reads)",
        "crash points = entries of the file-system system calls (strace trace set in harness/crashkit10/trace.go) of the thread running the operation; other system calls (futex, mmap, signals) do not change the directory",
        "initialisation: the property speaks of an initialised store; taken into scope as 'initialisation is restartable' for any number of interrupted attempts (C10_init_restartable_many; kill at every system call of the first attempt and of attempts on what one to three interrupted attempts left). oci.New on an existing layout is kill-tested at every system call (operation 'reopen'): it only reads",
        "blob names are pairs (algorithm, digest) encoded as 1000*algorithm + n (0 = sha256, 1 = sha512); sha384 is not generated",
    ],
    "trusted_extra": [
        "strace 6.1 fault injection (-e inject=<syscall>:signal=KILL:when=<n>) and its trace output; the child runs with GOMAXPROCS=1 and the main goroutine locked to the first thread; the actual kill point is re-read from the trace of the killed run",
    ],
    "level_text": "Coq theorem over every history of completed Push/Tag/Untag/Delete/SaveIndex operations, every interrupted operation and every cut of its file-system micro-step list (invariant proof, any verification function, any map iteration order): layout valid, every blob file complete and matching its name, index.json parses and names only existing blobs, index.json / tag mapping is the one before or the one after, no completed effect lost; the same after any number of earlier crashes each followed by oci.New on what was left (tag resolver reloaded from index.json, leftover temporaries in place); completed histories refine the sequential specification of the API; no file a reader looks at is ever written in place (write granularity irrelevant); the pre-repair in-place index write and the swapped Delete order are refuted by witnesses. Delete with AutoGC and GC: every cut of a call made of any list of primitives is a crash state of one primitive between two quiescent states of the call (C10_crash_safe_composite), after any earlier crashes; a crash during the first oci.New is repaired by the next one (C10_init_restartable). The orders the proofs depend on (temp+rename writes of index.json and oci-layout, index before unlink, GC: save before sweep) are re-read from the Go source on every run (translator kind callseq) and configure the model; the thorough tier re-evaluates a sample of kill cases inside Coq with vm_compute. The model is tied to the code by killing a real child process at every system call of the interrupted operation (strace inject) and comparing the directory with the model after the same number of micro-steps, by comparing the recorded system-call script with the model's micro-step list, and by an independent oracle (oci.New + raw readers + generator ground truth)",
    "level_note": "theorems: full for AutoSaveIndex=true over histories of API calls (expand: media type / decodability decide the primitives) and of primitives, with any number of earlier crashes: Recoverable at every cut, loadIndex succeeds incl. manifest decoding (C10_api_reopen_loads), completed effects survive and nothing is invented across crashes, initialisation restartable after any number of interrupted attempts; Delete-with-AutoGC and GC at the level 'any list of primitives' plus C10_gc_crash_safe / C10_cascade_* whose hypotheses are derived from C09's exact sets (C10_cascade_of_gc_model, C10_gc_of_gc_model; names_agree is the only link between the two models) and checked by the harness on every recorded call. Oracle-only: graph.IndexAll's recursion on load; the index contents of Store.delete's re-entry of a dangling manifest by digest (scripts reaching it are abandoned); descriptor fields of index entries (media type, annotations). AutoSaveIndex=false: the full statement is refuted (known finding) and C10_autosave_off_partial proves what remains (valid layout, complete blobs, a parsing index.json equal to the one before or after, blobs between) for all histories and cuts, checked by the oracle on the NoAutoSave scripts; kernel semantics (atomic rename, no loss at process death) modelled, not verified; JSON encoding and SHA-2 abstracted; concurrent callers (Push/Tag/Untag/SaveIndex under the read lock) have their own model (Model/OciCrashConc.v: thread-private temporaries, atomic resolver updates, saveIndex as the indexLock critical section) with C10_conc_crash_safe over all schedules, C10_conc_quiescent_synced (when all calls of every batch have returned index.json is exactly the index of the resolver: what indexLock is for; refuted without the lock) and C10_conc_phases_crash_safe (sequential phases with crashes, completed batches and batches killed at any prefix of any schedule alternate freely; the sequential invariant and 'index.json = index of the resolver' hold after each, incl. after every reopen: the oracle compares the reopened store's resolver with index.json, reopen-resolver-differs), C10_conc_completed_push (a Push that returned has stored its blob and, for a new manifest, its index entry, whatever ran concurrently), C10_conc_completed_tag / C10_conc_completed_untag (a Tag / Untag that returned, no other call of the batch naming its reference, has / has not its reference in index.json; refuted for a shared reference; all three checked directly by the oracle on completed batches: conc-completed-lost), C10_goroutines_crash_safe (the same for goroutines that each make a queue of calls, the program of a call decided when it starts: gstep/gsched), tied to the code by C10_source_locks (layer T/P) and by an oracle-only stress stream (goroutines killed at arbitrary moments, or run to completion under a 30 s watchdog and then resolver (Tags/Resolve) == index.json; the schedule is not observable, so killed batches are not compared with the model) and by a model-compared stream (layer R, case kind Q): batches of single calls whose behaviour is decided by the state before the batch run to completion, and the directory they leave (index.json entries, blobs) must be the final directory of SOME schedule of the extracted concurrent model -- the model runner explores all interleavings (QREACH no otherwise; floor conc-model-compared); half of them are killed at an arbitrary moment instead and the directory left must be that of some configuration some schedule passes through (floor conc-model-compared-killed); half of the batches have goroutines that make several unrestricted calls and are compared with gstart/gsched in the same two ways (floor conc-model-compared-queues); callseq/callguards tie source ORDER and enclosing CONDITIONS of the effects and the lock discipline (C10_source_locks: read lock held for the whole of Push/Tag/Untag/SaveIndex, write lock for Delete/GC, indexLock around snapshot+write in saveIndex; callseq with mark_defer) and initialisation/loading (C10_source_init: NewWithContext = storage, blobs/, oci-layout, index.json in this order; each file written only when opening it failed; loadIndex enters every entry by digest, by name iff named, and indexes it), nothing else of the control flow",
    "technique": "machine-checked proof in Coq (invariant over file-system micro-steps, every cut of every operation after every history) + model/implementation correspondence by real SIGKILL at every system-call boundary (strace) + independent oracle",
    "explanation": "theorems over all histories/operations/cuts about the micro-step model of content/oci (Store.Push/Tag/Untag/Delete/SaveIndex, Storage.Push/ingest/Delete, writeIndexFile); each run records the system calls of scripted operations on a real oci.Store in a child process, kills the child before every system call of the final operation, and compares directory, script and results with the extracted model; the oracle reopens the killed directory with oci.New and checks blobs, index entries, tag mapping (before/after) and completed effects against the generator's ground truth",
}
