"""C04 configuration (loaded by bin/props.py).  Shares model, driver and harness package with C01."""


def _c04_case(c):
    for f in c.split(" "):
        if f.startswith("rp="):
            p = f[3:].split(":")
            return {"stream": p[0], "genseed": p[1], "thorough": p[2]}
    return {"raw": c[:2000]}


import copyvm as _copyvm

CONFIG = {
    "post_model": _copyvm.vm_sample("GC04", runfn="run_opt_h", imports=" Model.CopyHold"),
    "properties_file": "Properties/C04.v",
    "proof_files": ["Base/Prelude.v", "Proofs/CopySpec.v", "Proofs/CopyAcct.v", "Proofs/CopyOpt.v", "Proofs/CopyAbort.v", "Proofs/CopyHold.v", "Proofs/CopyCode.v",
                    # the permit protocol (C02's protocol part): C04_permits_conserved / C04_inflight_bounded are restated in Properties/C04.v
                    "Model/CopyImpl.v", "Proofs/CopyImplBase.v", "Proofs/CopyImplInv.v", "Properties/C02_protocol.v", "Proofs/CopyPermitsFinal.v"],
    "model_files": ["Generated/GC04.v", "Model/CopySpec.v", "Model/CopyTop.v", "Model/CopyOpt.v", "Model/CopyHold.v"],
    "extract": "XC04.v",
    "ml_main": "c01_main.ml",
    "harness_test": True,
    "harness": "c04",
    "case_to_replay": _c04_case,
    "timeout_quick": 600,
    "timeout_thorough": 3000,
    "assumptions": [
        "optional callbacks: which of PreCopy/PostCopy/OnCopySkipped/OnMounted/MountFrom (and FindSuccessors, MapRoot) are nil is chosen per run, including all nil = default options; a recorded trace then has no events for nil callbacks and is elaborated by Model/CopyOpt.step_opt (the invocation points of nil callbacks are inserted, an event of a nil callback is rejected); the *_any_callbacks theorems hold for every such choice",
        "ExtendedCopyGraph / ExtendedCopy: the roots above the node (generator's predecessor relation; findRoots itself is C03's) are the model's c_root :: c_xroots, dispatched together and sharing tracker, proxy and limiter; the final Tag of ExtendedCopy is checked by the oracle only",
        "semaphore.Weighted / errgroup / syncutil.Go / LimitedRegion: in Model/CopySpec.v a task is 'active' between the first and last visible event of a segment in which it certainly holds a permit, and at most K tasks are active (a guard of the acceptor, checked against every recorded trace); the permit protocol itself is proved on Model/CopyImpl.v (C02's protocol part, tied to the real syncutil/Tracker by cmd/goimpl): C04_permits_conserved, C04_inflight_bounded_by_permits are restated in Properties/C04.v and their proofs are part of C04's proof layer; C04_inflight_on_trace links the model counters to the trace (opens minus closes)",
        "status.Tracker.TryCommit single ownership is modelled as one phase per node, tied to the code by trace acceptance (a second Exists/Fetch/Push of a node is rejected) and by the oracle's per-node counters",
        "a source read is in flight from the call of Fetch until Close of the returned reader (for manifests Close also joins the cache push); a destination operation from call to return of Exists/Push/PushReference/Tag",
        "registry.Mounter destinations are modelled and exercised through an in-harness Mounter wrapper (PRNG decides whether a candidate repository has the blob); the upload inside Mount is one destination operation",
        "content.Successors = generator's edge list (parameter g_succ), as in C01",
        "goroutine scheduling: theorems quantify over all interleavings of visible events accepted by the transition system; the runs use free-running goroutines with PRNG latencies/yields and PRNG-controlled schedules under testing/synctest",
    ],
    "level_text": "Coq theorems over every trace accepted by the copyGraph transition system (all graphs, initial destinations, K, modes, interleavings): at every prefix at most K source reads and K destination operations in flight (K = 3 regenerated from copy.go when Concurrency <= 0); per node at most one source fetch and one push; PreCopy/PostCopy/OnCopySkipped at most once per node; a transferred node of a successful copy has exactly one PreCopy before and exactly one PostCopy after its push and no OnCopySkipped; PostCopy after the terminal notification of every successor; a failing callback excludes a successful return. Tied to copy.go by trace acceptance of recorded runs (contention-heavy budget) and an independent monitor (gauges, counters, order, error identity).",
    "level_note": "the limiter hand-off protocol (region.End/Start, permit conservation) is proved on the protocol model of C02 (restated as C04_permits_conserved / C04_inflight_bounded_by_permits) and observed through the in-flight gauges for every K in 1..8 and <= 0 (coverage floor: peak = K reached); 'no blob fetched more than once' holds for copyGraph only -- Copy's prologue can read the root / its config a second time (known finding prologue-read-twice, C04_single_fetch_refuted_by_prologue); 'aborts with that error': the theorem gives 'no successful return', identity of the error and loss in ExtendedCopy are oracle checks, promptness of the abort is C02's; 'the returned error is the callback's error' is checked by the oracle on every run (the theorem gives 'no successful return after a failing callback'); same store pairings as C01",
    "technique": "machine-checked proof in Coq (invariants and one-shot arguments over all accepted traces) + constant regenerated from copy.go + trace-acceptance correspondence + independent monitor oracle",
    "explanation": "recorded traces of Copy/CopyGraph under contention (K=1,2, wide graphs) must be runs of Model/CopySpec.v whose guards include the active-task bound; wrappers keep in-flight gauges and per-node counters; callback-failure injection checks the error surfaces",
}
