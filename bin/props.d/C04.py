"""C04 configuration (loaded by bin/props.py).  Shares model, driver and harness package with C01."""


def _c04_case(c):
    for f in c.split(" "):
        if f.startswith("rp="):
            p = f[3:].split(":")
            return {"stream": p[0], "genseed": p[1], "thorough": p[2]}
    return {"raw": c[:2000]}


import copyvm as _copyvm

CONFIG = {
    "post_model": _copyvm.vm_sample("GC04", runfn="run_opt_p", imports=" Model.CopyHold Model.CopyPermit"),
    "properties_file": "Properties/C04.v",
    "proof_files": ["Base/Prelude.v", "Proofs/CopySpec.v", "Proofs/CopyAcct.v", "Proofs/CopyOpt.v", "Proofs/CopyAbort.v", "Proofs/CopyHold.v", "Proofs/CopyPermit.v", "Proofs/CopySrcOrder.v",
                    # the permit protocol (C02's protocol part): C04_permits_conserved / C04_inflight_bounded are restated in Properties/C04.v
                    "Model/CopyImpl.v", "Proofs/CopyImplBase.v", "Proofs/CopyImplInv.v", "Properties/C02_protocol.v", "Proofs/CopyPermitsFinal.v"],
    "model_files": ["Generated/GC04.v", "Model/CopySpec.v", "Model/CopyTop.v", "Model/CopyOpt.v", "Model/CopyCancel.v", "Model/CopyHold.v", "Model/CopyPermit.v"],
    "extract": "XC04.v",
    "ml_main": "c01_main.ml",
    "harness_test": True,
    "harness": "c04",
    "case_to_replay": _c04_case,
    "timeout_quick": 600,
    "timeout_thorough": 3000,
    "assumptions": [
        "optional callbacks: which of PreCopy/PostCopy/OnCopySkipped/OnMounted/MountFrom (and FindSuccessors, MapRoot) are nil is chosen per run, including all nil = default options; a recorded trace then has no events for nil callbacks and is elaborated by Model/CopyOpt.step_opt (the invocation points of nil callbacks are inserted, an event of a nil callback is rejected); the *_any_callbacks theorems hold for every such choice",
        "ExtendedCopyGraph / ExtendedCopy: the roots above the node (generator's predecessor relation; findRoots itself is C03's) are the model's c_root :: c_xroots, dispatched together and sharing tracker, proxy and limiter; the final Tag of ExtendedCopy is checked by the oracle only",
        "semaphore.Weighted / errgroup / syncutil.Go / LimitedRegion: in Model/CopySpec.v a task is 'active' between the first and last visible event of a segment in which it certainly holds a permit, and at most K tasks are active (a guard of the acceptor, checked against every recorded trace); the permit protocol itself is proved on Model/CopyImpl.v (C02's protocol part, tied to the real syncutil/Tracker by cmd/goimpl): C04_permits_conserved, C04_inflight_bounded_by_permits are restated in Properties/C04.v and their proofs are part of C04's proof layer; C04_inflight_on_trace links the model counters to the trace (opens minus closes)",
        "permit-holding intervals (Model/CopyHold.v, the acceptor C04's runner uses): a task certainly holds a permit while its node's phase is active, and a LEAF (no successor after removeForeignLayers) also while it waits for PreCopy, because copyGraph.fn calls region.End() only for nodes with successors; a permit is acquired at dst.Exists (at the latest) and at PreCopy / MountFrom of a non-leaf (region.Start()); guard holders < K at every acquisition. Sound for every schedule because a task keeps its permit between two of its own recorded events; the release itself (deferred lr.End()) is not a visible event, so the overlay under-counts after a task's last event",
        "the real semaphore is read only in CopyGraph runs made through the verif hook VerifCopyGraphWithLimiter (copyGraph with a limiter the harness created, of the size the oracle expects): free permits are counted inside the recorder's critical section at every event (TryAcquire until it fails, then Release) and after the return; Copy / ExtendedCopy(Graph) create their limiter internally and are covered by the in-flight gauges only",
        "status.Tracker.TryCommit single ownership is modelled as one phase per node, tied to the code by trace acceptance (a second Exists/Fetch/Push of a node is rejected) and by the oracle's per-node counters",
        "a source read is in flight from the call of Fetch until Close of the returned reader (for manifests Close also joins the cache push); a destination operation from call to return of Exists/Push/PushReference/Tag",
        "registry.Mounter destinations are modelled and exercised through an in-harness Mounter wrapper (PRNG decides whether a candidate repository has the blob); the upload inside Mount is one destination operation",
        "content.Successors = generator's edge list (parameter g_succ), as in C01",
        "goroutine scheduling: theorems quantify over all interleavings of visible events accepted by the transition system; the runs use free-running goroutines with PRNG latencies/yields and PRNG-controlled schedules under testing/synctest",
    ],
    "level_text": "Coq theorems over every trace accepted by the copyGraph transition system (all graphs, initial destinations, K, modes, interleavings, every choice of nil callbacks): at every prefix at most K source reads and K destination operations in flight, and (on the permit-holding overlay the runner replays on) at most K permits held with the operations in flight covered by them (K = the limiter size translated from the syntax of copyGraph AND ExtendedCopyGraph: 3 when Concurrency <= 0); per node at most one source fetch, one push, one upload counting the upload inside Mount; every callback at most once per node, PostCopy / OnCopySkipped / OnMounted exclude each other and every visited node of a successful copy gets exactly one of them (except the present ReferencePusher root); a transferred node has exactly one PreCopy before and one PostCopy after its push; per-node order PreCopy, Fetch, Push, Close, PostCopy as in the sources (call sequences regenerated); PostCopy after the terminal notification of every successor; a failing callback excludes a successful return AND any copy of a direct predecessor of the failed node, before or after the failure. On the protocol model (CopyImpl): permits conserved, in-flight <= permits held, all K permits free once the call has returned. Tied to copy.go / syncutil by trace acceptance of recorded runs (contention, simultaneous-claim, single-P and controlled schedules), by the real semaphore read at every event through a verif hook, and by an independent monitor (gauges, counters, order, error identity, abort, permits)",
    "level_note": "modelled and proved: everything in level_text. Only oracle-checked: identity of the returned error with the callback's error (callback-error-lost); the abort clause for Copy / ExtendedCopy goes through the same oracle clause copy-past-failed-successor as CopyGraph, promptness of the abort is C02's; permits of the real semaphore (op-without-permit, permit-leak) in CopyGraph runs through the hook only (the model-side counterparts are C04_inflight_bounded_by_permits / C04_all_permits_free_at_return on CopyImpl and C04_permits_held_bounded / C04_no_permit_held_at_success on the overlay; the overlay's holders are not compared number by number with the semaphore -- real permits taken >= certain holders). Not modelled: PreCopy answering SkipNode (never produced by the generated callbacks), the ReferencePusher blob root falling back inside Mount, a failing PreCopy inside Mount keeps the real Mount in flight while the model drops it (C04_inflight_on_trace states the destination bound for traces without a failed callback; the gauges are checked by the oracle on every run), user FindSuccessors other than content.Successors, MaxMetadataBytes, the final Tag of ExtendedCopy (oracle only). 'no blob fetched more than once' holds for copyGraph only -- Copy's prologue can read the root / its config a second time (known finding prologue-read-twice, C04_single_fetch_refuted_by_prologue). Anchors are informational (evidence changed_anchors); edits to the modelled call order / limiter sizing break layer P (Proofs/CopyCode.v) or T (kind c04_limitersize). Same store pairings as C01",
    "technique": "machine-checked proof in Coq (invariants and one-shot arguments over all accepted traces) + constant regenerated from copy.go + trace-acceptance correspondence + independent monitor oracle",
    "explanation": "recorded traces of Copy/CopyGraph/ExtendedCopy(Graph) under contention (K=1..8, wide fans with duplicate and shared successors, a FindSuccessors barrier, simultaneous claims of one descriptor, single-P schedules, synctest-controlled schedules) must be runs of Model/CopyHold.v (CopySpec + permit-holding guard); wrappers keep in-flight gauges and per-node counters and read the limiter's free permits; callback-failure injection checks that the error surfaces and that nothing above the failed node is copied",
}
