"""C11 configuration (loaded by bin/props.py; `unhex` is provided)."""


def _c11_case(c):
    """case line (without the id) -> replay case understood by harness/cmd/c11 -replay"""
    t = c.split(" ")
    if t[0] == "X":
        return {"raw": c}
    pos = [0]

    def nxt():
        v = t[pos[0]]
        pos[0] += 1
        return v
    nxt()                        # cfg bits
    preserve = nxt() == "1"
    wdx = unhex(nxt())
    physx = unhex(nxt())
    nxt()                        # cwd (fixed by the harness)
    prep = []
    for _ in range(int(nxt())):
        k = nxt()
        if k == "d":
            prep.append({"kind": "d", "path": unhex(nxt())})
        elif k in ("l", "h"):
            p = unhex(nxt())
            prep.append({"kind": k, "path": p, "target": unhex(nxt())})
        else:
            p = unhex(nxt())
            prep.append({"kind": "f", "path": p, "tag": int(nxt())})
    pushes = []
    for _ in range(int(nxt())):
        k = nxt()
        if k == "B":
            title = unhex(nxt())
            pushes.append({"kind": "B", "title": title, "tag": int(nxt())})
        elif k == "M":
            ls = []
            for _ in range(int(nxt())):
                lt = unhex(nxt())
                ls.append({"title": lt, "tag": int(nxt())})
            pushes.append({"kind": "M", "layers": ls})
        else:
            how = int(nxt()) if k == "F" else 0
            title = unhex(nxt())
            es = []
            for _ in range(int(nxt())):
                ek = nxt()
                if ek == "r":
                    nm = unhex(nxt())
                    tg = int(nxt())
                    es.append({"kind": "r", "name": nm, "tag": tg, "mode": int(nxt())})
                elif ek == "d":
                    nm = unhex(nxt())
                    es.append({"kind": "d", "name": nm, "mode": int(nxt())})
                elif ek in ("h", "s"):
                    nm = unhex(nxt())
                    es.append({"kind": ek, "name": nm, "target": unhex(nxt())})
                else:
                    es.append({"kind": ek, "name": unhex(nxt())})
                tm = int(nxt())
                if tm:
                    es[-1]["time"] = tm
            pushes.append({"kind": "U", "title": title, "entries": es})
            if how:
                pushes[-1]["fail"] = how
    wdv = ""
    if wdx.endswith("/via/wd"):
        wdv = "via"
        prep = [p for p in prep if not p["path"].endswith("/via")]
    elif physx.endswith("/wdreal"):
        wdv = "link"
        prep = [dict(p, path=p["path"].replace("/wdreal", "/wd", 1)) for p in prep
                if not (p["kind"] == "l" and p["path"].endswith("/s3/wd"))]
    elif not any(p["path"] == physx for p in prep):
        wdv = "missing"
    rep = {"prep": prep, "pushes": pushes, "preserve": preserve}
    if wdv:
        rep["wd"] = wdv
    return rep


# ---------- in-Coq re-evaluation of a sample (cross-checks extraction + OCaml driver) ----------

def _vm_bytes(b):
    return "(@nil N)" if not b else "[" + "; ".join("%d%%N" % c for c in b) + "]"


def _vm_hexstr(h):
    from binascii import unhexlify
    return _vm_bytes(b"" if h == "-" else unhexlify(h))


def _vm_path(s):
    segs = [x for x in s.split("/") if x]
    return "(@nil (list N))" if not segs else "[" + "; ".join(_vm_bytes(x.encode("latin-1")) for x in segs) + "]"


def _vm_list(xs, ty):
    return "(@nil %s)" % ty if not xs else "[" + "; ".join(xs) + "]"


def _c11_vm_goal(case, out):
    t = case.split(" ")
    pos = [0]

    def nxt():
        v = t[pos[0]]
        pos[0] += 1
        return v
    bits = nxt()
    g = "(mkCfg %s)" % " ".join("true" if c == "1" else "false" for c in bits)
    pres = "true" if nxt() == "1" else "false"
    wd = _vm_path(unhex(nxt()))
    physwd = _vm_path(unhex(nxt()))
    cwd = _vm_path(unhex(nxt()))
    ents, cont, ino, files = [], [], 0, {}
    for _ in range(int(nxt())):
        k = nxt()
        if k == "d":
            ents.append("(%s, NDir)" % _vm_path(unhex(nxt())))
        elif k == "l":
            pth = _vm_path(unhex(nxt()))
            ents.append("(%s, sym_node %s)" % (pth, _vm_hexstr(nxt())))
        elif k == "h":
            pth = _vm_path(unhex(nxt()))
            ents.append("(%s, NFile %d)" % (pth, files[unhex(nxt())]))
        else:
            rawp = unhex(nxt())
            pth = _vm_path(rawp)
            tag = int(nxt())
            ents.append("(%s, NFile %d)" % (pth, ino))
            files[rawp] = ino
            cont.append("(%d, %d%%N)" % (ino, tag * 1024 + 420))
            ino += 1
    fs = "(mkFS %s %s %d [] [] [] [])" % (_vm_list(ents, "(path * node)"), _vm_list(cont, "(nat * N)"), ino)
    ops = []
    for _ in range(int(nxt())):
        k = nxt()
        if k == "B":
            title = _vm_hexstr(nxt())
            ops.append("PBlob %s %d%%N" % (title, int(nxt())))
        elif k == "M":
            ls = []
            for _ in range(int(nxt())):
                lt = _vm_hexstr(nxt())
                ls.append("(%s, %d%%N)" % (lt, int(nxt())))
            ops.append("PManifest %s" % _vm_list(ls, "(str * N)"))
        else:
            how = int(nxt()) if k == "F" else 0
            title = _vm_hexstr(nxt())
            es, tms = [], []
            for _ in range(int(nxt())):
                ek = nxt()
                if ek == "r":
                    nm = _vm_hexstr(nxt())
                    tg = int(nxt())
                    es.append("EReg %s %d%%N %d%%N" % (nm, tg, int(nxt())))
                elif ek == "d":
                    nm = _vm_hexstr(nxt())
                    es.append("EDir %s %d%%N" % (nm, int(nxt())))
                elif ek in ("h", "s"):
                    nm = _vm_hexstr(nxt())
                    es.append("%s %s %s" % ("EHard" if ek == "h" else "ESym", nm, _vm_hexstr(nxt())))
                else:
                    es.append("EOther %s" % _vm_hexstr(nxt()))
                tms.append("%d%%N" % int(nxt()))
            if how:
                ops.append("PDirF %d%%N %s %s %s" % (how, title, _vm_list(tms, "N"), _vm_list(es, "entry")))
            else:
                ops.append("PDir %s %s %s" % (title, _vm_list(tms, "N"), _vm_list(es, "entry")))
    verdicts, _, listing = out.partition("|")
    listing = listing.partition("|X")[0]
    oks = _vm_list(["true" if c == "O" else "false" for c in verdicts[0::9]], "bool")
    paths, views = [], []
    for item in (listing.split(",") if listing else []):
        hp, _, v = item.partition(":")
        v, _, st = v.partition("@")
        paths.append(_vm_path(unhex(hp)))
        if v[0] == "d":
            views.append("VDir %s%%N %d%%N" % (v[1:], int(st or 0)))
        elif v[0] == "f":
            tg, _, m = v[1:].partition("m")
            views.append("VFile %d%%N %d%%N" % (int(tg) * 1024 + int(m), int(st or 0)))
        else:
            views.append("VSym %s" % _vm_hexstr(v[1:]))
    return ("let r := pushes %s %s %s %s (mkStore %s [] []) %s in\n  (snd r, map (vw %s (st_fs (fst r))) %s, length (ents (st_fs (fst r))))\n  = (%s, %s, %d)"
            % (g, pres, wd, cwd, fs, _vm_list(ops, "pushop"), physwd, _vm_list(paths, "path"), oks, _vm_list(views, "view"), len(paths)))


def _c11_vm_sample(d, tier, coq, build):
    import os, subprocess
    want = 300 if tier == "thorough" else 40
    outs = {}
    with open(os.path.join(d, "model.txt")) as f:
        for l in f:
            i, _, o = l.rstrip("\n").partition(" ")
            outs[i] = o
    lines = [l.rstrip("\n") for l in open(os.path.join(d, "cases.txt"))]
    stride = max(1, len(lines) // want)
    goals = []
    for l in lines[::stride][:want]:
        i, _, c = l.partition(" ")
        if i in outs and not outs[i].startswith("BADCASE") and not outs[i].startswith("UNJUDGED"):
            goals.append((i, _c11_vm_goal(c, outs[i])))
    vdir = os.path.join(build, "vm")
    os.makedirs(vdir, exist_ok=True)
    vf = os.path.join(vdir, "C11_cases.v")
    with open(vf, "w") as f:
        f.write("From Oras Require Import Base.Prelude Model.FileConfine.\n"
                "(* the runner prints the time last set only for objects outside the working directory *)\n"
                "Definition vw (wd : path) (f : fsys) (p : path) : view :=\n"
                "  match view_at f p with\n"
                "  | VDir m t => VDir m (if inside wd p then 0%N else t)\n"
                "  | VFile c t => VFile c (if inside wd p then 0%N else t)\n"
                "  | v => v end.\n")
        for i, g in goals:
            f.write("\n(* %s *)\nGoal %s.\nProof. vm_compute. reflexivity. Qed.\n" % (i, g))
    p = subprocess.run(["coqc", "-R", coq, "Oras", "-w", "-notation-overridden", vf], cwd=vdir, timeout=1500,
                       stdout=subprocess.PIPE, stderr=subprocess.STDOUT, text=True)
    with open(os.path.join(d, "vm_sample.txt"), "w") as f:
        f.write("%d goals rc=%d\n%s" % (len(goals), p.returncode, p.stdout[-3000:]))
    if p.returncode != 0:
        return ["vm_compute re-evaluation of %d sampled cases inside Coq disagrees with the extracted runner (or does not type-check): %s"
                % (len(goals), p.stdout[-1200:])]
    if len(goals) < want // 2:
        return ["vm_compute sample too small: %d goals" % len(goals)]
    return []



CONFIG = {
    "properties_file": "Properties/C11.v",
    "proof_files": ["Base/Prelude.v", "Proofs/FileConfine.v", "Proofs/FileConfineSrc.v", "Proofs/FileConfineTaint.v"],
    "model_files": ["Generated/GC11.v", "Model/FileConfine.v"],
    "extract": "XC11.v",
    "ml_main": "c11_main.ml",
    "harness": "c11",
    "case_to_replay": _c11_case,
    "post_model": _c11_vm_sample,
    "timeout_quick": 600,
    "timeout_thorough": 3000,
    "timeout_search": 900,
    "assumptions": [
        "source facts: 26 guards / statements that the model mirrors (traversal test, where a hard link's old name is resolved, which Lstat results count as missing, link refusal, Chtimes guard, ...) are checked to be in the Go source verbatim on every run (kind c11_srcfact, Proofs/FileConfineSrc.v)",
        "kernel semantics are modelled, not verified: path resolution (component walk, '..' = physical parent, symbolic links followed up to 40 times, final link not followed by lstat/link/symlink/unlink, O_CREAT through a dangling link), link(2) not following a final symbolic link, hard links = shared inode; the model is tied to the real kernel + Go runtime only by the correspondence run",
        "every system call of the store, Lstat included (klstat), is a kernel walk in the model; under the theorem's hypotheses an Lstat sees exactly the tree's entry at the lexical location (C11_lstat_is_lookup); a working directory that is, or is opened through, a symbolic link is outside the theorems but judged by model + correspondence + oracle (physical location)",
        "path/filepath (Clean, Join, Rel, Dir, IsAbs, Abs) hand-modelled on component lists (lc / rel_under), Unix separators only; archive/tar and compress/gzip are abstracted to an entry list with header times plus three failure modes (gzip verification, broken tar stream, tar digest mismatch: PDirF); PAX headers, names up to 120 bytes per element, directory names with trailing slash are generated, USTAR prefix split / GNU long names / sparse / global headers are not; os.CreateTemp (temp files in TMPDIR are outside the statement) not modelled; ENAMETOOLONG and chains of more than 40 links / 3000 walk steps are errors and not compared",
        "times: the model records the time last set explicitly with utimes (os.Chtimes) per file inode / directory and the view contains it; implicit updates of times by writes are not modelled, so the correspondence compares times only for objects outside the working directory; the snapshot oracle compares the real modification time of every outside object",
        "permission bits are modelled (umask 022; the creation modes 0777 / mode|0700 are re-read from the source by the translator; recorded directory modes applied after the last entry of a successful extraction, exact with PreservePermissions, else narrowing; os.Chmod of regular files under PreservePermissions) for modes <= 0777; ownership and setuid/setgid/sticky bits are not modelled or generated",
        "content store: unnamed blobs and manifests sit in the fallback storage (modelled as names no title can have); digestToPath (content tag -> file it was last saved to) and Store.Fetch through it (os.Open of that file as it is now, following links: a read, not a mutation) are modelled; content verification is a flag (a tag that differs, or tag 0, fails: the file is written and removed again); content tags of one length only are generated (a shorter/longer stale file would be cut by the size limit before the mismatch)",
        "Inv hypothesis (C11_confined): the working directory exists and it and its ancestors are real directories; every inode that a file below it shares with a file outside is in the ghost set taint (a field of the model's tree that no operation reads or changes - proved: C11_taint_never_read, Proofs/FileConfineTaint.v; any tree satisfies this with a suitable taint). Ghost-free form C11_confined_any_tree: premises only 'the working directory and its ancestors are real directories' and 'inode numbers are below the counter'; an outside location's view changes only if it is a file one of whose other names lay below the working directory when the store was opened. Conclusion: outside the working directory every entry (existence, type, inode, link text) and every directory attribute is unchanged, and content / permission bits / times of files change only for tainted inodes - which is exactly the known finding shared-inode-* (C11_confined_view, C11_shared_inode_refuted); with taint = [] nothing changes (C11_confined_partial). Nothing is assumed about symbolic links below the working directory. C11_confined_missing_wd replaces 'exists' by 'exists, or is missing with real ancestors and nothing below, or a regular file sits in its place' (a named blob titled like the missing working directory creates that file) for all histories. Pre-populated hard links to outside files: known finding shared-inode-*, C11_shared_inode_refuted",
        "the working directory's own mode and times are the store's (inside wd wd = true; the snapshot ignores its mode and times, and the parent's modification time when the store creates the working directory) - its entry in the parent (existence, type, identity) is not: C11_working_directory_kept",
        "the write paths consult no remembered state: the translator lists every receiver field / method / package variable that ensureWriteDir, ensureDirNoSymlink, pushFile, pushDir, resolveWritePath, absPath, removeSymlink, writeFile, resolveRelToBase, ensureLinkPath, restoreDirModes, extractTarDirectory, extractTarGzip mention (kind c11_state_reads) and Proofs/FileConfineSrc.v pins the lists; Store.push's name status (duplicate names) is modelled as st_names",
        "the harness runs as root inside chroot(-dir) with umask 022; titles/entry names/targets are generated from a fixed grammar plus attack / revisit-history templates; no concurrency (check-then-act between Lstat and the system call is not in scope); every push has a 30 s watchdog; a run directory without POSIX modes, hard links or symbolic links is not supported",
    ],
    "level_text": "Coq theorems over all trees whose working directory is reached through real directories (any symbolic links and any pre-populated hard links allowed), all histories of pushes on one store - named blobs (also failing verification), archives (regular, directory, symlink, hard link, other entries; any header times; also failing after gzip / in the tar stream / on the tar digest), unnamed content and manifests whose named layers are restored from the store - with all titles, names, link targets, PreservePermissions on/off and any process cwd: every entry outside the working directory (existence, type, inode, link text, directory attributes) is unchanged, content / permission bits / times of outside files change only for inodes that were shared with the working directory beforehand (none: the whole view is unchanged), and the invariant is preserved, also when the working directory does not exist yet; the working directory itself stays a real directory; the process cwd is irrelevant; titles, entry names (w.r.t. the working and the unpack directory), link targets, manifest layer titles and names with a link among their parents that resolve outside are rejected with an error; machine-checked counter-examples show the pre-repair code (each repair removed individually) escaping and the hypothesis on shared inodes being necessary. Model tied to the code by translator-pinned source facts (no remembered state in the write paths, creation modes), a differential run of the extracted model against Store.Push on a real file system inside a chroot with the whole tree compared after every push (plus an in-Coq vm_compute re-evaluation sample), and an independent before/after snapshot oracle",
    "level_note": "the confinement theorem is full (C11_confined; ghost-free: C11_confined_any_tree): its only exception clause - content, mode and times of outside files whose inode was hard-linked into the working directory before the store was opened - is the behaviour recorded as known finding shared-inode-* (not repaired); remaining limits: (2) a working directory that is / is reached through a symbolic link is covered by model + correspondence + oracle, not by a theorem; (3) kernel path resolution and path/filepath are modelled (tied by the correspondence run), not verified; implicit time updates, ownership, special mode bits, tar/gzip framing beyond the three failure modes and Lstat-then-act races are not modelled; seven fix: commits on /repo main from earlier rounds, none in this round",
    "technique": "machine-checked proof in Coq (invariant over kernel path resolution with symbolic and hard links; lexical = physical lemma; frame theorem for every system call of the store) + model/implementation correspondence on a real file system + snapshot oracle",
    "explanation": "frame theorem (nothing outside the working directory changes) and invariant preservation for all push sequences of the repaired file store, proved in Coq; extracted model diffed against Store.Push (verdicts + full tree listing) on generated cases in a chroot sandbox; oracle = snapshot of everything outside the working directory before/after each Push + lexical outside-name rejection",
}
