"""C11 configuration (loaded by bin/props.py; `unhex` is provided)."""


def _c11_case(c):
    """case line (without the id) -> replay case understood by harness/cmd/c11 -replay"""
    t = c.split(" ")
    pos = [0]

    def nxt():
        v = t[pos[0]]
        pos[0] += 1
        return v
    nxt()                        # cfg bits
    preserve = nxt() == "1"
    nxt(); nxt()                 # wd, cwd (fixed by the harness)
    prep = []
    for _ in range(int(nxt())):
        k = nxt()
        if k == "d":
            prep.append({"kind": "d", "path": unhex(nxt())})
        elif k == "l":
            p = unhex(nxt())
            prep.append({"kind": "l", "path": p, "target": unhex(nxt())})
        else:
            p = unhex(nxt())
            prep.append({"kind": "f", "path": p, "tag": int(nxt())})
    pushes = []
    for _ in range(int(nxt())):
        k = nxt()
        if k == "B":
            title = unhex(nxt())
            pushes.append({"kind": "B", "title": title, "tag": int(nxt())})
        else:
            title = unhex(nxt())
            es = []
            for _ in range(int(nxt())):
                ek = nxt()
                if ek == "r":
                    nm = unhex(nxt())
                    tg = int(nxt())
                    es.append({"kind": "r", "name": nm, "tag": tg, "mode": int(nxt())})
                elif ek == "d":
                    nm = unhex(nxt())
                    es.append({"kind": "d", "name": nm, "mode": int(nxt())})
                elif ek in ("h", "s"):
                    nm = unhex(nxt())
                    es.append({"kind": ek, "name": nm, "target": unhex(nxt())})
                else:
                    es.append({"kind": ek, "name": unhex(nxt())})
            pushes.append({"kind": "U", "title": title, "entries": es})
    return {"prep": prep, "pushes": pushes, "preserve": preserve}


CONFIG = {
    "properties_file": "Properties/C11.v",
    "proof_files": ["Base/Prelude.v", "Proofs/FileConfine.v"],
    "model_files": ["Model/FileConfine.v"],
    "extract": "XC11.v",
    "ml_main": "c11_main.ml",
    "harness": "c11",
    "case_to_replay": _c11_case,
    "timeout_quick": 600,
    "timeout_thorough": 3000,
    "timeout_search": 900,
    "assumptions": [
        "kernel semantics are modelled, not verified: path resolution (component walk, '..' = physical parent, symbolic links followed up to 40 times, final link not followed by lstat/link/symlink/unlink, O_CREAT through a dangling link), link(2) not following a final symbolic link, hard links = shared inode; the model is tied to the real kernel + Go runtime only by the correspondence run",
        "Lstat checks of the store (resolveRelToBase's parent loop, ensureDirNoSymlink, removeSymlink) are modelled as look-ups at the lexical location; the mutating system calls (mkdir, open, link, symlink, unlink, chmod) as kernel walks; their agreement is proved where used (walk_lex / walk_real) and exercised by the correspondence run",
        "path/filepath (Clean, Join, Rel, Dir, IsAbs, Abs) hand-modelled on component lists (lc / rel_under); archive/tar, compress/gzip, digest verification, os.CreateTemp (temp files in TMPDIR are outside the statement) not modelled",
        "permission bits are modelled (umask 022, Mkdir/OpenFile creation modes, os.Chmod under PreservePermissions) for modes <= 0777; Chtimes (which still follows an unpacked link and sets the times of its target), ownership, setuid/setgid/sticky bits are not modelled; the harness snapshot additionally compares mode, inode, size, content and link text of every object outside the working directory",
        "Inv hypothesis: the working directory and its ancestors are real directories, files below it share no inode with the outside. Nothing is assumed about symbolic links: any links with any targets, made by the store (raw archive targets) or by the user, may be present",
        "the harness runs as root inside chroot(-dir); titles/entry names/targets are generated from a fixed grammar; no concurrency (check-then-act between Lstat and the system call is not in scope)",
    ],
    "level_text": "Coq theorems over all trees satisfying the invariant (any symbolic links allowed), all titles, all entry sequences (regular, directory, symlink, hard link, other), all link targets, PreservePermissions on/off and any process cwd: every sequence of pushes of the repaired store leaves the view (existence, type, content, permission bits, link text) of every location outside the working directory unchanged and preserves the invariant; the working directory itself stays a real directory; names and entries that lexically resolve outside are rejected with an error; links are created with the raw archive target (C12) and never followed below the working directory, so every mutation happens at the validated lexical location; nine machine-checked counter-examples show the pre-repair code (each repair removed individually) escaping. Model tied to the code by a differential run of the extracted model against Store.Push on a real file system inside a chroot, plus an independent before/after snapshot oracle",
    "level_note": "full for existence/type/content/permission bits/link text of every location outside the working directory and for the working directory's own entry; kernel path resolution and path/filepath are modelled (tied by the correspondence run), not verified; timestamps (Chtimes through an unpacked link)/ownership/special mode bits and Lstat-then-act races not modelled; five fix: commits on the repo branch (F10, raw absolute title, link replacing the unpack directory, ensureDirNoSymlink, removeSymlink)",
    "technique": "machine-checked proof in Coq (invariant over kernel path resolution with symbolic and hard links; lexical = physical lemma; frame theorem for every system call of the store) + model/implementation correspondence on a real file system + snapshot oracle",
    "explanation": "frame theorem (nothing outside the working directory changes) and invariant preservation for all push sequences of the repaired file store, proved in Coq; extracted model diffed against Store.Push (verdicts + full tree listing) on generated cases in a chroot sandbox; oracle = snapshot of everything outside the working directory before/after each Push + lexical outside-name rejection",
}
