"""C11 configuration (loaded by bin/props.py; `unhex` is provided)."""


def _c11_case(c):
    """case line (without the id) -> replay case understood by harness/cmd/c11 -replay"""
    t = c.split(" ")
    pos = [0]

    def nxt():
        v = t[pos[0]]
        pos[0] += 1
        return v
    nxt(); nxt(); nxt()          # cfg bits, wd, cwd (fixed by the harness)
    prep = []
    for _ in range(int(nxt())):
        k = nxt()
        if k == "d":
            prep.append({"kind": "d", "path": unhex(nxt())})
        else:
            p = unhex(nxt())
            prep.append({"kind": "f", "path": p, "tag": int(nxt())})
    pushes = []
    for _ in range(int(nxt())):
        k = nxt()
        if k == "B":
            title = unhex(nxt())
            pushes.append({"kind": "B", "title": title, "tag": int(nxt())})
        else:
            title = unhex(nxt())
            es = []
            for _ in range(int(nxt())):
                ek = nxt()
                if ek == "r":
                    nm = unhex(nxt())
                    es.append({"kind": "r", "name": nm, "tag": int(nxt())})
                elif ek in ("h", "s"):
                    nm = unhex(nxt())
                    es.append({"kind": ek, "name": nm, "target": unhex(nxt())})
                else:
                    es.append({"kind": ek, "name": unhex(nxt())})
            pushes.append({"kind": "U", "title": title, "entries": es})
    return {"prep": prep, "pushes": pushes, "preserve": False}


CONFIG = {
    "properties_file": "Properties/C11.v",
    "proof_files": ["Base/Prelude.v", "Proofs/FileConfine.v"],
    "model_files": ["Model/FileConfine.v"],
    "extract": "XC11.v",
    "ml_main": "c11_main.ml",
    "harness": "c11",
    "case_to_replay": _c11_case,
    "timeout_quick": 600,
    "timeout_thorough": 3000,
    "assumptions": [],
    "level_text": "",
    "level_note": "",
    "technique": "machine-checked proof in Coq + model/implementation correspondence",
    "explanation": "",
}
