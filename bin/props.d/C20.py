"""C20 configuration (loaded by bin/props.py; `unhex` is provided)."""


def _c20_case(c):
    p = c.split(" ")
    if p[0] == "P":
        return {"op": "P", "input": unhex(p[1])}
    if p[0] == "R":
        return {"op": "R", "registry": unhex(p[1]), "repository": unhex(p[2]), "input": unhex(p[3])}
    if p[0] == "V":
        return {"op": "V", "kind": p[1], "input": unhex(p[2])}
    if p[0] == "U":
        return {"op": "U", "kind": p[1], "plain": "true" if p[2] == "1" else "false",
                "registry": unhex(p[3]), "repository": unhex(p[4]), "reference": unhex(p[5])}
    if p[0] == "O":
        return {"op": "O", "kind": p[1], "plain": "true" if p[2] == "1" else "false",
                "registry": unhex(p[3]), "repository": unhex(p[4]), "input": unhex(p[5])}
    return {"raw": c}



LINK = {
    "name": "C20link",
    "proof_files": [],
    "model_files": ["Generated/GC20.v", "Model/Reference.v", "Model/RefOps.v"],
    "extract": "XC20.v",
    "ml_main": "c20_main.ml",
    "harness": "c20link",
    "case_to_replay": _c20_case,
}

CONFIG = {
    "properties_file": "Properties/C20.v",
    "proof_files": ["Base/Prelude.v", "Base/Regex.v", "Proofs/Reference.v", "Proofs/RefOps.v", "Proofs/RefURL.v"],
    "model_files": ["Generated/GC20.v", "Model/Reference.v", "Model/RefOps.v"],
    "extract": "XC20.v",
    "ml_main": "c20_main.ml",
    "harness": "c20",
    "case_to_replay": _c20_case,
    "parts": [LINK],
    "assumptions": [
        "registry validity is url.ParseRequestURI (net/url): a parameter of the theorems; the correspondence judges only authorities a conservative recogniser decides",
        "go-digest v1.0.0 Digest.Validate (pinned dependency) is hand-modelled (sha256/384/512, lower-case hex of the exact length)",
        "Go regexp semantics for the ASCII-only, fully anchored expressions used here = Base/Regex.v Lang (proved equal to the derivative matcher)",
    ],
    "level_text": "Coq theorems for all strings: parse = independent grammar (iff), format/parse round-trip, agreement of the five Repository reference forms, rejection of foreign registries/repositories, URL last-segment and character-class slot; stated about a model whose regular expressions are re-translated from registry/reference.go on every run, tied to the code by an exhaustive small-scope + random differential run and an independent oracle",
    "level_note": "registry authority validity (net/url) is a parameter of the theorems and judged only on a conservative subset in the correspondence; go-digest validation hand-modelled; Go regexp semantics = Base/Regex.v denotation",
    "technique": "machine-checked proof in Coq (regex derivative matcher proved correct; grammar equivalence; round-trip) + translator-regenerated definitions + model/implementation correspondence",
    "explanation": "theorems over all strings about the model of ParseReference/String/Repository.ParseReference/URL builders whose regexes are regenerated from registry/reference.go; exhaustive small-scope + random differential run of model vs implementation; independent grammar/round-trip/net-url oracle",
}
