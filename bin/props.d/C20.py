"""C20 configuration (loaded by bin/props.py; `unhex` is provided)."""


def _c20_case(c):
    p = c.split(" ")
    if p[0] == "P":
        return {"op": "P", "input": unhex(p[1])}
    if p[0] == "R":
        return {"op": "R", "registry": unhex(p[1]), "repository": unhex(p[2]), "input": unhex(p[3])}
    if p[0] in ("W", "F"):
        return {"op": "F", "registry": unhex(p[1]), "repository": unhex(p[2]), "reference": unhex(p[3])}
    if p[0] == "N":
        return {"op": "N", "kind": p[1], "input": unhex(p[2]), "reference": unhex(p[3])}
    if p[0] == "E":
        return {"op": "E", "kind": p[1], "plain": "true" if p[2] == "1" else "false", "registry": unhex(p[3]),
                "input": unhex(p[4]), "n": unhex(p[5]) or "0"}
    if p[0] == "D":
        return {"op": "D", "kind": p[1], "plain": "true" if p[2] == "1" else "false", "registry": unhex(p[3]),
                "repository": unhex(p[4]), "reference": unhex(p[5]), "input": unhex(p[6]), "n": unhex(p[7]) or "0"}
    if p[0] == "Q":
        return {"op": "Q", "kind": p[1], "plain": "true" if p[2] == "1" else "false", "registry": unhex(p[3]),
                "repository": unhex(p[4]), "reference": unhex(p[5]), "input": unhex(p[6])}
    if p[0] == "G":
        return {"op": "G", "input": unhex(p[1])}
    if p[0] == "V":
        return {"op": "V", "kind": p[1], "input": unhex(p[2])}
    if p[0] == "U":
        return {"op": "U", "kind": p[1], "plain": "true" if p[2] == "1" else "false",
                "registry": unhex(p[3]), "repository": unhex(p[4]), "reference": unhex(p[5])}
    if p[0] == "O":
        return {"op": "O", "kind": p[1], "plain": "true" if p[2] == "1" else "false",
                "registry": unhex(p[3]), "repository": unhex(p[4]), "input": unhex(p[5])}
    return {"raw": c}



LINK = {
    "name": "C20link",
    "proof_files": [],
    "model_files": ["Generated/GC20.v", "Model/NetURL.v", "Model/Reference.v", "Model/RefOps.v", "Model/RefURLGen.v"],
    "extract": "XC20.v",
    "ml_main": "c20_main.ml",
    "harness": "c20link",
    "case_to_replay": _c20_case,
}

CONFIG = {
    "properties_file": "Properties/C20.v",
    "proof_files": ["Base/Prelude.v", "Base/Regex.v", "Proofs/Reference.v", "Proofs/RefOps.v", "Proofs/RefURL.v", "Proofs/RefGrammar.v", "Proofs/NetURL.v", "Proofs/RefDescOps.v", "Proofs/RefURLGen.v"],
    "model_files": ["Generated/GC20.v", "Model/NetURL.v", "Model/Reference.v", "Model/RefOps.v", "Model/RefURLGen.v"],
    "extract": "XC20.v",
    "ml_main": "c20_main.ml",
    "harness": "c20",
    "case_to_replay": _c20_case,
    "parts": [LINK],
    "assumptions": [
        "registry validity is url.ParseRequestURI (net/url): a parameter valid_registry of the theorems. The only fact about it the URL theorems use is reg_clean: an accepted registry is non-empty and contains none of controls/space # % / ? @ \\ DEL; the harness checks this on every reference the implementation accepts (oracle registry-charset). Acceptance itself is judged only on authorities a conservative recogniser decides (others, e.g. bracketed hosts, are toolchain-relative: go1.23 and go1.26 differ there)",
        "go-digest v1.0.0 Digest.Validate (pinned; the harness refuses to run against another version) is hand-modelled: algorithm in the fixed table sha256/384/512 AND linked into the binary (crypto.Hash.Available), lower-case hex of the exact length. The link set is the parameter avail of model and theorems (all theorems hold for every avail); it is exercised in two builds: all three hashes linked (cmd/c20) and crypto/sha256 only (cmd/c20link). A binary that links no hash at all accepts no digest reference (theorems still hold; not run)",
        "Go regexp semantics for the ASCII-only, fully anchored expressions used here = Base/Regex.v Lang (proved equal to the derivative matcher)",
        "generic URL syntax (RFC 3986 section 3) = Model url_split; compared with net/url's parse of every URL built in the run",
        "Repository clauses quantify over bases that are themselves valid (a literal &Repository{Reference: ...} is not validated by the library): invalid bases, bases with an empty port and a base Reference field are generated and compared with the model for ParseReference but not judged by the oracle / not driven through net/http",
        "out of scope: URLs built from descriptors (Fetch/Delete/Exists use desc.Digest unvalidated), catalog/base URL, tag-list paging parameters, mount from a caller-supplied repository name that is not a valid repository, manifests with a subject (client-side referrers indexing sends further requests)",
    ],
    "level_text": "Coq theorems for all strings, all registry predicates and all sets of linked hash implementations: parse = independent grammar (iff) with the component rules themselves characterised (tag rule, repository-name rule as an inductive grammar, digest rule: C20_tag_grammar, C20_repository_grammar, C20_digest_grammar); format/parse round-trip; agreement of the six Repository reference forms incl. the fully qualified tag@digest form; rejection of other registries/repositories at full strength (a string with a path in it is accepted only if it is base-registry/base-repository followed by ':' or '@': C20_repo_rejects_other_paths; the pre-fix code is refuted); URL slot at full strength under the generic URL syntax (scheme, authority = exactly the host without user-info, path segments exactly v2/<repository components>/<kind>/<reference>, no query, no fragment: C20_url_exact, C20_url_exact_noref, C20_op_requests_exact_paths) given the character-class fact reg_clean about accepted registries, which the oracle checks on every accepted reference (without it the statement is refuted: C20_url_exact_unconstrained_registry_refuted). Stated about a model whose regular expressions are re-translated from registry/reference.go on every run, tied to the code by an exhaustive small-scope (all strings to length 5/6 over 11 symbols; repository rule exhaustively to length 7/8 over its own alphabet) + random + mutation differential run in two link configurations and an independent oracle",
    "level_note": "oracle only (no theorem): 'the registry is a URL authority' itself (net/url is a parameter; the theorems use only reg_clean); error identity (errors.Is ErrInvalidReference); the two query-carrying URL builders (referrers artifactType, blob mount) -- oracle url-query, not modelled. Operations are modelled for subject-less manifests in all three referrers-capability states and through both the store and the Repository wrappers. go-digest validation hand-modelled (version pinned at run time); Go regexp semantics = Base/Regex.v denotation",
    "technique": "machine-checked proof in Coq (regex derivative matcher proved correct; grammar equivalence; round-trip) + translator-regenerated definitions + model/implementation correspondence",
    "explanation": "theorems over all strings about the model of ParseReference/String/Repository.ParseReference/URL builders whose regexes are regenerated from registry/reference.go; exhaustive small-scope + random differential run of model vs implementation; independent grammar/round-trip/net-url oracle",
}
