"""C20 configuration (loaded by bin/props.py; `unhex` is provided)."""


def _c20_case(c):
    p = c.split(" ")
    if p[0] == "P":
        return {"op": "P", "input": unhex(p[1])}
    if p[0] == "R":
        return {"op": "R", "registry": unhex(p[1]), "repository": unhex(p[2]), "input": unhex(p[3])}
    if p[0] in ("W", "F"):
        return {"op": "F", "registry": unhex(p[1]), "repository": unhex(p[2]), "reference": unhex(p[3])}
    if p[0] == "T":
        return {"op": "T", "plain": "true" if p[1] == "1" else "false", "registry": unhex(p[2]), "repository": unhex(p[3]),
                "input": unhex(p[4]), "dsts": "\x00".join(unhex(x) for x in p[6:])}
    if p[0] == "N":
        return {"op": "N", "kind": p[1], "input": unhex(p[2]), "reference": unhex(p[3])}
    if p[0] == "E":
        return {"op": "E", "kind": p[1], "plain": "true" if p[2] == "1" else "false", "registry": unhex(p[3]),
                "input": unhex(p[4]), "n": unhex(p[5]) or "0"}
    if p[0] == "D":
        return {"op": "D", "kind": p[1], "plain": "true" if p[2] == "1" else "false", "registry": unhex(p[3]),
                "repository": unhex(p[4]), "reference": unhex(p[5]), "input": unhex(p[6]), "n": unhex(p[7]) or "0"}
    if p[0] == "Q":
        return {"op": "Q", "kind": p[1], "plain": "true" if p[2] == "1" else "false", "registry": unhex(p[3]),
                "repository": unhex(p[4]), "reference": unhex(p[5]), "input": unhex(p[6])}
    if p[0] == "G":
        return {"op": "G", "input": unhex(p[1])}
    if p[0] == "V":
        return {"op": "V", "kind": p[1], "input": unhex(p[2])}
    if p[0] == "U":
        return {"op": "U", "kind": p[1], "plain": "true" if p[2] == "1" else "false",
                "registry": unhex(p[3]), "repository": unhex(p[4]), "reference": unhex(p[5])}
    if p[0] == "O":
        return {"op": "O", "kind": p[1], "plain": "true" if p[2] == "1" else "false",
                "registry": unhex(p[3]), "repository": unhex(p[4]), "input": unhex(p[5])}
    return {"raw": c}



LINK = {
    "name": "C20link",
    "proof_files": [],
    "model_files": ["Generated/GC20.v", "Model/NetURL.v", "Model/Reference.v", "Model/RefOps.v", "Model/RefURLGen.v"],
    "extract": "XC20.v",
    "ml_main": "c20_main.ml",
    "harness": "c20link",
    "case_to_replay": _c20_case,
}

CONFIG = {
    "properties_file": "Properties/C20.v",
    "proof_files": ["Base/Prelude.v", "Base/Regex.v", "Proofs/Reference.v", "Proofs/RefOps.v", "Proofs/RefURL.v", "Proofs/RefGrammar.v", "Proofs/NetURL.v", "Proofs/RefDescOps.v", "Proofs/RefURLGen.v"],
    "model_files": ["Generated/GC20.v", "Model/NetURL.v", "Model/Reference.v", "Model/RefOps.v", "Model/RefURLGen.v"],
    "extract": "XC20.v",
    "ml_main": "c20_main.ml",
    "harness": "c20",
    "case_to_replay": _c20_case,
    "parts": [LINK],
    "assumptions": [
        "net/url of go1.26.8 (ParseRequestURI authority path: parse, parseAuthority, parseHost, validOptionalPort, unescape host/zone, shouldEscape table; QueryEscape/QueryUnescape, Values.Encode for the keys used) and netip.ParseAddr (IPv6 literals, embedded IPv4, zones) are hand-modelled in Model/NetURL.v; their character classes (shouldEscape for host / zone / query component, ishex) are proved equal to the toolchain's own encoding table, read off GOROOT/src/net/url/encoding_table.go by the translator (kind neturl_table, C20_neturl_classes_from_source); the control flow is tied by correspondence only (ValidateRegistry on ~1.4e5 / 2.5e6 authorities quick / thorough: exhaustive to length 4/5 over 18 symbols, all 256 bytes in 7 templates, generated reg-names / ports / IP literals / escapes; no registry is unjudged). The harness refuses to run on another toolchain. The theorems about what ValidateRegistry accepts hold for every behaviour of netip.ParseAddr (parameter ip6_ok); the model rejects at once when the registry contains '?', '/' or '@'; that shortcut is proved equal to the step-by-step ParseRequestURI rendering (C20_registry_shortcuts_sound) in which only validUserinfo / unescaping of user-info and path stay abstract",
        "go-digest v1.0.0 Digest.Validate: the algorithm table (names, 2 * hash size, anchored regexes of the encoded part) is read off the pinned module's algorithm.go by the translator on every run (kind godigest_algorithms); the check assembled from it runs in the correspondence and is proved equal to the closed form of the theorems (C20_digest_from_source); only the control flow of Validate (split at the first ':', Available, then table) is hand-written. Which source that is, is pinned: the harness refuses another version and go.sum's content hash is regenerated into the model (C20_go_digest_pinned). The link set is the parameter avail of model and theorems; it is exercised in two builds: all hashes linked (cmd/c20) and crypto/sha256 only (cmd/c20link). A binary that links no hash accepts no digest reference (theorems still hold; not run)",
        "Go regexp semantics for the ASCII-only, fully anchored expressions used here = Base/Regex.v Lang (proved equal to the derivative matcher)",
        "generic URL syntax (RFC 3986 section 3) = Model url_split; url.ParseQuery restricted to '&'/'=' splitting + QueryUnescape = Model parse_query; both compared with net/url on every URL / request of the run",
        "fmt.Sprintf restricted to the verb %s and strings.Join = Model/RefURLGen.v sprintf_s / join_sep (the URL builders assembled from the string literals of registry/remote/url.go are what the correspondence runs; proved equal to the closed forms of the theorems)",
        "net/http between the built URL string and the recorded request is not modelled: requests are compared through URL.String() (identity on every URL the theorems cover); a base whose registry has an empty port ('reg:') is accepted by ParseReference but net/http strips the empty port from the request URL, so such bases are exercised for ParseReference only; literal &Repository{Reference: ...} values with an invalid base are outside the quantifier (the constructors NewRepository / NewRegistry+Repository validate: C20_new_repository_base_ok) and are compared with the model for ParseReference only",
        "out of scope: a descriptor whose Digest is not a valid digest (Fetch/Delete build the URL from desc.Digest unvalidated: compared with the model on URL-safe strings, not judged), mount from a source repository name that is not a valid repository (not judged), manifests with a subject (client-side referrers indexing sends further requests), the second and later pages of listings (their URL comes from the server's Link header), blob upload after the initial POST (Location comes from the server)",
    ],
    "level_text": "Coq theorems for all strings and all sets of linked hash implementations, about a model that now includes the registry validator itself (net/url + netip of go1.26.8): parse = independent grammar (iff) with every component characterised (C20_tag_grammar, C20_repository_grammar, C20_digest_grammar, registry: C20_registry_regname_iff + C20_registry_bracket_iff = complete grammar of accepted registries modulo netip.ParseAddr, C20_registry_clean: no user-info / query / fragment / escape can hide in an accepted registry); format/parse round-trip for parsed references and for every Reference value that passes Validate (C20_validate_roundtrip); Repository.ParseReference characterised exactly (C20_repo_parse_iff_grammar) incl. agreement of the six forms and rejection of every other path (pre-fix code refuted); URL slot at full strength under RFC 3986 splitting with NO hypothesis about the registry left (C20_url_exact_go / _full, C20_op_requests_exact_paths_go); the query-carrying builders (referrers artifactType, blob mount: C20_url_referrers_at_exact, C20_url_mount_exact) and QueryEscape/ParseQuery round trips (C20_query_escape_roundtrip, C20_parse_query_encode) for all byte strings; every descriptor-driven operation (manifest/blob Fetch, Delete, Referrers, Mount, Push, Tags with setQueryParams paging) and Registry.Ping / Repositories: one request, documented method, exact slot, query decoding to exactly the documented parameters (C20_desc_op_requests_exact, C20_reg_op_requests_exact); every history of calls on a Repository stays in the base repository (C20_session_in_base), and so do oras.Tag / oras.TagN (content.go) for arbitrary source / destination strings (C20_oras_tag_in_base, C20_oras_tag_forms_agree); every Repository the constructors hand out has a valid base (C20_new_repository_base_ok, C20_registry_repository_base_ok); end to end without any premise about registry or base: NewRepository(s0) for any accepted s0, then any history of calls resp. oras.Tag/TagN with arbitrary arguments stays in that repository (C20_new_repository_session_in_base, C20_new_repository_oras_tag_in_base; C20_desc_op_requests_exact_go, C20_reg_op_requests_exact_go, C20_url_referrers_at_exact_go). Tie: regexes, URL-builder literals, separators and the go-digest pin are regenerated from the Go source on every run (kinds regex, funcstrlits, gosumhash, godigest_algorithms, neturl_table; the assembled builders are proved equal to the closed forms: C20_generated_builders_agree), 54 anchors; exhaustive small-scope + random + mutation differential run of model vs implementation on 14 case kinds (P R V G F W U Q O D T N E A) in two link configurations with coverage floors, per-operation watchdog and request cap; independent oracle (hand recognisers, ground truth by construction, net/url's own parse of every URL / query)",
    "level_note": "correspondence only (hand model, no translator): net/url host parsing + netip.ParseAddr + QueryEscape (Model/NetURL.v, toolchain pinned), the control flow of go-digest's Digest.Validate (its table is translated; version and go.sum hash pinned), the request sequences of the operations (anchored). Oracle only (no theorem): error identity (errors.Is ErrInvalidReference). Operations are modelled for subject-less manifests in all three referrers-capability states, through the stores and the Repository wrappers; listings for their first page. Go regexp semantics = Base/Regex.v denotation",
    "technique": "machine-checked proof in Coq (regex derivative matcher proved correct; grammar equivalences; round-trips; RFC 3986 splitting of every built URL; induction over call histories) + translator-regenerated definitions (regexes, URL-builder literals, dependency pin) + model/implementation correspondence",
    "explanation": "theorems over all strings about the model of ParseReference / ValidateRegistry (net/url + netip) / String / Validate / Repository.ParseReference / all URL builders / reference- and descriptor-driven operations / constructors, with regexes and URL literals regenerated from the Go source; exhaustive small-scope + random differential run of model vs implementation in two link configurations; independent grammar / round-trip / net-url oracle",
}
