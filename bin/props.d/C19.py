"""C19 configuration (loaded by bin/props.py; `unhex` is provided)."""


def _c19_case(c):
    p = c.split(" ")
    if p[0] in ("M", "T", "U", "L", "J", "B", "S", "D"):
        return {"op": p[0], "hex": p[1]}
    if p[0] == "F":
        return {"op": "F", "civil": " ".join(p[1:7])}
    if p[0] == "A":
        return {"op": "A", "ann": p[1]}
    if p[0] == "K":
        return {"op": "K", "spec": unhex(p[-1]).encode("latin-1").decode("utf-8")}
    return {"raw": c}


# ---------------------------------------------------------------------------
# A sample of the correspondence cases is re-evaluated INSIDE Coq with vm_compute and compared
# with what the extracted OCaml runner printed (model.txt).  This cross-checks the extraction
# and the OCaml driver (parsing, printing, annotation sorting), not the implementation.

def _vm_str(h):
    if h == "-":
        return "(@nil N)"
    return "[" + "; ".join(str(x) for x in bytes.fromhex(h)) + "]"


def _vm_ann(t):
    if t == "-":
        return "(@nil kv)"
    out = []
    for kv in t.split(";"):
        k, v = kv.split("=")
        out.append("(%s, %s)" % (_vm_str(k), _vm_str(v)))
    return "[" + "; ".join(out) + "]"


def _vm_strs(xs):
    return "(@nil str)" if not xs else "[" + "; ".join(_vm_str(x) for x in xs) + "]"


def _vm_extra(t):
    u, d, p = t.split("~")
    urls = _vm_strs([] if u == "_" else u.split("."))
    data = "(@nil N)" if d == "_" else _vm_str(d)
    if p == "_":
        plat = "(@None platform)"
    else:
        a, o, v, f, r = p.split(".")
        plat = "(Some (mkPlatform %s %s %s %s %s))" % (_vm_str(a), _vm_str(o), _vm_str(v), _vm_strs([] if f == "_" else f.split("+")), _vm_str(r))
    return "(mkExtra %s %s %s)" % (urls, data, plat)


def _vm_desc(t):
    _, mt, dg, sz, ann, at, ex = t.split(":")
    return "(mkDesc %s %s (%s)%%Z %s %s %s)" % (_vm_str(mt), _vm_str(dg), sz, _vm_ann(ann), _vm_str(at), _vm_extra(ex))


def _vm_odesc(t):
    return "(@None desc)" if t == "N" else "(Some %s)" % _vm_desc(t)


def _vm_list(t):
    if t == "N":
        return "(@None (list desc))"
    ds = t.split(",")[1:]
    return "(Some %s)" % ("(@nil desc)" if not ds else "[" + "; ".join(_vm_desc(d) for d in ds) + "]")


def _vm_store(t):
    es = t.split(",")[1:]
    if not es:
        return "(@nil entry)"
    out = []
    for e in es:
        f = e.split(":")
        out.append("(mkEntry %s %s (%s)%%Z [] %s)" % (_vm_str(f[0]), _vm_str(f[1]), f[2], _vm_str(f[3]) if len(f) > 3 else "(@nil N)"))
    return "[" + "; ".join(out) + "]"


def _vm_events(t):
    if t == "-":
        return "(@nil vev)"
    out = []
    evs = []
    for piece in t.split(";"):  # ';' also separates annotations inside an event
        if piece.startswith(("X:", "PB:", "PM:")):
            evs.append(piece)
        else:
            evs[-1] += ";" + piece
    for e in evs:
        f = e.split(":")
        if f[0] == "X":
            out.append("(VX %s %s (%s)%%Z %s)" % (_vm_str(f[1]), _vm_str(f[2]), f[3], _vm_ann(f[4])))
        elif f[0] == "PB":
            out.append("(VPB %s %s (%s)%%Z %s)" % (_vm_str(f[1]), _vm_str(f[2]), f[3], _vm_ann(f[4])))
        else:
            out.append("(VPM %s %s %s)" % (_vm_str(f[1]), _vm_str(f[2]), _vm_ann(f[3])))
    return "[" + "; ".join(out) + "]"


_VM_PRELUDE = """From Oras Require Import Base.Prelude Base.Regex Generated.GC19 Model.Pack Model.PackEnc Model.PackSha.
Fixpoint vm_ltb (x y : str) : bool :=
  match x, y with
  | [], [] => false
  | [], _ :: _ => true
  | _ :: _, [] => false
  | c :: x', d :: y' => (c <? d) || ((c =? d) && vm_ltb x' y')
  end.
Fixpoint vm_ins (p : kv) (l : list kv) : list kv :=
  match l with
  | [] => [p]
  | q :: l' => if vm_ltb (fst q) (fst p) then q :: vm_ins p l' else p :: l
  end.
Definition vm_sort (l : list kv) : list kv := fold_right vm_ins [] l.
Definition vm_desc (d : desc) : desc := mkDesc (d_mt d) (d_dg d) (d_sz d) (vm_sort (d_ann d)) (d_at d) (d_extra d).
Inductive vev := VX (mt dg : str) (sz : Z) (ann : list kv) | VPB (mt dg : str) (sz : Z) (ann : list kv) | VPM (mt at_ : str) (ann : list kv).
Definition vm_ev (e : event) : vev :=
  match e with
  | EvExists d => VX (d_mt d) (d_dg d) (d_sz d) (vm_sort (d_ann d))
  | EvPush RBlob d _ => VPB (d_mt d) (d_dg d) (d_sz d) (vm_sort (d_ann d))
  | EvPush RManifest d _ => VPM (d_mt d) (d_at d) (vm_sort (d_ann d))
  end.
Inductive vres :=
| VErr (e : err)
| VOk (mt at_ : str) (ann : list kv) (k : mkind) (cfg : option desc) (layers : option (list desc))
      (subj : option desc) (mat : str) (mann : list kv) (bytes : str) (size : Z).
Definition vm_view (p : state * result) : vres * list vev :=
  (match snd p with
   | Err e => VErr e
   | Ok d m0 => let m := san_manifest m0 in
               VOk (d_mt d) (d_at d) (vm_sort (d_ann d)) (m_kind m) (option_map vm_desc (m_config m))
                   (option_map (map vm_desc) (m_layers m)) (option_map vm_desc (m_subject m)) (m_at m)
                   (vm_sort (m_ann m)) (json_manifest m0) (d_sz d)
   end, map vm_ev (s_events (fst p))).
Definition vm_marshal : manifest -> str := json_manifest.
Definition vm_h (s : str) : str := if str_eqb s empty_json then empty_json_digest else [63].
Definition vm_now : str := [60; 78; 79; 87; 62].
"""


def _vm_goal(case, out):
    p = case.split(" ")
    o = out.split(" ")
    if p[0] == "M":
        return "valid_media_type %s = %s" % (_vm_str(p[1]), "true" if o[0] == "1" else "false")
    if p[0] == "F":
        call = "%s %s %s %s %s %s" % tuple(p[1:7])
        if o[0] == "INVALID":
            return "civil_ok %s = false" % call
        return "format_rfc3339_utc %s = %s" % (call, _vm_str(o[0]))
    if p[0] == "A" and o[1] != "UNREADABLE":
        return "(json_ann %s, read_obj (json_ann %s)) = (%s, Some (%s, (@nil N)))" % (_vm_ann(p[1]), _vm_ann(p[1]), _vm_str(o[0]), _vm_ann(o[1]))
    if p[0] == "D":
        sh = lambda t: "(@None str)" if t == "NONE" else "(Some %s)" % _vm_str(t)
        if o[2] == "NONE":
            cfg = "(@None (str * str * N))"
        else:
            cm, cd, cn = o[2].split(":")
            cfg = "(Some (%s, %s, %s))" % (_vm_str(cm), _vm_str(cd), cn)
        return "(doc_media_type %s, doc_artifact_type %s, doc_config_head %s) = (%s, %s, %s)" % (
            _vm_str(p[1]), _vm_str(p[1]), _vm_str(p[1]), sh(o[0]), sh(o[1]), cfg)
    if p[0] == "S":
        return "digest_of %s = %s" % (_vm_str(p[1]), _vm_str(o[0]))
    if p[0] == "J":
        return "json_string %s = %s" % (_vm_str(p[1]), _vm_str(o[0]))
    if p[0] == "B":
        return "base64 %s = %s" % (_vm_str(p[1]), _vm_str(o[0]))
    if p[0] == "L":
        return "rfc3339_ok_prefix %s = %s" % (_vm_str(p[1]), "true" if o[0] == "1" else "false")
    if p[0] == "U":
        return "utf8_san %s = %s" % (_vm_str(p[1]), _vm_str(o[0]))
    if p[0] == "T":
        return "rfc3339_ok %s = %s" % (_vm_str(p[1]), "true" if o[0] == "1" else "false")
    if p[0] != "K":
        return None
    fn = {"v10": "FV10", "v11": "FV11", "vbad": "FBadVersion", "rc2": "FRC2", "art": "FArtifact"}[p[1]]
    key = {"0": "KFull", "1": "KDigest", "2": "KNamespace", "3": "KFile"}[p[3]]
    fatok = p[4][:-1] if p[4].endswith("d") else p[4]  # "d": the runner also showed the modelled digest
    fa = "(@None nat)" if fatok == "-" else "(Some %s%%nat)" % fatok
    call = ("(pack vm_marshal vm_h %s (mkTcfg %s %s) %s (init_state %s) %s (mkOpts %s %s %s %s %s) vm_now)"
            % (fn, "true" if p[2] == "1" else "false", key, fa, _vm_store(p[11]), _vm_str(p[5]), _vm_odesc(p[6]),
               _vm_list(p[7]), _vm_ann(p[8]), _vm_odesc(p[9]), _vm_ann(p[10])))
    if o[0] == "ERR":
        e = {"unsupported": "EUnsupported", "invalid-media-type": "EInvalidMediaType", "missing-artifact-type": "EMissingArtifactType",
             "invalid-datetime": "EInvalidDateTime", "storage-error": "EInjected"}[o[1]]
        return "vm_view %s = (VErr %s, %s)" % (call, e, _vm_events(o[3]))
    mt, at, ann = o[1].split(":")
    f = dict(t.split("=", 1) for t in o[2:8])
    res = "(VOk %s %s %s %s %s %s %s %s %s %s (%s)%%Z)" % (_vm_str(mt), _vm_str(at), _vm_ann(ann), {"I": "KImage", "A": "KArtifact"}[f["kind"]],
                                             _vm_odesc(f["cfg"]), _vm_list(f["layers"]), _vm_odesc(f["subj"]), _vm_str(f["at"]),
                                             _vm_ann(f["ann"]), _vm_str(o[13]), o[11])
    return "vm_view %s = (%s, %s)" % (call, res, _vm_events(o[9]))


def _c19_vm_sample(d, tier, coq, build):
    import os, subprocess, collections
    quota = {"K": 250, "M": 120, "T": 120, "U": 60, "L": 60, "J": 60, "B": 40, "F": 40, "S": 12, "A": 30, "D": 30} if tier == "thorough" else {"K": 30, "M": 15, "T": 15, "U": 10, "L": 10, "J": 10, "B": 5, "F": 5, "S": 3, "A": 5, "D": 5}
    outs = {}
    with open(os.path.join(d, "model.txt")) as f:
        for l in f:
            i, _, o = l.rstrip("\n").partition(" ")
            outs[i] = o
    total = collections.Counter()
    with open(os.path.join(d, "cases.txt")) as f:
        for l in f:
            c = l.split(" ", 2)
            if len(c) > 1 and len(l) <= 12000:
                total[c[1]] += 1
    got, stride, goals = collections.Counter(), collections.Counter(), []
    with open(os.path.join(d, "cases.txt")) as f:
        for l in f:
            i, _, c = l.rstrip("\n").partition(" ")
            k = c.split(" ", 1)[0]
            if k not in quota or got[k] >= quota[k] or len(l) > 12000 or i not in outs:
                continue
            stride[k] += 1
            if (stride[k] - 1) % max(1, total[k] // quota[k]) != 0:
                continue
            g = _vm_goal(c, outs[i])
            if g:
                got[k] += 1
                goals.append((i, g))
    vdir = os.path.join(build, "vm")
    os.makedirs(vdir, exist_ok=True)
    vf = os.path.join(vdir, "C19_cases.v")
    with open(vf, "w") as f:
        f.write(_VM_PRELUDE)
        for i, g in goals:
            f.write("\n(* %s *)\nGoal %s.\nProof. vm_compute. reflexivity. Qed.\n" % (i, g))
    p = subprocess.run(["coqc", "-R", coq, "Oras", "-w", "-notation-overridden", vf], cwd=vdir, timeout=1500,
                       stdout=subprocess.PIPE, stderr=subprocess.STDOUT, text=True)
    with open(os.path.join(d, "vm_sample.txt"), "w") as f:
        f.write("%d goals %s rc=%d\n%s" % (len(goals), dict(got), p.returncode, p.stdout[-3000:]))
    if p.returncode != 0:
        return ["vm_compute re-evaluation of %d sampled cases inside Coq disagrees with the extracted runner (or does not type-check): %s"
                % (len(goals), p.stdout[-1200:])]
    if len(goals) < sum(quota.values()) // 2:
        return ["vm_compute sample too small: %d goals" % len(goals)]
    return []


CONFIG = {
    "properties_file": "Properties/C19.v",
    "proof_files": ["Base/Prelude.v", "Base/Regex.v", "Base/StrCheck.v", "Proofs/Pack.v", "Proofs/PackTime.v", "Proofs/PackJson.v", "Proofs/PackTie.v", "Proofs/PackEnc.v", "Proofs/PackNum.v"],
    "model_files": ["Generated/GC19.v", "Model/Pack.v", "Model/PackEnc.v", "Model/PackSha.v"],
    "extract": "XC19.v",
    "ml_main": "c19_main.ml",
    "harness": "c19",
    "case_to_replay": _c19_case,
    "post_model": _c19_vm_sample,
    "assumptions": [
        "json.Marshal of the manifest documents IS MODELLED: Model/PackEnc.v json_manifest (struct field order and omitempty of ocispec.Manifest / Descriptor / Platform and spec.Artifact -- the tags are re-read by the translator, kind jsontags, from the repository and from image-spec in the module cache --, appendString escaping incl. HTML-safe set, U+2028/9 and coercion of invalid UTF-8, map keys sorted bytewise, int64 decimal, []byte in base64); it is compared byte for byte with the stored manifest on every successful call and with json.Marshal / base64 on random strings (case kinds J, B). The theorems keep marshal as a parameter (they hold for any marshalling); C19_json_marshal_order_independent, C19_annotation_order_independent_json, C19_json_string_roundtrip and C19_json_string_injective_on_valid_utf8 are about the modelled one",
        "READING BACK a whole manifest (encoding/json Unmarshal of the document) is still the named premise json_roundtrip of C19_stored_parses: unmarshal (marshal m) = Some (san_manifest m); it is a theorem for strings (json_unesc (json_esc s) = Some (utf8_san s)) and for the annotations object (C19_json_annotations_roundtrip: read_obj (json_ann l ++ rest) = Some (san_ann (kv_sort l), rest); compared with encoding/json's Marshal and ordered decoding on random maps, case kind A), and for the head of the manifest document (C19_document_declares_media_type / _artifact_type: the mediaType and artifactType fields read from json_manifest m; the model's readers are run on the implementation's stored bytes against encoding/json, case kind D; C19_stored_document_declares: the stored document declares the returned descriptor's media type), for decimal numbers (C19_json_number_roundtrip) and for the head of the config descriptor of an image manifest (C19_document_declares_config: media type, digest, size; the model's reader runs on the implementation's stored bytes, case kind D), not for the whole document (layers, subject, urls/data/platform of descriptors are written by the model but not read back); the harness re-parses the stored bytes with encoding/json and compares the document field by field; strings that are not valid UTF-8 are generated for annotation keys/values, config annotations, artifactType and inside caller-supplied descriptors (media type, annotations, urls, artifactType) -- known finding non-utf8-lossy; keys colliding after coercion are not generated",
        "the digest function is a parameter H with the single hypothesis H \"{}\" = sha256:44136f...; collision-freeness of H is an explicit premise of the clauses that conclude equality of stored bytes; digest.FromBytes (SHA-256) has an executable model (Model/PackSha.v digest_of, compared with go-digest on random strings, case kind S, and with the descriptor digest of a 1/40 sample of the pack calls); it satisfies the hypothesis by computation (C19_sha256_of_empty_json) and the theorems instantiate to the fully executable model (C19_executable_instance_consistent); collision-freeness of SHA-256 is of course not proved",
        "C19_annotation_order_independent keeps the premise marshal_perm for an arbitrary marshal; for the modelled json.Marshal it is the theorem C19_json_marshal_order_independent (canonical insertion sort by strings.Compare order, keys distinct); the harness re-inserts annotations in reverse order into maps of another capacity on every successful call and walks the raw stored JSON for sorted keys",
        "the validation of a caller-supplied created value is modelled as the code is written: time.Parse(time.RFC3339, _) = the lenient recogniser rfc3339_gen false (step-by-step mirror of time.parse of go1.26.8 for that layout; compared with the real time.Parse on every run, case kind L), followed by the explicit strict checks of validateRFC3339 re-read by the translator (kind strictchecks); proved equal to the strict recogniser and to the RFC 3339 section 5.6 grammar with upper-case T/Z and no leap second; all indices in range",
        "time.Now().UTC().Format(time.RFC3339) is modelled on the broken-down UTC time (format_rfc3339_utc; compared with time.Format on every run, case kind F) and proved to pass the validation for every valid civil time before the year 10000 (C19_clock_value_accepted); the conversion of the clock reading to a civil time is the Go runtime's (parameter: any y mo d h mi s with civil_ok); the harness checks the generated value parses, ends in Z (local zone set to +03:30) and lies within the call",
        "Go regexp semantics for the ASCII-only, fully anchored mediaTypeRegexp = Base/Regex.v Lang (proved equal to the derivative matcher)",
        "the target is modelled as a content store keyed by digest (OCI layout), by media type+digest+size (memory), by digest within the manifest/blob namespace (registry) or as a file store created by file.New with default options (a descriptor with a title annotation is a named file: found by digest once its name is taken, refused with ErrDuplicateName when the name is taken at Push; unnamed content lives in the full-key fallback; NOT modelled / not generated: Store.IgnoreNoName (pushed unnamed content is dropped), the io.deis.oras.content.unpack annotation, DisableOverwrite/AllowPathTraversalOnWrite), optionally implementing Exists, possibly pre-filled, with at most one injected failing storage operation in a call or history (any of five error classes) besides the file store's own refusal of a taken name; every other target keeps what is pushed; stores verify pushed content, which the model omits because every push of Pack is proved content-consistent",
        "the order of validations, storage operations and the created step inside every function of pack.go (kind callseq, C19_call_order_as_in_source) and every decision of those functions as source text (kind ifconds, C19_decisions_as_in_source) are re-read by the translator and pinned by lemmas; constants of image-spec v1.1.1 (media types, annotation keys, DescriptorEmptyJSON) and defaultManifestMediaTypes are hand-written in the model and tied by the correspondence run; the oras-go constants and mediaTypeRegexp are regenerated from pack.go / internal/spec/artifact.go",
        "'the result can be copied': proved in the form C19_closed / C19_closed_when_supplied_present (with the caller's descriptors present, the new manifest and all its successors answer Exists); oras.CopyGraph itself is the harness oracle (run when every caller-supplied descriptor is backed; not judged when the caller types the invented config as a manifest media type, a caller inconsistency); the registry target is a minimal in-process distribution endpoint (validates manifests only when everything is backed, referrers API reported as supported)",
    ],
    "level_text": "Coq theorems for all inputs: mediaTypeRegexp (re-translated from pack.go on every run) = RFC 6838 restricted-name/restricted-name; every run of the four packers over any target (key discipline, Exists or not, any prior content, any single storage fault) has one of five outcomes; PackManifest's rejections (invalid media type, subject under v1.0, missing artifact type, unknown version) leave the state untouched (Pack rejects nothing: stated as a deviation); the created validation accepts exactly the RFC 3339 date-times with upper-case T/Z and no leap second, so a created value that is not RFC 3339 gives an error with no manifest push and only the blob {} added (the pre-fix validation, time.Parse alone, is refuted by a witness); on success the manifest equals the requested document with the documented placeholders and a parsing created annotation, the descriptor is digest/size/media type of the marshalled bytes and is stored, every invented blob is stored with content {}, every successor is caller-supplied or stored, content-addressed stores stay so, a fixed created annotation makes descriptor and manifest independent of target, clock and faults and of the order in which annotations are listed (a theorem for the modelled json.Marshal: byte-exact executable model of the encoder, canonical key sorting, string round trip); the storage operations of every call are only Exists/Push of {} for invented descriptors followed by the manifest push; repeating a successful call on a content-addressed target changes nothing (refuted for the file store); over any history of calls stores stay content-addressed and earlier results stay; the clock's created value always passes the validation; rejections return exactly the error the source order gives; on a healthy target the input alone classifies the outcome and a valid input always succeeds; the annotations object reads back as requested (coerced, key-sorted); the stored document declares the returned media type and the requested artifact type; on healthy targets the results of a history are functions of the calls alone, so the order of the calls is irrelevant",
    "level_note": "DEVIATIONS: (1) the rejection clauses hold for PackManifest only -- Pack (deprecated) validates nothing and accepts any string as media type (C19_pack_rejects_nothing_deviation, C19_pack_accepts_invalid_media_type_deviation); for v1.0 with a ConfigDescriptor an invalid artifactType is ignored as documented; (2) known finding non-utf8-lossy: strings that are not valid UTF-8 are coerced by json.Marshal, so 'exactly the requested annotations' and, for Pack, 'can be copied' fail (C19_lossy_json_refuted); the parse clause is C19_stored_parses under the named premise json_roundtrip. ORACLE-ONLY: oras.CopyGraph itself (run when every caller-supplied descriptor is backed; not judged when the caller types the invented config as a manifest); proved instead: C19_closed and C19_closed_when_supplied_present (manifest and all successors answer Exists when the caller's descriptors are present). json.Marshal is modelled byte-exactly (Model/PackEnc.v) and compared with the stored bytes; reading a whole document back is the named premise json_roundtrip (a theorem for strings); the digest is a parameter of the theorems (H \"{}\" fixed; collision-freeness an explicit premise where bytes are compared) with an executable SHA-256 instance compared with the implementation; the created validation = lenient time.Parse mirror (compared with time.Parse every run) + checks translated from pack.go, proved = RFC 3339 subset; image-spec constants hand-written; targets: memory, OCI layout, file store (file.New defaults, titled descriptors included), remote.Repository over an in-process distribution endpoint; the storage-failure model is one failing operation of any error class plus the file store's ErrDuplicateName",
    "technique": "machine-checked proof in Coq + translator-regenerated definitions + model/implementation correspondence",
    "explanation": "theorems over all inputs, targets, prior contents and single storage faults about the model of pack.go whose regex/constants are regenerated from the source; differential run of model vs PackManifest/Pack over recording memory/OCI/file targets, exhaustive small-alphabet + boundary + mutated media types and timestamps against validateMediaType and validateRFC3339 (both through PackManifest) and against time.Parse alone; byte strings against json's UTF-8 coercion, json string escaping and base64; stored manifest bytes and descriptor size against the modelled encoder; civil times against time.Format; two-call and chained multi-call histories against the model, chains re-run in reverse order on a fresh store (results equal call for call); enumerated faults of five error classes on all four target kinds; coverage floors; independent oracle: RFC 6838 recogniser, stored bytes re-fetched, re-hashed and re-parsed against the generator's ground truth, invented blobs fetched, CopyGraph into an empty store, repeat calls for determinism, no push on rejection",
}
