"""C19 configuration (loaded by bin/props.py; `unhex` is provided)."""


def _c19_case(c):
    p = c.split(" ")
    if p[0] in ("M", "T"):
        return {"op": p[0], "hex": p[1]}
    if p[0] == "K":
        return {"op": "K", "spec": unhex(p[-1]).encode("latin-1").decode("utf-8")}
    return {"raw": c}


CONFIG = {
    "properties_file": "Properties/C19.v",
    "proof_files": ["Base/Prelude.v", "Base/Regex.v", "Proofs/Pack.v"],
    "model_files": ["Generated/GC19.v", "Model/Pack.v"],
    "extract": "XC19.v",
    "ml_main": "c19_main.ml",
    "harness": "c19",
    "case_to_replay": _c19_case,
    "assumptions": [],
    "level_text": "",
    "level_note": "",
    "technique": "machine-checked proof in Coq + translator-regenerated definitions + model/implementation correspondence",
    "explanation": "",
}
