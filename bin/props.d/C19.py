"""C19 configuration (loaded by bin/props.py; `unhex` is provided)."""


def _c19_case(c):
    p = c.split(" ")
    if p[0] in ("M", "T"):
        return {"op": p[0], "hex": p[1]}
    if p[0] == "K":
        return {"op": "K", "spec": unhex(p[-1]).encode("latin-1").decode("utf-8")}
    return {"raw": c}


CONFIG = {
    "properties_file": "Properties/C19.v",
    "proof_files": ["Base/Prelude.v", "Base/Regex.v", "Base/StrCheck.v", "Proofs/Pack.v", "Proofs/PackTime.v"],
    "model_files": ["Generated/GC19.v", "Model/Pack.v"],
    "extract": "XC19.v",
    "ml_main": "c19_main.ml",
    "harness": "c19",
    "case_to_replay": _c19_case,
    "assumptions": [
        "json.Marshal of the manifest document is a parameter (marshal : manifest -> str); the model's manifest record is the JSON-level document after omitempty; the harness re-parses the stored bytes with encoding/json and compares the document field by field",
        "the digest function is a parameter H with the single hypothesis H \"{}\" = sha256:44136f...; collision-freeness of H is an explicit premise of the clauses that conclude equality of stored bytes",
        "the validation of a caller-supplied created value (time.Parse(time.RFC3339, _) followed by the explicit strict checks added by the fix of finding created-lenient) is modelled by the recogniser rfc3339_ok, proved equal to the RFC 3339 section 5.6 grammar with upper-case T/Z and no leap second; every disagreement with the real code (observed through PackManifest, go1.26.8 time package) is a correspondence failure; time.Now().UTC().Format(RFC3339) is the parameter `now` (the harness checks the generated value parses and lies within the call)",
        "Go regexp semantics for the ASCII-only, fully anchored mediaTypeRegexp = Base/Regex.v Lang (proved equal to the derivative matcher)",
        "the target is modelled as a content store keyed by digest (OCI layout), by media type+digest+size (memory, file-store fallback) or by digest within the manifest/blob namespace (registry), optionally implementing Exists, possibly pre-filled, with at most one injected failing storage operation; stores verify pushed content, which the model omits because every push of Pack is proved content-consistent (C19_store_stays_content_addressed)",
        "constants of image-spec v1.1.1 (media types, annotation key, DescriptorEmptyJSON) are hand-written in the model and tied by the correspondence run; the oras-go constants and mediaTypeRegexp are regenerated from pack.go / internal/spec/artifact.go",
        "a config blob whose caller-chosen media type is itself a manifest media type (artifactType = application/vnd.oci.image.manifest.v1+json under v1.0 / Pack) is present in the target but is walked as a manifest by CopyGraph; the copy oracle does not judge such calls (caller inconsistency); the registry target is a minimal in-process distribution endpoint (no manifest validation, referrers API reported as supported)",
    ],
    "level_text": "Coq theorems for all inputs: mediaTypeRegexp (re-translated from pack.go on every run) = RFC 6838 restricted-name/restricted-name; every run of the four packers over any target (key discipline, Exists or not, any prior content, any single storage fault) has one of five outcomes; rejections (invalid media type, subject under v1.0, missing artifact type, unknown version) leave the state untouched; the created validation accepts exactly the RFC 3339 date-times with upper-case T/Z and no leap second, so a created value that is not RFC 3339 gives an error with no manifest push and only the blob {} added (the pre-fix validation, time.Parse alone, is refuted by a witness); on success the manifest equals the requested document with the documented placeholders and a parsing created annotation, the descriptor is digest/size/media type of the marshalled bytes and is stored, every invented blob is stored with content {}, every successor is caller-supplied or stored, content-addressed stores stay so, and a fixed created annotation makes descriptor and manifest independent of target, clock and faults",
    "level_note": "json.Marshal and the digest are parameters (H \"{}\" fixed; collision-freeness an explicit premise where bytes are compared); the created validation is modelled by a recogniser (proved = RFC 3339 subset) validated against the real code on every run; image-spec constants hand-written; targets: memory, OCI layout, file store, remote.Repository over an in-process distribution endpoint; calls that type the invented config as a manifest are not judged by the copy oracle",
    "technique": "machine-checked proof in Coq + translator-regenerated definitions + model/implementation correspondence",
    "explanation": "theorems over all inputs, targets, prior contents and single storage faults about the model of pack.go whose regex/constants are regenerated from the source; differential run of model vs PackManifest/Pack over recording memory/OCI/file targets, exhaustive small-alphabet + boundary + mutated media types and timestamps against validateMediaType (through PackManifest) and time.Parse; independent oracle: RFC 6838 recogniser, stored bytes re-fetched, re-hashed and re-parsed against the generator's ground truth, invented blobs fetched, CopyGraph into an empty store, repeat calls for determinism, no push on rejection",
}
