"""C17 configuration (loaded by bin/props.py; `unhex` is provided)."""
from binascii import hexlify as _hexlify


def _c17_out(s):
    if s in ("TO", "ER"):
        return {"kind": s, "read": -1, "lat": 0}
    if s[0] == "E":
        return {"kind": "E", "err": s.split(":", 1)[1], "read": -1, "lat": 0}
    code, ra, chal = s[1:].split(":")
    return {"kind": "S", "code": int(code), "retry_after": unhex(ra), "chal": int(chal), "read": -1, "lat": 0}


def _c17_ints(s):
    return [] if s == "-" else [int(x) for x in s.split(",")]


def _c17_case(c):
    p = c.split(" ")
    if p[0] in ("T", "A", "W"):
        _, pred, mr, mn, mx, tbl, dflt, cn, kind, data, script, opts = p
        man = ""
        if kind[0] in "Mm":
            man, kind = kind[0], kind[1:]
        opts = [] if opts == "-" else opts.split(",")
        unknown, preauth = "u" in opts, "preauth" in opts
        method = ([o[7:] for o in opts if o.startswith("method=")] + [""])[0]
        behs = []
        if script != "-":
            for b in script.split(";"):
                o, r, l = b.split("/")
                d = _c17_out(o)
                d["read"] = -1 if r == "*" else int(r)
                d["lat"] = int(l)
                behs.append(d)
        cancel, deadline = -1, False
        if cn != "-":
            t, k = cn.split(":")
            cancel, deadline = int(t), k == "d"
        return {"op": p[0], "pred": "" if pred == "-" else pred, "max_retry": int(mr), "min": int(mn), "max": int(mx), "tbl": _c17_ints(tbl), "dflt": int(dflt),
                "cancel": cancel, "deadline": deadline, "body": kind, "manifest": man, "unknown_len": unknown, "method": method, "pre_auth": preauth,
                "data": "" if data == "-" else data, "big_len": 0, "script": behs}
    if p[0] == "D":
        _, pred, mr, mn, mx, tbl, dflt, att, out = p
        return {"op": "D", "which": "P", "pred": "" if pred == "-" else pred, "max_retry": int(mr), "min": int(mn), "max": int(mx), "tbl": _c17_ints(tbl),
                "dflt": int(dflt), "attempt": int(att), "out": _c17_out(out), "fden": 1, "jden": 1}
    if p[0] == "B":
        _, which, mr, mn, mx, base, fn, fd, jn, jd, att, out, seen = p
        return {"op": "B", "which": which, "max_retry": int(mr), "min": int(mn), "max": int(mx), "base": int(base),
                "fnum": int(fn), "fden": int(fd), "jnum": int(jn), "jden": int(jd), "attempt": int(att), "out": _c17_out(out)}
    return {"raw": c}


CONFIG = {
    "properties_file": "Properties/C17.v",
    "proof_files": ["Base/Prelude.v", "Proofs/Retry.v"],
    "model_files": ["Generated/GC17.v", "Model/Retry.v"],
    "extract": "XC17.v",
    "ml_main": "c17_main.ml",
    "harness": "c17",
    "harness_test": True,
    "case_to_replay": _c17_case,
    "assumptions": [
        "float64 arithmetic of ExponentialBackoff (math.Pow, products, float64->int64 conversion) is modelled with exact rationals; out-of-range conversions are an arbitrary function parameter (oob) of the theorems, the random source rand.Int64N an arbitrary function (rnd); the correspondence accepts observed pauses within a 1e-9 relative rounding allowance and leaves points within that allowance of a decision boundary unjudged",
        "strconv.ParseInt(s, 10, 64) is hand-modelled (parse_int64: sign, decimal digits, saturation on range errors, 0 on syntax errors) and compared with the implementation on a pool of Retry-After values",
        "net/http: http.Client.Do passes the request to the RoundTripper unchanged for the status codes used (no 3xx), Request.Clone shares Body and GetBody, NewRequest installs GetBody for *bytes.Reader; url.Error unwrapping; context.DeadlineExceeded is a net.Error with Timeout()=true",
        "the auth client is modelled as far as re-sending goes: first send; on 401 with a Basic/Bearer challenge rewind and re-send (empty token cache), or re-send with the cached token and, if refused, once more with a fresh token (warm Bearer cache); token fetches are served at once by the scripted transport and are not part of the trace; credential, scope and cache logic is C16's",
        "a float64 below -2^63 does not convert to a positive int64 (true on amd64/arm64); hypothesis of the acceptor-completeness theorem only",
        "timing: the scripted base transport reads the body at once and then waits its latency on the fake clock of testing/synctest; the context never ends at the same instant as a timer (cancel instants odd, all other instants even), so the select in Transport.RoundTrip is deterministic in every generated case",
        "manifestStore.push buffering is modelled as 'a one-shot body becomes replayable iff the client is *auth.Client' and exercised with a non-indexed manifest media type; the digest/size verification of cas.Memory is C05's",
    ],
    "level_text": "Coq theorems for every script of server behaviours, body kind/size, policy parameter set, attempt number and cancellation instant: each send makes between 1 and MaxRetry+1 attempts; every pause GenericPolicy.Retry computes and every pause the transport makes lies in [MinWait, MaxWait] (Retry-After on 429 honoured within them); a non-retryable answer is returned after exactly one attempt; on every attempt of the retry transport and of the auth client's re-send the registry receives exactly the prefix it reads of the complete original body (the whole body when it reads to the end); a body without a working GetBody is sent once and the call ends with that answer (transport) or the rewind error (auth client); no attempt starts after the context ended and a context ending during a pause ends the call with the context's error at that instant; ExponentialBackoff is total on the current source (refuted with a witness for the original source, defect F7, fixed). The model is tied to the code by regenerated constants (DefaultPolicy numbers, DefaultPredicate status branch, jitter guard), by a correspondence run of real retry.Transport / auth.Client / Repository manifest push over a scripted transport under synctest's fake clock (exact attempt instants, per-attempt received bytes), and by an independent oracle.",
    "level_note": "float64 arithmetic and the random jitter of ExponentialBackoff are modelled with exact rationals and an acceptor with rounding allowance; auth client modelled only as far as re-sending goes (cold cache, warm Bearer cache); net/http client plumbing, strconv.ParseInt and synctest are trusted/hand-modelled (see assumptions)",
    "technique": "machine-checked proof in Coq (loop invariants over the retry loop as a transition function; universal statements over policies, scripts, bodies, cancellation instants) + translator-regenerated constants/decision branch + model/implementation correspondence under testing/synctest fake time + independent oracle",
    "explanation": "theorems about Model/Retry.v (GenericPolicy.Retry, DefaultPredicate, ExponentialBackoff, Transport.RoundTrip loop as a transition function, auth.Client.Do re-sends for a cold and a warm Bearer token cache, manifest push buffering); harness under testing/synctest fake time: exhaustive behaviour sequences (length <= 3 quick / 5 thorough) x body kinds x three stacks, every odd cancellation instant of small scripts (cancel and deadline), random scripts with partial body reads, latencies, Retry-After values, GetBody failures, unknown Content-Length, several methods, preset Authorization, bodies up to 1 MiB (oracle only), retry.DefaultPolicy end to end (oracle only), manifest pushes with one-shot readers through auth and plain clients, and a sweep of policy decision points (attempt 0..80, backoff, factor, jitter incl. 0/negative/tiny, bounds incl. extreme, Retry-After incl. huge/garbage) judged by an acceptor proved complete for the model; oracle clauses: body-truncated, too-many-attempts, pause-bounds, nonretryable-retried, oneshot-resent, cancel-ignored/late/result, wrong-result, backoff-panic, maxretry-ignored, retry-after",
}
