"""C17 configuration (loaded by bin/props.py; `unhex` is provided)."""
from binascii import hexlify as _hexlify


def _c17_out(s):
    if s in ("TO", "ER"):
        return {"kind": s, "read": -1, "lat": 0}
    if s[0] == "E":
        return {"kind": "E", "err": s.split(":", 1)[1], "read": -1, "lat": 0}
    code, ra, chal = s[1:].split(":")
    return {"kind": "S", "code": int(code), "retry_after": unhex(ra), "chal": int(chal), "read": -1, "lat": 0}


def _c17_ints(s):
    return [] if s == "-" else [int(x) for x in s.split(",")]


def _c17_case(c):
    p = c.split(" ")
    if p[0] in ("T", "A", "W", "w", "V", "U", "u", "X", "Q", "Y", "y", "Z"):
        tok = None
        if p[0] in ("Q", "Z", "w"):
            tok, p = p[-2:], p[:-2]
        _, pred, mr, mn, mx, tbl, dflt, cn, kind, data, script, opts = p
        man = ""
        if kind[0] in "MmIi":
            man, kind = kind[0], kind[1:]
        opts = [] if opts == "-" else opts.split(",")
        unknown, preauth = "u" in opts, "preauth" in opts
        method = ([o[7:] for o in opts if o.startswith("method=")] + [""])[0]
        behs = []
        if script != "-":
            for b in script.split(";"):
                o, r, l = b.split("/")
                d = _c17_out(o)
                d["read"] = -1 if r == "*" else int(r)
                d["lat"] = int(l)
                behs.append(d)
        cancel, deadline = -1, False
        if cn != "-":
            t, k = cn.split(":")
            cancel, deadline = int(t), k == "d"
        extra = {}
        if tok:
            tbehs = []
            if tok[1] != "-":
                for b in tok[1].split(";"):
                    o, r, l = b.split("/")
                    d = _c17_out(o)
                    d["read"] = -1 if r == "*" else int(r)
                    d["lat"] = int(l)
                    tbehs.append(d)
            extra = {"token_post": tok[0][0] == "P", "token_script": tbehs}
        return {**extra, "op": p[0], "pred": "" if pred == "-" else pred, "max_retry": int(mr), "min": int(mn), "max": int(mx), "tbl": _c17_ints(tbl), "dflt": int(dflt),
                "cancel": cancel, "deadline": deadline, "body": kind, "manifest": man, "unknown_len": unknown, "method": method, "pre_auth": preauth,
                "data": "" if data == "-" else data, "big_len": 0, "script": behs}
    if p[0] == "I":
        return {"op": "I", "input": unhex(p[1])}
    if p[0] == "D":
        _, pred, mr, mn, mx, tbl, dflt, att, out = p
        return {"op": "D", "which": "P", "pred": "" if pred == "-" else pred, "max_retry": int(mr), "min": int(mn), "max": int(mx), "tbl": _c17_ints(tbl),
                "dflt": int(dflt), "attempt": int(att), "out": _c17_out(out), "fden": 1, "jden": 1}
    if p[0] == "B":
        _, which, mr, mn, mx, base, fn, fd, jn, jd, att, out, seen = p
        return {"op": "B", "which": which, "max_retry": int(mr), "min": int(mn), "max": int(mx), "base": int(base),
                "fnum": int(fn), "fden": int(fd), "jnum": int(jn), "jden": int(jd), "attempt": int(att), "out": _c17_out(out)}
    return {"raw": c}



# ---- in-Coq re-evaluation of a sample (thorough tier): cross-checks extraction + OCaml driver ----

_VM_PRELUDE = """From Coq Require Import QArith.
From Oras Require Import Base.Prelude Base.RetryTypes Generated.GC17 Model.Retry Proofs.Retry.
Open Scope Z_scope.
Inductive rshow := SResp (c : Z) | STok (c : Z) | SErr (a b c : bool) | SPred | SCtx | SPanic | SNotRew | SGetBody | SFuel.
Definition show_res (r : result) : rshow :=
  match r with
  | RResp c _ => SResp c | RTokenResp c => STok c | RErr a b c => SErr a b c | RPredErr => SPred | RCtx => SCtx | RPanic => SPanic
  | RNotRewindable => SNotRew | RGetBodyFailed => SGetBody | RFuel => SFuel
  end.
Definition show_atts (orig : str) (tr : list event) : list (Z * option nat) :=
  map (fun a => (fst a, if is_prefix (snd a) orig then Some (length (snd a)) else None)) (attempts tr).
Definition show_T (orig : str) (o : rt_out) := (show_res (o_res o), o_time o, show_atts orig (o_trace o)).
Definition show_K (orig form : str) (a : authk_out) :=
  (show_res (ak_res a), ak_time a, show_atts orig (ak_first a), show_atts form (ak_token a), show_atts orig (ak_second a)).
Definition show_la (orig : str) (l : list (Z * str)) : list (Z * option nat) :=
  map (fun a => (fst a, if is_prefix (snd a) orig then Some (length (snd a)) else None)) l.
Definition show_Z (orig form : str) (u : pushk_out) :=
  (show_res (uk_res u), uk_time u,
   show_atts [] (ak_first (uk_post u)), show_atts [] (ak_second (uk_post u)),
   match uk_put u with Some a => show_atts orig (ak_first a) | None => [] end,
   match uk_put u with Some a => show_atts orig (ak_second a) | None => [] end,
   show_la form (attempts (ak_token (uk_post u)) ++ match uk_put u with Some a => attempts (ak_token a) | None => [] end)).
Definition show_A (orig : str) (a : auth_out) :=
  (show_res (a_res a), a_time a, show_atts orig (a_first a), show_atts orig (a_second a), show_atts orig (a_third a)).
"""


def _z(x):
    return "(%d)%%Z" % int(x)


def _bytes(h):
    if h in ("-", ""):
        return "[]"
    return "[" + "; ".join("%d%%N" % b for b in bytes.fromhex(h)) + "]"


def _rule(c):
    return {"R": "PRetry", "S": "PStop", "F": "PFail"}[c]


def _vm_pred(s):
    if s == "-":
        return "default_predicate"
    tbl, d, e = s.split(";")
    ents = [] if tbl in ("-", "") else ["(%s, %s)" % (_z(x[:-1]), _rule(x[-1])) for x in tbl.split(",")]
    return "(custom_predicate [%s] %s %s)" % ("; ".join(ents), _rule(d[1]), _rule(e[1]))


def _vm_out(s):
    if s == "TO":
        return "(OErr true true true)"
    if s == "ER":
        return "(OErr false false false)"
    if s[0] == "E":
        return "(OErr %s %s %s)" % tuple("true" if c == "1" else "false" for c in s[1:4])
    code, ra, chal = s[1:].split(":")
    return "(OStatus %s %s %s%%N)" % (_z(code), _bytes(ra), chal)


def _vm_atts(s):
    if s == "-":
        return "[]"
    out = []
    for a in s.split(","):
        t, k = a.split(":")
        out.append("(%s, %s)" % (_z(t), "None" if k == "BAD" else "Some %s%%nat" % k))
    return "[" + "; ".join(out) + "]"


def _vm_res(s):
    if s.startswith("RESP"):
        return "SResp %s" % _z(s[4:])
    if s.startswith("ETOKEN"):
        return "STok %s" % _z(s[6:])
    if s.startswith("EERR"):
        return "SErr %s %s %s" % tuple("true" if c == "1" else "false" for c in s[4:7])
    return {"EPRED": "SPred", "ECTX": "SCtx", "PANIC": "SPanic", "ENOTREWINDABLE": "SNotRew", "EGETBODY": "SGetBody", "FUEL": "SFuel"}[s]


def _vm_goal(c, o):
    p = c.split(" ")
    tok = None
    if p[0] in ("Q", "Z"):
        tok, p = p[-2:], p[:-2]
    if p[0] in ("T", "A", "W", "V", "Q", "Z"):
        _, pred, mr, mn, mx, tbl, dflt, cn, kind, data, script, _opts = p
        pol = "(table_policy %s %s %s %s [%s] %s)" % (_vm_pred(pred), _z(mr), _z(mn), _z(mx),
                                                     "; ".join(_z(x) for x in _c17_ints(tbl)), _z(dflt))
        man = None
        if kind[0] in "Ii":
            return None
        if kind[0] in "Mm":
            man, kind = kind[0] == "M", kind[1:]
        bk = {"N": "KNone", "B": "KNoBody", "R": "KReplay", "O": "KOneShot"}.get(kind[0]) or "(KGetBodyErr %s%%nat)" % kind[1:]
        bd = "(mkBody %s %s)" % (bk, _bytes(data))
        if man is not None:
            bd = "(manifest_push_body %s %s)" % ("true" if man else "false", bd)
        behs = []
        if script != "-":
            for b in script.split(";"):
                oo, r, l = b.split("/")
                behs.append("mkBeh %s %s %s" % (_vm_out(oo), "None" if r == "*" else "(Some %s%%nat)" % r, _z(l)))
        sc = "[" + "; ".join(behs) + "]"
        cancel = "None"
        if cn != "-":
            t, k = cn.split(":")
            cancel = "(Some (%s, %s))" % (_z(t), "true" if k == "d" else "false")
        f = dict(x.split("=") for x in o.split(" ")[1:])
        res = _vm_res(o.split(" ")[0])
        if tok:
            tb = "(mkBody KNone [])" if tok[0] == "G" else "(mkBody KReplay %s)" % _bytes(tok[0][1:])
            tbehs = []
            if tok[1] != "-":
                for b in tok[1].split(";"):
                    oo, r, l = b.split("/")
                    tbehs.append("mkBeh %s %s %s" % (_vm_out(oo), "None" if r == "*" else "(Some %s%%nat)" % r, _z(l)))
            tsc = "[" + "; ".join(tbehs) + "]"
            if p[0] == "Q":
                return "let bd := %s in let tb := %s in show_K (bdata bd) (bdata tb) (auth_do_tok %s %s bd %s tb %s) = (%s, %s, %s, %s, %s)" % (
                    bd, tb, pol, cancel, sc, tsc, res, _z(f["end"]), _vm_atts(f["first"]), _vm_atts(f["token"]), _vm_atts(f["second"]))
            po, pu = f["post"].split("|"), f["put"].split("|")
            return "let bd := %s in let tb := %s in show_Z (bdata bd) (bdata tb) (blob_push_tok true %s %s bd %s tb %s) = (%s, %s, %s, %s, %s, %s, %s)" % (
                bd, tb, pol, cancel, sc, tsc, res, _z(f["end"]), _vm_atts(po[0]), _vm_atts(po[1]), _vm_atts(pu[0]), _vm_atts(pu[1]), _vm_atts(f["tok"]))
        if p[0] == "T":
            return "let bd := %s in show_T (bdata bd) (round_trip %s %s bd (init_state bd) %s 0) = (%s, %s, %s)" % (
                bd, pol, cancel, sc, res, _z(f["end"]), _vm_atts(f["first"]))
        return "let bd := %s in show_A (bdata bd) (auth_do %s %s %s bd %s) = (%s, %s, %s, %s, %s)" % (
            bd, "true" if p[0] == "W" else "false", pol, cancel, sc, res, _z(f["end"]),
            _vm_atts(f["first"]), _vm_atts(f["second"]), _vm_atts(f["third"]))
    if p[0] == "D":
        _, pred, mr, mn, mx, tbl, dflt, att, out = p
        pol = "(table_policy %s %s %s %s [%s] %s)" % (_vm_pred(pred), _z(mr), _z(mn), _z(mx),
                                                     "; ".join(_z(x) for x in _c17_ints(tbl)), _z(dflt))
        want = {"STOP": "ODStop", "FAIL": "ODFail", "PANIC": "ODPanic"}.get(o) or "ODWait %s" % _z(o[1:])
        return "project_decision (generic_retry %s %s %s) = %s" % (pol, _z(att), _vm_out(out), want)
    if p[0] == "B":
        _, which, mr, mn, mx, base, fn, fd, jn, jd, att, out, seen = p
        want = {"YES": "VYes", "NO": "VNo", "UNJUDGED": "VUnjudged"}[o]
        sn = {"STOP": "ODStop", "FAIL": "ODFail", "PANIC": "ODPanic"}.get(seen) or "(ODWait %s)" % _z(seen[1:])
        if which == "D":
            return "accept_decision exp_backoff_guarded default_max_retry default_min_wait default_max_wait default_eparams %s %s %s = %s" % (
                _z(att), _vm_out(out), sn, want)
        if int(fd) <= 0 or int(jd) <= 0:
            return None
        return "accept_decision exp_backoff_guarded %s %s %s (mkE %s (%s # %s) (%s # %s)) %s %s %s = %s" % (
            _z(mr), _z(mn), _z(mx), _z(base), fn, fd, jn, jd, _z(att), _vm_out(out), sn, want)
    return None


def _c17_vm_sample(d, tier, coq, build, want=300):
    import os, subprocess, collections
    # thorough: 300 goals; quick: a 60-goal sample (a couple of seconds)
    small = tier != "thorough" and not os.environ.get("VERIF_C17_VM")
    if small:
        want = 60
    outs = {}
    with open(os.path.join(d, "model.txt")) as f:
        for l in f:
            i, _, o = l.rstrip("\n").partition(" ")
            outs[i] = o
    # floor on the model side: the acceptor must judge most of the exponential-backoff points
    nb = sum(1 for l in open(os.path.join(d, "cases.txt")) if l.split(" ", 2)[1:2] == ["B"])
    with open(os.path.join(d, "cases.txt")) as f:
        bids = {l.split(" ", 1)[0] for l in f if l.split(" ", 2)[1:2] == ["B"]}
    unj = sum(1 for i in bids if outs.get(i, "").startswith("UNJUDGED"))
    floor_msgs = []
    if nb and unj * 10 > nb:
        floor_msgs.append("model leaves %d of %d exponential-backoff points unjudged (more than 10%%)" % (unj, nb))
    quota = {"T": 80, "A": 50, "W": 40, "D": 30, "B": 50, "Q": 30, "Z": 20}
    if small:
        quota = {k: v // 5 for k, v in quota.items()}
    total, stride, got = collections.Counter(), collections.Counter(), collections.Counter()
    with open(os.path.join(d, "cases.txt")) as f:
        for l in f:
            c = l.split(" ", 2)
            if len(c) > 1 and len(l) <= 2500:
                total[c[1]] += 1
    goals = []
    with open(os.path.join(d, "cases.txt")) as f:
        for l in f:
            i, _, c = l.rstrip("\n").partition(" ")
            k = c.split(" ", 1)[0]
            if k not in quota or got[k] >= quota[k] or len(l) > 2500 or i not in outs:
                continue
            stride[k] += 1
            if (stride[k] - 1) % max(1, total[k] // quota[k]) != 0:
                continue
            g = _vm_goal(c, outs[i])
            if g:
                got[k] += 1
                goals.append((i, g))
    vdir = os.path.join(build, "vm")
    os.makedirs(vdir, exist_ok=True)
    vf = os.path.join(vdir, "C17_cases.v")
    with open(vf, "w") as f:
        f.write(_VM_PRELUDE)
        for i, g in goals:
            f.write("\n(* %s *)\nGoal %s.\nProof. vm_compute. reflexivity. Qed.\n" % (i, g))
    p = subprocess.run(["coqc", "-R", coq, "Oras", "-w", "-notation-overridden", vf], cwd=vdir, timeout=1500,
                       stdout=subprocess.PIPE, stderr=subprocess.STDOUT, text=True)
    with open(os.path.join(d, "vm_sample.txt"), "w") as f:
        f.write("%d goals %s rc=%d\n%s" % (len(goals), dict(got), p.returncode, p.stdout[-3000:]))
    if p.returncode != 0:
        return ["vm_compute re-evaluation of %d sampled cases inside Coq disagrees with the extracted runner (or does not type-check): %s"
                % (len(goals), p.stdout[-1200:])]
    if len(goals) < want // 2:
        return ["vm_compute sample too small: %d goals" % len(goals)] + floor_msgs
    return floor_msgs


CONFIG = {
    "properties_file": "Properties/C17.v",
    "proof_files": ["Base/Prelude.v", "Proofs/Retry.v", "Proofs/RetryParse.v"],
    "model_files": ["Base/RetryTypes.v", "Generated/GC17.v", "Model/Retry.v"],
    "extract": "XC17.v",
    "ml_main": "c17_main.ml",
    "harness": "c17",
    "harness_test": True,
    "case_to_replay": _c17_case,
    "post_model": _c17_vm_sample,
    "assumptions": [
        "float64 arithmetic of ExponentialBackoff (math.Pow, products, float64->int64 conversion) is modelled with exact rationals; out-of-range conversions are an arbitrary function parameter (oob) of the theorems, the random source rand.Int64N an arbitrary function (rnd); the correspondence accepts observed pauses within a 1e-9 relative rounding allowance and leaves points within that allowance of a decision boundary unjudged",
        "transport errors are modelled by what the error VALUE returned by the base transport reports: implements net.Error?, Timeout(), Temporary() (DefaultPredicate uses a type assertion, not errors.As); the harness returns 19 shapes (plain, custom net.Error with all four flag combinations, *url.Error / *net.OpError / *os.SyscallError / syscall.Errno EMFILE, ENFILE, EINTR, ETIMEDOUT, ECONNREFUSED / *net.DNSError temporary and timeout / fmt-wrapped) and checks at start-up that each value reports the declared flags; the error branch of DefaultPredicate is translated from policy.go (kind errpred); the oracle states the documented rule: only errors whose chain contains a timeout may be retried",
        "custom Retryable predicates (harness and model): a status table, a rule for other statuses and one for transport errors, each retry / stop / fail; a failing predicate returns the transport's error for errors and its own error for responses (model: RPredErr); the theorems hold for every predicate",
        "blobStore.Push is modelled as POST (no body) then, on 202, PUT with the blob; the PUT passes through the auth client unchanged iff the POST's last request carried Authorization (resp.Request as set by the transport); empty token cache; Location handling, digest query and mounting are C13's",
        "strconv.ParseInt(s, 10, 64) is hand-modelled (parse_int64: sign, decimal digits, ParseUint's early return at the point of uint64 overflow, saturation to int64, 0 on syntax errors) and tied to the library by its own correspondence stream (op I: 3000 / 200000 random and boundary strings per run) besides the Retry-After pool",
        "the token request of a Bearer challenge (fetchDistributionToken GET / fetchOAuth2Token POST through the same retrying client) is inside the model for the cold-cache auth client (auth_do_tok, op Q: scripted token service, answers other than 200 end Do with the token service's error, fetch before rewind as in the source); for the cold-cache blob push (blob_push_tok, op Z: the POST's and the PUT's token requests, the token service's script shared between them), for the manifest push through the auth client (op Q with M) and for the warm Bearer cache (auth_do_tokw_at, op w: the fresh token of the third send); in the remaining flows (ops A W V U X Y M I) the token service answers 200 at once -- C17_token_instant_refines proves that the coarser model is the finer one for such a token service; the JSON decoding of the token answer and the Www-Authenticate parsing (parseChallenge) are not modelled (fixed well-formed answers; C16's)",
        "translated from the sources on every run (layer T; a change of shape is reported, a change of content re-checks the proofs): GenericPolicy.Retry statement by statement (retrydecision), both branches of DefaultPredicate (statuspred, errpred), the arithmetic and the Retry-After constants of ExponentialBackoff (backoffexprs) and its jitter guard (guardedcall), the rewind decisions of auth.rewindRequestBody and of Transport.RoundTrip (rewindchain), the ctx.Err() re-check of the pause select (timerctxcheck), the status constants of auth.Client.Do / fetch*Token / blobStore.Push, completePushAfterInitialPost, Mount / manifestStore.push (statuscmps), the DefaultPolicy numbers; hand-written and tied by correspondence + AST-hash anchors (34 functions): the loop of Transport.RoundTrip, the re-send skeleton of auth.Client.Do, blob push / mount / manifest push composition",
        "the net/http facts below are re-checked at the start of every harness run against the toolchain in use (checkLibraryFacts: NewRequest's GetBody/ContentLength for *bytes.Reader, unknown readers, ReadClosers and nil; Clone shares Body and GetBody; context.DeadlineExceeded is a net.Error with Timeout(), context.Canceled is not; Client.Do passes Body/GetBody/ContentLength through)",
        "net/http: http.Client.Do passes the request to the RoundTripper unchanged for the status codes used (no 3xx), Request.Clone shares Body and GetBody, NewRequest installs GetBody for *bytes.Reader; url.Error unwrapping; context.DeadlineExceeded is a net.Error with Timeout()=true",
        "the auth client is modelled as far as re-sending goes: first send; on 401 with a Basic/Bearer challenge rewind and re-send (empty token cache), or re-send with the cached token and, if refused, once more with a fresh token (warm Bearer cache); token fetches are served at once by the scripted transport and are not part of the trace; credential, scope and cache logic is C16's",
        "a float64 below -2^63 does not convert to a positive int64 (true on amd64/arm64); hypothesis of the acceptor-completeness theorem only",
        "Retry-After: only what strconv.ParseInt reads as a positive integer is honoured (delay-seconds, also with a leading '+'); an HTTP-date (the other half of RFC 9110's grammar), padded or fractional values are NOT honoured by the code -- the exponential backoff applies; modelled as written (parse_int64), compared on all these forms; C17_retry_after covers the integer form with n*1e9 < 2^63 (larger values wrap and are clamped like any other backoff)",
        "MinWait > MaxWait (ill-formed policy): the bounds clause is vacuous; the code returns MaxWait (C17_pause_min_gt_max); generated and compared",
        "the acceptor for jittered pauses is proved complete (never rejects a pause the model can produce) and sound up to its allowances (C17_acceptor_sound: an accepted pause is the clamp of the Retry-After delay exactly, or of a value within the float64 rounding allowances tol_a + tol_n of the model's exact range); about 1% of the exponential-backoff points near a float64 decision boundary are left unjudged; the pause bounds themselves are judged exactly by the oracle on every point",
        "an equivalent rewrite of the two syntactic source facts the model follows (jitter guard: n > 0 / n >= 1 / early return are recognised; ctx.Err() re-check in the `case <-timer.C` clause) in another shape flips the generated flag and is reported as a broken proof layer without failing input",
        "timing: the scripted base transport reads the body at once and then waits its latency on the fake clock of testing/synctest; the context never ends at the instant a timer of positive length fires (cancel instants odd, all other instants even); zero-length pauses and contexts that are over before the call are generated: there the timer and ctx.Done are ready together, and the current source (timer case re-checks ctx.Err(), fix 318fd40) ends the call either way; a request whose context has ended is answered by the scripted transport with the context's error at once, as net/http's transport does",
        "manifestStore.push buffering is modelled as 'a one-shot body becomes replayable iff the client is *auth.Client' and exercised with a non-indexed manifest media type; the digest/size verification of cas.Memory is C05's",
    ],
    "level_text": "Coq theorems for every script of server behaviours, body kind/size, policy parameter set, attempt number and cancellation instant: each send makes between 1 and MaxRetry+1 attempts; every pause GenericPolicy.Retry computes and every pause the transport makes lies in [MinWait, MaxWait] (Retry-After on 429 honoured within them); a non-retryable answer (for DefaultPredicate: anything but 408/429/0/5xx and net.Error values reporting Timeout() -- Temporary() alone is not retried; both branches regenerated from policy.go) is returned after exactly one attempt; on every attempt of the retry transport and of the auth client's re-send the registry receives exactly the prefix it reads of the complete original body (the whole body when it reads to the end); a body without a working GetBody is sent once and the call ends with that answer (transport) or the rewind error (auth client); with a context ending at tc every attempt but the first of a send starts strictly before tc, the call is over at tc, and a pause the context ends in (or that starts after it ended: zero pauses, contexts over from the start) ends the call -- transport, auth client (all sends) and blob push -- with the context's error at that instant, without any hypothesis on the policy (defect: the original select could go on attempting after the context ended when the pause was zero; fixed 318fd40); on the whole trace every answer but the last was retryable and the call returns the last answer; Transport.RoundTrip, the whole cold auth stack (first send, token request, re-send) and the whole blob push (POST, PUT, their token requests) -- for every context: never ending, ending at any instant, over before the call (spec_send_c / spec_auth_at_c / spec_authw_at_c / spec_push_c) -- refine stateless specifications (spec_send / spec_auth / spec_push: result, end instant and every attempt's instant and received bytes) for replayable bodies without cancellation; the token request of a Bearer challenge carries its whole form on every attempt, is bounded and cancellable like any send, and its failure ends Do; ExponentialBackoff is total on the current source (refuted with a witness for the original source, defect F7, fixed). The model is tied to the code by regenerated constants (DefaultPolicy numbers, DefaultPredicate status branch, jitter guard), by a correspondence run of real retry.Transport / auth.Client / Repository manifest push over a scripted transport under synctest's fake clock (exact attempt instants, per-attempt received bytes), and by an independent oracle.",
    "level_note": "oracle-only (no theorem, not in the model): headers of re-sent requests (method, URL, Content-Type, Content-Length: clause request-changed), token requests in the warm-cache / blob-push / manifest-push flows (served at once there; modelled for the cold auth client, op Q), net/http's real transport (httptest, 1-8 MiB bodies, answers before the body is read), retry.DefaultPolicy end to end incl. cancellation, bodies over 64 KiB; net.Error classification of Go error values is declared per shape by the harness (self-checked) and abstracted to three booleans in the model; blob push modelled for an empty token cache and for a cache holding the push's own token (X); mount fallback (Y/y) as a blob push with a one-shot PUT; float64 arithmetic and the random jitter of ExponentialBackoff are modelled with exact rationals and an acceptor with rounding allowance; auth client modelled only as far as re-sending goes (cold cache, warm Bearer cache); net/http client plumbing, strconv.ParseInt and synctest are trusted/hand-modelled (see assumptions)",
    "technique": "machine-checked proof in Coq (loop invariants over the retry loop as a transition function; universal statements over policies, scripts, bodies, cancellation instants) + translator-regenerated constants/decision branch + model/implementation correspondence under testing/synctest fake time + independent oracle",
    "explanation": "theorems about Model/Retry.v (GenericPolicy.Retry, DefaultPredicate, ExponentialBackoff, Transport.RoundTrip loop as a transition function, auth.Client.Do re-sends for a cold and a warm Bearer token cache, manifest push buffering); harness under testing/synctest fake time: exhaustive behaviour sequences (length <= 3 quick / 5 thorough) x body kinds x three stacks, every odd cancellation instant of small scripts (cancel and deadline), random scripts with partial body reads, latencies, Retry-After values, GetBody failures, unknown Content-Length, several methods, preset Authorization, bodies up to 1 MiB (oracle only), retry.DefaultPolicy end to end (oracle only), manifest pushes with one-shot readers through auth and plain clients, blob pushes (POST then PUT; exhaustive sequences up to length 4 quick / 6 thorough and random) through auth and plain clients, 19 transport-error shapes with every (net.Error, Timeout, Temporary) combination wrapped and unwrapped, custom Retryable predicates (retry/stop/fail tables), a 300-case sample re-evaluated inside Coq with vm_compute in the thorough tier, and a sweep of policy decision points (attempt 0..80, backoff, factor, jitter incl. 0/negative/tiny, bounds incl. extreme, Retry-After incl. huge/garbage) judged by an acceptor proved complete for the model; body kind http.NoBody without GetBody, warm token caches (other scope key: W; the request's own key: V; within a blob push: X), zero-length pauses and contexts that ended before the call, a scripted token service (op Q, model-compared: GET and OAuth2 POST, exhaustive token-service sequences up to length 2/3; op K oracle only), mount fallback uploads (Y/y), strconv.ParseInt strings (I), real net/http transport scenarios; coverage floors per stream (harness exit 4 = layer R failure) and on the share of unjudged acceptor points; per-case watchdogs (synctest deadlock, wall clock, runaway request count: signature wedged); oracle clauses: request-changed, real-body-truncated, body-truncated, too-many-attempts, pause-bounds, nonretryable-retried, oneshot-resent, cancel-ignored/late/result, wrong-result, backoff-panic, maxretry-ignored, retry-after",
}
