"""C17 configuration (loaded by bin/props.py; `unhex` is provided)."""
from binascii import hexlify as _hexlify


def _c17_out(s):
    if s in ("TO", "ER"):
        return {"kind": s, "read": -1, "lat": 0}
    code, ra, chal = s[1:].split(":")
    return {"kind": "S", "code": int(code), "retry_after": unhex(ra), "chal": int(chal), "read": -1, "lat": 0}


def _c17_ints(s):
    return [] if s == "-" else [int(x) for x in s.split(",")]


def _c17_case(c):
    p = c.split(" ")
    if p[0] in ("T", "A"):
        _, mr, mn, mx, tbl, dflt, cn, kind, data, script = p
        man = ""
        if kind[0] in "Mm":
            man, kind = kind[0], kind[1:]
        behs = []
        if script != "-":
            for b in script.split(";"):
                o, r, l = b.split("/")
                d = _c17_out(o)
                d["read"] = -1 if r == "*" else int(r)
                d["lat"] = int(l)
                behs.append(d)
        cancel, deadline = -1, False
        if cn != "-":
            t, k = cn.split(":")
            cancel, deadline = int(t), k == "d"
        return {"op": p[0], "max_retry": int(mr), "min": int(mn), "max": int(mx), "tbl": _c17_ints(tbl), "dflt": int(dflt),
                "cancel": cancel, "deadline": deadline, "body": kind, "manifest": man,
                "data": "" if data == "-" else data, "big_len": 0, "script": behs}
    if p[0] == "D":
        _, mr, mn, mx, tbl, dflt, att, out = p
        return {"op": "D", "which": "P", "max_retry": int(mr), "min": int(mn), "max": int(mx), "tbl": _c17_ints(tbl),
                "dflt": int(dflt), "attempt": int(att), "out": _c17_out(out), "fden": 1, "jden": 1}
    if p[0] == "B":
        _, which, mr, mn, mx, base, fn, fd, jn, jd, att, out, seen = p
        return {"op": "B", "which": which, "max_retry": int(mr), "min": int(mn), "max": int(mx), "base": int(base),
                "fnum": int(fn), "fden": int(fd), "jnum": int(jn), "jden": int(jd), "attempt": int(att), "out": _c17_out(out)}
    return {"raw": c}


CONFIG = {
    "properties_file": "Properties/C17.v",
    "proof_files": ["Base/Prelude.v", "Proofs/Retry.v"],
    "model_files": ["Generated/GC17.v", "Model/Retry.v"],
    "extract": "XC17.v",
    "ml_main": "c17_main.ml",
    "harness": "c17",
    "harness_test": True,
    "case_to_replay": _c17_case,
    "assumptions": [],
    "level_text": "",
    "level_note": "",
    "technique": "machine-checked proof in Coq + translator-regenerated constants + model/implementation correspondence under fake time",
    "explanation": "",
}
