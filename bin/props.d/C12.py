"""C12 configuration (loaded by bin/props.py; `unhex` is provided)."""
import json as _json
from binascii import unhexlify as _unhexlify


def _c12_case(c):
    # every model-input line carries the scenario (hex JSON) as its last token
    tail = c.rsplit(" #", 1)
    if len(tail) == 2:
        return _json.loads(_unhexlify(tail[1]).decode("utf-8"))
    return {"raw": c}


# ---------------------------------------------------------------------------
# A sample of the correspondence cases is re-evaluated INSIDE Coq with vm_compute and compared
# with what the extracted OCaml runner printed (model.txt): cross-checks the extraction and the
# OCaml driver against the Gallina definitions the theorems are about (not the implementation).
_VM_PRELUDE = """From Coq Require Import List NArith Bool.
Import ListNotations.
From Oras Require Import Base.Prelude Generated.GC12 Model.TarRoundTrip.
Open Scope N_scope.
Definition vm_cls (r : res fs) : nat :=
  match r with
  | Ok _ => 0 | Err XOutside => 1 | Err XDigest => 2 | Err XAbsLink => 3 | Err XWriteThrough => 3 | Err _ => 4
  end%nat.
Definition vm_hyp (pre : path) (t : tree) : bool := is_dir t && wf_treeb t && modes_okb t && benign_tree pre t.
(* the listing printed by the runner: every listed path has the listed node, nothing else is bound *)
Definition vm_listing (r : res fs) (l : list (path * node)) : bool :=
  match r with
  | Ok f =>
      forallb (fun pn => match fs_lookup f (fst pn), snd pn with
                         | Some (NFile c m), NFile c' m' => str_eqb c c' && (m =? m')
                         | Some (NDir m), NDir m' => m =? m'
                         | Some (NLink g), NLink g' => str_eqb g g'
                         | _, _ => false
                         end) l &&
      forallb (fun qn => existsb (fun pn => path_eqb (fst qn) (fst pn)) l) f
  | Err _ => false
  end.
"""


def _vm_str(h):
    if h == "-" or h == "":
        return "(@nil N)"
    return "[" + "; ".join(str(x) for x in bytes.fromhex(h)) + "]"


def _vm_path(tok):
    if tok in (".", "", "-"):
        return "(@nil (list N))"
    return "[" + "; ".join(_vm_str(c) for c in tok.split("/") if c != "") + "]"


def _vm_tree(toks, i):
    k = toks[i]
    if k == "F":
        return "(File %s %s %s)" % (_vm_str(toks[i + 3]), toks[i + 1], toks[i + 2]), i + 4
    if k == "L":
        return "(Link %s %s)" % (_vm_str(toks[i + 2]), toks[i + 1]), i + 3
    if k == "D":
        n = int(toks[i + 3])
        j = i + 4
        kids = []
        for _ in range(n):
            nm = toks[j]
            sub, j = _vm_tree(toks, j + 1)
            kids.append("(%s, %s)" % (_vm_str(nm), sub))
        ch = "(@nil (list N * tree))" if not kids else "[" + "; ".join(kids) + "]"
        return "(Dir %s %s %s)" % (toks[i + 1], toks[i + 2], ch), j
    raise ValueError("tree token " + k)


def _vm_bool(t):
    return "true" if t == "1" else "false"


def _vm_pairs(tok):
    if tok in ("-", ""):
        return "(@nil (list N * nat))"
    out = []
    for x in tok.split(","):
        nm, d = x.split(":")
        out.append("(%s, %s%%nat)" % (_vm_str(nm), d))
    return "[" + "; ".join(out) + "]"


def _vm_goal(case, out):
    toks = [t for t in case.split(" ") if t and not t.startswith("#")]
    k = toks[0]
    ext = "extract"
    if k in ("XU", "EU"):   # unprivileged owner: the model with the permission check
        k, ext = k[0], "extract_p false"
    if k == "T" and out.startswith("ENT "):
        t, _ = _vm_tree(toks, 3)
        ents = []
        for e in out[4:].split(","):
            nm, typ, mode, mt, payload, _ids = e.split(":")
            kind = {"f": "(EReg %s)" % _vm_str(payload), "d": "EDir", "l": "(ELnk %s)" % _vm_str(payload)}[typ]
            ents.append("mkEntry %s %s %d %s" % (_vm_path(nm), kind, int(mode, 8), mt))
        return "tar_entries %s %s %s\n  = [%s]" % (_vm_path(toks[2]), _vm_bool(toks[1]), t, ";\n     ".join(ents))
    if k == "XG" and out.split(" ", 2)[1:2] == ["OK"]:
        # destination working directory set-group-ID: the base directory starts with the bit
        t, _ = _vm_tree(toks, 4)
        hyp, _, rest = out.partition(" ")
        items = []
        for it in rest[3:].split(","):
            pth, typ, mode, payload = it.split(":")
            node = {"f": lambda: "NFile %s %d" % (_vm_str(payload), int(mode, 8)),
                    "d": lambda: "NDir %d" % int(mode, 8),
                    "l": lambda: "NLink %s" % _vm_str(payload)}[typ]()
            items.append("(%s, %s)" % (_vm_path(pth), node))
        pre, um, pres = _vm_path(toks[3]), toks[1], _vm_bool(toks[2])
        return ("(let es := tar_entries %s false %s in\n  let f0 := [(@nil (list N), NDir (N.lor (create_mode dir_create_bits %s c12_ensure_dir_perm) sgid))] in\n"
                "  match extract_list_partial true %s %s %s f0 es with\n  | (f, None) => vm_listing (Ok (finish_dirs %s %s es f))\n   [%s]\n  | _ => false end) = true"
                % (pre, t, um, pre, um, pres, pre, pres, ";\n    ".join(items)))
    if k == "X":
        t, _ = _vm_tree(toks, 4)
        call = ext + " %s %s %s (tar_entries %s false %s)" % (_vm_path(toks[3]), toks[1], _vm_bool(toks[2]), _vm_path(toks[3]), t)
        if out.startswith("UNJUDGED"):
            return "vm_cls (%s) = 3%%nat" % call
        hyp, _, rest = out.partition(" ")
        hb = "true" if hyp == "B1" else "false"
        if rest.startswith("OK "):
            items = []
            for it in rest[3:].split(","):
                pth, typ, mode, payload = it.split(":")
                node = {"f": lambda: "NFile %s %d" % (_vm_str(payload), int(mode, 8)),
                        "d": lambda: "NDir %d" % int(mode, 8),
                        "l": lambda: "NLink %s" % _vm_str(payload)}[typ]()
                items.append("(%s, %s)" % (_vm_path(pth), node))
            return "(vm_hyp %s %s, vm_listing (%s)\n   [%s]) = (%s, true)" % (_vm_path(toks[3]), t, call, ";\n    ".join(items), hb)
        cls = {"ERR outside": 1, "ERR digest": 2, "ERR reject": 4}[rest]
        return "(vm_hyp %s %s, vm_cls (%s)) = (%s, %d%%nat)" % (_vm_path(toks[3]), t, call, hb, cls)
    if k == "E":
        n = int(toks[4])
        ents = []
        for j in range(n):
            nm, typ, mode, payload = toks[5 + 4 * j:9 + 4 * j]
            kind = {"f": "(EReg %s)" % _vm_str(payload), "d": "EDir", "l": "(ELnk %s)" % _vm_str(payload)}[typ]
            ents.append("mkEntry %s %s %s 0" % (_vm_path(nm), kind, mode))
        el = "[" + ";\n     ".join(ents) + "]" if ents else "(@nil entry)"
        call = ext + " %s %s %s\n    %s" % (_vm_path(toks[3]), toks[1], _vm_bool(toks[2]), el)
        if out.startswith("UNJUDGED"):
            return "vm_cls (%s) = 3%%nat" % call
        if out.startswith("OK "):
            items = []
            for it in out[3:].split(","):
                pth, typ, mode, payload = it.split(":")
                node = {"f": lambda: "NFile %s %d" % (_vm_str(payload), int(mode, 8)),
                        "d": lambda: "NDir %d" % int(mode, 8),
                        "l": lambda: "NLink %s" % _vm_str(payload)}[typ]()
                items.append("(%s, %s)" % (_vm_path(pth), node))
            return "vm_listing (%s)\n   [%s] = true" % (call, ";\n    ".join(items))
        cls, _, res = out.partition(" RES ")
        items = []
        for it in (res.split(",") if res and res != "-" else []):
            pth, typ, mode, payload = it.split(":")
            node = {"f": lambda: "NFile %s %d" % (_vm_str(payload), int(mode, 8)),
                    "d": lambda: "NDir %d" % int(mode, 8),
                    "l": lambda: "NLink %s" % _vm_str(payload)}[typ]()
            items.append("(%s, %s)" % (_vm_path(pth), node))
        pcall = call.replace("extract_p false", "extract_partial false", 1) if ext != "extract" else call.replace("extract", "extract_partial true", 1)
        return ("(let r := %s in (vm_cls (match snd r with Some x => Err x | None => Ok (fst r) end), vm_listing (Ok (fst r))\n   [%s])) = (%d%%nat, true)"
                % (pcall, ";\n    ".join(items), {"ERR outside": 1, "ERR digest": 2, "ERR reject": 4}[cls]))
    if k == "P" and out == "EQ":
        ta, j = _vm_tree(toks, 3)
        tb, _ = _vm_tree(toks, j + 1)
        return "tar_entries %s %s %s\n  = tar_entries %s %s %s" % (_vm_path(toks[2]), _vm_bool(toks[1]), ta, _vm_path(toks[2]), _vm_bool(toks[1]), tb)
    if k == "M" and out.startswith("NAMES"):
        names = [x for x in out[6:].split(",") if x]
        nm = "[" + "; ".join(_vm_str(x.split(":")[0]) for x in names) + "]" if names else "(@nil (list N))"
        ids = "[" + "; ".join("Some %s%%nat" % x.split(":")[1] for x in names) + "]" if names else "(@nil (option nat))"
        return ("let s := copy_into %s %s %s %s in\n  (map (name_lookup (s_names s)) %s, length (s_names s)) = (%s, %d%%nat)"
                % (_vm_bool(toks[1]), _vm_bool(toks[2]), _vm_pairs(toks[3]), _vm_pairs(toks[4]), nm, ids, len(names)))
    return None


def _c12_vm_sample(d, tier, coq, build):
    import os, subprocess, collections
    quota = {"T": 80, "X": 120, "P": 30, "M": 60, "E": 60, "XG": 30} if tier == "thorough" else {"T": 8, "X": 14, "P": 4, "M": 6, "E": 8, "XG": 4}
    outs = {}
    with open(os.path.join(d, "model.txt")) as f:
        for l in f:
            i, _, o = l.rstrip("\n").partition(" ")
            outs[i] = o
    total, got, stride = collections.Counter(), collections.Counter(), collections.Counter()

    def eligible(c):
        k = c.split(" ", 1)[0]
        k = {"XU": "X", "EU": "E"}.get(k, k)
        return k if k in quota and len(c) < 9000 else None
    with open(os.path.join(d, "cases.txt")) as f:
        for l in f:
            k = eligible(l.rstrip("\n").partition(" ")[2])
            if k:
                total[k] += 1
    goals = []
    with open(os.path.join(d, "cases.txt")) as f:
        for l in f:
            i, _, c = l.rstrip("\n").partition(" ")
            k = eligible(c)
            if not k or got[k] >= quota[k] or i not in outs:
                continue
            stride[k] += 1
            if (stride[k] - 1) % max(1, total[k] // quota[k]) != 0:
                continue
            g = _vm_goal(c, outs[i])
            if g:
                got[k] += 1
                goals.append((i, g))
    vdir = os.path.join(build, "vm")
    os.makedirs(vdir, exist_ok=True)
    vf = os.path.join(vdir, "C12_cases.v")
    with open(vf, "w") as f:
        f.write(_VM_PRELUDE)
        for i, g in goals:
            f.write("\n(* %s *)\nGoal %s.\nProof. vm_compute. reflexivity. Qed.\n" % (i, g))
    p = subprocess.run(["coqc", "-R", coq, "Oras", "-w", "-notation-overridden", vf], cwd=vdir, timeout=1500,
                       stdout=subprocess.PIPE, stderr=subprocess.STDOUT, text=True)
    with open(os.path.join(d, "vm_sample.txt"), "w") as f:
        f.write("%d goals %s rc=%d\n%s" % (len(goals), dict(got), p.returncode, p.stdout[-3000:]))
    if p.returncode != 0:
        return ["vm_compute re-evaluation of %d sampled cases inside Coq disagrees with the extracted runner (or does not type-check): %s"
                % (len(goals), p.stdout[-1200:])]
    if len(goals) < sum(quota.values()) // 3:
        return ["vm_compute sample too small: %d goals" % len(goals)]
    return []


CONFIG = {
    "properties_file": "Properties/C12.v",
    "proof_files": ["Base/Prelude.v", "Proofs/TarRoundTrip.v", "Proofs/TarWalkOrder.v", "Proofs/TarListingOrder.v", "Proofs/TarModeSweep.v", "Proofs/TarRootMode.v", "Proofs/TarUnprivileged.v", "Proofs/TarSourceFacts.v", "Proofs/TarSetgid.v", "Proofs/TarRestoreOrder.v"],
    "model_files": ["Generated/GC12.v", "Model/TarRoundTrip.v", "Model/FileAnnotations.v"],
    "extract": "XC12.v",
    "ml_main": "c12_main.ml",
    "harness": "c12",
    "case_to_replay": _c12_case,
    "post_model": _c12_vm_sample,
    "timeout_quick": 600,
    "timeout_thorough": 3000,
    "assumptions": [
        "archive/tar and compress/gzip byte encodings are Section variables enc/dec/gz/gunz with the hypotheses dec (enc es) = Some es and gunz (gz s) = Some s; the digest is a Section variable H with a decidable equality (no collision-freeness is needed: the reproducibility theorem concludes equality of entry lists, hence of bytes and digests)",
        "paths are lists of components; filepath.Join/Clean/Rel/ToSlash on the clean relative names that tarDirectory produces = list append / strip_prefix / lexnorm_aux on a stack that starts with the added name (a target may leave the directory and come back through its own name; climbing above the working directory counts as outside, the absolute path of the working directory is not in the model); hand-modelled, compared with the implementation on every generated tree",
        "filepath.Walk = pre-order with byte-wise sorted children (sort_tree); os.MkdirAll/Mkdir/OpenFile/Symlink/Remove/Chmod/umask = mkdir_all/fs_set/has_children/create_mode/chmod_mode/narrow_mode on a path->node map, mkdir(2)'s set-group-ID inheritance = inherited_sgid (kernel semantics modelled, Linux). Kernel PERMISSION CHECKS: modelled for the creation/replacement/removal of an entry by an unprivileged owner (perm_ok: write+search on the nearest existing directory; C12_unprivileged_same_as_root) and for every chmod of restoreDirModes in its real deepest-first order (ancestors_x: search permission on every directory above; extract_po, C12_extract_po_ok, C12_shallow_first_refuted), compared with a re-run of a part of the harness as uid 65534 (read-only directories, umasks that take the owner's own permissions away); NOT modelled: the write bit needed to truncate an existing file, an unprivileged writer's write(2) clearing setuid/setgid of a non-empty file (not generated for uid 65534), and the creation of the directories ABOVE the base by pushDir (single-component names under owner-bit umasks)",
        "hypotheses of the round-trip theorems: distinct names per directory (wf_treeb; it does not forbid component names such as '..' or 'a/b' that no file system has -- the theorems are then about trees wider than real ones), modes within 07777 for files AND directories, umask within 0777 when PreservePermissions is off (kernel), symlink targets relative, inside the directory and not passing through another symlink of the tree (benign_tree pre T; a target may pass through a regular file or an over-long name since the fix of resolveRelToBase). What benign_tree excludes: (i) links leaving the directory are refused by extractTarDirectory by design (outside the property: generated, compared with the model, not judged); (ii) links staying inside but passing through another link (or themselves) are refused depending on the extraction order: judged, known finding link-through-link-rejected with the refuted witness C12_link_through_link_refuted; whenever a restore succeeds the oracle compares the trees whatever the links look like",
        "a plain file travels as a bare blob: its bytes and name come back, its mode does not (0666 minus umask): theorem C12_file_roundtrip says exactly that, the oracle reports every such case as known finding plain-file-mode-not-carried; with SkipUnpack a directory is by the option's definition restored as its gzip blob under the name (C12_skipunpack_stores_blob, oracle: bytes = descriptor digest), the tree clause does not apply",
        "each added name is restored into its own fresh directory: the round-trip theorem is per item; names of one scenario are relative and not nested in each other (also unclean: './x', 'x/', 'x//y'); pre-populated destination or intermediate stores, fifos/devices (Add archives them, extraction skips them) and directory-typed same-bytes duplicates (cannot arise from Add: the name is the tar prefix) are not exercised; a setgid destination working directory is modelled (inherited_sgid), proved (C12_extract_list_setgid, C12_roundtrip_setgid) and exercised (XG cases; the RUN directory itself must not be setgid)",
        "which of several same-content layers oras.Copy pushes is scheduling: the theorem quantifies over every pushed subset/order covering every content; in the correspondence the recorded sequence of successful named pushes is the model's input; the guard of restoreDuplicatesOfSkipped (manifest media types, 4 MiB) is not in the model (a manifest above 4 MiB does not pass oras.Copy's default MaxMetadataBytes anyway)",
        "definitional statements (they unfold the model's definition; the clause itself is carried by oracle + correspondence): C12_descriptor (oracle: Fetch after Add, digests recomputed), C12_file_roundtrip, C12_forcecas_no_restore, C12_annotations; Copy through memory / OCI layout / remote and name -> path (resolveWritePath) have no model: oracle/correspondence only. 'verified on unpack' means Push fails (C12_wrong_checksum_rejected, oracle checksum-unverified): the tar digest is compared AFTER extraction (utils.go), so the files of a tampered archive are on disk when Push returns the error -- now a theorem (C12_wrong_checksum_residue) and a compared observable (RES listings after every failed direct Push); error classes compared with the model are coarse (outside / digest / any other rejection)",
        "sizes above ~2.5 MiB, xattrs, times of restored files and NAME_MAX < 220 file systems are not exercised; the remote intermediate store is registry/remote.Repository against an in-memory registry of the harness over loopback HTTP (monolithic uploads only); hard links are exercised (Add treats them as regular files); the second copy of every reproducibility pair is chown-ed to other uids/gids",
    ],
    "level_text": "Coq theorems for all directory trees (any nesting, names, contents, child order, any umask within 0777, both PreservePermissions settings): extractTarDirectory applied to the entry list written by tarDirectory never fails and yields exactly the source tree as a path->node map -- the directory itself included (same paths, bytes, link targets, modes minus umask or exact, nothing else), proved by tree induction with a frame invariant plus a finite sweep for the base directory's mode; invariance under filepath.Walk's sorting and under the listing order of every directory; descriptor digest/size/recorded tar digest and their verification on unpack; plain files; reproducible tars depend only on the tree without timestamps; after any subset/order of layer pushes covering every content, the manifest push materialises every name (restoreDuplicates, also with IgnoreNoName), not under ForceCAS; the three pre-fix behaviours found by this check are kept as refuted theorems about *_prefix models. Tied to content/file by a differential run Add -> PackManifest -> Copy -> memory / OCI layout / remote repository -> Copy -> second file store on generated trees (decoded tar headers, restored listings, descriptor equality, pushed/materialised names, tampered descriptors, re-ordered foreign archives), an exhaustive small scope, the state left on disk by failed pushes, an unprivileged re-run, exhaustive entry-order permutations of small archives, an independent oracle on the generator's own tree and an in-Coq vm_compute re-evaluation of sampled cases",
    "level_note": "full at entry-list level for benign trees, for root and for an unprivileged owner (creation of entries and the ordered chmods of restoreDirModes); tar/gzip bytes, the digest, filepath.Walk and the kernel file system are modelled, not verified (permission checks: creation of entries and restoreDirModes' chmods; not: truncating an existing read-only file); the literals 0700/0777 and 19 statement shapes of the mirrored Go functions are regenerated by the translator and checked by proof on every run; seven defects found by the check are fixed in the repository (IgnoreNoName dropped same-content files; PreservePermissions lost setuid/setgid/sticky; the directory's own mode was lost; a symlinked root was archived as a link; read-only directories could not be restored by an unprivileged user and setuid/setgid directories lost their bits; dangling links through a regular file or an over-long name were refused), their pre-fix models are kept as refuted theorems; two known findings remain, each with a refuted witness in Coq, and are reported on every run: link-through-link-rejected (order-dependent refusal of inside links that pass through another link), plain-file-mode-not-carried (a blob has no mode); oracle-only clauses: transport through other stores, descriptor of the stored bytes",
    "technique": "machine-checked proof in Coq (tree induction, frame invariant over a path->node map, permutation invariance, induction over push sequences) + translator-regenerated annotation keys + model/implementation correspondence + independent oracle",
    "explanation": "theorems over all trees/umasks/options about the model of tarDirectory/descriptorFromDir/pushDir/extractTarDirectory/restoreDuplicates; the extracted model and the real file store are run on the same generated scenarios (every intermediate store x SkipUnpack x ForceCAS x IgnoreNoName combination in every run) and their tar entry lists, restored listings, descriptor-equality verdicts, materialised names, unpack verdicts and extractions of re-ordered archives are diffed; the oracle compares source and restored trees directly (via Copy and via a direct Push) and separates restore-failed-* from restored-differently signatures; a sample of the cases is re-evaluated inside Coq with vm_compute (post_model hook)",
}
