"""C12 configuration (loaded by bin/props.py; `unhex` is provided)."""
import json as _json
from binascii import unhexlify as _unhexlify


def _c12_case(c):
    # every model-input line carries the scenario (hex JSON) as its last token
    tail = c.rsplit(" #", 1)
    if len(tail) == 2:
        return _json.loads(_unhexlify(tail[1]).decode("utf-8"))
    return {"raw": c}


CONFIG = {
    "properties_file": "Properties/C12.v",
    "proof_files": ["Base/Prelude.v", "Proofs/TarRoundTrip.v", "Proofs/TarWalkOrder.v", "Proofs/TarListingOrder.v", "Proofs/TarRootMode.v"],
    "model_files": ["Generated/GC12.v", "Model/TarRoundTrip.v", "Model/FileAnnotations.v"],
    "extract": "XC12.v",
    "ml_main": "c12_main.ml",
    "harness": "c12",
    "case_to_replay": _c12_case,
    "timeout_quick": 600,
    "timeout_thorough": 3000,
    "assumptions": [
        "archive/tar and compress/gzip byte encodings are Section variables enc/dec/gz/gunz with the hypotheses dec (enc es) = Some es and gunz (gz s) = Some s; the digest is a Section variable H with a decidable equality (no collision-freeness is needed by the theorems; the reproducibility theorem concludes equality of entry lists, hence of bytes and digests)",
        "paths are lists of components; filepath.Join/Clean/Rel/ToSlash on the clean relative names that tarDirectory produces = list append / strip_prefix / lexnorm (hand-modelled; compared with the implementation on every generated tree, including '.', '..', '//' and trailing-slash link targets)",
        "filepath.Walk = pre-order with byte-wise sorted children (sort_tree); os.MkdirAll/OpenFile/Symlink/Chmod/umask = mkdir_all/fs_set/create_mode/chmod_mode on a path->node map (kernel semantics modelled, root user, Linux: open honours 07777, mkdir 01777, chmod via os.FileMode(header.Mode) only 0777)",
        "hypotheses of the round-trip theorems: distinct names per directory, modes within 07777 (files) / 01777 (directories: mkdir(2) drops setuid/setgid), symlink targets relative, lexically inside the directory and passing neither through another symlink of the tree nor through a regular file (benign_tree: resolveRelToBase rejects the former by design and the latter with ENOTDIR, both depending on extraction order; the model mirrors the order dependence and is compared on such trees, the oracle judges only benign ones); absolute targets and out-and-back-in targets are outside the model (XAbsLink = unjudged); extraction escapes F10/F11 belong to C11",
        "the mode of a top-level plain file is not carried by a blob descriptor at all (no tar): for plain files the theorems and the oracle speak of bytes only",
        "each added name is restored into its own directory: the round-trip theorem is per item and the generator keeps the names of one scenario relative, clean and not nested in each other (names with '..', absolute names and overlapping names are C11's subject)",
        "which of several same-content layers oras.Copy pushes is scheduling: the theorem quantifies over every pushed subset/order; in the correspondence the recorded sequence of successful named pushes is the model's input",
        "devices, fifos, xattrs, times of restored files, setuid/setgid directories and sizes above ~2.5 MiB are not exercised; the remote intermediate store is registry/remote.Repository against an in-memory registry of the harness over loopback HTTP (monolithic uploads only); hard links are exercised (Add treats them as regular files)",
    ],
    "level_text": "Coq theorems for all directory trees (any nesting, names, contents, child order, umask, both PreservePermissions settings): extractTarDirectory applied to the entry list written by tarDirectory never fails and yields exactly the source tree as a path->node map (same paths, bytes, link targets, modes minus umask or exact), proved by tree induction with a frame invariant; invariance under filepath.Walk's sorting; descriptor digest/size/recorded tar digest and their verification on unpack; reproducible tars depend only on the tree without timestamps; after any subset/order of layer pushes covering every content, the manifest push materialises every name (restoreDuplicates), not under ForceCAS; refuted statements kept as theorems with witnesses (the directory's own mode without PreservePermissions on the current code; the pre-fix IgnoreNoName and PreservePermissions behaviours). Tied to content/file by a differential run Add -> PackManifest -> Copy -> memory / OCI layout / remote repository -> Copy -> second file store on generated trees (decoded tar headers, restored listings, descriptor equality, pushed/materialised names, tampered descriptors) and an independent oracle on the generator's own tree",
    "level_note": "full at entry-list level; tar/gzip bytes, the digest, filepath.Walk and the kernel file system are modelled, not verified; one known finding (root-mode: the added directory itself gets 0777 minus umask without PreservePermissions) is reported as KNOWN-FINDING and carried explicitly by the proved statement (expected_impl) next to its refutation; two defects found by the check are fixed in the repository (IgnoreNoName dropped same-content files; PreservePermissions lost setuid/setgid/sticky), their pre-fix models are kept as refuted theorems",
    "technique": "machine-checked proof in Coq (tree induction, frame invariant over a path->node map, permutation invariance, induction over push sequences) + translator-regenerated annotation keys + model/implementation correspondence + independent oracle",
    "explanation": "theorems over all trees/umasks/options about the model of tarDirectory/descriptorFromDir/pushDir/extractTarDirectory/restoreDuplicates; the extracted model and the real file store are run on the same generated scenarios and their tar entry lists, restored listings, descriptor-equality verdicts, materialised names and unpack verdicts are diffed; the oracle compares source and restored trees directly",
}
