"""C12 configuration (loaded by bin/props.py; `unhex` is provided)."""
import json as _json
from binascii import unhexlify as _unhexlify


def _c12_case(c):
    # every model-input line carries the scenario (hex JSON) as its last token
    tail = c.rsplit(" #", 1)
    if len(tail) == 2:
        return _json.loads(_unhexlify(tail[1]).decode("utf-8"))
    return {"raw": c}


CONFIG = {
    "properties_file": "Properties/C12.v",
    "proof_files": ["Base/Prelude.v", "Proofs/TarRoundTrip.v"],
    "model_files": ["Model/TarRoundTrip.v"],
    "extract": "XC12.v",
    "ml_main": "c12_main.ml",
    "harness": "c12",
    "case_to_replay": _c12_case,
    "assumptions": [],
    "level_text": "",
    "level_note": "",
    "technique": "machine-checked proof in Coq + model/implementation correspondence",
    "explanation": "",
}
