"""post_model hook of C01 / C04: re-evaluate a sample of the recorded copy cases inside Coq
(vm_compute on Model/CopyOpt.run_opt) and compare with what the extracted OCaml runner printed
-- a cross-check of the extraction and of ml/c01_main.ml's parsing."""
import os, subprocess

_PRELUDE = """From Oras Require Import Base.Prelude Generated.%(gen)s Model.CopySpec Model.CopyTop Model.CopyOpt%(imports)s.
Local Open Scope nat_scope.
Definition mkG (n : nat) (succs : list (list nat)) (fl ism : list bool) (dk : list nat) : graph :=
  mkGraph n (fun x => nth x succs []) (fun x => nth x fl false) (fun x => nth x ism false)
          (fun x => if Nat.ltb x n then nth x dk 0 else 1000000 + x).
Definition cs_of (b : list bool) : cbset :=
  fun k => match k with CPre => nth 0 b true | CPost => nth 1 b true | CSkip => nth 2 b true
                      | CMounted => nth 3 b true | CMountFrom => nth 4 b true end.
Definition eval (g : graph) (c : cfg) (cs : cbset) (d0 : list node) (tr : list event) (fuel : nat) :=
  match %(runfn)s cs g c (init c d0) tr with
  | None => None
  | Some (st, _) =>
      Some (returned st, tag st, present_nodes g (dst st),
            match returned st with
            | Some true => present_nodes g (flat_map (copy_result g d0 fuel) (c_root c :: c_xroots c))
            | _ => []
            end)
  end.
"""

_LINKS_PRELUDE = """From Oras Require Import Base.Prelude Generated.GC01 Model.CopySpec Model.CopyLinks.
Local Open Scope nat_scope.
Local Open Scope string_scope.
Fixpoint nats_eqb (a b : list nat) : bool :=
  match a, b with [], [] => true | x :: a', y :: b' => Nat.eqb x y && nats_eqb a' b' | _, _ => false end.
(* per node: fields, the successor list and the flags (foreign, manifest) the harness gave to the acceptor *)
(* removeForeignLayers on each successor list: the real function's output vs the in-place loop of the model *)
Definition rfl_ok (flags : list bool) (l : list (list nat * list nat)) : bool :=
  forallb (fun x => nats_eqb (remove_foreign_inplace (fun n => nth n flags false) (fst x)) (snd x)) l.
Definition links_ok (l : list (mfields * (list nat * (bool * bool)))) : bool :=
  forallb (fun x => match x with (f, (succ, (fo, mf))) =>
     nats_eqb (successors f) succ && Bool.eqb (is_foreign_mt (f_mt f)) fo && Bool.eqb (is_manifest_mt (f_mt f)) mf end) l.
"""


def _links_goal(case):
    f = case.split(" ")
    lk = [x for x in f if x.startswith("lk=")]
    if not lk or len(f) < 9:
        return None
    specs = f[5].split(";")
    nodes = lk[0][3:].split(";")
    if len(specs) != len(nodes):
        return None
    rows = []
    for sp, nd in zip(specs, nodes):
        a, _, c = sp.split("/")
        mt, S, C, L, M, B = nd.split("|")
        opt = lambda v: "None" if v[1:] == "-" else "(Some %s)" % v[1:]
        lst = lambda v: "[" + "; ".join([] if v[1:] == "-" else v[1:].split("+")) + "]"
        rows.append('(mkFields "%s" %s %s %s %s %s, (%s, (%s, %s)))' % (
            mt, opt(S), opt(C), lst(L), lst(M), lst(B), _nats(c), _b("f" in a), _b("m" in a)))
    goal = "links_ok [%s] = true" % "; ".join(rows)
    rf = [x for x in f if x.startswith("rfl=")]
    if rf:
        flags = "[" + "; ".join(_b("f" in sp.split("/")[0]) for sp in specs) + "]"
        pairs = []
        for ent in rf[0][4:].split(";"):
            nid, out = ent.split(":")
            if "?" in out:
                return "false = true"
            succ = specs[int(nid)].split("/")[2]
            pairs.append("(%s, [%s])" % (_nats(succ), "; ".join([] if out == "-" else out.split("+"))))
        goal += " /\\ rfl_ok %s [%s] = true" % (flags, "; ".join(pairs))
    return goal


_PRO_PRELUDE = """From Oras Require Import Base.Prelude Model.CopySpec Model.CopyTop.
Local Open Scope nat_scope.
"""


def prologue_check(d, tier, coq, build):
    """Copy's prologue: the source reads the wrappers saw in the prologue and the initial proxy cache the acceptor was
    given are what CopyTop.prologue_fetches / cache_after_resolve compute (vm_compute inside Coq)"""
    want = 1500 if tier == "thorough" else 120
    goals, seen = [], set()
    with open(os.path.join(d, "cases.txt")) as f:
        for l in f:
            i, _, c = l.rstrip("\n").partition(" ")
            p = c.split(" ")
            pr = [x for x in p if x.startswith("pr=")]
            if not pr or len(p) < 9 or p[3].startswith("-") and False:
                continue
            rf, r0, mp, kind, cfg, ok, ismf, empty, obs, wantp, cfgarch, sel = pr[0][3:].split(":")
            if any(t == "CX" for t in p[7].split(",")[:1]) :
                continue  # context already ended: the prologue may stop early
            key = (pr[0], p[4])
            if key in seen or (kind == "n" and rf == "0" and len(goals) > want // 4) or (kind != "i" and len(goals) >= 2 * want):
                continue
            seen.add(key)
            pt = {"n": "PTNone", "l": "PTList", "o": "PTOther"}.get(kind) or "(PTImage %s %s)" % (cfg, _b(ok == "1"))
            exp = "[" + "; ".join([] if obs == "-" else obs.split("+")) + "]"
            goals.append((i, "prologue_fetches %s %s %s %s %s = %s" % (_b(rf == "1"), r0, mp, pt, _nats(p[4]), exp)))
            if kind == "i" and sel != "?" and cfgarch != "-" or (kind == "i" and sel == "-" and ok == "0"):
                wa, wv, wf = wantp.split(".")
                wp = "(mkPlat %s 1 0 %s %s)" % (wa, wv, "[1]" if wf == "1" else "[]")
                cp = "None" if cfgarch == "-" else "(Some (mkPlat %s 1 0 0 []))" % cfgarch
                goals.append((i, "select_target %s (PVImage %s %s) %s = %s" % (mp, _b(ok == "1"), cp, wp, "None" if sel == "-" else "Some " + sel)))
            goals.append((i, "cache_after_resolve %s %s %s %s = %s" % (_b(rf == "1"), _b(ismf == "1"), _b(empty == "1"), r0, _nats(p[4]))))
            if len(goals) >= 4 * want:
                break
    vdir = os.path.join(build, "vm")
    os.makedirs(vdir, exist_ok=True)
    vf = os.path.join(vdir, "GC01_prologue.v")
    with open(vf, "w") as f:
        f.write(_PRO_PRELUDE)
        for i, g in goals:
            f.write("\n(* %s *)\nGoal %s.\nProof. vm_compute. reflexivity. Qed.\n" % (i, g))
    p = subprocess.run(["coqc", "-R", coq, "Oras", "-w", "-notation-overridden", vf], cwd=vdir, timeout=900,
                       stdout=subprocess.PIPE, stderr=subprocess.STDOUT, text=True)
    with open(os.path.join(d, "prologue_check.txt"), "w") as f:
        f.write("%d goals rc=%d\n%s" % (len(goals), p.returncode, p.stdout[-3000:]))
    if p.returncode != 0:
        return ["prologue check: the prologue's source reads / the initial proxy cache differ from CopyTop.prologue_fetches / "
                "cache_after_resolve: %s" % p.stdout[-700:]]
    if len(goals) < 20:
        return ["prologue check: only %d goals" % len(goals)]
    return []


_EXT_PRELUDE = """From Oras Require Import Base.Prelude Generated.GC01 Model.CopySpec Model.CopyTop Model.CopyOpt Model.CopyCancel Model.CopyExt.
Local Open Scope nat_scope.
Definition mkG (n : nat) (succs : list (list nat)) (fl ism : list bool) (dk : list nat) : graph :=
  mkGraph n (fun x => nth x succs []) (fun x => nth x fl false) (fun x => nth x ism false)
          (fun x => if Nat.ltb x n then nth x dk 0 else 1000000 + x).
Definition cs_of (b : list bool) : cbset :=
  fun k => match k with CPre => nth 0 b true | CPost => nth 1 b true | CSkip => nth 2 b true
                      | CMounted => nth 3 b true | CMountFrom => nth 4 b true end.
Definition xeval (g : graph) (c : cfg) (tgt : node) (d0 : list node) (tr : list event) :=
  match xaccepts g c tgt d0 tr with
  | None => None
  | Some st => Some (returned st, tag st, present_nodes g (dst st))
  end.
Definition xceval (cs : cbset) (g : graph) (c : cfg) (tgt : node) (d0 : list node) (tr : list cevent) :=
  match xcaccepts_opt cs g c tgt d0 tr with
  | None => None
  | Some (s, _) => Some (returned (cs_st s), tag (cs_st s), present_nodes g (dst (cs_st s)))
  end.
"""


def ext_check(d, tier, coq, build):
    """every recorded ExtendedCopy run -- any option set, cancelled or not, successful or not -- with the tag events where the
    harness saw them is a run of Model/CopyExt.xcaccepts_opt with the result the acceptor computed (+ the reference on the
    node exactly on success); those with all callbacks set and no cancellation also of the plain xaccepts"""
    want = 400 if tier == "thorough" else 120
    outs = {}
    with open(os.path.join(d, "model.txt")) as f:
        for l in f:
            i, _, o = l.rstrip("\n").partition(" ")
            outs[i] = o
    goals = []
    nplain = 0
    with open(os.path.join(d, "cases.txt")) as f:
        for l in f:
            if len(l) > 4000:
                continue
            i, _, c = l.rstrip("\n").partition(" ")
            p = c.split(" ")
            xt = [x for x in p if x.startswith("xt=")]
            xn = [x for x in p if x.startswith("xn=")]
            if not xt or len(p) < 9 or not outs.get(i, "").startswith("ACC") or p[7] == "-":
                continue
            n, k, mode, root, c0, nodes, d0, trace = p[0], p[1], p[2], p[3], p[4], p[5], p[6], p[7]
            node = xt[0][3:]
            bits = mode.partition("/")[2] or "11111"
            toks = trace.split(",")
            if xn:
                toks = toks[:-1] + ["TB." + node, "TE." + node, toks[-1]]
            evs = ["Cancel" if t == "CX" else _event(t) for t in toks]
            if any(e is None for e in evs):
                continue
            succs, fl, ism, dk = [], [], [], []
            for sp in nodes.split(";"):
                a, b2, c2 = sp.split("/")
                fl.append(_b("f" in a)); ism.append(_b("m" in a)); dk.append(b2); succs.append(_nats(c2))
            roots = root.split("+")
            kv = dict(x.split("=", 1) for x in outs[i].split(" ")[1:])
            if kv["tag"] != "-" or (kv["ret"] == "1") != bool(xn):
                return ["ExtendedCopy check: case %s: success without the final Tag of the node, or a Tag without success" % i]
            ret = {"1": "Some true", "0": "Some false", "-": "None"}[kv["ret"]]
            tag = "Some %s" % node if xn else "None"
            g = "(mkG %s [%s] [%s] [%s] [%s])" % (n, "; ".join(succs), "; ".join(fl), "; ".join(ism), "; ".join(dk))
            cf = "(mkCfg (eff_K defaultConcurrency (%s)%%Z) MGraph %s false true %s %s)" % (k, roots[0], _nats(c0), _nats(",".join(roots[1:])))
            cs = "(cs_of [%s])" % "; ".join(_b(ch == "1") for ch in bits)
            exp = "Some (%s, %s, %s)" % (ret, tag, _nats(kv["dst"]))
            goals.append((i, "xceval %s %s %s %s %s [%s] = %s" % (cs, g, cf, node, _nats(d0),
                                                              "; ".join(e if e == "Cancel" else "Ev (%s)" % e for e in evs), exp)))
            if bits == "11111" and "Cancel" not in evs:
                nplain += 1
                goals.append((i, "xeval %s %s %s %s [%s] = %s" % (g, cf, node, _nats(d0), "; ".join(evs), exp)))
            if len(goals) >= want:
                break
    vdir = os.path.join(build, "vm")
    os.makedirs(vdir, exist_ok=True)
    vf = os.path.join(vdir, "GC01_ext.v")
    with open(vf, "w") as f:
        f.write(_EXT_PRELUDE)
        for i, g in goals:
            f.write("\n(* %s *)\nGoal %s.\nProof. vm_compute. reflexivity. Qed.\n" % (i, g))
    p = subprocess.run(["coqc", "-R", coq, "Oras", "-w", "-notation-overridden", vf], cwd=vdir, timeout=900,
                       stdout=subprocess.PIPE, stderr=subprocess.STDOUT, text=True)
    with open(os.path.join(d, "ext_check.txt"), "w") as f:
        f.write("%d goals (%d also through the plain xaccepts) rc=%d\n%s" % (len(goals), nplain, p.returncode, p.stdout[-3000:]))
    if p.returncode != 0:
        return ["ExtendedCopy check: a recorded ExtendedCopy run (with its final Tag) is not a run of Model/CopyExt.xcaccepts_opt / "
                "xaccepts with the expected result: %s" % p.stdout[-600:]]
    if len(goals) < 10 or nplain < 3:
        return ["ExtendedCopy check: only %d goals (%d plain)" % (len(goals), nplain)]
    return []


def refs_check(d, tier, coq, build):
    """every reference string the destination was asked to set during a Copy is CopyTop.eff_ref srcRef dstRef"""
    want = 1500 if tier == "thorough" else 300
    goals, seen = [], set()
    def lit(h):
        if h == "-":
            return "[]"
        return "[" + "; ".join(str(int(h[i:i + 2], 16)) for i in range(0, len(h), 2)) + "]%N"
    with open(os.path.join(d, "cases.txt")) as f:
        for l in f:
            i, _, c = l.rstrip("\n").partition(" ")
            rs = [x for x in c.split(" ") if x.startswith("rs=")]
            if not rs or rs[0] in seen:
                continue
            seen.add(rs[0])
            src, dst, used = rs[0][3:].split(":")
            for u in sorted(set(used.split("+"))):
                goals.append((i, "eff_ref %s %s = %s" % (lit(src), lit(dst), lit(u))))
            if len(goals) >= want:
                break
    vdir = os.path.join(build, "vm")
    os.makedirs(vdir, exist_ok=True)
    vf = os.path.join(vdir, "GC01_refs.v")
    with open(vf, "w") as f:
        f.write(_PRO_PRELUDE)
        for i, g in goals:
            f.write("\n(* %s *)\nGoal %s.\nProof. vm_compute. reflexivity. Qed.\n" % (i, g))
    p = subprocess.run(["coqc", "-R", coq, "Oras", "-w", "-notation-overridden", vf], cwd=vdir, timeout=900,
                       stdout=subprocess.PIPE, stderr=subprocess.STDOUT, text=True)
    with open(os.path.join(d, "refs_check.txt"), "w") as f:
        f.write("%d goals rc=%d\n%s" % (len(goals), p.returncode, p.stdout[-3000:]))
    if p.returncode != 0:
        return ["reference check: a reference string given to dst.Tag / dst.PushReference is not CopyTop.eff_ref srcRef dstRef: %s" % p.stdout[-600:]]
    if len(goals) < 3:
        return ["reference check: only %d goals" % len(goals)]
    return []


def links_check(d, tier, coq, build):
    """every distinct generated graph: the regenerated link schema applied to the generator's fields gives the
    successor lists and flags that the acceptor was run with (vm_compute inside Coq)"""
    want = 2000 if tier == "thorough" else 150
    seen, goals = set(), []
    with open(os.path.join(d, "cases.txt")) as f:
        for l in f:
            i, _, c = l.rstrip("\n").partition(" ")
            p = c.split(" ")
            if len(p) < 9:
                continue
            key = (p[5], [x for x in p if x.startswith("lk=")][:1] and [x for x in p if x.startswith("lk=")][0])
            if key in seen or not key[1]:
                continue
            seen.add(key)
            g = _links_goal(c)
            if g:
                goals.append((i, g))
            if len(goals) >= want:
                break
    vdir = os.path.join(build, "vm")
    os.makedirs(vdir, exist_ok=True)
    vf = os.path.join(vdir, "GC01_links.v")
    with open(vf, "w") as f:
        f.write(_LINKS_PRELUDE)
        for i, g in goals:
            f.write("\n(* %s *)\nGoal %s.\nProof. vm_compute. repeat split; reflexivity. Qed.\n" % (i, g))
    p = subprocess.run(["coqc", "-R", coq, "Oras", "-w", "-notation-overridden", vf], cwd=vdir, timeout=1500,
                       stdout=subprocess.PIPE, stderr=subprocess.STDOUT, text=True)
    with open(os.path.join(d, "links_check.txt"), "w") as f:
        f.write("%d graphs rc=%d\n%s" % (len(goals), p.returncode, p.stdout[-3000:]))
    if p.returncode != 0:
        return ["link schema check: the schema regenerated from content.Successors / IsManifest / IsForeignLayer, applied to the "
                "generator's link fields, does not give the successor lists / flags of %d graphs: %s" % (len(goals), p.stdout[-600:])]
    if len(goals) < 20:
        return ["link schema check: only %d graphs" % len(goals)]
    return []


_KIND = {"pre": "CPre", "post": "CPost", "skip": "CSkip", "mounted": "CMounted", "mountfrom": "CMountFrom"}


def _nats(s):
    return "[" + "; ".join(x for x in ([] if s in ("-", "") else s.split(","))) + "]"


def _b(x):
    return "true" if x else "false"


def _event(tok):
    p = tok.split(".")
    k = p[0]
    if k == "XB": return "ExB %s" % p[1]
    if k == "XE": return "ExE %s %s" % (p[1], _b(p[2] == "1"))
    if k == "SB": return "SFB %s" % p[1]
    if k == "SE": return "SFE %s" % p[1]
    if k == "SC": return "SFC %s" % p[1]
    if k == "PB": return "PuB %s %s" % (p[1], _b(p[2] == "1"))
    if k == "PE" and p[3] in "kx": return "PuE %s %s %s" % (p[1], _b(p[2] == "1"), "POk" if p[3] == "k" else "PExists")
    if k == "CB": return "Cb %s %s" % (_KIND[p[1]], p[2])
    if k == "CF": return "CbFail %s %s" % (_KIND[p[1]], p[2])
    if k == "TB": return "TagB %s" % p[1]
    if k == "TE": return "TagE %s" % p[1]
    if k == "MB": return "MtB %s" % p[1]
    if k == "ME" and p[2] in "msc": return "MtE %s %s" % (p[1], {"m": "MMounted", "s": "MSkipped", "c": "MCopied"}[p[2]])
    if k == "RT": return "Ret %s" % _b(p[1] == "1")
    return None


def _goal(case, out):
    f = case.split(" ")
    if len(f) < 9 or f[3].startswith("-") or f[2][0] not in "gtr" or any(x.startswith("pt=") for x in f):
        return None
    n, k, mode, root, c0, nodes, d0, trace = f[0], f[1], f[2], f[3], f[4], f[5], f[6], f[7]
    m, _, bits = mode.partition("/")
    bits = bits or "11111"
    cmode = {"g": "MGraph", "t": "MTagger", "r": "MRefPush"}[m[0]]
    mount = len(m) == 2
    specs = nodes.split(";")
    if len(specs) != int(n):
        return None
    succs, fl, ism, dk = [], [], [], []
    for s in specs:
        a, b, c = s.split("/")
        fl.append(_b("f" in a)); ism.append(_b("m" in a)); dk.append(b); succs.append(_nats(c))
    evs = []
    for t in ([] if trace == "-" else trace.split(",")):
        if t == "CX":
            return None  # cancellation layer (Model/CopyCancel.v): not re-evaluated by this hook
        e = _event(t)
        if e is None:
            return None
        evs.append(e)
    if out.startswith("REJ"):
        exp = "None"
    elif out.startswith("ACC"):
        kv = dict(x.split("=", 1) for x in out.split(" ")[1:])
        ret = {"1": "Some true", "0": "Some false", "-": "None"}[kv["ret"]]
        tag = "None" if kv["tag"] == "-" else "Some %s" % kv["tag"]
        if kv["ret"] == "1" and kv["cr"] == "-":
            return None  # copy_result not compared (graph not mt_consistent for this destination)
        exp = "Some (%s, %s, %s, %s)" % (ret, tag, _nats(kv["dst"]), _nats(kv["cr"]) if kv["ret"] == "1" else "[]")
    else:
        return None
    g = "(mkG %s [%s] [%s] [%s] [%s])" % (n, "; ".join(succs), "; ".join(fl), "; ".join(ism), "; ".join(dk))
    roots = root.split("+")
    c = "(mkCfg (eff_K defaultConcurrency (%s)%%Z) %s %s %s true %s %s)" % (
        k, cmode, roots[0], _b(mount), _nats(c0), _nats(",".join(roots[1:])))
    cs = "(cs_of [%s])" % "; ".join(_b(ch == "1") for ch in bits)
    return "eval %s %s %s %s [%s] %d = %s" % (g, c, cs, _nats(d0), "; ".join(evs), int(n) + 1, exp)


def vm_sample(gen, runfn="run_opt", imports=""):
    # runfn / imports: the acceptor to re-evaluate (C04 replays on its overlay Model.CopyHold.run_opt_h)
    def hook(d, tier, coq, build):
        want = 300 if tier == "thorough" else 40
        outs = {}
        with open(os.path.join(d, "model.txt")) as f:
            for l in f:
                i, _, o = l.rstrip("\n").partition(" ")
                outs[i] = o
        lines = []
        with open(os.path.join(d, "cases.txt")) as f:
            for l in f:
                if len(l) <= 2500:
                    lines.append(l.rstrip("\n"))
        stride = max(1, len(lines) // want)
        goals = []
        for l in lines[::stride]:
            i, _, c = l.partition(" ")
            if i in outs:
                g = _goal(c, outs[i])
                if g:
                    goals.append((i, g))
            if len(goals) >= want:
                break
        vdir = os.path.join(build, "vm")
        os.makedirs(vdir, exist_ok=True)
        vf = os.path.join(vdir, gen + "_cases.v")
        with open(vf, "w") as f:
            f.write(_PRELUDE % {"gen": gen, "runfn": runfn, "imports": imports})
            for i, g in goals:
                f.write("\n(* %s *)\nGoal %s.\nProof. vm_compute. reflexivity. Qed.\n" % (i, g))
        p = subprocess.run(["coqc", "-R", coq, "Oras", "-w", "-notation-overridden", vf], cwd=vdir, timeout=1500,
                           stdout=subprocess.PIPE, stderr=subprocess.STDOUT, text=True)
        with open(os.path.join(d, "vm_sample.txt"), "w") as f:
            f.write("%d goals rc=%d\n%s" % (len(goals), p.returncode, p.stdout[-3000:]))
        if p.returncode != 0:
            return ["in-Coq re-evaluation (vm_compute) of %d sampled cases disagrees with the extracted runner: %s"
                    % (len(goals), p.stdout[-600:])]
        if len(goals) < min(want, 20):
            return ["in-Coq re-evaluation: only %d cases could be sampled" % len(goals)]
        if gen == "GC01":
            return links_check(d, tier, coq, build) + prologue_check(d, tier, coq, build) + refs_check(d, tier, coq, build) + ext_check(d, tier, coq, build)
        return []
    return hook
