"""post_model hook of C01 / C04: re-evaluate a sample of the recorded copy cases inside Coq
(vm_compute on Model/CopyOpt.run_opt) and compare with what the extracted OCaml runner printed
-- a cross-check of the extraction and of ml/c01_main.ml's parsing."""
import os, subprocess

_PRELUDE = """From Oras Require Import Base.Prelude Generated.%(gen)s Model.CopySpec Model.CopyTop Model.CopyOpt%(imports)s.
Local Open Scope nat_scope.
Definition mkG (n : nat) (succs : list (list nat)) (fl ism : list bool) (dk : list nat) : graph :=
  mkGraph n (fun x => nth x succs []) (fun x => nth x fl false) (fun x => nth x ism false)
          (fun x => if Nat.ltb x n then nth x dk 0 else 1000000 + x).
Definition cs_of (b : list bool) : cbset :=
  fun k => match k with CPre => nth 0 b true | CPost => nth 1 b true | CSkip => nth 2 b true
                      | CMounted => nth 3 b true | CMountFrom => nth 4 b true end.
Definition eval (g : graph) (c : cfg) (cs : cbset) (d0 : list node) (tr : list event) (fuel : nat) :=
  match %(runfn)s cs g c (init c d0) tr with
  | None => None
  | Some (st, _) =>
      Some (returned st, tag st, present_nodes g (dst st),
            match returned st with
            | Some true => present_nodes g (flat_map (copy_result g d0 fuel) (c_root c :: c_xroots c))
            | _ => []
            end)
  end.
"""

_KIND = {"pre": "CPre", "post": "CPost", "skip": "CSkip", "mounted": "CMounted", "mountfrom": "CMountFrom"}


def _nats(s):
    return "[" + "; ".join(x for x in ([] if s in ("-", "") else s.split(","))) + "]"


def _b(x):
    return "true" if x else "false"


def _event(tok):
    p = tok.split(".")
    k = p[0]
    if k == "XB": return "ExB %s" % p[1]
    if k == "XE": return "ExE %s %s" % (p[1], _b(p[2] == "1"))
    if k == "SB": return "SFB %s" % p[1]
    if k == "SE": return "SFE %s" % p[1]
    if k == "SC": return "SFC %s" % p[1]
    if k == "PB": return "PuB %s %s" % (p[1], _b(p[2] == "1"))
    if k == "PE" and p[3] in "kx": return "PuE %s %s %s" % (p[1], _b(p[2] == "1"), "POk" if p[3] == "k" else "PExists")
    if k == "CB": return "Cb %s %s" % (_KIND[p[1]], p[2])
    if k == "CF": return "CbFail %s %s" % (_KIND[p[1]], p[2])
    if k == "TB": return "TagB %s" % p[1]
    if k == "TE": return "TagE %s" % p[1]
    if k == "MB": return "MtB %s" % p[1]
    if k == "ME" and p[2] in "msc": return "MtE %s %s" % (p[1], {"m": "MMounted", "s": "MSkipped", "c": "MCopied"}[p[2]])
    if k == "RT": return "Ret %s" % _b(p[1] == "1")
    return None


def _goal(case, out):
    f = case.split(" ")
    if len(f) < 9 or f[3].startswith("-") or f[2][0] not in "gtr" or any(x.startswith("pt=") for x in f):
        return None
    n, k, mode, root, c0, nodes, d0, trace = f[0], f[1], f[2], f[3], f[4], f[5], f[6], f[7]
    m, _, bits = mode.partition("/")
    bits = bits or "11111"
    cmode = {"g": "MGraph", "t": "MTagger", "r": "MRefPush"}[m[0]]
    mount = len(m) == 2
    specs = nodes.split(";")
    if len(specs) != int(n):
        return None
    succs, fl, ism, dk = [], [], [], []
    for s in specs:
        a, b, c = s.split("/")
        fl.append(_b("f" in a)); ism.append(_b("m" in a)); dk.append(b); succs.append(_nats(c))
    evs = []
    for t in ([] if trace == "-" else trace.split(",")):
        e = _event(t)
        if e is None:
            return None
        evs.append(e)
    if out.startswith("REJ"):
        exp = "None"
    elif out.startswith("ACC"):
        kv = dict(x.split("=", 1) for x in out.split(" ")[1:])
        ret = {"1": "Some true", "0": "Some false", "-": "None"}[kv["ret"]]
        tag = "None" if kv["tag"] == "-" else "Some %s" % kv["tag"]
        if kv["ret"] == "1" and kv["cr"] == "-":
            return None  # copy_result not compared (graph not mt_consistent for this destination)
        exp = "Some (%s, %s, %s, %s)" % (ret, tag, _nats(kv["dst"]), _nats(kv["cr"]) if kv["ret"] == "1" else "[]")
    else:
        return None
    g = "(mkG %s [%s] [%s] [%s] [%s])" % (n, "; ".join(succs), "; ".join(fl), "; ".join(ism), "; ".join(dk))
    roots = root.split("+")
    c = "(mkCfg (eff_K defaultConcurrency (%s)%%Z) %s %s %s true %s %s)" % (
        k, cmode, roots[0], _b(mount), _nats(c0), _nats(",".join(roots[1:])))
    cs = "(cs_of [%s])" % "; ".join(_b(ch == "1") for ch in bits)
    return "eval %s %s %s %s [%s] %d = %s" % (g, c, cs, _nats(d0), "; ".join(evs), int(n) + 1, exp)


def vm_sample(gen, runfn="run_opt", imports=""):
    # runfn / imports: the acceptor to re-evaluate (C04 replays on its overlay Model.CopyHold.run_opt_h)
    def hook(d, tier, coq, build):
        want = 300 if tier == "thorough" else 40
        outs = {}
        with open(os.path.join(d, "model.txt")) as f:
            for l in f:
                i, _, o = l.rstrip("\n").partition(" ")
                outs[i] = o
        lines = []
        with open(os.path.join(d, "cases.txt")) as f:
            for l in f:
                if len(l) <= 2500:
                    lines.append(l.rstrip("\n"))
        stride = max(1, len(lines) // want)
        goals = []
        for l in lines[::stride]:
            i, _, c = l.partition(" ")
            if i in outs:
                g = _goal(c, outs[i])
                if g:
                    goals.append((i, g))
            if len(goals) >= want:
                break
        vdir = os.path.join(build, "vm")
        os.makedirs(vdir, exist_ok=True)
        vf = os.path.join(vdir, gen + "_cases.v")
        with open(vf, "w") as f:
            f.write(_PRELUDE % {"gen": gen, "runfn": runfn, "imports": imports})
            for i, g in goals:
                f.write("\n(* %s *)\nGoal %s.\nProof. vm_compute. reflexivity. Qed.\n" % (i, g))
        p = subprocess.run(["coqc", "-R", coq, "Oras", "-w", "-notation-overridden", vf], cwd=vdir, timeout=1500,
                           stdout=subprocess.PIPE, stderr=subprocess.STDOUT, text=True)
        with open(os.path.join(d, "vm_sample.txt"), "w") as f:
            f.write("%d goals rc=%d\n%s" % (len(goals), p.returncode, p.stdout[-3000:]))
        if p.returncode != 0:
            return ["in-Coq re-evaluation (vm_compute) of %d sampled cases disagrees with the extracted runner: %s"
                    % (len(goals), p.stdout[-600:])]
        if len(goals) < min(want, 20):
            return ["in-Coq re-evaluation: only %d cases could be sampled" % len(goals)]
        return []
    return hook
