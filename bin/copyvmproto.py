"""post_model hook of the C02proto part: re-evaluates, INSIDE Coq with vm_compute, a sample of the
semaphore scripts that the extracted OCaml runner judged (stream `SEM` of harness cmd/goimpl), so that
the extraction + OCaml driver of Model/CopyImplSem.v is cross-checked against the Coq definition itself.
(The copy traces are not re-evaluated here: their label sequences are inferred by the OCaml driver.)"""
import os, subprocess

_PRELUDE = """From Coq Require Import List Arith Bool.
From Oras Require Import Model.CopyImplSem.
Import ListNotations.
"""


def _ops(tokens):
    out = []
    for t in tokens:
        p = t.split(":")
        if p[0] == "a":
            out.append("SAcquire %d %s" % (int(p[1]), "true" if p[2] == "1" else "false"))
        elif p[0] == "r":
            out.append("SRelease")
            if p[1] != "-":
                out.append("SWake %d false" % int(p[1]))
        elif p[0] == "c":
            out.append("SCancel %d" % int(p[1]))
        else:
            return None
    return out


def vm_sample():
    def hook(d, tier, coq, build):
        want = 200 if tier == "thorough" else 25
        outs = {}
        with open(os.path.join(d, "model.txt")) as f:
            for l in f:
                i, _, o = l.rstrip("\n").partition(" ")
                outs[i] = o
        goals = []
        with open(os.path.join(d, "cases.txt")) as f:
            for l in f:
                i, _, c = l.rstrip("\n").partition(" ")
                tok = c.split(" ")
                if len(tok) < 2 or tok[0] != "SEM" or not outs.get(i, "").startswith("SEM held="):
                    continue
                ops = _ops(tok[2:])
                if ops is None:
                    continue
                o = outs[i].split(" ")
                held = int(o[1].split("=")[1])
                w = o[2].split("=")[1]
                wl = "[]" if w == "-" else "[" + "; ".join(w.split(",")) + "]"
                goals.append((i, "match srun (ssize_init %d) [%s] with Some s => (s_held s, s_wait s) = (%d, %s) | None => False end"
                              % (int(tok[1]), "; ".join(ops), held, wl)))
                if len(goals) >= want:
                    break
        vdir = os.path.join(build, "vm")
        os.makedirs(vdir, exist_ok=True)
        vf = os.path.join(vdir, "GC02proto_cases.v")
        with open(vf, "w") as f:
            f.write(_PRELUDE)
            for i, g in goals:
                f.write("\n(* %s *)\nGoal %s.\nProof. vm_compute. reflexivity. Qed.\n" % (i, g))
        p = subprocess.run(["coqc", "-R", coq, "Oras", "-w", "-notation-overridden", vf], cwd=vdir, timeout=900,
                           stdout=subprocess.PIPE, stderr=subprocess.STDOUT, text=True)
        with open(os.path.join(d, "vm_sample.txt"), "w") as f:
            f.write("%d goals rc=%d\n%s" % (len(goals), p.returncode, p.stdout[-3000:]))
        if p.returncode != 0:
            return ["in-Coq re-evaluation (vm_compute) of %d semaphore scripts disagrees with the extracted runner: %s"
                    % (len(goals), p.stdout[-600:])]
        if os.path.basename(d).endswith("main") and len(goals) < 10:
            return ["in-Coq re-evaluation: only %d semaphore scripts could be sampled" % len(goals)]
        return []
    return hook
