package main

// kind "callseq": the source-order sequence of selected calls inside one
// function body.
//
//	{"kind": "callseq", "file": "content/oci/oci.go", "recv": "Store", "func": "delete",
//	 "name": "calls_delete", "args": {"calls": ["s.saveIndex", "s.storage.Delete"]}}
//
// emits   Definition calls_delete : list str := [b "s.saveIndex"; b "s.storage.Delete"].
//
// Every call expression of the body (nested function literals included) whose
// callee, printed as a dotted path, is in "calls" is listed in source order
// (pre-order of the syntax tree).  A model that depends on the ORDER of effects
// (C10: index.json is rewritten before the blob is unlinked; a blob is renamed
// into place after it was written and verified) states that order as a lemma
// about the generated definition, so reordering the source breaks the proof.

import (
	"go/ast"
	"strings"
)

func calleePath(e ast.Expr) string {
	switch x := e.(type) {
	case *ast.Ident:
		return x.Name
	case *ast.SelectorExpr:
		p := calleePath(x.X)
		if p == "" {
			return ""
		}
		return p + "." + x.Sel.Name
	case *ast.ParenExpr:
		return calleePath(x.X)
	}
	return ""
}

func init() {
	kinds["callseq"] = func(x *Ctx, it Item) {
		fd := findFunc(x.File(it.File), it.Recv, it.Func)
		if fd == nil || fd.Body == nil {
			// a function that does not exist makes no calls: the lemma about the expected
			// sequence fails (layer P) and a model configured by it follows the source
			x.Printf("(* %s: function %s.%s not found *)\n", it.File, it.Recv, it.Func)
			x.Printf("Definition %s : list str := [].\n\n", coqName(it))
			return
		}
		raw, _ := it.Args["calls"].([]any)
		want := map[string]bool{}
		for _, c := range raw {
			if s, ok := c.(string); ok {
				want[s] = true
			}
		}
		if len(want) == 0 {
			fail("%s: callseq %s needs args.calls", it.File, it.Name)
		}
		// args.mark_defer (optional): a call that is the operand of a `defer` statement
		// directly in the function body (not inside a block, loop or literal) is listed as
		// "defer <callee>", so that "lock; defer unlock" (held to the end of the call)
		// differs from "lock; unlock" and from a conditional defer.
		markDefer, _ := it.Args["mark_defer"].(bool)
		deferred := map[*ast.CallExpr]bool{}
		if markDefer {
			for _, st := range fd.Body.List {
				if d, ok := st.(*ast.DeferStmt); ok {
					deferred[d.Call] = true
				}
			}
		}
		var seq []string
		ast.Inspect(fd.Body, func(n ast.Node) bool {
			if c, ok := n.(*ast.CallExpr); ok {
				if p := calleePath(c.Fun); want[p] {
					if deferred[c] {
						p = "defer " + p
					}
					seq = append(seq, p)
				}
			}
			return true
		})
		var parts []string
		for _, s := range seq {
			parts = append(parts, "b \""+s+"\"%string")
		}
		x.Printf("(* %s: calls of %s.%s among {%s}, in source order *)\n", it.File, it.Recv, it.Func, strings.Join(keysSorted(want), ", "))
		x.Printf("Definition %s : list str := [%s].\n\n", coqName(it), strings.Join(parts, "; "))
	}
}

func keysSorted(m map[string]bool) []string {
	var ks []string
	for k := range m {
		ks = append(ks, k)
	}
	for i := 1; i < len(ks); i++ {
		for j := i; j > 0 && ks[j] < ks[j-1]; j-- {
			ks[j], ks[j-1] = ks[j-1], ks[j]
		}
	}
	return ks
}
