package main

// kind "switchcases": the case labels of the first `switch` statement of a
// function, in source order, as a Coq list of strings (selector text such as
// "ocispec.MediaTypeImageManifest"; the default clause is not listed).
//
//   {"kind": "switchcases", "file": "internal/descriptor/descriptor.go", "recv": "", "func": "IsManifest", "coq": "isManifest_cases"}
//
// Added for C06 (the media types that are manifests / have successors).

import (
	"bytes"
	"go/ast"
	"go/printer"
	"strings"
)

func init() {
	kinds["switchcases"] = func(x *Ctx, it Item) {
		fd := findFunc(x.File(it.File), it.Recv, it.Func)
		if fd == nil || fd.Body == nil {
			fail("%s: function %s.%s not found", it.File, it.Recv, it.Func)
		}
		var sw *ast.SwitchStmt
		ast.Inspect(fd.Body, func(n ast.Node) bool {
			if sw != nil {
				return false
			}
			if s, ok := n.(*ast.SwitchStmt); ok {
				sw = s
				return false
			}
			return true
		})
		if sw == nil {
			fail("%s: %s has no switch statement", it.File, it.Func)
		}
		var labels []string
		for _, st := range sw.Body.List {
			cc, ok := st.(*ast.CaseClause)
			if !ok {
				continue
			}
			for _, e := range cc.List {
				var b bytes.Buffer
				if err := printer.Fprint(&b, x.Fset(), e); err != nil {
					fail("%s: %v", it.File, err)
				}
				labels = append(labels, "\""+strings.ReplaceAll(b.String(), "\"", "'")+"\"%string")
			}
		}
		name := it.Coq
		if name == "" {
			name = it.Func + "_cases"
		}
		x.Printf("(* %s: case labels of the switch in %s *)\n", it.File, it.Func)
		x.Printf("Definition %s : list string :=\n  [%s].\n\n", name, strings.Join(labels, "; "))
	}
}
