// Kinds used by C17 (registry/remote/retry):
//
//	structfield  var X = &T{ ..., Field: <const expr>, ... }      -> Definition <coq> : Z
//	callarg      var X = F(a0, a1, ...) ; args.index = i           -> Definition <coq> : Z  (or _num/_den for floats)
//	statuspred   var X Predicate = func(resp, err) (bool, error) { if err != nil {...}; if <cond> { return true, nil } ...; return false, nil }
//	             -> Definition <coq> (c : Z) : bool := <cond1> || <cond2> || ...
//	             where every <cond> is built from ||, &&, and comparisons of resp.StatusCode with
//	             integer literals or net/http status constants (read from $GOROOT/src/net/http/status.go).
package main

import (
	"fmt"
	"go/ast"
	"go/constant"
	"go/parser"
	"go/token"
	"path/filepath"
	"runtime"
	"strings"
)

func init() {
	kinds["structfield"] = kindStructField
	kinds["varcallarg"] = kindCallArg
	kinds["statuspred"] = kindStatusPred
}

func emitConst(x *Ctx, name string, v constant.Value, what string) {
	switch v.Kind() {
	case constant.Int:
		x.Printf("Definition %s : Z := (%s)%%Z.\n\n", name, v.ExactString())
	case constant.Float:
		num, den := constant.Num(v), constant.Denom(v)
		x.Printf("Definition %s_num : Z := (%s)%%Z.\nDefinition %s_den : Z := (%s)%%Z.\n\n", name, num.ExactString(), name, den.ExactString())
	default:
		fail("%s: unsupported constant kind", what)
	}
}

func kindStructField(x *Ctx, it Item) {
	f := x.File(it.File)
	e := findVarInit(f, it.Name)
	if e == nil {
		fail("%s: variable %s not found", it.File, it.Name)
	}
	if u, ok := e.(*ast.UnaryExpr); ok && u.Op == token.AND {
		e = u.X
	}
	cl, ok := e.(*ast.CompositeLit)
	if !ok {
		fail("%s: %s is not a composite literal", it.File, it.Name)
	}
	field, _ := it.Args["field"].(string)
	for _, el := range cl.Elts {
		kv, ok := el.(*ast.KeyValueExpr)
		if !ok {
			continue
		}
		if id, ok := kv.Key.(*ast.Ident); ok && id.Name == field {
			what := it.File + ":" + it.Name + "." + field
			x.Printf("(* %s *)\n", what)
			emitConst(x, coqName(it), evalConst(f, kv.Value, what), what)
			return
		}
	}
	fail("%s: %s has no field %s", it.File, it.Name, field)
}

func kindCallArg(x *Ctx, it Item) {
	f := x.File(it.File)
	e := findVarInit(f, it.Name)
	if e == nil {
		fail("%s: variable %s not found", it.File, it.Name)
	}
	call, ok := e.(*ast.CallExpr)
	if !ok {
		fail("%s: %s is not a call", it.File, it.Name)
	}
	fn, _ := it.Args["func"].(string)
	if id, ok := call.Fun.(*ast.Ident); !ok || (fn != "" && id.Name != fn) {
		fail("%s: %s is not a call of %s", it.File, it.Name, fn)
	}
	idx, _ := it.Args["index"].(float64)
	if int(idx) >= len(call.Args) {
		fail("%s: %s has no argument %d", it.File, it.Name, int(idx))
	}
	what := it.File + ":" + it.Name + "#" + string(rune('0'+int(idx)))
	v := evalConst(f, call.Args[int(idx)], what)
	if asf, _ := it.Args["float"].(bool); asf {
		v = constant.ToFloat(v)
	}
	x.Printf("(* %s *)\n", what)
	emitConst(x, coqName(it), v, what)
}

var httpStatus map[string]int64

func loadHTTPStatus() {
	if httpStatus != nil {
		return
	}
	httpStatus = map[string]int64{}
	fset := token.NewFileSet()
	p := filepath.Join(runtime.GOROOT(), "src", "net", "http", "status.go")
	f, err := parser.ParseFile(fset, p, nil, parser.SkipObjectResolution)
	if err != nil {
		fail("net/http status table: %v", err)
	}
	for _, d := range f.Decls {
		gd, ok := d.(*ast.GenDecl)
		if !ok || gd.Tok != token.CONST {
			continue
		}
		for _, s := range gd.Specs {
			vs := s.(*ast.ValueSpec)
			for i, n := range vs.Names {
				if i < len(vs.Values) {
					if bl, ok := vs.Values[i].(*ast.BasicLit); ok && bl.Kind == token.INT {
						v, _ := constant.Int64Val(constant.MakeFromLiteral(bl.Value, bl.Kind, 0))
						httpStatus[n.Name] = v
					}
				}
			}
		}
	}
	if httpStatus["StatusTooManyRequests"] != 429 {
		fail("net/http status table: cannot read %s", p)
	}
}

func statusOperand(e ast.Expr, respName, what string) (string, bool) {
	switch v := e.(type) {
	case *ast.SelectorExpr:
		if id, ok := v.X.(*ast.Ident); ok {
			if id.Name == respName && v.Sel.Name == "StatusCode" {
				return "c", true
			}
			if id.Name == "http" {
				loadHTTPStatus()
				if n, ok := httpStatus[v.Sel.Name]; ok {
					return constant.MakeInt64(n).ExactString(), true
				}
			}
		}
	case *ast.BasicLit:
		if v.Kind == token.INT {
			return constant.MakeFromLiteral(v.Value, v.Kind, 0).ExactString(), true
		}
	case *ast.ParenExpr:
		return statusOperand(v.X, respName, what)
	}
	return "", false
}

func statusCond(e ast.Expr, respName, what string) string {
	switch v := e.(type) {
	case *ast.ParenExpr:
		return statusCond(v.X, respName, what)
	case *ast.BinaryExpr:
		switch v.Op {
		case token.LOR:
			return "(" + statusCond(v.X, respName, what) + " || " + statusCond(v.Y, respName, what) + ")"
		case token.LAND:
			return "(" + statusCond(v.X, respName, what) + " && " + statusCond(v.Y, respName, what) + ")"
		}
		a, ok1 := statusOperand(v.X, respName, what)
		c, ok2 := statusOperand(v.Y, respName, what)
		if ok1 && ok2 {
			op := map[token.Token]string{token.EQL: "=?", token.LSS: "<?", token.LEQ: "<=?", token.GTR: ">?", token.GEQ: ">=?"}[v.Op]
			if op != "" {
				return "(" + a + " " + op + " " + c + ")%Z"
			}
			if v.Op == token.NEQ {
				return "(negb (" + a + " =? " + c + ")%Z)"
			}
		}
	}
	fail("%s: status condition has an unsupported shape", what)
	return ""
}

func isReturnBoolNil(s ast.Stmt, want string) bool {
	r, ok := s.(*ast.ReturnStmt)
	if !ok || len(r.Results) != 2 {
		return false
	}
	a, ok1 := r.Results[0].(*ast.Ident)
	n, ok2 := r.Results[1].(*ast.Ident)
	return ok1 && ok2 && a.Name == want && n.Name == "nil"
}

func kindStatusPred(x *Ctx, it Item) {
	what := it.File + ":" + it.Name
	e := findVarInit(x.File(it.File), it.Name)
	fl, ok := e.(*ast.FuncLit)
	if !ok {
		fail("%s: not a function literal", what)
	}
	ps := fl.Type.Params.List
	if len(ps) != 2 || len(ps[0].Names) != 1 || len(ps[1].Names) != 1 {
		fail("%s: unexpected parameter list", what)
	}
	respName, errName := ps[0].Names[0].Name, ps[1].Names[0].Name
	body := fl.Body.List
	if len(body) < 2 {
		fail("%s: body too short", what)
	}
	// first statement: if err != nil { ... } -- the transport error branch, hand-modelled (anchor hash)
	first, ok := body[0].(*ast.IfStmt)
	if !ok || first.Init != nil || first.Else != nil {
		fail("%s: first statement is not `if %s != nil`", what, errName)
	}
	if be, ok := first.Cond.(*ast.BinaryExpr); !ok || be.Op != token.NEQ {
		fail("%s: first statement is not `if %s != nil`", what, errName)
	} else if id, ok := be.X.(*ast.Ident); !ok || id.Name != errName {
		fail("%s: first statement is not `if %s != nil`", what, errName)
	}
	if !isReturnBoolNil(body[len(body)-1], "false") {
		fail("%s: last statement is not `return false, nil`", what)
	}
	var conds []string
	for _, s := range body[1 : len(body)-1] {
		is, ok := s.(*ast.IfStmt)
		if !ok || is.Init != nil || is.Else != nil || len(is.Body.List) != 1 || !isReturnBoolNil(is.Body.List[0], "true") {
			fail("%s: statement is not `if <status condition> { return true, nil }`", what)
		}
		conds = append(conds, statusCond(is.Cond, respName, what))
	}
	if len(conds) == 0 {
		conds = []string{"false"}
	}
	x.Printf("(* %s: status-code branch *)\n", what)
	x.Printf("Definition %s (c : Z) : bool :=\n  %s.\n\n", coqName(it), strings.Join(conds, "\n  || "))
}

// guardedcall: is every call of <args.callee> (a selector name, e.g. Int64N) inside function
// <func> enclosed by an `if` whose condition is `<ident> > 0` with <ident> the call's sole
// argument?  -> Definition <coq> : bool.
func init() { kinds["guardedcall"] = kindGuardedCall }

func kindGuardedCall(x *Ctx, it Item) {
	what := it.File + ":" + it.Func
	fd := findFunc(x.File(it.File), it.Recv, it.Func)
	if fd == nil {
		fail("%s: function not found", what)
	}
	callee, _ := it.Args["callee"].(string)
	found, guarded := 0, 0
	var stack []ast.Node
	ast.Inspect(fd, func(n ast.Node) bool {
		if n == nil {
			stack = stack[:len(stack)-1]
			return true
		}
		stack = append(stack, n)
		call, ok := n.(*ast.CallExpr)
		if !ok {
			return true
		}
		sel, ok := call.Fun.(*ast.SelectorExpr)
		if !ok || sel.Sel.Name != callee {
			return true
		}
		found++
		if len(call.Args) != 1 {
			return true
		}
		arg, ok := call.Args[0].(*ast.Ident)
		if !ok {
			return true
		}
		ok = false
		for i := len(stack) - 2; i >= 0 && !ok; i-- {
			switch nd := stack[i].(type) {
			case *ast.IfStmt:
				// the call must be in the then-branch of `if <arg is positive> { ... }`
				inBody := false
				for j := i + 1; j < len(stack); j++ {
					if stack[j] == ast.Node(nd.Body) {
						inBody = true
					}
				}
				if inBody && condSaysPositive(nd.Cond, arg.Name) {
					ok = true
				}
			case *ast.BlockStmt:
				// or an earlier statement of an enclosing block leaves when the argument is not positive:
				// `if <arg is not positive> { ...; return ... }`
				for _, st := range nd.List {
					if i+1 < len(stack) && ast.Node(st) == stack[i+1] {
						break
					}
					if is, isIf := st.(*ast.IfStmt); isIf && is.Else == nil && len(is.Body.List) > 0 && condSaysNotPositive(is.Cond, arg.Name) {
						if _, isRet := is.Body.List[len(is.Body.List)-1].(*ast.ReturnStmt); isRet {
							ok = true
						}
					}
				}
			}
		}
		if ok {
			guarded++
		}
		return true
	})
	if found == 0 {
		fail("%s: no call of %s", what, callee)
	}
	v := "false"
	if guarded == found {
		v = "true"
	}
	x.Printf("(* %s: every %s(n) call is guarded by `if n > 0` *)\nDefinition %s : bool := %s.\n\n", what, callee, coqName(it), v)
}

// errpred: the transport-error branch of a Predicate literal
//
//	if err != nil {
//		if err, ok := err.(net.Error); ok && <cond over err.Timeout(), err.Temporary()> { return true, nil }
//		...
//		return false, err
//	}
//
// -> Definition <coq> (is_net timeout temporary : bool) : bool := (is_net && <cond>) || ...
// is_net: the error VALUE the base transport returned implements net.Error (a type assertion,
// not errors.As: wrapped errors count only through what the wrapper's own methods report).
func init() { kinds["errpred"] = kindErrPred }

func errCond(e ast.Expr, v, what string) string {
	switch x := e.(type) {
	case *ast.ParenExpr:
		return errCond(x.X, v, what)
	case *ast.UnaryExpr:
		if x.Op == token.NOT {
			return "(negb " + errCond(x.X, v, what) + ")"
		}
	case *ast.BinaryExpr:
		switch x.Op {
		case token.LOR:
			return "(" + errCond(x.X, v, what) + " || " + errCond(x.Y, v, what) + ")"
		case token.LAND:
			return "(" + errCond(x.X, v, what) + " && " + errCond(x.Y, v, what) + ")"
		}
	case *ast.CallExpr:
		if sel, ok := x.Fun.(*ast.SelectorExpr); ok && len(x.Args) == 0 {
			if id, ok := sel.X.(*ast.Ident); ok && id.Name == v {
				switch sel.Sel.Name {
				case "Timeout":
					return "timeout"
				case "Temporary":
					return "temporary"
				}
			}
		}
	}
	fail("%s: error condition has an unsupported shape", what)
	return ""
}

func kindErrPred(x *Ctx, it Item) {
	what := it.File + ":" + it.Name + " (error branch)"
	e := findVarInit(x.File(it.File), it.Name)
	fl, ok := e.(*ast.FuncLit)
	if !ok || len(fl.Body.List) == 0 {
		fail("%s: not a function literal", what)
	}
	ps := fl.Type.Params.List
	if len(ps) != 2 || len(ps[1].Names) != 1 {
		fail("%s: unexpected parameter list", what)
	}
	errName := ps[1].Names[0].Name
	first, ok := fl.Body.List[0].(*ast.IfStmt)
	if !ok || first.Init != nil || first.Else != nil {
		fail("%s: first statement is not `if %s != nil`", what, errName)
	}
	body := first.Body.List
	if len(body) == 0 {
		fail("%s: empty error branch", what)
	}
	// last: return false, err
	last, ok := body[len(body)-1].(*ast.ReturnStmt)
	if !ok || len(last.Results) != 2 {
		fail("%s: error branch does not end with `return false, %s`", what, errName)
	}
	if a, ok := last.Results[0].(*ast.Ident); !ok || a.Name != "false" {
		fail("%s: error branch does not end with `return false, %s`", what, errName)
	}
	if a, ok := last.Results[1].(*ast.Ident); !ok || a.Name != errName {
		fail("%s: error branch does not end with `return false, %s`", what, errName)
	}
	var conds []string
	for _, s := range body[:len(body)-1] {
		is, ok := s.(*ast.IfStmt)
		if !ok || is.Else != nil || len(is.Body.List) != 1 || !isReturnBoolNil(is.Body.List[0], "true") {
			fail("%s: statement is not `if v, ok := %s.(net.Error); ok && ... { return true, nil }`", what, errName)
		}
		as, ok := is.Init.(*ast.AssignStmt)
		if !ok || as.Tok != token.DEFINE || len(as.Lhs) != 2 || len(as.Rhs) != 1 {
			fail("%s: unsupported init statement", what)
		}
		v, ok1 := as.Lhs[0].(*ast.Ident)
		okv, ok2 := as.Lhs[1].(*ast.Ident)
		ta, ok3 := as.Rhs[0].(*ast.TypeAssertExpr)
		if !ok1 || !ok2 || !ok3 {
			fail("%s: unsupported init statement", what)
		}
		if id, ok := ta.X.(*ast.Ident); !ok || id.Name != errName {
			fail("%s: type assertion is not on %s", what, errName)
		}
		if sel, ok := ta.Type.(*ast.SelectorExpr); !ok || sel.Sel.Name != "Error" {
			fail("%s: type assertion is not to net.Error", what)
		} else if pk, ok := sel.X.(*ast.Ident); !ok || pk.Name != "net" {
			fail("%s: type assertion is not to net.Error", what)
		}
		// condition: ok && <cond>   (or just ok)
		switch c := is.Cond.(type) {
		case *ast.Ident:
			if c.Name != okv.Name {
				fail("%s: unsupported condition", what)
			}
			conds = append(conds, "is_net")
		case *ast.BinaryExpr:
			l, ok := c.X.(*ast.Ident)
			if c.Op != token.LAND || !ok || l.Name != okv.Name {
				fail("%s: condition is not `%s && ...`", what, okv.Name)
			}
			conds = append(conds, "(is_net && "+errCond(c.Y, v.Name, what)+")")
		default:
			fail("%s: unsupported condition", what)
		}
	}
	if len(conds) == 0 {
		conds = []string{"false"}
	}
	x.Printf("(* %s *)\n", what)
	x.Printf("Definition %s (is_net timeout temporary : bool) : bool :=\n  %s.\n\n", coqName(it), strings.Join(conds, "\n  || "))
}

// timerctxcheck: in function <func>, does the select clause that receives from <args.timer>
// (e.g. `case <-timer.C:`) re-check the context (a call of <args.ctx>.Err()) before the loop
// goes on?  -> Definition <coq> : bool.   (A timer and the end of the context can be ready
// together -- always for a zero pause -- and select then picks at random.)
func init() { kinds["timerctxcheck"] = kindTimerCtxCheck }

func kindTimerCtxCheck(x *Ctx, it Item) {
	what := it.File + ":" + it.Recv + "." + it.Func
	fd := findFunc(x.File(it.File), it.Recv, it.Func)
	if fd == nil {
		fail("%s: function not found", what)
	}
	timer, _ := it.Args["timer"].(string)
	ctxName, _ := it.Args["ctx"].(string)
	found, checked := 0, 0
	ast.Inspect(fd, func(n ast.Node) bool {
		cc, ok := n.(*ast.CommClause)
		if !ok || cc.Comm == nil {
			return true
		}
		es, ok := cc.Comm.(*ast.ExprStmt)
		if !ok {
			return true
		}
		u, ok := es.X.(*ast.UnaryExpr)
		if !ok || u.Op != token.ARROW {
			return true
		}
		sel, ok := u.X.(*ast.SelectorExpr)
		if !ok || sel.Sel.Name != "C" {
			return true
		}
		if id, ok := sel.X.(*ast.Ident); !ok || id.Name != timer {
			return true
		}
		found++
		has := false
		for _, st := range cc.Body {
			ast.Inspect(st, func(m ast.Node) bool {
				if call, ok := m.(*ast.CallExpr); ok {
					if s2, ok := call.Fun.(*ast.SelectorExpr); ok && s2.Sel.Name == "Err" {
						if id, ok := s2.X.(*ast.Ident); ok && id.Name == ctxName {
							has = true
						}
					}
				}
				return true
			})
		}
		if has {
			checked++
		}
		return true
	})
	if found == 0 {
		fail("%s: no `case <-%s.C:` clause", what, timer)
	}
	v := "false"
	if checked == found {
		v = "true"
	}
	x.Printf("(* %s: the `case <-%s.C:` clause re-checks %s.Err() *)\nDefinition %s : bool := %s.\n\n", what, timer, ctxName, coqName(it), v)
}

func isIdent(e ast.Expr, name string) bool {
	if p, ok := e.(*ast.ParenExpr); ok {
		return isIdent(p.X, name)
	}
	id, ok := e.(*ast.Ident)
	return ok && id.Name == name
}

func isLit(e ast.Expr, v string) bool {
	if p, ok := e.(*ast.ParenExpr); ok {
		return isLit(p.X, v)
	}
	l, ok := e.(*ast.BasicLit)
	return ok && l.Value == v
}

// condSaysPositive: the condition implies name > 0 (name > 0, name >= 1, 0 < name, 1 <= name,
// or a conjunction with such a conjunct)
func condSaysPositive(e ast.Expr, name string) bool {
	switch x := e.(type) {
	case *ast.ParenExpr:
		return condSaysPositive(x.X, name)
	case *ast.BinaryExpr:
		switch x.Op {
		case token.LAND:
			return condSaysPositive(x.X, name) || condSaysPositive(x.Y, name)
		case token.GTR:
			return isIdent(x.X, name) && isLit(x.Y, "0")
		case token.GEQ:
			return isIdent(x.X, name) && isLit(x.Y, "1")
		case token.LSS:
			return isLit(x.X, "0") && isIdent(x.Y, name)
		case token.LEQ:
			return isLit(x.X, "1") && isIdent(x.Y, name)
		}
	}
	return false
}

// condSaysNotPositive: the condition is implied by name <= 0 (name <= 0, name < 1, 0 >= name,
// 1 > name, or a disjunction with such a disjunct)
func condSaysNotPositive(e ast.Expr, name string) bool {
	switch x := e.(type) {
	case *ast.ParenExpr:
		return condSaysNotPositive(x.X, name)
	case *ast.BinaryExpr:
		switch x.Op {
		case token.LOR:
			return condSaysNotPositive(x.X, name) || condSaysNotPositive(x.Y, name)
		case token.LEQ:
			return isIdent(x.X, name) && isLit(x.Y, "0")
		case token.LSS:
			return isIdent(x.X, name) && isLit(x.Y, "1")
		case token.GEQ:
			return isLit(x.X, "0") && isIdent(x.Y, name)
		case token.GTR:
			return isLit(x.X, "1") && isIdent(x.Y, name)
		}
	}
	return false
}

// retrydecision: GenericPolicy.Retry, statement by statement, as a Gallina decision function
//
//	if attempt <op> p.MaxRetry { return -1, nil }
//	if ok, err := p.Retryable(resp, err); err != nil { return -1, err } else if !ok { return -1, nil }
//	backoff := p.Backoff(attempt, resp)
//	if backoff <op> p.F { backoff = p.G } ...          (any number of clamping steps, in order)
//	return backoff, nil
//
// -> Definition <coq> (attempt max_retry min_wait max_wait : Z) (pr : pred_result) (bo : bres) : decision.
// Comparison operators, the fields compared and assigned and the order of the steps are taken from
// the source; any other statement or condition is untranslatable.
func init() { kinds["retrydecision"] = kindRetryDecision }

func kindRetryDecision(x *Ctx, it Item) {
	what := it.File + ":" + it.Recv + "." + it.Func
	fd := findFunc(x.File(it.File), it.Recv, it.Func)
	if fd == nil || fd.Recv == nil || len(fd.Recv.List) != 1 || len(fd.Recv.List[0].Names) != 1 {
		fail("%s: method not found", what)
	}
	recv := fd.Recv.List[0].Names[0].Name
	ps := fd.Type.Params.List
	if len(ps) != 3 || len(ps[0].Names) != 1 {
		fail("%s: unexpected parameters", what)
	}
	attempt := ps[0].Names[0].Name
	fieldVar := map[string]string{"MaxRetry": "max_retry", "MinWait": "min_wait", "MaxWait": "max_wait"}
	field := func(e ast.Expr) (string, bool) {
		sel, ok := e.(*ast.SelectorExpr)
		if !ok {
			return "", false
		}
		if id, ok := sel.X.(*ast.Ident); !ok || id.Name != recv {
			return "", false
		}
		v, ok := fieldVar[sel.Sel.Name]
		return v, ok
	}
	cmp := map[token.Token]string{token.LSS: "<?", token.LEQ: "<=?", token.GTR: ">?", token.GEQ: ">=?", token.EQL: "=?"}
	isMinus1 := func(e ast.Expr) bool {
		u, ok := e.(*ast.UnaryExpr)
		return ok && u.Op == token.SUB && isLit(u.X, "1")
	}
	retIs := func(s ast.Stmt, second string) bool { // return -1, <second>
		blk, ok := s.(*ast.BlockStmt)
		if !ok || len(blk.List) != 1 {
			return false
		}
		r, ok := blk.List[0].(*ast.ReturnStmt)
		return ok && len(r.Results) == 2 && isMinus1(r.Results[0]) && isIdent(r.Results[1], second)
	}
	body := fd.Body.List
	if len(body) < 4 {
		fail("%s: body too short", what)
	}
	// 1. attempt bound
	s1, ok := body[0].(*ast.IfStmt)
	if !ok || s1.Init != nil || s1.Else != nil || !retIs(s1.Body, "nil") {
		fail("%s: statement 1 is not `if %s <op> %s.MaxRetry { return -1, nil }`", what, attempt, recv)
	}
	c1, ok := s1.Cond.(*ast.BinaryExpr)
	if !ok || !isIdent(c1.X, attempt) || cmp[c1.Op] == "" {
		fail("%s: statement 1 has an unsupported condition", what)
	}
	f1, ok := field(c1.Y)
	if !ok {
		fail("%s: statement 1 does not compare with a policy field", what)
	}
	// 2. predicate
	s2, ok := body[1].(*ast.IfStmt)
	if !ok || s2.Init == nil {
		fail("%s: statement 2 is not the predicate call", what)
	}
	as, ok := s2.Init.(*ast.AssignStmt)
	if !ok || len(as.Lhs) != 2 || len(as.Rhs) != 1 {
		fail("%s: statement 2 is not `if ok, err := %s.Retryable(...)`", what, recv)
	}
	okName, errName := as.Lhs[0].(*ast.Ident), as.Lhs[1].(*ast.Ident)
	call, isCall := as.Rhs[0].(*ast.CallExpr)
	if okName == nil || errName == nil || !isCall {
		fail("%s: statement 2 is not `if ok, err := %s.Retryable(...)`", what, recv)
	}
	if sel, ok := call.Fun.(*ast.SelectorExpr); !ok || sel.Sel.Name != "Retryable" || !isIdent(sel.X, recv) || len(call.Args) != 2 {
		fail("%s: statement 2 does not call %s.Retryable(resp, err)", what, recv)
	}
	c2, ok := s2.Cond.(*ast.BinaryExpr)
	if !ok || c2.Op != token.NEQ || !isIdent(c2.X, errName.Name) || !isIdent(c2.Y, "nil") || !retIs(s2.Body, errName.Name) {
		fail("%s: statement 2 is not `...; err != nil { return -1, err }`", what)
	}
	e2, ok := s2.Else.(*ast.IfStmt)
	if !ok || e2.Init != nil || e2.Else != nil || !retIs(e2.Body, "nil") {
		fail("%s: statement 2 lacks `else if !ok { return -1, nil }`", what)
	}
	if u, ok := e2.Cond.(*ast.UnaryExpr); !ok || u.Op != token.NOT || !isIdent(u.X, okName.Name) {
		fail("%s: statement 2 lacks `else if !ok { return -1, nil }`", what)
	}
	// 3. backoff
	s3, ok := body[2].(*ast.AssignStmt)
	if !ok || len(s3.Lhs) != 1 || len(s3.Rhs) != 1 {
		fail("%s: statement 3 is not `backoff := %s.Backoff(attempt, resp)`", what, recv)
	}
	bv, ok := s3.Lhs[0].(*ast.Ident)
	bc, ok2 := s3.Rhs[0].(*ast.CallExpr)
	if !ok || !ok2 {
		fail("%s: statement 3 is not `backoff := %s.Backoff(attempt, resp)`", what, recv)
	}
	if sel, ok := bc.Fun.(*ast.SelectorExpr); !ok || sel.Sel.Name != "Backoff" || !isIdent(sel.X, recv) || len(bc.Args) != 2 || !isIdent(bc.Args[0], attempt) {
		fail("%s: statement 3 does not call %s.Backoff(attempt, resp)", what, recv)
	}
	// 4.. clamping steps
	var steps []string
	for _, st := range body[3 : len(body)-1] {
		is, ok := st.(*ast.IfStmt)
		if !ok || is.Init != nil || is.Else != nil || len(is.Body.List) != 1 {
			fail("%s: unsupported statement between the backoff call and the return", what)
		}
		c, ok := is.Cond.(*ast.BinaryExpr)
		if !ok || !isIdent(c.X, bv.Name) || cmp[c.Op] == "" {
			fail("%s: unsupported clamping condition", what)
		}
		fc, ok := field(c.Y)
		a, ok2 := is.Body.List[0].(*ast.AssignStmt)
		if !ok || !ok2 || a.Tok != token.ASSIGN || len(a.Lhs) != 1 || len(a.Rhs) != 1 || !isIdent(a.Lhs[0], bv.Name) {
			fail("%s: unsupported clamping step", what)
		}
		fa, ok := field(a.Rhs[0])
		if !ok {
			fail("%s: clamping step does not assign a policy field", what)
		}
		steps = append(steps, fmt.Sprintf("    let backoff := if (backoff %s %s)%%Z then %s else backoff in", cmp[c.Op], fc, fa))
	}
	// last: return backoff, nil
	last, ok := body[len(body)-1].(*ast.ReturnStmt)
	if !ok || len(last.Results) != 2 || !isIdent(last.Results[0], bv.Name) || !isIdent(last.Results[1], "nil") {
		fail("%s: last statement is not `return backoff, nil`", what)
	}
	x.Printf("From Oras Require Import Base.RetryTypes.\n(* %s, statement by statement *)\n", what)
	x.Printf("Definition %s (attempt max_retry min_wait max_wait : Z) (pr : pred_result) (bo : bres) : decision :=\n", coqName(it))
	x.Printf("  if (attempt %s %s)%%Z then DStop else\n  match pr with\n  | PFail => DFail\n  | PStop => DStop\n  | PRetry =>\n    match bo with\n    | BPanic => DPanic\n    | BRet backoff =>\n", cmp[c1.Op], f1)
	for _, s := range steps {
		x.Printf("  %s\n", s)
	}
	x.Printf("      DWait backoff\n    end\n  end.\n\n")
}

// rewindchain: the body-rewind logic, as a decision over four facts about the request:
// body_nil (Body == nil), body_nobody (Body == http.NoBody), getbody_nil (GetBody == nil),
// getbody_fails (the GetBody call returns an error) -> rw_class (Base/RetryTypes.v):
// RcKeep (nothing to do, go on), RcFresh (Body replaced by GetBody's result, go on),
// RcNoGetBody / RcGetBodyErr (give up before / after calling GetBody).
//
// args.block = "": the whole function <func> (auth.rewindRequestBody):
//	if <cond over the facts> { return nil }           -> RcKeep
//	if <cond> { return <error> }                      -> RcNoGetBody
//	body, err := req.GetBody(); if err != nil { return <error> }   -> RcGetBodyErr
//	req.Body = body; return nil                       -> RcFresh
// args.block = "<var>": inside <func>, the statement `if <cond over the facts> { ...same chain
// with `return ...` giving up... }` that calls <var>.GetBody() (retry.Transport.RoundTrip);
// falling out of the block after the assignment is RcFresh, not entering it RcKeep.
func init() { kinds["rewindchain"] = kindRewindChain }

func rwFact(e ast.Expr, req string) (string, bool) {
	switch x := e.(type) {
	case *ast.ParenExpr:
		return rwFact(x.X, req)
	case *ast.UnaryExpr:
		if x.Op == token.NOT {
			if s, ok := rwFact(x.X, req); ok {
				return "(negb " + s + ")", true
			}
		}
	case *ast.BinaryExpr:
		switch x.Op {
		case token.LOR, token.LAND:
			a, ok1 := rwFact(x.X, req)
			b, ok2 := rwFact(x.Y, req)
			if ok1 && ok2 {
				op := " || "
				if x.Op == token.LAND {
					op = " && "
				}
				return "(" + a + op + b + ")", true
			}
		case token.EQL, token.NEQ:
			sel, ok := x.X.(*ast.SelectorExpr)
			if !ok || !isIdent(sel.X, req) {
				return "", false
			}
			atom := ""
			switch {
			case sel.Sel.Name == "Body" && isIdent(x.Y, "nil"):
				atom = "body_nil"
			case sel.Sel.Name == "GetBody" && isIdent(x.Y, "nil"):
				atom = "getbody_nil"
			case sel.Sel.Name == "Body":
				if s2, ok := x.Y.(*ast.SelectorExpr); ok && isIdent(s2.X, "http") && s2.Sel.Name == "NoBody" {
					atom = "body_nobody"
				}
			}
			if atom == "" {
				return "", false
			}
			if x.Op == token.NEQ {
				return "(negb " + atom + ")", true
			}
			return atom, true
		}
	}
	return "", false
}

// rwChain translates a statement list; returns the Gallina expression.  tail = the class when
// the list is left at its end.
func rwChain(list []ast.Stmt, req, what string, wholeFunc bool) string {
	var out strings.Builder
	called, assigned := false, false
	closeN := 0
	for i, st := range list {
		switch s := st.(type) {
		case *ast.IfStmt:
			if s.Init != nil || s.Else != nil || len(s.Body.List) != 1 {
				fail("%s: unsupported if statement in the rewind chain", what)
			}
			ret, ok := s.Body.List[0].(*ast.ReturnStmt)
			if !ok {
				fail("%s: an if of the rewind chain does not return", what)
			}
			if called {
				// if err != nil { give up }
				be, ok := s.Cond.(*ast.BinaryExpr)
				if !ok || be.Op != token.NEQ || !isIdent(be.X, "err") || !isIdent(be.Y, "nil") || assigned {
					fail("%s: unsupported statement after the GetBody call", what)
				}
				out.WriteString("if getbody_fails then RcGetBodyErr else ")
				continue
			}
			c, ok := rwFact(s.Cond, req)
			if !ok {
				fail("%s: condition of the rewind chain is not over Body/GetBody of %s", what, req)
			}
			cls := "RcNoGetBody"
			if wholeFunc && len(ret.Results) == 1 && isIdent(ret.Results[0], "nil") {
				cls = "RcKeep"
			}
			out.WriteString("if " + c + " then " + cls + " else ")
		case *ast.AssignStmt:
			if !called {
				// body, err := req.GetBody()
				call, ok := s.Rhs[0].(*ast.CallExpr)
				if !ok || len(s.Lhs) != 2 || len(call.Args) != 0 {
					fail("%s: unsupported assignment in the rewind chain", what)
				}
				sel, ok := call.Fun.(*ast.SelectorExpr)
				if !ok || sel.Sel.Name != "GetBody" || !isIdent(sel.X, req) || !isIdent(s.Lhs[1], "err") {
					fail("%s: unsupported assignment in the rewind chain", what)
				}
				called = true
				continue
			}
			// req.Body = body
			sel, ok := s.Lhs[0].(*ast.SelectorExpr)
			if !ok || len(s.Lhs) != 1 || sel.Sel.Name != "Body" || !isIdent(sel.X, req) {
				fail("%s: unsupported assignment after the GetBody call", what)
			}
			assigned = true
		case *ast.ReturnStmt:
			if !wholeFunc || i != len(list)-1 || !assigned || len(s.Results) != 1 || !isIdent(s.Results[0], "nil") {
				fail("%s: unsupported return in the rewind chain", what)
			}
		default:
			fail("%s: unsupported statement in the rewind chain", what)
		}
	}
	_ = closeN
	if !called || !assigned {
		fail("%s: the rewind chain does not call GetBody and install its result", what)
	}
	out.WriteString("RcFresh")
	return out.String()
}

func kindRewindChain(x *Ctx, it Item) {
	what := it.File + ":" + it.Recv + "." + it.Func + " (rewind)"
	fd := findFunc(x.File(it.File), it.Recv, it.Func)
	if fd == nil {
		fail("%s: function not found", what)
	}
	block, _ := it.Args["block"].(string)
	var expr string
	if block == "" {
		if len(fd.Type.Params.List) != 1 || len(fd.Type.Params.List[0].Names) != 1 {
			fail("%s: unexpected parameters", what)
		}
		expr = rwChain(fd.Body.List, fd.Type.Params.List[0].Names[0].Name, what, true)
	} else {
		var found *ast.IfStmt
		ast.Inspect(fd.Body, func(n ast.Node) bool {
			is, ok := n.(*ast.IfStmt)
			if !ok || found != nil {
				return true
			}
			calls := false
			ast.Inspect(is.Body, func(m ast.Node) bool {
				if c, ok := m.(*ast.CallExpr); ok {
					if sel, ok := c.Fun.(*ast.SelectorExpr); ok && sel.Sel.Name == "GetBody" && isIdent(sel.X, block) {
						calls = true
					}
				}
				return true
			})
			if calls {
				found = is
				return false
			}
			return true
		})
		if found == nil || found.Init != nil || found.Else != nil {
			fail("%s: no `if ... { ... %s.GetBody() ... }` block", what, block)
		}
		c, ok := rwFact(found.Cond, block)
		if !ok {
			fail("%s: the guard of the rewind block is not over Body/GetBody of %s", what, block)
		}
		expr = "if " + c + " then (" + rwChain(found.Body.List, block, what, false) + ") else RcKeep"
	}
	x.Printf("From Oras Require Import Base.RetryTypes.\n(* %s *)\n", what)
	x.Printf("Definition %s (body_nil body_nobody getbody_nil getbody_fails : bool) : rw_class :=\n  %s.\n\n", coqName(it), expr)
}

// backoffexprs: the arithmetic of ExponentialBackoff's returned closure, as rational functions
// (float64 is modelled by exact rationals), and the constants of its Retry-After branch:
//
//	if resp != nil && resp.StatusCode == <status> {                 -> <coq>_retry_after_status : Z
//	    ... if retryAfter, _ := strconv.ParseInt(v, 10, 64); retryAfter <op> <k> {   -> <coq>_retry_after_ok (ra : Z) : bool
//	        return time.Duration(retryAfter) * <unit>               -> <coq>_retry_after_unit : Z
//	temp := <expr over backoff, factor, attempt>                    -> <coq>_temp (backoff : Z) (factor jitter : Q) (attempt : Z) : Q
//	interval := time.Duration(<expr over temp, jitter>)             -> <coq>_a (temp jitter : Q) : Q
//	... n := int64(<expr over temp, jitter>) ...                    -> <coq>_n (temp jitter : Q) : Q
func init() { kinds["backoffexprs"] = kindBackoffExprs }

func qExpr(f *ast.File, e ast.Expr, what string) string {
	switch x := e.(type) {
	case *ast.ParenExpr:
		return qExpr(f, x.X, what)
	case *ast.BasicLit:
		v := constant.ToFloat(constant.MakeFromLiteral(x.Value, x.Kind, 0))
		return fmt.Sprintf("(Qmake (%s)%%Z (%s)%%positive)", constant.Num(v).ExactString(), constant.Denom(v).ExactString())
	case *ast.Ident:
		switch x.Name {
		case "temp", "jitter", "factor":
			return x.Name
		}
	case *ast.BinaryExpr:
		op := map[token.Token]string{token.MUL: "Qmult", token.ADD: "Qplus", token.SUB: "Qminus", token.QUO: "Qdiv"}[x.Op]
		if op != "" {
			return "(" + op + " " + qExpr(f, x.X, what) + " " + qExpr(f, x.Y, what) + ")"
		}
	case *ast.CallExpr:
		if id, ok := x.Fun.(*ast.Ident); ok && id.Name == "float64" && len(x.Args) == 1 {
			if isIdent(x.Args[0], "backoff") {
				return "(inject_Z backoff)"
			}
		}
		if sel, ok := x.Fun.(*ast.SelectorExpr); ok && isIdent(sel.X, "math") && sel.Sel.Name == "Pow" && len(x.Args) == 2 {
			if c, ok := x.Args[1].(*ast.CallExpr); ok && isIdent(c.Fun, "float64") && len(c.Args) == 1 && isIdent(c.Args[0], "attempt") {
				return "(Qpower " + qExpr(f, x.Args[0], what) + " attempt)"
			}
		}
	}
	fail("%s: arithmetic expression has an unsupported shape", what)
	return ""
}

func kindBackoffExprs(x *Ctx, it Item) {
	what := it.File + ":" + it.Func
	f := x.File(it.File)
	fd := findFunc(f, it.Recv, it.Func)
	if fd == nil {
		fail("%s: function not found", what)
	}
	name := coqName(it)
	var temp, a, n ast.Expr
	status, unit, okCond := "", "", ""
	ast.Inspect(fd.Body, func(nd ast.Node) bool {
		switch s := nd.(type) {
		case *ast.AssignStmt:
			if len(s.Lhs) == 1 && len(s.Rhs) == 1 && s.Tok == token.DEFINE {
				switch {
				case isIdent(s.Lhs[0], "temp"):
					temp = s.Rhs[0]
				case isIdent(s.Lhs[0], "interval"):
					if c, ok := s.Rhs[0].(*ast.CallExpr); ok && len(c.Args) == 1 {
						a = c.Args[0]
					}
				case isIdent(s.Lhs[0], "n"):
					if c, ok := s.Rhs[0].(*ast.CallExpr); ok && isIdent(c.Fun, "int64") && len(c.Args) == 1 {
						n = c.Args[0]
					}
				}
			}
		case *ast.IfStmt:
			// resp != nil && resp.StatusCode == <status>
			if be, ok := s.Cond.(*ast.BinaryExpr); ok && be.Op == token.LAND {
				if r, ok := be.Y.(*ast.BinaryExpr); ok && r.Op == token.EQL {
					if sel, ok := r.X.(*ast.SelectorExpr); ok && sel.Sel.Name == "StatusCode" {
						if v, ok := statusOperand(r.Y, "\x00", what); ok {
							status = v
						}
					}
				}
			}
			// retryAfter, _ := strconv.ParseInt(...); retryAfter <op> <k>
			if as, ok := s.Init.(*ast.AssignStmt); ok && len(as.Lhs) == 2 && isIdent(as.Lhs[0], "retryAfter") {
				if be, ok := s.Cond.(*ast.BinaryExpr); ok && isIdent(be.X, "retryAfter") {
					op := map[token.Token]string{token.GTR: ">?", token.GEQ: ">=?", token.LSS: "<?", token.LEQ: "<=?"}[be.Op]
					if lit, ok := be.Y.(*ast.BasicLit); ok && op != "" && lit.Kind == token.INT {
						okCond = fmt.Sprintf("(ra %s %s)%%Z", op, lit.Value)
					}
				}
				if len(s.Body.List) == 1 {
					if r, ok := s.Body.List[0].(*ast.ReturnStmt); ok && len(r.Results) == 1 {
						if be, ok := r.Results[0].(*ast.BinaryExpr); ok && be.Op == token.MUL {
							if c, ok := be.X.(*ast.CallExpr); ok && len(c.Args) == 1 && isIdent(c.Args[0], "retryAfter") {
								unit = evalConst(f, be.Y, what).ExactString()
							}
						}
					}
				}
			}
		}
		return true
	})
	if temp == nil || a == nil || n == nil || status == "" || unit == "" || okCond == "" {
		fail("%s: cannot find temp/interval/n or the Retry-After branch (status, positivity test, unit)", what)
	}
	x.Printf("From Coq Require Import QArith.\n(* %s: arithmetic and Retry-After constants *)\n", what)
	x.Printf("Definition %s_retry_after_status : Z := (%s)%%Z.\n", name, status)
	x.Printf("Definition %s_retry_after_ok (ra : Z) : bool := %s.\n", name, okCond)
	x.Printf("Definition %s_retry_after_unit : Z := (%s)%%Z.\n", name, unit)
	x.Printf("Definition %s_temp (backoff : Z) (factor jitter : Q) (attempt : Z) : Q :=\n  %s.\n", name, qExpr(f, temp, what))
	x.Printf("Definition %s_a (temp jitter : Q) : Q :=\n  %s.\n", name, qExpr(f, a, what))
	x.Printf("Definition %s_n (temp jitter : Q) : Q :=\n  %s.\n\n", name, qExpr(f, n, what))
}

// statuscmps: every comparison `<x>.StatusCode <op> <status constant>` inside function <func>, in
// source order -> Definition <coq> : list (Z * Z)  (operator code: 0 ==, 1 !=, 2 <, 3 <=, 4 >, 5 >=;
// status).  The model reads the statuses it depends on (challenge 401, upload accepted 202, token
// 200 ...) from these lists, so an edited constant or an added/removed comparison shows up.
func init() { kinds["statuscmps"] = kindStatusCmps }

func kindStatusCmps(x *Ctx, it Item) {
	what := it.File + ":" + it.Recv + "." + it.Func
	fd := findFunc(x.File(it.File), it.Recv, it.Func)
	if fd == nil {
		fail("%s: function not found", what)
	}
	opCode := map[token.Token]int{token.EQL: 0, token.NEQ: 1, token.LSS: 2, token.LEQ: 3, token.GTR: 4, token.GEQ: 5}
	var items []string
	ast.Inspect(fd.Body, func(n ast.Node) bool {
		be, ok := n.(*ast.BinaryExpr)
		if !ok {
			return true
		}
		sel, ok := be.X.(*ast.SelectorExpr)
		if !ok || sel.Sel.Name != "StatusCode" {
			return true
		}
		code, okc := opCode[be.Op]
		v, okv := statusOperand(be.Y, "\x00", what)
		if !okc || !okv {
			fail("%s: a StatusCode comparison has an unsupported shape", what)
		}
		items = append(items, fmt.Sprintf("(%d, %s)%%Z", code, v))
		return true
	})
	if len(items) == 0 {
		fail("%s: no StatusCode comparison", what)
	}
	x.Printf("(* %s: StatusCode comparisons in source order (operator code, status) *)\nDefinition %s : list (Z * Z) := [%s].\n\n", what, coqName(it), strings.Join(items, "; "))
}
