package main

// kind "c15_srcfact": one syntactic fact about a Go function that the hand-written models of
// C15 (Model/Paging.v, Model/PagingUrl.v) and the harness' error classification ASSUME, e.g.
// "Tags clears `last` inside its page loop", "parseLink reads resp.Header.Get(\"Link\") and
// resolves with resp.Request.URL.Parse", "setQueryParams splits on & and cuts at =",
// "the decode error says `failed to decode response`".  The fact is: the source of the
// function, printed without white space, contains the given snippet (also without white space).
// It is emitted as
//
//	Definition <name> : bool := true | false.
//
// and Proofs/PagingFacts.v proves the conjunction of all facts by reflexivity, so that an edit
// of one of these places breaks layer P (and sends bin/check into its search) instead of
// slipping through as a confusing correspondence mismatch -- or not at all.
//
//	{"kind": "c15_srcfact", "file": "registry/remote/utils.go", "recv": "", "func": "parseLink",
//	 "name": "c15_fact_link_header", "args": {"contains": "resp.Header.Get(\"Link\")"}}

import (
	"bytes"
	"go/printer"
	"strings"
)

func init() {
	kinds["c15_srcfact"] = func(x *Ctx, it Item) {
		want, _ := it.Args["contains"].(string)
		if want == "" || it.Name == "" {
			fail("c15_srcfact: item needs name and args.contains")
		}
		fd := findFunc(x.File(it.File), it.Recv, it.Func)
		holds := false
		if fd != nil {
			var buf bytes.Buffer
			if err := printer.Fprint(&buf, x.Fset(), fd); err == nil {
				src := strings.Join(strings.Fields(buf.String()), "")
				holds = strings.Contains(src, strings.Join(strings.Fields(want), ""))
			}
		}
		x.Printf("(* %s: %s.%s contains `%s` *)\n", it.File, it.Recv, it.Func, strings.ReplaceAll(strings.ReplaceAll(want, "*)", "* )"), "(*", "( *"))
		x.Printf("Definition %s : bool := %v.\n\n", it.Name, holds)
	}
}
