package main

// kind "funcstrlits": every string literal of a function body, in source order.
//
//   {"kind": "funcstrlits", "file": "registry/remote/url.go", "recv": "", "func": "buildReferrersURL",
//    "coq": "buildReferrersURL_lits"}
//
// emits  Definition <coq> : list str := [[...]; [...]].
//
// Used by C20 for the URL builders of registry/remote/url.go: the format strings and path
// constants of the model are proved equal to what these lists say (Proofs/RefURLGen.v), so an
// edit to a constant in the Go source breaks layer P at a named lemma.

import (
	"go/ast"
	"go/token"
	"os"
	"path/filepath"
	"strconv"
	"strings"
)

func init() {
	kinds["funcstrlits"] = func(x *Ctx, it Item) {
		fd := findFunc(x.File(it.File), it.Recv, it.Func)
		what := it.File + ":" + it.Recv + "." + it.Func
		if fd == nil || fd.Body == nil {
			fail("%s: function not found", what)
		}
		var parts []string
		var shown []string
		ast.Inspect(fd.Body, func(n ast.Node) bool {
			if lit, ok := n.(*ast.BasicLit); ok && lit.Kind == token.STRING {
				s, err := strconv.Unquote(lit.Value)
				if err != nil {
					fail("%s: cannot unquote %s", what, lit.Value)
				}
				parts = append(parts, coqStr(s))
				shown = append(shown, strings.ReplaceAll(strings.ReplaceAll(lit.Value, "\"", "'"), "*)", "* )"))
			}
			return true
		})
		name := it.Coq
		if name == "" {
			name = it.Func + "_lits"
		}
		x.Printf("(* %s string literals: %s *)\nDefinition %s : list str :=\n  [%s].\n\n", what, strings.Join(shown, " "), name, strings.Join(parts, ";\n   "))
	}
}

// kind "gosumhash": the version and content hash (h1:) of a dependency as pinned by go.sum.
//
//   {"kind": "gosumhash", "name": "github.com/opencontainers/go-digest", "coq": "go_digest_pin"}
//
// emits  Definition <coq> : str * str := (version, hash).
//
// Used by C20: Digest.Validate is modelled by hand from go-digest's source; the pinned content
// hash identifies exactly which source that is (a lemma states the pair, so a bump breaks layer P
// and the model has to be reviewed).
func init() {
	kinds["gosumhash"] = func(x *Ctx, it Item) {
		data, err := os.ReadFile(filepath.Join(*repo, "go.sum"))
		if err != nil {
			fail("go.sum: %v", err)
		}
		var found [][2]string
		for _, line := range strings.Split(string(data), "\n") {
			f := strings.Fields(line)
			if len(f) == 3 && f[0] == it.Name && !strings.HasSuffix(f[1], "/go.mod") {
				found = append(found, [2]string{f[1], f[2]})
			}
		}
		if len(found) != 1 {
			fail("go.sum: %d entries for %s, want exactly 1", len(found), it.Name)
		}
		x.Printf("(* go.sum: %s %s %s *)\nDefinition %s : str * str :=\n  (%s,\n   %s).\n\n", it.Name, found[0][0], found[0][1], it.Coq, coqStr(found[0][0]), coqStr(found[0][1]))
	}
}
