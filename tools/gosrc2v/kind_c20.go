package main

// kind "funcstrlits": every string literal of a function body, in source order.
//
//   {"kind": "funcstrlits", "file": "registry/remote/url.go", "recv": "", "func": "buildReferrersURL",
//    "coq": "buildReferrersURL_lits"}
//
// emits  Definition <coq> : list str := [[...]; [...]].
//
// Used by C20 for the URL builders of registry/remote/url.go: the format strings and path
// constants of the model are proved equal to what these lists say (Proofs/RefURLGen.v), so an
// edit to a constant in the Go source breaks layer P at a named lemma.

import (
	"go/ast"
	"go/token"
	"strconv"
	"strings"
)

func init() {
	kinds["funcstrlits"] = func(x *Ctx, it Item) {
		fd := findFunc(x.File(it.File), it.Recv, it.Func)
		what := it.File + ":" + it.Recv + "." + it.Func
		if fd == nil || fd.Body == nil {
			fail("%s: function not found", what)
		}
		var parts []string
		var shown []string
		ast.Inspect(fd.Body, func(n ast.Node) bool {
			if lit, ok := n.(*ast.BasicLit); ok && lit.Kind == token.STRING {
				s, err := strconv.Unquote(lit.Value)
				if err != nil {
					fail("%s: cannot unquote %s", what, lit.Value)
				}
				parts = append(parts, coqStr(s))
				shown = append(shown, strings.ReplaceAll(strings.ReplaceAll(lit.Value, "\"", "'"), "*)", "* )"))
			}
			return true
		})
		name := it.Coq
		if name == "" {
			name = it.Func + "_lits"
		}
		x.Printf("(* %s string literals: %s *)\nDefinition %s : list str :=\n  [%s].\n\n", what, strings.Join(shown, " "), name, strings.Join(parts, ";\n   "))
	}
}
