package main

// kind "callguards": for selected calls inside one function body, the conditions under
// which they are reached: the chain of enclosing `if` conditions (then-branch: the
// condition as printed by go/printer; else-branch: "!(" condition ")"), outermost first.
// Loops, switch and select statements are not conditions and are skipped; a call in the
// Init or Cond part of an `if` is NOT guarded by that `if`.
//
//	{"kind": "callguards", "file": "content/oci/oci.go", "recv": "Store", "func": "delete",
//	 "name": "guards_delete", "args": {"calls": ["s.saveIndex", "s.storage.Delete"]}}
//
// emits   Definition guards_delete : list (str * list str) :=
//	  [(b "s.saveIndex", [b "untagged && s.AutoSaveIndex"]); (b "s.storage.Delete", [])].
//
// callseq fixes the ORDER of effects, callguards the CONTROL FLOW around them (C10: the
// index is saved iff something was untagged and AutoSaveIndex is on; Tag indexes
// manifest-typed content only; Push removes content it could not index).

import (
	"bytes"
	"go/ast"
	"go/printer"
	"strings"
)

func init() {
	kinds["callguards"] = func(x *Ctx, it Item) {
		raw, _ := it.Args["calls"].([]any)
		want := map[string]bool{}
		for _, c := range raw {
			if s, ok := c.(string); ok {
				want[s] = true
			}
		}
		if len(want) == 0 {
			fail("%s: callguards %s needs args.calls", it.File, it.Name)
		}
		fd := findFunc(x.File(it.File), it.Recv, it.Func)
		if fd == nil || fd.Body == nil {
			x.Printf("(* %s: function %s.%s not found *)\n", it.File, it.Recv, it.Func)
			x.Printf("Definition %s : list (str * list str) := [].\n\n", coqName(it))
			return
		}
		show := func(e ast.Expr) string {
			var buf bytes.Buffer
			printer.Fprint(&buf, x.Fset(), e)
			return strings.Join(strings.Fields(buf.String()), " ")
		}
		type hit struct {
			callee string
			conds  []string
		}
		var hits []hit
		var stack []ast.Node
		ast.Inspect(fd.Body, func(n ast.Node) bool {
			if n == nil {
				stack = stack[:len(stack)-1]
				return true
			}
			stack = append(stack, n)
			call, ok := n.(*ast.CallExpr)
			if !ok {
				return true
			}
			p := calleePath(call.Fun)
			if !want[p] {
				return true
			}
			var conds []string
			for i := 0; i+1 < len(stack); i++ {
				ifs, ok := stack[i].(*ast.IfStmt)
				if !ok {
					continue
				}
				next := stack[i+1]
				switch {
				case next == ast.Node(ifs.Body):
					conds = append(conds, show(ifs.Cond))
				case ifs.Else != nil && next == ast.Node(ifs.Else):
					conds = append(conds, "!("+show(ifs.Cond)+")")
				}
			}
			hits = append(hits, hit{p, conds})
			return true
		})
		var parts []string
		for _, h := range hits {
			var cs []string
			for _, c := range h.conds {
				cs = append(cs, "b \""+strings.ReplaceAll(c, "\"", "'")+"\"%string")
			}
			parts = append(parts, "(b \""+h.callee+"\"%string, ["+strings.Join(cs, "; ")+"])")
		}
		x.Printf("(* %s: %s.%s: enclosing if-conditions of the calls among {%s}, in source order *)\n",
			it.File, it.Recv, it.Func, strings.Join(keysSorted(want), ", "))
		x.Printf("Definition %s : list (str * list str) :=\n  [%s].\n\n", coqName(it), strings.Join(parts, ";\n   "))
	}
}
