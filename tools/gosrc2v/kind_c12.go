package main

// Kinds of C12 (content/file: tarDirectory / extractTarDirectory / restoreDirModes).
//
// "c12_intlit": an integer literal of a function body, emitted as  Definition <coq> : N := <v>.
//   - "select": "callarg": argument args.index of call #args.occurrence of the callee it.Name
//     (e.g. the 0777 of os.MkdirAll(path, 0777) in ensureDir);
//   - "select": "orlit": the literal Y of the first binary expression X | Y whose X prints as
//     args.x (e.g. the 0700 of mode|0700 in extractTarDirectory).
//
// "c12_bodyhas": whether the body of a function, printed and stripped of all white space,
// contains args.text; emitted as  Definition <coq> : bool := true | false.  Proofs/TarSourceFacts.v
// proves the conjunction of these facts by reflexivity: an edit of one of the statements the
// hand-written model mirrors (the mask arithmetic of restoreDirModes, the header normalisation
// of tarDirectory, the place of the digest comparison ...) breaks layer P and sends bin/check
// into its search.
//
//	{"kind": "c12_intlit", "file": "content/file/file.go", "recv": "", "func": "ensureDir",
//	 "name": "os.MkdirAll", "coq": "c12_ensure_dir_perm", "args": {"select": "callarg", "index": 1}}
//	{"kind": "c12_bodyhas", "file": "content/file/utils.go", "recv": "", "func": "restoreDirModes",
//	 "coq": "c12_fact_narrow", "args": {"text": "want=cur.Perm()&mode.Perm()|cur&special|mode&special"}}

import (
	"bytes"
	"go/ast"
	"go/constant"
	"go/printer"
	"go/token"
	"strings"
)

func c12print(x *Ctx, n ast.Node) string {
	var buf bytes.Buffer
	if n == nil || printer.Fprint(&buf, x.Fset(), n) != nil {
		return ""
	}
	return strings.Join(strings.Fields(buf.String()), "")
}

func init() {
	kinds["c12_intlit"] = func(x *Ctx, it Item) {
		fd := findFunc(x.File(it.File), it.Recv, it.Func)
		if fd == nil || fd.Body == nil {
			fail("%s: function %s.%s not found", it.File, it.Recv, it.Func)
		}
		sel, _ := it.Args["select"].(string)
		num := func(k string) int {
			if v, ok := it.Args[k].(float64); ok {
				return int(v)
			}
			return 0
		}
		var lit *ast.BasicLit
		switch sel {
		case "callarg":
			seen := 0
			ast.Inspect(fd.Body, func(n ast.Node) bool {
				call, ok := n.(*ast.CallExpr)
				if !ok || lit != nil {
					return lit == nil
				}
				if c12print(x, call.Fun) != it.Name {
					return true
				}
				if seen == num("occurrence") && num("index") < len(call.Args) {
					lit, _ = call.Args[num("index")].(*ast.BasicLit)
				}
				seen++
				return true
			})
		case "orlit":
			want, _ := it.Args["x"].(string)
			ast.Inspect(fd.Body, func(n ast.Node) bool {
				be, ok := n.(*ast.BinaryExpr)
				if ok && lit == nil && be.Op == token.OR && c12print(x, be.X) == want {
					lit, _ = be.Y.(*ast.BasicLit)
				}
				return true
			})
		default:
			fail("%s: c12_intlit: unknown select %q", it.File, sel)
		}
		if lit == nil || lit.Kind != token.INT {
			fail("%s: %s: no integer literal for %s (%s)", it.File, it.Func, coqName(it), sel)
		}
		v := constant.MakeFromLiteral(lit.Value, token.INT, 0)
		x.Printf("(* %s: %s, literal %s *)\n", it.File, it.Func, lit.Value)
		x.Printf("Definition %s : N := %s%%N.\n\n", coqName(it), v.ExactString())
	}
	kinds["c12_bodyhas"] = func(x *Ctx, it Item) {
		fd := findFunc(x.File(it.File), it.Recv, it.Func)
		if fd == nil || fd.Body == nil {
			fail("%s: function %s.%s not found", it.File, it.Recv, it.Func)
		}
		text, _ := it.Args["text"].(string)
		if text == "" {
			fail("%s: c12_bodyhas %s: empty text", it.File, coqName(it))
		}
		has := strings.Contains(c12print(x, fd.Body), text)
		x.Printf("(* %s: body of %s contains %s *)\n", it.File, it.Func, strings.ReplaceAll(text, "*)", "* )"))
		x.Printf("Definition %s : bool := %v.\n\n", coqName(it), has)
	}
}
