package main

// kind "c01_linkschema": the link schema of content.Successors -- per case clause of its
// switch on node.MediaType, the case labels and the ORDERED list of descriptor fields whose
// contents are returned as successors, recognised from the statements of the case body:
//
//	if X.Subject != nil { nodes = append(nodes, *X.Subject) }      -> Subject
//	nodes = append(nodes, X.Config)                                 -> Config
//	return append([]T{X.Config}, X.Layers...), nil                  -> Config, Layers
//	return append(nodes, X.Manifests...), nil / return X.Manifests  -> Manifests
//
//	{"kind": "c01_linkschema", "file": "content/graph.go", "func": "Successors", "coq": "successors_schema"}
//
// emits  Definition successors_schema : list (list string * list string) :=
//          [(["docker.MediaTypeManifest"], ["Config"; "Layers"]); ...].
//
// The recogniser is strict: a case body may only contain the fetch/decode preamble
// (assignments from FetchAll / json.Unmarshal with `if err != nil { return nil, err }`),
// `var` declarations, the shapes above, and no other condition than `err != nil` and
// `X.Subject != nil`.  Anything else (e.g. a successor that is only listed under some
// condition on its size) is untranslatable: the model's link relation would no longer
// describe the function.

import (
	"bytes"
	"go/ast"
	"go/printer"
	"go/token"
	"strings"
)

func c01Print(x *Ctx, n ast.Node) string {
	var b bytes.Buffer
	if err := printer.Fprint(&b, x.Fset(), n); err != nil {
		fail("print: %v", err)
	}
	return b.String()
}

var c01LinkFields = map[string]bool{"Subject": true, "Config": true, "Layers": true, "Manifests": true, "Blobs": true}

func c01FieldOf(e ast.Expr) (string, bool) {
	switch v := e.(type) {
	case *ast.StarExpr:
		return c01FieldOf(v.X)
	case *ast.ParenExpr:
		return c01FieldOf(v.X)
	case *ast.SelectorExpr:
		if _, ok := v.X.(*ast.Ident); ok && c01LinkFields[v.Sel.Name] {
			return v.Sel.Name, true
		}
	}
	return "", false
}

// fields contributed by an expression that evaluates to the successor slice
func c01SliceFields(e ast.Expr, what string) []string {
	switch v := e.(type) {
	case *ast.Ident:
		if v.Name == "nodes" || v.Name == "nil" {
			return nil
		}
	case *ast.SelectorExpr, *ast.StarExpr:
		if f, ok := c01FieldOf(v); ok {
			return []string{f}
		}
	case *ast.CompositeLit:
		var out []string
		for _, el := range v.Elts {
			f, ok := c01FieldOf(el)
			if !ok {
				fail("%s: unrecognised element of a descriptor literal", what)
			}
			out = append(out, f)
		}
		return out
	case *ast.CallExpr:
		if id, ok := v.Fun.(*ast.Ident); ok && id.Name == "append" && len(v.Args) >= 1 {
			out := c01SliceFields(v.Args[0], what)
			for _, a := range v.Args[1:] {
				f, ok := c01FieldOf(a)
				if !ok {
					fail("%s: unrecognised argument of append", what)
				}
				out = append(out, f)
			}
			return out
		}
	}
	fail("%s: unrecognised successor expression", what)
	return nil
}

func c01IsErrNotNil(e ast.Expr) bool {
	b, ok := e.(*ast.BinaryExpr)
	if !ok || b.Op != token.NEQ {
		return false
	}
	x, ok1 := b.X.(*ast.Ident)
	y, ok2 := b.Y.(*ast.Ident)
	return ok1 && ok2 && x.Name == "err" && y.Name == "nil"
}

func c01IsSubjectNotNil(e ast.Expr) bool {
	b, ok := e.(*ast.BinaryExpr)
	if !ok || b.Op != token.NEQ {
		return false
	}
	f, ok1 := c01FieldOf(b.X)
	y, ok2 := b.Y.(*ast.Ident)
	return ok1 && f == "Subject" && ok2 && y.Name == "nil"
}

func init() {
	kinds["c01_linkschema"] = func(x *Ctx, it Item) {
		fd := findFunc(x.File(it.File), it.Recv, it.Func)
		what := it.File + ":" + it.Func
		if fd == nil || fd.Body == nil {
			fail("%s: function not found", what)
		}
		var sw *ast.SwitchStmt
		for _, st := range fd.Body.List {
			if s, ok := st.(*ast.SwitchStmt); ok && sw == nil {
				sw = s
			}
		}
		if sw == nil {
			fail("%s: no top-level switch", what)
		}
		if sel, ok := sw.Tag.(*ast.SelectorExpr); !ok || sel.Sel.Name != "MediaType" {
			fail("%s: the switch is not on .MediaType", what)
		}
		var rows []string
		for _, st := range sw.Body.List {
			cc := st.(*ast.CaseClause)
			if len(cc.List) == 0 {
				fail("%s: default clause in the media type switch", what)
			}
			var labels []string
			for _, e := range cc.List {
				sel, ok := e.(*ast.SelectorExpr)
				pkg, ok2 := sel.X.(*ast.Ident)
				if !ok || !ok2 {
					fail("%s: case label is not a package constant", what)
				}
				labels = append(labels, "\""+pkg.Name+"."+sel.Sel.Name+"\"%string")
			}
			var fields []string
			returned := false
			for _, s := range cc.Body {
				switch v := s.(type) {
				case *ast.DeclStmt: // var manifest T / var nodes []T
				case *ast.AssignStmt:
					if len(v.Lhs) == 1 {
						if id, ok := v.Lhs[0].(*ast.Ident); ok && id.Name == "nodes" && len(v.Rhs) == 1 {
							fields = append(fields, c01SliceFields(v.Rhs[0], what)...)
							continue
						}
					}
					// content, err := FetchAll(...)
					if len(v.Rhs) != 1 {
						fail("%s: unrecognised assignment", what)
					}
					call, ok := v.Rhs[0].(*ast.CallExpr)
					if !ok {
						fail("%s: unrecognised assignment", what)
					}
					if id, ok := call.Fun.(*ast.Ident); !ok || id.Name != "FetchAll" {
						fail("%s: unrecognised call in assignment", what)
					}
				case *ast.IfStmt:
					switch {
					case v.Else != nil:
						fail("%s: if/else in a case body", what)
					case c01IsErrNotNil(v.Cond):
						// if err != nil { return nil, err }  (optionally with an init statement that decodes)
						if len(v.Body.List) != 1 {
							fail("%s: unrecognised error branch", what)
						}
						if _, ok := v.Body.List[0].(*ast.ReturnStmt); !ok {
							fail("%s: unrecognised error branch", what)
						}
					case c01IsSubjectNotNil(v.Cond) && v.Init == nil:
						if len(v.Body.List) != 1 {
							fail("%s: unrecognised subject branch", what)
						}
						as, ok := v.Body.List[0].(*ast.AssignStmt)
						if !ok || len(as.Lhs) != 1 || len(as.Rhs) != 1 {
							fail("%s: unrecognised subject branch", what)
						}
						fs := c01SliceFields(as.Rhs[0], what)
						if len(fs) != 1 || fs[0] != "Subject" {
							fail("%s: the subject branch adds something else than the subject", what)
						}
						fields = append(fields, "Subject")
					default:
						fail("%s: a successor is listed under a condition the model does not know", what)
					}
				case *ast.ReturnStmt:
					if len(v.Results) != 2 {
						fail("%s: unrecognised return", what)
					}
					fields = append(fields, c01SliceFields(v.Results[0], what)...)
					returned = true
				default:
					fail("%s: unrecognised statement in a case body", what)
				}
			}
			if !returned {
				fail("%s: case body without return", what)
			}
			for i := range fields {
				fields[i] = "\"" + fields[i] + "\"%string"
			}
			rows = append(rows, "(["+strings.Join(labels, "; ")+"], ["+strings.Join(fields, "; ")+"])")
		}
		x.Printf("(* %s: link schema (case labels, ordered successor fields) *)\n", what)
		x.Printf("Definition %s : list (list string * list string) :=\n  [%s].\n\n", coqName(it), strings.Join(rows, ";\n   "))
	}
}

// kind "c01_finalreturn": the expressions of the LAST statement of a function, which must be a
// return, printed as source text:
//
//	{"kind": "c01_finalreturn", "file": "internal/syncutil/limit.go", "func": "Go", "coq": "go_final_return"}
//
// emits  Definition go_final_return : list string := ["context.Cause(ctx)"].
// (syncutil.Go must end by reporting the cause of the context: that is what turns "cancelled before
// anything was scheduled" into an error -- Model/CopyCancel.v.)
func init() {
	kinds["c01_finalreturn"] = func(x *Ctx, it Item) {
		fd := findFunc(x.File(it.File), it.Recv, it.Func)
		what := it.File + ":" + it.Func
		if fd == nil || fd.Body == nil || len(fd.Body.List) == 0 {
			fail("%s: function not found", what)
		}
		ret, ok := fd.Body.List[len(fd.Body.List)-1].(*ast.ReturnStmt)
		if !ok {
			fail("%s: the last statement is not a return", what)
		}
		var parts []string
		for _, r := range ret.Results {
			parts = append(parts, "\""+strings.ReplaceAll(c01Print(x, r), "\"", "'")+"\"%string")
		}
		x.Printf("(* %s: the final return *)\n", what)
		x.Printf("Definition %s : list string :=\n  [%s].\n\n", coqName(it), strings.Join(parts, "; "))
	}
}

// kind "c01_ifassign": the first `if <cond> { <lhs> = <rhs> }` statement (no else, single assignment) at
// the top level of a function whose condition mentions the identifier given in args.ident, as source
// text [cond; assignment]:
//
//	{"kind": "c01_ifassign", "file": "copy.go", "func": "Copy", "coq": "copy_blank_dstref_rule", "args": {"ident": "dstRef"}}
//
// emits  Definition copy_blank_dstref_rule : list string := ["dstRef == ''"; "dstRef = srcRef"].
func init() {
	kinds["c01_ifassign"] = func(x *Ctx, it Item) {
		fd := findFunc(x.File(it.File), it.Recv, it.Func)
		what := it.File + ":" + it.Func
		if fd == nil || fd.Body == nil {
			fail("%s: function not found", what)
		}
		ident, _ := it.Args["ident"].(string)
		for _, st := range fd.Body.List {
			is, ok := st.(*ast.IfStmt)
			if !ok || is.Else != nil || is.Init != nil || len(is.Body.List) != 1 {
				continue
			}
			as, ok := is.Body.List[0].(*ast.AssignStmt)
			if !ok || as.Tok != token.ASSIGN {
				continue
			}
			cond := c01Print(x, is.Cond)
			if !strings.Contains(cond, ident) {
				continue
			}
			q := func(t string) string { return "\"" + strings.ReplaceAll(t, "\"", "'") + "\"%string" }
			x.Printf("(* %s: if %s { %s } *)\n", what, cond, c01Print(x, as))
			x.Printf("Definition %s : list string :=\n  [%s; %s].\n\n", coqName(it), q(cond), q(c01Print(x, as)))
			return
		}
		fail("%s: no `if ... %s ... { x = y }` statement", what, ident)
	}
}
