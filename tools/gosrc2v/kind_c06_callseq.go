package main

// kind "c06_callseq": the calls made by a function body, in source order, as a Coq list of
// strings (the printed callee expression, e.g. "s.storage.Push", "s.graph.Index",
// "descriptor.IsManifest").  Callees listed in args.ignore are left out; calls inside
// function literals are left out unless args.closures is true.  The hand-written models mirror
// exactly this order of effects; Proofs state the expected sequence, so a re-ordering,
// removal or insertion of a step in the Go source breaks the proof layer instead of only the
// differential run.
//
//   {"kind": "c06_callseq", "file": "content/file/file.go", "recv": "Store", "func": "Push",
//    "coq": "file_Push_calls", "args": {"ignore": ["fmt.Errorf", "errors.Is"]}}

import (
	"bytes"
	"go/ast"
	"go/printer"
	"strings"
)

func init() {
	kinds["c06_callseq"] = func(x *Ctx, it Item) {
		fd := findFunc(x.File(it.File), it.Recv, it.Func)
		if fd == nil || fd.Body == nil {
			fail("%s: function %s.%s not found", it.File, it.Recv, it.Func)
		}
		ignore := map[string]bool{}
		if l, ok := it.Args["ignore"].([]any); ok {
			for _, v := range l {
				if s, ok := v.(string); ok {
					ignore[s] = true
				}
			}
		}
		closures, _ := it.Args["closures"].(bool)
		var calls []string
		ast.Inspect(fd.Body, func(n ast.Node) bool {
			if _, ok := n.(*ast.FuncLit); ok && !closures {
				return false
			}
			c, ok := n.(*ast.CallExpr)
			if !ok {
				return true
			}
			var b bytes.Buffer
			if err := printer.Fprint(&b, x.Fset(), c.Fun); err != nil {
				fail("%s: %v", it.File, err)
			}
			name := b.String()
			if !ignore[name] && !strings.ContainsAny(name, " \n(") {
				calls = append(calls, "\""+name+"\"%string")
			}
			return true
		})
		name := it.Coq
		if name == "" {
			name = it.Func + "_calls"
		}
		x.Printf("(* %s: calls of %s.%s in source order *)\n", it.File, it.Recv, it.Func)
		x.Printf("Definition %s : list string :=\n  [%s].\n\n", name, strings.Join(calls, "; "))
	}
}
