package main

// kind "strictchecks" (C19): a validation function of the shape
//
//	func f(value string) error {
//		if _, err := time.Parse(time.RFC3339, value); err != nil { return err }
//		num2 := func(s string) int { return 10*int(s[0]-'0') + int(s[1]-'0') }
//		switch {
//		case <cond>: return errors.New(...)
//		case <cond>: if <cond> { return errors.New(...) } ...
//		}
//		return nil
//	}
//
// is emitted as
//
//	Definition <coq>_layout : str := b "time.RFC3339".
//	Definition <coq> : list (scond * list scond) := [ (guard, [reject conditions]); ... ].
//
// in the check language of coq/Base/StrCheck.v.  Conditions are built from value[i] <op> 'c',
// num2(value[i:]) <op> K, &&, ||, !, where i is a constant or len(value)-constant and constants
// may use len("literal"), + and -.  Anything else is UNTRANSLATABLE.

import (
	"bytes"
	"fmt"
	"go/ast"
	"go/constant"
	"go/printer"
	"go/token"
	"strconv"
	"strings"
)

func nodeTextC19(x *Ctx, n ast.Node) string {
	var b bytes.Buffer
	if err := printer.Fprint(&b, x.Fset(), n); err != nil {
		return ""
	}
	return b.String()
}

type scCtx struct {
	param string
	what  string
}

// constInt evaluates integer constant expressions with len("lit"), +, -, literals.
func (c *scCtx) constInt(e ast.Expr) (int64, bool) {
	switch x := e.(type) {
	case *ast.BasicLit:
		if x.Kind == token.INT {
			v, err := strconv.ParseInt(x.Value, 0, 64)
			return v, err == nil
		}
		if x.Kind == token.CHAR {
			v := constant.MakeFromLiteral(x.Value, x.Kind, 0)
			n, ok := constant.Int64Val(v)
			return n, ok
		}
	case *ast.ParenExpr:
		return c.constInt(x.X)
	case *ast.CallExpr:
		if id, ok := x.Fun.(*ast.Ident); ok && id.Name == "len" && len(x.Args) == 1 {
			if lit, ok := x.Args[0].(*ast.BasicLit); ok && lit.Kind == token.STRING {
				s, err := strconv.Unquote(lit.Value)
				return int64(len(s)), err == nil
			}
		}
	case *ast.BinaryExpr:
		a, ok1 := c.constInt(x.X)
		b, ok2 := c.constInt(x.Y)
		if ok1 && ok2 {
			switch x.Op {
			case token.ADD:
				return a + b, true
			case token.SUB:
				return a - b, true
			}
		}
	}
	return 0, false
}

func (c *scCtx) isLenParam(e ast.Expr) bool {
	call, ok := e.(*ast.CallExpr)
	if !ok || len(call.Args) != 1 {
		return false
	}
	id, ok := call.Fun.(*ast.Ident)
	arg, ok2 := call.Args[0].(*ast.Ident)
	return ok && ok2 && id.Name == "len" && arg.Name == c.param
}

// index: constant -> FromStart n ; len(value)-k -> FromEnd k
func (c *scCtx) index(e ast.Expr) string {
	if n, ok := c.constInt(e); ok && n >= 0 {
		return fmt.Sprintf("(FromStart %d)", n)
	}
	if b, ok := e.(*ast.BinaryExpr); ok && b.Op == token.SUB && c.isLenParam(b.X) {
		if k, ok := c.constInt(b.Y); ok && k >= 0 {
			return fmt.Sprintf("(FromEnd %d)", k)
		}
	}
	fail("%s: unsupported index expression", c.what)
	return ""
}

func cmpOp(t token.Token) (string, bool) {
	switch t {
	case token.GEQ:
		return "OpGe", true
	case token.GTR:
		return "OpGt", true
	case token.LEQ:
		return "OpLe", true
	case token.LSS:
		return "OpLt", true
	case token.EQL:
		return "OpEq", true
	case token.NEQ:
		return "OpNe", true
	}
	return "", false
}

func (c *scCtx) cond(e ast.Expr) string {
	switch x := e.(type) {
	case *ast.ParenExpr:
		return c.cond(x.X)
	case *ast.UnaryExpr:
		if x.Op == token.NOT {
			return "(CNot " + c.cond(x.X) + ")"
		}
	case *ast.BinaryExpr:
		switch x.Op {
		case token.LAND:
			return "(CAnd " + c.cond(x.X) + " " + c.cond(x.Y) + ")"
		case token.LOR:
			return "(COr " + c.cond(x.X) + " " + c.cond(x.Y) + ")"
		}
		op, ok := cmpOp(x.Op)
		k, okk := c.constInt(x.Y)
		if ok && okk && k >= 0 {
			// value[i] op 'c'
			if ix, ok := x.X.(*ast.IndexExpr); ok {
				if id, ok := ix.X.(*ast.Ident); ok && id.Name == c.param {
					return fmt.Sprintf("(CByte %s %s %d)", c.index(ix.Index), op, k)
				}
			}
			// num2(value[i:]) op K
			if call, ok := x.X.(*ast.CallExpr); ok && len(call.Args) == 1 {
				if id, ok := call.Fun.(*ast.Ident); ok && id.Name == "num2" {
					if sl, ok := call.Args[0].(*ast.SliceExpr); ok && sl.High == nil && sl.Low != nil {
						if id, ok := sl.X.(*ast.Ident); ok && id.Name == c.param {
							return fmt.Sprintf("(CNum2 %s %s %d)", c.index(sl.Low), op, k)
						}
					}
				}
			}
		}
	}
	fail("%s: unsupported condition", c.what)
	return ""
}

func isReturnError(s ast.Stmt) bool {
	r, ok := s.(*ast.ReturnStmt)
	if !ok || len(r.Results) != 1 {
		return false
	}
	if id, ok := r.Results[0].(*ast.Ident); ok && id.Name == "nil" {
		return false
	}
	return true
}

func init() {
	kinds["strictchecks"] = func(x *Ctx, it Item) {
		fd := findFunc(x.File(it.File), it.Recv, it.Func)
		what := it.File + ":" + it.Func
		if fd == nil || fd.Body == nil {
			fail("%s: function not found", what)
		}
		if len(fd.Type.Params.List) != 1 || len(fd.Type.Params.List[0].Names) != 1 {
			fail("%s: expected one parameter", what)
		}
		c := &scCtx{param: fd.Type.Params.List[0].Names[0].Name, what: what}
		body := fd.Body.List
		if len(body) != 4 {
			fail("%s: expected 4 statements (parse; num2; switch; return nil), found %d", what, len(body))
		}
		// 1. if _, err := time.Parse(time.RFC3339, value); err != nil { return err }
		layout := ""
		if ifs, ok := body[0].(*ast.IfStmt); ok && ifs.Else == nil && len(ifs.Body.List) == 1 && isReturnError(ifs.Body.List[0]) {
			if as, ok := ifs.Init.(*ast.AssignStmt); ok && len(as.Rhs) == 1 {
				if call, ok := as.Rhs[0].(*ast.CallExpr); ok && calleePath(call.Fun) == "time.Parse" && len(call.Args) == 2 {
					if id, ok := call.Args[1].(*ast.Ident); ok && id.Name == c.param {
						layout = calleePath(call.Args[0])
					}
				}
			}
		}
		if layout == "" {
			fail("%s: first statement is not `if _, err := time.Parse(<layout>, %s); err != nil { return err }`", what, c.param)
		}
		// 2. num2 helper, compared as printed text
		want := "num2 := func(s string) int { return 10*int(s[0]-'0') + int(s[1]-'0') }"
		if got := strings.Join(strings.Fields(nodeTextC19(x, body[1])), " "); got != strings.Join(strings.Fields(want), " ") {
			fail("%s: num2 helper changed: %s", what, got)
		}
		// 3. tagless switch
		sw, ok := body[2].(*ast.SwitchStmt)
		if !ok || sw.Tag != nil || sw.Init != nil {
			fail("%s: third statement is not a tagless switch", what)
		}
		var cases []string
		for _, st := range sw.Body.List {
			cc := st.(*ast.CaseClause)
			if len(cc.List) != 1 {
				fail("%s: case with %d expressions", what, len(cc.List))
			}
			guard := c.cond(cc.List[0])
			var conds []string
			for _, bs := range cc.Body {
				switch b := bs.(type) {
				case *ast.ReturnStmt:
					if !isReturnError(b) {
						fail("%s: case returns nil", what)
					}
					conds = append(conds, "CTrue")
				case *ast.IfStmt:
					if b.Init != nil || b.Else != nil || len(b.Body.List) != 1 || !isReturnError(b.Body.List[0]) {
						fail("%s: unsupported if in case body", what)
					}
					conds = append(conds, c.cond(b.Cond))
				default:
					fail("%s: unsupported statement in case body", what)
				}
			}
			cases = append(cases, fmt.Sprintf("(%s, [%s])", guard, strings.Join(conds, "; ")))
		}
		// 4. return nil
		if r, ok := body[3].(*ast.ReturnStmt); !ok || isReturnError(r) {
			fail("%s: last statement is not `return nil`", what)
		}
		x.Printf("From Oras Require Import Base.StrCheck.\n")
		x.Printf("(* %s: layout handed to time.Parse, then the explicit rejections *)\n", what)
		x.Printf("Definition %s_layout : str := b \"%s\"%%string.\n", coqName(it), layout)
		x.Printf("Definition %s : list (scond * list scond) :=\n  [ %s ].\n\n", coqName(it), strings.Join(cases, ";\n    "))
	}
}
