package main

// Kinds for C18 (credentials file store).
//
// kind "c18_trimcut": a string normaliser of the shape
//
//	func f(addr string) string {
//		addr = strings.TrimPrefix(addr, "<lit>")      (any number, in order)
//		addr, _, _ = strings.Cut(addr, "<one byte>")
//		return addr
//	}
//
// is emitted as
//
//	Definition <coq>_prefixes : list str := [ <lit>; ... ].
//	Definition <coq>_cut : N := <byte>.
//
// kind "c18_credchecks": a credential validator of the shape
//
//	func f(cred auth.Credential) error {
//		if strings.ContainsRune(cred.<Field>, '<r>') { return ... }            (any number)
//		if !utf8.ValidString(cred.<F1>) || !utf8.ValidString(cred.<F2>) ... { return ... }
//		return nil
//	}
//
// is emitted as
//
//	Definition <coq>_norune : list (str * N) := [ (<"Field">, <r>); ... ].
//	Definition <coq>_utf8 : list str := [ <"F1">; <"F2">; ... ].
//
// kind "c18_putguards": the guard sequence of FileStore.Put -- every top-level
// `if` before the final `return fs.config.PutCredential(...)`, rendered as a
// short token: "DisablePut" for `if fs.DisablePut`, "call:<name>" for
// `if err := <name>(cred); err != nil`, "utf8:<param>" for
// `if !utf8.ValidString(<param>)`:
//
//	Definition <coq> : list str := [ ... ].
//
// Anything else in these functions is UNTRANSLATABLE (the run fails in layer T).

import (
	"go/ast"
	"go/token"
	"strconv"
)

func isCall(e ast.Expr, pkg, name string) (*ast.CallExpr, bool) {
	c, ok := e.(*ast.CallExpr)
	if !ok {
		return nil, false
	}
	s, ok := c.Fun.(*ast.SelectorExpr)
	if !ok || s.Sel.Name != name {
		return nil, false
	}
	id, ok := s.X.(*ast.Ident)
	if !ok || id.Name != pkg {
		return nil, false
	}
	return c, true
}

func strLit(e ast.Expr) (string, bool) {
	l, ok := e.(*ast.BasicLit)
	if !ok || l.Kind != token.STRING {
		return "", false
	}
	s, err := strconv.Unquote(l.Value)
	return s, err == nil
}

func identName(e ast.Expr) string {
	if id, ok := e.(*ast.Ident); ok {
		return id.Name
	}
	return ""
}

// notValidString recognises !utf8.ValidString(<arg>) and returns <arg>.
func notValidString(e ast.Expr) (ast.Expr, bool) {
	u, ok := e.(*ast.UnaryExpr)
	if !ok || u.Op != token.NOT {
		return nil, false
	}
	c, ok := isCall(u.X, "utf8", "ValidString")
	if !ok || len(c.Args) != 1 {
		return nil, false
	}
	return c.Args[0], true
}

func endsWithErrorReturn(b *ast.BlockStmt) bool {
	if b == nil || len(b.List) != 1 {
		return false
	}
	r, ok := b.List[0].(*ast.ReturnStmt)
	return ok && len(r.Results) >= 1
}

func init() {
	kinds["c18_trimcut"] = func(x *Ctx, it Item) {
		what := it.File + ":" + it.Func
		fd := findFunc(x.File(it.File), it.Recv, it.Func)
		if fd == nil || fd.Body == nil || fd.Type.Params == nil || len(fd.Type.Params.List) != 1 || len(fd.Type.Params.List[0].Names) != 1 {
			fail("%s: function with one parameter not found", what)
		}
		param := fd.Type.Params.List[0].Names[0].Name
		var prefixes []string
		cut := -1
		n := len(fd.Body.List)
		for i, st := range fd.Body.List {
			switch s := st.(type) {
			case *ast.AssignStmt:
				if s.Tok != token.ASSIGN || len(s.Rhs) != 1 || identName(s.Lhs[0]) != param {
					fail("%s: UNTRANSLATABLE assignment", what)
				}
				if c, ok := isCall(s.Rhs[0], "strings", "TrimPrefix"); ok && len(s.Lhs) == 1 && len(c.Args) == 2 && identName(c.Args[0]) == param && cut < 0 {
					lit, ok := strLit(c.Args[1])
					if !ok {
						fail("%s: TrimPrefix with a non-literal prefix", what)
					}
					prefixes = append(prefixes, lit)
					continue
				}
				if c, ok := isCall(s.Rhs[0], "strings", "Cut"); ok && len(s.Lhs) == 3 && identName(s.Lhs[1]) == "_" && identName(s.Lhs[2]) == "_" &&
					len(c.Args) == 2 && identName(c.Args[0]) == param && cut < 0 {
					lit, ok := strLit(c.Args[1])
					if !ok || len(lit) != 1 {
						fail("%s: Cut separator is not a one-byte literal", what)
					}
					cut = int(lit[0])
					continue
				}
				fail("%s: UNTRANSLATABLE statement %d", what, i)
			case *ast.ReturnStmt:
				if i != n-1 || len(s.Results) != 1 || identName(s.Results[0]) != param || cut < 0 {
					fail("%s: UNTRANSLATABLE return", what)
				}
			default:
				fail("%s: UNTRANSLATABLE statement %d", what, i)
			}
		}
		x.Printf("(* %s: strings.TrimPrefix sequence, then strings.Cut *)\n", what)
		x.Printf("Definition %s_prefixes : list str := [", coqName(it))
		for i, p := range prefixes {
			if i > 0 {
				x.Printf("; ")
			}
			x.Printf("%s", coqStr(p))
		}
		x.Printf("].\nDefinition %s_cut : N := %d.\n\n", coqName(it), cut)
	}

	kinds["c18_credchecks"] = func(x *Ctx, it Item) {
		what := it.File + ":" + it.Func
		fd := findFunc(x.File(it.File), it.Recv, it.Func)
		if fd == nil || fd.Body == nil || fd.Type.Params == nil || len(fd.Type.Params.List) != 1 || len(fd.Type.Params.List[0].Names) != 1 {
			fail("%s: function with one parameter not found", what)
		}
		param := fd.Type.Params.List[0].Names[0].Name
		field := func(e ast.Expr) string {
			s, ok := e.(*ast.SelectorExpr)
			if !ok || identName(s.X) != param {
				fail("%s: UNTRANSLATABLE operand (not a field of %s)", what, param)
			}
			return s.Sel.Name
		}
		type nr struct {
			f string
			r int
		}
		var norune []nr
		var utf8f []string
		n := len(fd.Body.List)
		for i, st := range fd.Body.List {
			switch s := st.(type) {
			case *ast.IfStmt:
				if s.Init != nil || s.Else != nil || !endsWithErrorReturn(s.Body) {
					fail("%s: UNTRANSLATABLE if statement %d", what, i)
				}
				if c, ok := isCall(s.Cond, "strings", "ContainsRune"); ok && len(c.Args) == 2 {
					l, ok := c.Args[1].(*ast.BasicLit)
					if !ok || l.Kind != token.CHAR {
						fail("%s: ContainsRune with a non-literal rune", what)
					}
					r, _, _, err := strconv.UnquoteChar(l.Value[1:len(l.Value)-1], '\'')
					if err != nil || r > 127 {
						fail("%s: ContainsRune rune is not ASCII", what)
					}
					norune = append(norune, nr{field(c.Args[0]), int(r)})
					continue
				}
				// a disjunction of !utf8.ValidString(cred.F)
				var walk func(e ast.Expr)
				walk = func(e ast.Expr) {
					if b, ok := e.(*ast.BinaryExpr); ok && b.Op == token.LOR {
						walk(b.X)
						walk(b.Y)
						return
					}
					a, ok := notValidString(e)
					if !ok {
						fail("%s: UNTRANSLATABLE condition in if statement %d", what, i)
					}
					utf8f = append(utf8f, field(a))
				}
				walk(s.Cond)
			case *ast.ReturnStmt:
				if i != n-1 || len(s.Results) != 1 || identName(s.Results[0]) != "nil" {
					fail("%s: UNTRANSLATABLE return", what)
				}
			default:
				fail("%s: UNTRANSLATABLE statement %d", what, i)
			}
		}
		x.Printf("(* %s: refused when a field contains the rune / is not valid UTF-8 *)\n", what)
		x.Printf("Definition %s_norune : list (str * N) := [", coqName(it))
		for i, p := range norune {
			if i > 0 {
				x.Printf("; ")
			}
			x.Printf("(%s, %d)", coqStr(p.f), p.r)
		}
		x.Printf("].\nDefinition %s_utf8 : list str := [", coqName(it))
		for i, p := range utf8f {
			if i > 0 {
				x.Printf("; ")
			}
			x.Printf("%s", coqStr(p))
		}
		x.Printf("].\n\n")
	}

	kinds["c18_putguards"] = func(x *Ctx, it Item) {
		what := it.File + ":" + it.Recv + "." + it.Func
		fd := findFunc(x.File(it.File), it.Recv, it.Func)
		if fd == nil || fd.Body == nil {
			fail("%s: function not found", what)
		}
		var guards []string
		n := len(fd.Body.List)
		for i, st := range fd.Body.List {
			switch s := st.(type) {
			case *ast.IfStmt:
				if s.Else != nil || !endsWithErrorReturn(s.Body) {
					fail("%s: UNTRANSLATABLE if statement %d", what, i)
				}
				if s.Init == nil {
					if sel, ok := s.Cond.(*ast.SelectorExpr); ok && sel.Sel.Name == "DisablePut" {
						guards = append(guards, "DisablePut")
						continue
					}
					if a, ok := notValidString(s.Cond); ok && identName(a) != "" {
						guards = append(guards, "utf8:"+identName(a))
						continue
					}
					fail("%s: UNTRANSLATABLE guard %d", what, i)
				}
				as, ok := s.Init.(*ast.AssignStmt)
				if !ok || len(as.Rhs) != 1 {
					fail("%s: UNTRANSLATABLE guard %d", what, i)
				}
				c, ok := as.Rhs[0].(*ast.CallExpr)
				if !ok || identName(c.Fun) == "" {
					fail("%s: UNTRANSLATABLE guard %d", what, i)
				}
				guards = append(guards, "call:"+identName(c.Fun))
			case *ast.ReturnStmt:
				if i != n-1 || len(s.Results) != 1 {
					fail("%s: UNTRANSLATABLE return", what)
				}
				c, ok := s.Results[0].(*ast.CallExpr)
				sel, ok2 := func() (*ast.SelectorExpr, bool) {
					if !ok {
						return nil, false
					}
					s, ok := c.Fun.(*ast.SelectorExpr)
					return s, ok
				}()
				if !ok || !ok2 || sel.Sel.Name != "PutCredential" {
					fail("%s: does not end in a call of PutCredential", what)
				}
			default:
				fail("%s: UNTRANSLATABLE statement %d", what, i)
			}
		}
		x.Printf("(* %s: guards before config.PutCredential, in order *)\n", what)
		x.Printf("Definition %s : list str := [", coqName(it))
		for i, g := range guards {
			if i > 0 {
				x.Printf("; ")
			}
			x.Printf("%s", coqStr(g))
		}
		x.Printf("].\n\n")
	}
}
