package main

// kind "c16_oncepaths": the return paths of syncutil.Once.Do after the receive from
// the status channel, as lists of abstract actions.
//
//   {"kind": "c16_oncepaths", "file": "internal/syncutil/once.go", "recv": "Once", "func": "Do",
//    "name": "status", "coq": "once_paths"}
//
// The select clause `case x := <-o.<name>:` is located; its body is unfolded into
// every control path up to a return.  A path under `if !x` (the value received from
// the closed channel) belongs to <coq>_closed, the others (the caller holds the run
// slot) to <coq>_taken.  Actions (as numbers, decoded by Model/OnceSlot.v):
//   0 call of the function argument     1 o.<name> <- true   (hand the slot back)
//   2 close(o.<name>)  (publish)        3 assignment to o.result
//   4 return                            5 end of the clause without return (next loop round)
// Any statement the recogniser does not understand (loops, switches, gotos, defers
// inside the clause) is UNTRANSLATABLE.

import (
	"go/ast"
	"go/token"
	"strings"
)

func init() {
	kinds["c16_oncepaths"] = func(x *Ctx, it Item) {
		fd := findFunc(x.File(it.File), it.Recv, it.Func)
		if fd == nil || fd.Body == nil {
			fail("%s: function %s.%s not found", it.File, it.Recv, it.Func)
		}
		recvName := ""
		if fd.Recv != nil && len(fd.Recv.List) == 1 && len(fd.Recv.List[0].Names) == 1 {
			recvName = fd.Recv.List[0].Names[0].Name
		}
		fnArg := ""
		for _, p := range fd.Type.Params.List {
			if _, ok := p.Type.(*ast.FuncType); ok && len(p.Names) == 1 {
				fnArg = p.Names[0].Name
			}
		}
		if recvName == "" || fnArg == "" {
			fail("%s: %s: receiver or function parameter not recognised", it.File, it.Func)
		}
		isChan := func(e ast.Expr) bool {
			s, ok := e.(*ast.SelectorExpr)
			if !ok {
				return false
			}
			id, ok := s.X.(*ast.Ident)
			return ok && id.Name == recvName && s.Sel.Name == it.Name
		}
		var clause *ast.CommClause
		flagVar := ""
		ast.Inspect(fd.Body, func(n ast.Node) bool {
			cc, ok := n.(*ast.CommClause)
			if !ok || cc.Comm == nil {
				return true
			}
			if as, ok := cc.Comm.(*ast.AssignStmt); ok && len(as.Rhs) == 1 && len(as.Lhs) == 1 {
				if u, ok := as.Rhs[0].(*ast.UnaryExpr); ok && u.Op == token.ARROW && isChan(u.X) {
					if id, ok := as.Lhs[0].(*ast.Ident); ok {
						clause, flagVar = cc, id.Name
					}
				}
			}
			return true
		})
		if clause == nil {
			fail("%s: %s: no select clause receiving from %s.%s into a variable", it.File, it.Func, recvName, it.Name)
		}
		callsFn := func(n ast.Node) bool {
			found := false
			ast.Inspect(n, func(m ast.Node) bool {
				if c, ok := m.(*ast.CallExpr); ok {
					if id, ok := c.Fun.(*ast.Ident); ok && id.Name == fnArg {
						found = true
					}
				}
				return true
			})
			return found
		}
		var taken, closed [][]int
		var walk func(stmts []ast.Stmt, acts []int, isClosed bool)
		walk = func(stmts []ast.Stmt, acts []int, isClosed bool) {
			for i, st := range stmts {
				rest := stmts[i+1:]
				switch s := st.(type) {
				case *ast.ReturnStmt:
					p := append(append([]int{}, acts...), 4)
					if isClosed {
						closed = append(closed, p)
					} else {
						taken = append(taken, p)
					}
					return
				case *ast.SendStmt:
					if !isChan(s.Chan) {
						fail("%s: %s: send on another channel inside the clause", it.File, it.Func)
					}
					acts = append(append([]int{}, acts...), 1)
				case *ast.ExprStmt:
					c, ok := s.X.(*ast.CallExpr)
					if !ok {
						fail("%s: %s: unrecognised expression statement", it.File, it.Func)
					}
					if id, ok := c.Fun.(*ast.Ident); ok && id.Name == "close" && len(c.Args) == 1 && isChan(c.Args[0]) {
						acts = append(append([]int{}, acts...), 2)
					} else if callsFn(c) {
						acts = append(append([]int{}, acts...), 0)
					}
				case *ast.AssignStmt:
					a := append([]int{}, acts...)
					if callsFn(s) {
						a = append(a, 0)
					}
					for _, l := range s.Lhs {
						if sel, ok := l.(*ast.SelectorExpr); ok {
							if id, ok := sel.X.(*ast.Ident); ok && id.Name == recvName && sel.Sel.Name == "result" {
								a = append(a, 3)
							}
						}
					}
					acts = a
				case *ast.IfStmt:
					if s.Init != nil && callsFn(s.Init) {
						acts = append(append([]int{}, acts...), 0)
					}
					condClosed := false
					if u, ok := s.Cond.(*ast.UnaryExpr); ok && u.Op == token.NOT {
						if id, ok := u.X.(*ast.Ident); ok && id.Name == flagVar {
							condClosed = true
						}
					}
					// branch taken: the body, then (if it does not return) the rest
					walk(append(append([]ast.Stmt{}, s.Body.List...), rest...), acts, isClosed || condClosed)
					// branch not taken
					if s.Else != nil {
						switch e := s.Else.(type) {
						case *ast.BlockStmt:
							walk(append(append([]ast.Stmt{}, e.List...), rest...), acts, isClosed)
						default:
							walk(append([]ast.Stmt{e}, rest...), acts, isClosed)
						}
						return
					}
					// (no else) fall through to the rest with the same actions
				case *ast.DeclStmt, *ast.EmptyStmt:
				default:
					fail("%s: %s: statement of kind %T inside the clause is not recognised", it.File, it.Func, st)
				}
			}
			p := append(append([]int{}, acts...), 5)
			if isClosed {
				closed = append(closed, p)
			} else {
				taken = append(taken, p)
			}
		}
		walk(clause.Body, nil, false)
		// what the deferred function does when the function argument panics:
		//   defer func() { if r := recover(); r != nil { <stmts> } }()
		// actions: 1 hand the slot back, 2 close, 6 panic again (leaves Do)
		var panicPath []int
		foundDefer := false
		for _, st := range fd.Body.List {
			ds, ok := st.(*ast.DeferStmt)
			if !ok {
				continue
			}
			fl, ok := ds.Call.Fun.(*ast.FuncLit)
			if !ok {
				fail("%s: %s: deferred call is not a function literal", it.File, it.Func)
			}
			for _, ist := range fl.Body.List {
				ifs, ok := ist.(*ast.IfStmt)
				if !ok || ifs.Init == nil {
					fail("%s: %s: deferred function: statement other than `if r := recover(); r != nil`", it.File, it.Func)
				}
				as, ok := ifs.Init.(*ast.AssignStmt)
				isRecover := false
				if ok && len(as.Rhs) == 1 {
					if c, ok := as.Rhs[0].(*ast.CallExpr); ok {
						if id, ok := c.Fun.(*ast.Ident); ok && id.Name == "recover" {
							isRecover = true
						}
					}
				}
				if !isRecover || ifs.Else != nil {
					fail("%s: %s: deferred function: not the recover pattern", it.File, it.Func)
				}
				foundDefer = true
				for _, bst := range ifs.Body.List {
					switch b := bst.(type) {
					case *ast.SendStmt:
						if !isChan(b.Chan) {
							fail("%s: %s: deferred function sends on another channel", it.File, it.Func)
						}
						panicPath = append(panicPath, 1)
					case *ast.ExprStmt:
						c, ok := b.X.(*ast.CallExpr)
						if !ok {
							fail("%s: %s: deferred function: unrecognised statement", it.File, it.Func)
						}
						if id, ok := c.Fun.(*ast.Ident); ok && id.Name == "panic" {
							panicPath = append(panicPath, 6)
						} else if id, ok := c.Fun.(*ast.Ident); ok && id.Name == "close" && len(c.Args) == 1 && isChan(c.Args[0]) {
							panicPath = append(panicPath, 2)
						} else {
							fail("%s: %s: deferred function: unrecognised call", it.File, it.Func)
						}
					default:
						fail("%s: %s: deferred function: statement of kind %T", it.File, it.Func, bst)
					}
				}
			}
		}
		if !foundDefer {
			panicPath = []int{6} // no recover: the panic leaves Do at once
		}
		render := func(ps [][]int) string {
			var parts []string
			for _, p := range ps {
				var q []string
				for _, a := range p {
					q = append(q, string(rune('0'+a)))
				}
				parts = append(parts, "["+strings.Join(q, "; ")+"]")
			}
			return "[" + strings.Join(parts, "; ") + "]"
		}
		x.Printf("(* %s: %s.%s, control paths after the receive from %s.%s (0 call f, 1 hand back, 2 close, 3 store, 4 return, 5 next round) *)\n",
			it.File, it.Recv, it.Func, recvName, it.Name)
		x.Printf("Definition %s_taken : list (list N) := %s.\n", coqName(it), render(taken))
		x.Printf("Definition %s_closed : list (list N) := %s.\n", coqName(it), render(closed))
		x.Printf("(* when the function argument panics (deferred recover): 1 hand back, 2 close, 6 panic again *)\n")
		x.Printf("Definition %s_panic : list (list N) := %s.\n\n", coqName(it), render([][]int{panicPath}))
	}
}
