package main

// kind "jsontags" (C19): the JSON field names of a struct, in declaration order, with their
// omitempty flag -- what encoding/json will write and in which order.
//
//	{"kind": "jsontags", "file": "internal/spec/artifact.go", "name": "Artifact", "coq": "Artifact_json_tags"}
//	{"kind": "jsontags", "name": "Descriptor", "coq": "Descriptor_json_tags",
//	 "args": {"module": "github.com/opencontainers/image-spec", "file": "specs-go/v1/descriptor.go"}}
//
// emits   Definition Artifact_json_tags : list (str * bool) := [(b "mediaType", false); ...].
//
// With args.module the file is read from the module cache at the version the repository's go.mod
// requires (a bumped dependency is re-read).  An embedded struct is listed as ("<embedded T>", false);
// a field without a json tag as its Go name; a field tagged "-" is skipped.

import (
	"bufio"
	"fmt"
	"go/ast"
	"go/parser"
	"go/printer"
	"go/token"
	"io"
	"os"
	"path/filepath"
	"reflect"
	"strconv"
	"strings"
)

func moduleVersion(repo, module string) string {
	f, err := os.Open(filepath.Join(repo, "go.mod"))
	if err != nil {
		fail("jsontags: %v", err)
	}
	defer f.Close()
	sc := bufio.NewScanner(f)
	for sc.Scan() {
		fs := strings.Fields(sc.Text())
		for i := 0; i+1 < len(fs); i++ {
			if fs[i] == module && strings.HasPrefix(fs[i+1], "v") {
				return fs[i+1]
			}
		}
	}
	fail("jsontags: module %s is not required by go.mod", module)
	return ""
}

func modCacheDir() string {
	if d := os.Getenv("GOMODCACHE"); d != "" {
		return d
	}
	if d := os.Getenv("GOPATH"); d != "" {
		return filepath.Join(strings.Split(d, string(os.PathListSeparator))[0], "pkg", "mod")
	}
	h, _ := os.UserHomeDir()
	return filepath.Join(h, "go", "pkg", "mod")
}

func escapeModPath(p string) string {
	var b strings.Builder
	for _, c := range p {
		if c >= 'A' && c <= 'Z' {
			b.WriteByte('!')
			b.WriteRune(c + 'a' - 'A')
		} else {
			b.WriteRune(c)
		}
	}
	return b.String()
}

func init() {
	kinds["jsontags"] = func(x *Ctx, it Item) {
		var file *ast.File
		where := it.File
		if mod, _ := it.Args["module"].(string); mod != "" {
			rel, _ := it.Args["file"].(string)
			ver := moduleVersion(*repo, mod)
			path := filepath.Join(modCacheDir(), escapeModPath(mod)+"@"+ver, rel)
			f, err := parser.ParseFile(token.NewFileSet(), path, nil, 0)
			if err != nil {
				fail("jsontags: %v", err)
			}
			file, where = f, mod+"@"+ver+"/"+rel
		} else {
			file = x.File(it.File)
		}
		var st *ast.StructType
		ast.Inspect(file, func(n ast.Node) bool {
			if ts, ok := n.(*ast.TypeSpec); ok && ts.Name.Name == it.Name {
				if s, ok := ts.Type.(*ast.StructType); ok {
					st = s
				}
			}
			return true
		})
		if st == nil {
			fail("%s: struct %s not found", where, it.Name)
		}
		var parts []string
		for _, f := range st.Fields.List {
			tag := ""
			if f.Tag != nil {
				if s, err := strconv.Unquote(f.Tag.Value); err == nil {
					tag = reflect.StructTag(s).Get("json")
				}
			}
			if len(f.Names) == 0 { // embedded
				parts = append(parts, fmt.Sprintf("(b \"<embedded %s>\"%%string, false)", typeText(f.Type)))
				continue
			}
			for _, n := range f.Names {
				if !n.IsExported() {
					continue
				}
				name, omit := n.Name, false
				if tag == "-" {
					continue
				}
				if tag != "" {
					fs := strings.Split(tag, ",")
					if fs[0] != "" {
						name = fs[0]
					}
					for _, o := range fs[1:] {
						if o == "omitempty" {
							omit = true
						}
					}
				}
				parts = append(parts, fmt.Sprintf("(b \"%s\"%%string, %v)", name, omit))
			}
		}
		x.Printf("(* %s: struct %s, JSON names in declaration order with omitempty *)\n", where, it.Name)
		x.Printf("Definition %s : list (str * bool) :=\n  [%s].\n\n", coqName(it), strings.Join(parts, "; "))
	}
}

func typeText(e ast.Expr) string {
	switch t := e.(type) {
	case *ast.Ident:
		return t.Name
	case *ast.SelectorExpr:
		return typeText(t.X) + "." + t.Sel.Name
	case *ast.StarExpr:
		return "*" + typeText(t.X)
	}
	return "?"
}

// kind "ifconds" (C19): the decisions of a function as source text, in source order (pre-order):
// every `if` (with its init statement, "init; cond") and every case expression list of a switch.
//
//	{"kind": "ifconds", "file": "pack.go", "func": "packManifestV1_1", "coq": "conds_packManifestV1_1"}
//
// emits   Definition conds_packManifestV1_1 : list str := [ <bytes of "artifactType == ..."> ; ... ].
//
// A hand-written model that mirrors the function states the expected list as a lemma, so an edited
// condition (a comma-ok lookup replaced by a comparison, a dropped conjunct, a changed bound) breaks
// the proof layer even where the differential run would need an unusual input to notice.
func init() {
	kinds["ifconds"] = func(x *Ctx, it Item) {
		fd := findFunc(x.File(it.File), it.Recv, it.Func)
		what := it.File + ":" + it.Func
		if fd == nil || fd.Body == nil {
			fail("%s: function not found", what)
		}
		text := func(n ast.Node) string {
			var b strings.Builder
			if err := printerFprint(&b, x, n); err != nil {
				fail("%s: %v", what, err)
			}
			return strings.Join(strings.Fields(b.String()), " ")
		}
		var conds []string
		ast.Inspect(fd.Body, func(n ast.Node) bool {
			switch s := n.(type) {
			case *ast.IfStmt:
				c := text(s.Cond)
				if s.Init != nil {
					c = text(s.Init) + "; " + c
				}
				conds = append(conds, c)
			case *ast.CaseClause:
				if len(s.List) == 0 {
					conds = append(conds, "default")
				} else {
					var ps []string
					for _, e := range s.List {
						ps = append(ps, text(e))
					}
					conds = append(conds, "case "+strings.Join(ps, ", "))
				}
			}
			return true
		})
		var parts []string
		for _, c := range conds {
			parts = append(parts, coqStr(c))
		}
		x.Printf("(* %s: decisions in source order: %s *)\n", what, strings.ReplaceAll(strings.ReplaceAll(strings.Join(conds, " | "), "*)", "* )"), "(*", "( *"))
		x.Printf("Definition %s : list str :=\n  [%s].\n\n", coqName(it), strings.Join(parts, ";\n   "))
	}
}

func printerFprint(w io.Writer, x *Ctx, n ast.Node) error {
	return printer.Fprint(w, x.Fset(), n)
}
