package main

// kind "godigest_algorithms": the algorithm table of the pinned github.com/opencontainers/go-digest,
// read from the module's own source in the module cache (version from the repository's go.mod):
//
//   {"kind": "godigest_algorithms", "name": "github.com/opencontainers/go-digest", "coq": "go_digest_algorithms"}
//
// algorithm.go:  const SHA256 Algorithm = "sha256" ...
//                algorithms             = map[Algorithm]crypto.Hash{SHA256: crypto.SHA256, ...}
//                anchoredEncodedRegexps = map[Algorithm]*regexp.Regexp{SHA256: regexp.MustCompile(`^[a-f0-9]{64}$`), ...}
// emits  Definition <coq> : list (str * nat * re) := [(name, 2 * hash size, anchored regex); ...]
// in the source order of anchoredEncodedRegexps (Algorithm.Validate: Size()*2 == len(encoded) and
// the regex matches).  Fails (layer T) when the source has another shape.

import (
	"crypto"
	"go/ast"
	"go/parser"
	"go/token"
	"os"
	"os/exec"
	"path/filepath"
	"strconv"
	"strings"
)

func goModCache() string {
	if v := os.Getenv("GOMODCACHE"); v != "" {
		return v
	}
	for _, g := range []string{"go1.26.8", "go"} {
		cmd := exec.Command(g, "env", "GOMODCACHE")
		cmd.Env = append(os.Environ(), "GOTOOLCHAIN=local", "GOFLAGS=-mod=mod")
		if out, err := cmd.Output(); err == nil && strings.TrimSpace(string(out)) != "" {
			return strings.TrimSpace(string(out))
		}
	}
	if h, err := os.UserHomeDir(); err == nil {
		return filepath.Join(h, "go", "pkg", "mod")
	}
	return ""
}

func init() {
	kinds["godigest_algorithms"] = func(x *Ctx, it Item) {
		mod, err := os.ReadFile(filepath.Join(*repo, "go.mod"))
		if err != nil {
			fail("go.mod: %v", err)
		}
		version := ""
		for _, line := range strings.Split(string(mod), "\n") {
			f := strings.Fields(line)
			for i := 0; i+1 < len(f); i++ {
				if f[i] == it.Name {
					version = f[i+1]
				}
			}
		}
		if version == "" {
			fail("go.mod: no requirement on %s", it.Name)
		}
		src := filepath.Join(goModCache(), it.Name+"@"+version, "algorithm.go")
		fset := token.NewFileSet()
		f, err := parser.ParseFile(fset, src, nil, 0)
		if err != nil {
			fail("%s: %v", src, err)
		}
		names := map[string]string{} // SHA256 -> "sha256"
		hashes := map[string]string{} // SHA256 -> "SHA256" (crypto.<X>)
		var order []string
		regexes := map[string]string{}
		for _, d := range f.Decls {
			gd, ok := d.(*ast.GenDecl)
			if !ok {
				continue
			}
			for _, sp := range gd.Specs {
				vs, ok := sp.(*ast.ValueSpec)
				if !ok {
					continue
				}
				for i, n := range vs.Names {
					if i >= len(vs.Values) {
						continue
					}
					switch v := vs.Values[i].(type) {
					case *ast.BasicLit:
						if id, ok := vs.Type.(*ast.Ident); ok && id.Name == "Algorithm" && v.Kind == token.STRING {
							s, _ := strconv.Unquote(v.Value)
							names[n.Name] = s
						}
					case *ast.CompositeLit:
						for _, e := range v.Elts {
							kv, ok := e.(*ast.KeyValueExpr)
							if !ok {
								fail("%s: %s has a non key-value element", src, n.Name)
							}
							k, ok := kv.Key.(*ast.Ident)
							if !ok {
								fail("%s: %s has a non-identifier key", src, n.Name)
							}
							switch n.Name {
							case "algorithms":
								sel, ok := kv.Value.(*ast.SelectorExpr)
								if pk, ok2 := sel.X.(*ast.Ident); !ok || !ok2 || pk.Name != "crypto" {
									fail("%s: algorithms[%s] is not crypto.<Hash>", src, k.Name)
								}
								hashes[k.Name] = sel.Sel.Name
							case "anchoredEncodedRegexps":
								pat, ok := regexLiteral(kv.Value)
								if !ok {
									fail("%s: anchoredEncodedRegexps[%s] is not regexp.MustCompile(<literal>)", src, k.Name)
								}
								order = append(order, k.Name)
								regexes[k.Name] = pat
							}
						}
					}
				}
			}
		}
		cryptoHash := map[string]crypto.Hash{"SHA224": crypto.SHA224, "SHA256": crypto.SHA256, "SHA384": crypto.SHA384, "SHA512": crypto.SHA512,
			"SHA512_224": crypto.SHA512_224, "SHA512_256": crypto.SHA512_256, "SHA1": crypto.SHA1, "MD5": crypto.MD5,
			"SHA3_256": crypto.SHA3_256, "SHA3_384": crypto.SHA3_384, "SHA3_512": crypto.SHA3_512, "BLAKE2b_256": crypto.BLAKE2b_256, "BLAKE2b_512": crypto.BLAKE2b_512}
		if len(order) == 0 || len(order) != len(hashes) {
			fail("%s: %d encoded regexps, %d algorithms", src, len(order), len(hashes))
		}
		var parts, shown []string
		for _, k := range order {
			name, ok1 := names[k]
			h, ok2 := cryptoHash[hashes[k]]
			if !ok1 || !ok2 {
				fail("%s: algorithm %s: name or hash not found", src, k)
			}
			parts = append(parts, "("+coqStr(name)+", "+strconv.Itoa(2*h.Size())+"%nat,\n    "+anchoredRegex(regexes[k], src+":"+k)+")")
			shown = append(shown, name+" "+strings.ReplaceAll(regexes[k], "*)", "* )"))
		}
		x.Printf("(* %s@%s algorithm.go: %s *)\nDefinition %s : list (str * nat * re) :=\n  [%s].\n\n", it.Name, version, strings.Join(shown, "; "), it.Coq, strings.Join(parts, ";\n   "))
	}
}
