// gosrc2v regenerates coq/Generated/*.v from the Go sources of /repo.
//
// It is the "translation" tie between the Coq development and the code: every
// regular expression, constant and table the proofs depend on is re-read from
// the current working tree on every run.  It fails loudly (exit 2, message on
// stderr naming the anchor) when an anchor is missing or has a shape it cannot
// translate.
package main

import (
	"bytes"
	"crypto/sha256"
	"encoding/hex"
	"encoding/json"
	"flag"
	"fmt"
	"go/ast"
	"go/constant"
	"go/parser"
	"go/printer"
	"go/token"
	"os"
	"path/filepath"
	"regexp/syntax"
	"sort"
	"strconv"
	"strings"
)

var (
	repo = flag.String("repo", "/repo", "repository root")
	out  = flag.String("out", "", "output directory (coq/Generated)")
)

type fileCache struct {
	fset  *token.FileSet
	files map[string]*ast.File
}

func (c *fileCache) get(rel string) *ast.File {
	if f, ok := c.files[rel]; ok {
		return f
	}
	f, err := parser.ParseFile(c.fset, filepath.Join(*repo, rel), nil, parser.SkipObjectResolution)
	if err != nil {
		fail("parse %s: %v", rel, err)
	}
	c.files[rel] = f
	return f
}

func fail(format string, a ...any) {
	fmt.Fprintf(os.Stderr, "gosrc2v: UNTRANSLATABLE: "+format+"\n", a...)
	os.Exit(2)
}

// findVarInit returns the initialiser expression of package-level var/const `name`.
func findVarInit(f *ast.File, name string) ast.Expr {
	for _, d := range f.Decls {
		gd, ok := d.(*ast.GenDecl)
		if !ok {
			continue
		}
		for _, s := range gd.Specs {
			vs, ok := s.(*ast.ValueSpec)
			if !ok {
				continue
			}
			for i, n := range vs.Names {
				if n.Name == name && i < len(vs.Values) {
					return vs.Values[i]
				}
			}
		}
	}
	return nil
}

func findFunc(f *ast.File, recv, name string) *ast.FuncDecl {
	for _, d := range f.Decls {
		fd, ok := d.(*ast.FuncDecl)
		if !ok || fd.Name.Name != name {
			continue
		}
		r := ""
		if fd.Recv != nil && len(fd.Recv.List) == 1 {
			t := fd.Recv.List[0].Type
			if st, ok := t.(*ast.StarExpr); ok {
				t = st.X
			}
			if id, ok := t.(*ast.Ident); ok {
				r = id.Name
			}
		}
		if r == recv {
			return fd
		}
	}
	return nil
}

// ---------- regex translation ----------

func regexLiteral(e ast.Expr) (string, bool) {
	call, ok := e.(*ast.CallExpr)
	if !ok || len(call.Args) != 1 {
		return "", false
	}
	sel, ok := call.Fun.(*ast.SelectorExpr)
	if !ok || sel.Sel.Name != "MustCompile" {
		return "", false
	}
	lit, ok := call.Args[0].(*ast.BasicLit)
	if !ok || lit.Kind != token.STRING {
		return "", false
	}
	s, err := strconv.Unquote(lit.Value)
	if err != nil {
		return "", false
	}
	return s, true
}

func coqRanges(rs []rune, what string) string {
	var parts []string
	for i := 0; i+1 < len(rs); i += 2 {
		lo, hi := rs[i], rs[i+1]
		if lo > 0x7f || hi > 0x7f {
			fail("%s: character class with non-ASCII range %U-%U", what, lo, hi)
		}
		parts = append(parts, fmt.Sprintf("(%d, %d)", lo, hi))
	}
	return "[" + strings.Join(parts, "; ") + "]"
}

func coqRe(r *syntax.Regexp, what string) string {
	switch r.Op {
	case syntax.OpEmptyMatch:
		return "Eps"
	case syntax.OpNoMatch:
		return "Emp"
	case syntax.OpLiteral:
		if r.Flags&syntax.FoldCase != 0 {
			fail("%s: case-folded literal", what)
		}
		var parts []string
		for _, c := range r.Rune {
			if c > 0x7f {
				fail("%s: non-ASCII literal", what)
			}
			parts = append(parts, strconv.Itoa(int(c)))
		}
		return "(Lit [" + strings.Join(parts, "; ") + "])"
	case syntax.OpCharClass:
		return "(Cls " + coqRanges(r.Rune, what) + ")"
	case syntax.OpCapture:
		return coqRe(r.Sub[0], what)
	case syntax.OpStar:
		return "(Star " + coqRe(r.Sub[0], what) + ")"
	case syntax.OpPlus:
		return "(Plus " + coqRe(r.Sub[0], what) + ")"
	case syntax.OpQuest:
		return "(Opt " + coqRe(r.Sub[0], what) + ")"
	case syntax.OpRepeat:
		if r.Max < 0 {
			return fmt.Sprintf("(RepMin %s %d)", coqRe(r.Sub[0], what), r.Min)
		}
		return fmt.Sprintf("(Rep %s %d %d)", coqRe(r.Sub[0], what), r.Min, r.Max)
	case syntax.OpConcat:
		s := coqRe(r.Sub[len(r.Sub)-1], what)
		for i := len(r.Sub) - 2; i >= 0; i-- {
			s = "(Cat " + coqRe(r.Sub[i], what) + " " + s + ")"
		}
		return s
	case syntax.OpAlternate:
		s := coqRe(r.Sub[len(r.Sub)-1], what)
		for i := len(r.Sub) - 2; i >= 0; i-- {
			s = "(Alt " + coqRe(r.Sub[i], what) + " " + s + ")"
		}
		return s
	}
	fail("%s: unsupported regex operator %v", what, r.Op)
	return ""
}

// anchoredRegex translates a pattern that must be of the form ^...$.
func anchoredRegex(pat, what string) string {
	r, err := syntax.Parse(pat, syntax.Perl)
	if err != nil {
		fail("%s: %v", what, err)
	}
	if r.Op != syntax.OpConcat || len(r.Sub) < 2 ||
		r.Sub[0].Op != syntax.OpBeginText || r.Sub[len(r.Sub)-1].Op != syntax.OpEndText {
		fail("%s: pattern %q is not anchored as ^...$", what, pat)
	}
	inner := &syntax.Regexp{Op: syntax.OpConcat, Sub: r.Sub[1 : len(r.Sub)-1]}
	if len(inner.Sub) == 1 {
		inner = inner.Sub[0]
	}
	return coqRe(inner, what)
}

// ---------- constants ----------

func constValue(f *ast.File, name, what string) constant.Value {
	e := findVarInit(f, name)
	if e == nil {
		fail("%s: constant %s not found", what, name)
	}
	return evalConst(f, e, what+"."+name)
}

func evalConst(f *ast.File, e ast.Expr, what string) constant.Value {
	switch x := e.(type) {
	case *ast.BasicLit:
		return constant.MakeFromLiteral(x.Value, x.Kind, 0)
	case *ast.ParenExpr:
		return evalConst(f, x.X, what)
	case *ast.BinaryExpr:
		a, c := evalConst(f, x.X, what), evalConst(f, x.Y, what)
		if x.Op == token.SHL || x.Op == token.SHR {
			n, _ := constant.Uint64Val(c)
			return constant.Shift(a, x.Op, uint(n))
		}
		return constant.BinaryOp(a, x.Op, c)
	case *ast.UnaryExpr:
		return constant.UnaryOp(x.Op, evalConst(f, x.X, what), 0)
	case *ast.Ident:
		if v := findVarInit(f, x.Name); v != nil {
			return evalConst(f, v, what)
		}
	case *ast.SelectorExpr:
		if id, ok := x.X.(*ast.Ident); ok && id.Name == "time" {
			switch x.Sel.Name {
			case "Nanosecond":
				return constant.MakeInt64(1)
			case "Microsecond":
				return constant.MakeInt64(1e3)
			case "Millisecond":
				return constant.MakeInt64(1e6)
			case "Second":
				return constant.MakeInt64(1e9)
			case "Minute":
				return constant.MakeInt64(60e9)
			}
		}
	}
	fail("%s: cannot evaluate constant expression", what)
	return nil
}

// ---------- AST hashes ----------

func astHash(fset *token.FileSet, n ast.Node) string {
	var buf bytes.Buffer
	cfg := printer.Config{Mode: printer.RawFormat}
	_ = cfg.Fprint(&buf, fset, n)
	// strip comments: printer prints only comments attached through a File; a bare
	// FuncDecl prints its Doc only.
	h := sha256.Sum256(buf.Bytes())
	return hex.EncodeToString(h[:8])
}

// ---------- output ----------

func writeIfChanged(path string, data []byte) {
	old, err := os.ReadFile(path)
	if err == nil && bytes.Equal(old, data) {
		return
	}
	if err := os.WriteFile(path, data, 0o644); err != nil {
		fail("write %s: %v", path, err)
	}
}

func coqStr(s string) string {
	var parts []string
	for _, c := range []byte(s) {
		parts = append(parts, strconv.Itoa(int(c)))
	}
	return "[" + strings.Join(parts, "; ") + "]"
}

type anchor struct{ File, Recv, Func string }

func main() {
	flag.Parse()
	if *out == "" {
		fail("missing -out")
	}
	c := &fileCache{fset: token.NewFileSet(), files: map[string]*ast.File{}}
	var w bytes.Buffer
	hdr := "(* GENERATED by tools/gosrc2v from the Go sources of /repo -- do not edit. *)\n"

	// ---- Regexes.v ----
	w.WriteString(hdr)
	w.WriteString("From Oras Require Import Base.Prelude Base.Regex.\n\n")
	type rx struct{ file, name string }
	for _, r := range []rx{
		{"registry/reference.go", "repositoryRegexp"},
		{"registry/reference.go", "tagRegexp"},
		{"pack.go", "mediaTypeRegexp"},
	} {
		e := findVarInit(c.get(r.file), r.name)
		if e == nil {
			fail("%s: variable %s not found", r.file, r.name)
		}
		pat, ok := regexLiteral(e)
		if !ok {
			fail("%s: %s is not regexp.MustCompile(<string literal>)", r.file, r.name)
		}
		fmt.Fprintf(&w, "(* %s: %s = %s *)\n", r.file, r.name, strings.ReplaceAll(pat, "*)", "* )"))
		fmt.Fprintf(&w, "Definition %s : re :=\n  %s.\n\n", r.name, anchoredRegex(pat, r.file+":"+r.name))
	}
	writeIfChanged(filepath.Join(*out, "Regexes.v"), w.Bytes())

	// ---- Consts.v ----
	w.Reset()
	w.WriteString(hdr)
	w.WriteString("From Oras Require Import Base.Prelude.\n\n")
	type cst struct{ file, name, coq string }
	for _, k := range []cst{
		{"copy.go", "defaultConcurrency", "defaultConcurrency"},
		{"copy.go", "defaultCopyMaxMetadataBytes", "defaultCopyMaxMetadataBytes"},
		{"registry/remote/utils.go", "defaultMaxMetadataBytes", "defaultMaxMetadataBytes"},
		{"registry/remote/internal/errutil/errutil.go", "maxErrorBytes", "maxErrorBytes"},
		{"content/file/file.go", "defaultFallbackPushSizeLimit", "defaultFallbackPushSizeLimit"},
	} {
		f := c.get(k.file)
		e := findVarInit(f, k.name)
		if e == nil {
			// tolerate absence: emit nothing, dependants will fail to compile
			fail("%s: constant %s not found", k.file, k.name)
		}
		v := evalConst(f, e, k.file+":"+k.name)
		fmt.Fprintf(&w, "Definition %s : Z := (%s)%%Z.\n", k.coq, v.ExactString())
	}
	writeIfChanged(filepath.Join(*out, "Consts.v"), w.Bytes())

	// ---- anchors.json: AST hashes of hand-modelled functions ----
	anchors := []anchor{
		{"registry/reference.go", "", "ParseReference"},
		{"registry/reference.go", "Reference", "String"},
		{"registry/reference.go", "Reference", "ValidateReference"},
	}
	hashes := map[string]string{}
	for _, a := range anchors {
		fd := findFunc(c.get(a.File), a.Recv, a.Func)
		key := a.File + ":" + a.Recv + "." + a.Func
		if fd == nil {
			hashes[key] = "MISSING"
			continue
		}
		fd.Doc = nil
		hashes[key] = astHash(c.fset, fd)
	}
	keys := make([]string, 0, len(hashes))
	for k := range hashes {
		keys = append(keys, k)
	}
	sort.Strings(keys)
	ordered := make([][2]string, 0, len(keys))
	for _, k := range keys {
		ordered = append(ordered, [2]string{k, hashes[k]})
	}
	js, _ := json.MarshalIndent(ordered, "", " ")
	writeIfChanged(filepath.Join(*out, "anchors.json"), append(js, '\n'))
}
