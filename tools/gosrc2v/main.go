// gosrc2v regenerates coq/Generated/*.v from the Go sources of /repo.
//
// It is the "translation" tie between the Coq development and the code: every
// regular expression, constant and table the proofs depend on is re-read from
// the current working tree on every run.  It fails loudly (exit 2, message on
// stderr naming the anchor) when an anchor is missing or has a shape it cannot
// translate.
package main

import (
	"bytes"
	"crypto/sha256"
	"encoding/hex"
	"encoding/json"
	"flag"
	"fmt"
	"go/ast"
	"go/constant"
	"go/parser"
	"go/printer"
	"go/token"
	"os"
	"path/filepath"
	"regexp/syntax"
	"sort"
	"strconv"
	"strings"
)

var (
	repo = flag.String("repo", "/repo", "repository root")
	out  = flag.String("out", "", "output directory (coq/Generated)")
)

type fileCache struct {
	fset  *token.FileSet
	files map[string]*ast.File
}

func (c *fileCache) get(rel string) *ast.File {
	if f, ok := c.files[rel]; ok {
		return f
	}
	f, err := parser.ParseFile(c.fset, filepath.Join(*repo, rel), nil, parser.SkipObjectResolution)
	if err != nil {
		fail("parse %s: %v", rel, err)
	}
	c.files[rel] = f
	return f
}

func fail(format string, a ...any) {
	fmt.Fprintf(os.Stderr, "gosrc2v: UNTRANSLATABLE: "+format+"\n", a...)
	os.Exit(2)
}

// findVarInit returns the initialiser expression of package-level var/const `name`.
func findVarInit(f *ast.File, name string) ast.Expr {
	for _, d := range f.Decls {
		gd, ok := d.(*ast.GenDecl)
		if !ok {
			continue
		}
		for _, s := range gd.Specs {
			vs, ok := s.(*ast.ValueSpec)
			if !ok {
				continue
			}
			for i, n := range vs.Names {
				if n.Name == name && i < len(vs.Values) {
					return vs.Values[i]
				}
			}
		}
	}
	return nil
}

func findFunc(f *ast.File, recv, name string) *ast.FuncDecl {
	for _, d := range f.Decls {
		fd, ok := d.(*ast.FuncDecl)
		if !ok || fd.Name.Name != name {
			continue
		}
		r := ""
		if fd.Recv != nil && len(fd.Recv.List) == 1 {
			t := fd.Recv.List[0].Type
			if st, ok := t.(*ast.StarExpr); ok {
				t = st.X
			}
			// generic receivers: Merge[T], Pool[K, V]
			if ix, ok := t.(*ast.IndexExpr); ok {
				t = ix.X
			}
			if ix, ok := t.(*ast.IndexListExpr); ok {
				t = ix.X
			}
			if id, ok := t.(*ast.Ident); ok {
				r = id.Name
			}
		}
		if r == recv {
			return fd
		}
	}
	return nil
}

// ---------- regex translation ----------

func regexLiteral(e ast.Expr) (string, bool) {
	call, ok := e.(*ast.CallExpr)
	if !ok || len(call.Args) != 1 {
		return "", false
	}
	sel, ok := call.Fun.(*ast.SelectorExpr)
	if !ok || sel.Sel.Name != "MustCompile" {
		return "", false
	}
	lit, ok := call.Args[0].(*ast.BasicLit)
	if !ok || lit.Kind != token.STRING {
		return "", false
	}
	s, err := strconv.Unquote(lit.Value)
	if err != nil {
		return "", false
	}
	return s, true
}

func coqRanges(rs []rune, what string) string {
	var parts []string
	for i := 0; i+1 < len(rs); i += 2 {
		lo, hi := rs[i], rs[i+1]
		if lo > 0x7f || hi > 0x7f {
			fail("%s: character class with non-ASCII range %U-%U", what, lo, hi)
		}
		parts = append(parts, fmt.Sprintf("(%d, %d)", lo, hi))
	}
	return "[" + strings.Join(parts, "; ") + "]"
}

func coqRe(r *syntax.Regexp, what string) string {
	switch r.Op {
	case syntax.OpEmptyMatch:
		return "Eps"
	case syntax.OpNoMatch:
		return "Emp"
	case syntax.OpLiteral:
		if r.Flags&syntax.FoldCase != 0 {
			fail("%s: case-folded literal", what)
		}
		var parts []string
		for _, c := range r.Rune {
			if c > 0x7f {
				fail("%s: non-ASCII literal", what)
			}
			parts = append(parts, strconv.Itoa(int(c)))
		}
		return "(Lit [" + strings.Join(parts, "; ") + "])"
	case syntax.OpCharClass:
		return "(Cls " + coqRanges(r.Rune, what) + ")"
	case syntax.OpCapture:
		return coqRe(r.Sub[0], what)
	case syntax.OpStar:
		return "(Star " + coqRe(r.Sub[0], what) + ")"
	case syntax.OpPlus:
		return "(Plus " + coqRe(r.Sub[0], what) + ")"
	case syntax.OpQuest:
		return "(Opt " + coqRe(r.Sub[0], what) + ")"
	case syntax.OpRepeat:
		if r.Max < 0 {
			return fmt.Sprintf("(RepMin %s %d)", coqRe(r.Sub[0], what), r.Min)
		}
		return fmt.Sprintf("(Rep %s %d %d)", coqRe(r.Sub[0], what), r.Min, r.Max)
	case syntax.OpConcat:
		s := coqRe(r.Sub[len(r.Sub)-1], what)
		for i := len(r.Sub) - 2; i >= 0; i-- {
			s = "(Cat " + coqRe(r.Sub[i], what) + " " + s + ")"
		}
		return s
	case syntax.OpAlternate:
		s := coqRe(r.Sub[len(r.Sub)-1], what)
		for i := len(r.Sub) - 2; i >= 0; i-- {
			s = "(Alt " + coqRe(r.Sub[i], what) + " " + s + ")"
		}
		return s
	}
	fail("%s: unsupported regex operator %v", what, r.Op)
	return ""
}

// anchoredRegex translates a pattern that must be of the form ^...$.
func anchoredRegex(pat, what string) string {
	r, err := syntax.Parse(pat, syntax.Perl)
	if err != nil {
		fail("%s: %v", what, err)
	}
	if r.Op != syntax.OpConcat || len(r.Sub) < 2 ||
		r.Sub[0].Op != syntax.OpBeginText || r.Sub[len(r.Sub)-1].Op != syntax.OpEndText {
		fail("%s: pattern %q is not anchored as ^...$", what, pat)
	}
	inner := &syntax.Regexp{Op: syntax.OpConcat, Sub: r.Sub[1 : len(r.Sub)-1]}
	if len(inner.Sub) == 1 {
		inner = inner.Sub[0]
	}
	return coqRe(inner, what)
}

// ---------- constants ----------

func constValue(f *ast.File, name, what string) constant.Value {
	e := findVarInit(f, name)
	if e == nil {
		fail("%s: constant %s not found", what, name)
	}
	return evalConst(f, e, what+"."+name)
}

func evalConst(f *ast.File, e ast.Expr, what string) constant.Value {
	switch x := e.(type) {
	case *ast.BasicLit:
		return constant.MakeFromLiteral(x.Value, x.Kind, 0)
	case *ast.ParenExpr:
		return evalConst(f, x.X, what)
	case *ast.BinaryExpr:
		a, c := evalConst(f, x.X, what), evalConst(f, x.Y, what)
		if x.Op == token.SHL || x.Op == token.SHR {
			n, _ := constant.Uint64Val(c)
			return constant.Shift(a, x.Op, uint(n))
		}
		return constant.BinaryOp(a, x.Op, c)
	case *ast.UnaryExpr:
		return constant.UnaryOp(x.Op, evalConst(f, x.X, what), 0)
	case *ast.Ident:
		if v := findVarInit(f, x.Name); v != nil {
			return evalConst(f, v, what)
		}
	case *ast.SelectorExpr:
		if id, ok := x.X.(*ast.Ident); ok && id.Name == "time" {
			switch x.Sel.Name {
			case "Nanosecond":
				return constant.MakeInt64(1)
			case "Microsecond":
				return constant.MakeInt64(1e3)
			case "Millisecond":
				return constant.MakeInt64(1e6)
			case "Second":
				return constant.MakeInt64(1e9)
			case "Minute":
				return constant.MakeInt64(60e9)
			}
		}
	}
	fail("%s: cannot evaluate constant expression", what)
	return nil
}

// ---------- AST hashes ----------

func astHash(fset *token.FileSet, n ast.Node) string {
	var buf bytes.Buffer
	cfg := printer.Config{Mode: printer.RawFormat}
	_ = cfg.Fprint(&buf, fset, n)
	// strip comments: printer prints only comments attached through a File; a bare
	// FuncDecl prints its Doc only.
	h := sha256.Sum256(buf.Bytes())
	return hex.EncodeToString(h[:8])
}

// ---------- output ----------

func writeIfChanged(path string, data []byte) {
	old, err := os.ReadFile(path)
	if err == nil && bytes.Equal(old, data) {
		return
	}
	if err := os.WriteFile(path, data, 0o644); err != nil {
		fail("write %s: %v", path, err)
	}
}

func coqStr(s string) string {
	var parts []string
	for _, c := range []byte(s) {
		parts = append(parts, strconv.Itoa(int(c)))
	}
	return "[" + strings.Join(parts, "; ") + "]"
}

// ---------- spec-driven main ----------
//
// Every property has tools/gosrc2v/specs/<ID>.json:
//   {"items": [ {"kind": "regex",  "file": "registry/reference.go", "name": "tagRegexp"},
//               {"kind": "const",  "file": "copy.go", "name": "defaultConcurrency"},
//               {"kind": "anchor", "file": "copy.go", "recv": "", "func": "copyGraph"},
//               ... further kinds registered in kind_*.go ... ]}
// and gets coq/Generated/G<ID>.v (definitions, in item order) and
// coq/Generated/anchors_<ID>.json (AST hashes of hand-modelled functions).

type Item struct {
	Kind string         `json:"kind"`
	File string         `json:"file"`
	Name string         `json:"name"`
	Coq  string         `json:"coq"`  // Coq identifier (default: Name)
	Recv string         `json:"recv"` // receiver type for methods
	Func string         `json:"func"`
	Args map[string]any `json:"args"`
}

type Ctx struct {
	c *fileCache
	w *bytes.Buffer
}

func (x *Ctx) File(rel string) *ast.File      { return x.c.get(rel) }
func (x *Ctx) Fset() *token.FileSet           { return x.c.fset }
func (x *Ctx) Printf(format string, a ...any) { fmt.Fprintf(x.w, format, a...) }

// kinds maps an item kind to its generator; kind_*.go files add entries in init().
var kinds = map[string]func(x *Ctx, it Item){
	"regex": func(x *Ctx, it Item) {
		e := findVarInit(x.File(it.File), it.Name)
		if e == nil {
			fail("%s: variable %s not found", it.File, it.Name)
		}
		pat, ok := regexLiteral(e)
		if !ok {
			fail("%s: %s is not regexp.MustCompile(<string literal>)", it.File, it.Name)
		}
		x.Printf("(* %s: %s = %s *)\n", it.File, it.Name, strings.ReplaceAll(strings.ReplaceAll(pat, "*)", "* )"), "(*", "( *"))
		x.Printf("Definition %s : re :=\n  %s.\n\n", coqName(it), anchoredRegex(pat, it.File+":"+it.Name))
	},
	"const": func(x *Ctx, it Item) {
		f := x.File(it.File)
		e := findVarInit(f, it.Name)
		if e == nil {
			fail("%s: constant %s not found", it.File, it.Name)
		}
		v := evalConst(f, e, it.File+":"+it.Name)
		if v.Kind() == constant.String {
			x.Printf("Definition %s : str := %s.\n\n", coqName(it), coqStr(constant.StringVal(v)))
		} else if v.Kind() == constant.Float {
			num, den := constant.Num(v), constant.Denom(v)
			x.Printf("Definition %s_num : Z := (%s)%%Z.\nDefinition %s_den : Z := (%s)%%Z.\n\n", coqName(it), num.ExactString(), coqName(it), den.ExactString())
		} else {
			x.Printf("Definition %s : Z := (%s)%%Z.\n\n", coqName(it), v.ExactString())
		}
	},
}

func coqName(it Item) string {
	if it.Coq != "" {
		return it.Coq
	}
	return it.Name
}

func main() {
	specs := flag.String("specs", "", "directory of <ID>.json specs")
	flag.Parse()
	if *out == "" || *specs == "" {
		fail("usage: gosrc2v -repo /repo -specs tools/gosrc2v/specs -out coq/Generated [ID...]")
	}
	ents, err := os.ReadDir(*specs)
	if err != nil {
		fail("%v", err)
	}
	want := map[string]bool{}
	for _, a := range flag.Args() {
		want[a] = true
	}
	hdr := "(* GENERATED by tools/gosrc2v from the Go sources of /repo -- do not edit. *)\n" +
		"From Oras Require Import Base.Prelude Base.Regex.\n\n"
	for _, e := range ents {
		if !strings.HasSuffix(e.Name(), ".json") {
			continue
		}
		id := strings.TrimSuffix(e.Name(), ".json")
		if len(want) > 0 && !want[id] {
			continue
		}
		data, err := os.ReadFile(filepath.Join(*specs, e.Name()))
		if err != nil {
			fail("%v", err)
		}
		var spec struct {
			Items []Item `json:"items"`
		}
		if err := json.Unmarshal(data, &spec); err != nil {
			fail("%s: %v", e.Name(), err)
		}
		x := &Ctx{c: &fileCache{fset: token.NewFileSet(), files: map[string]*ast.File{}}, w: &bytes.Buffer{}}
		x.w.WriteString(hdr)
		var hashes [][2]string
		for _, it := range spec.Items {
			if it.Kind == "anchor" {
				fd := findFunc(x.File(it.File), it.Recv, it.Func)
				key := it.File + ":" + it.Recv + "." + it.Func
				if fd == nil {
					hashes = append(hashes, [2]string{key, "MISSING"})
					continue
				}
				fd.Doc = nil
				hashes = append(hashes, [2]string{key, astHash(x.Fset(), fd)})
				continue
			}
			g, ok := kinds[it.Kind]
			if !ok {
				fail("%s: unknown item kind %q", e.Name(), it.Kind)
			}
			g(x, it)
		}
		writeIfChanged(filepath.Join(*out, "G"+id+".v"), x.w.Bytes())
		sort.Slice(hashes, func(i, j int) bool { return hashes[i][0] < hashes[j][0] })
		js, _ := json.MarshalIndent(hashes, "", " ")
		writeIfChanged(filepath.Join(*out, "anchors_"+id+".json"), append(js, '\n'))
	}
}
