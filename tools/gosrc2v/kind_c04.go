package main

// kind "c04_limitersize": the sizing of the concurrency limiter in copyGraph (copy.go) and
// ExtendedCopyGraph (extendedcopy.go):
//
//	if opts.Concurrency <= 0 {
//		opts.Concurrency = defaultConcurrency
//	}
//	limiter = semaphore.NewWeighted(int64(opts.Concurrency))      (":=" in ExtendedCopyGraph)
//
//	{"kind": "c04_limitersize", "file": "copy.go", "recv": "", "func": "copyGraph", "name": "copyGraph_limiter_size"}
//
// emits the size of the semaphore as a function of the option value,
//
//	Definition copyGraph_limiter_size (opt : Z) : Z :=
//	  let opt := if (opt <=? 0)%Z then defaultConcurrency else opt in opt.
//
// translated from the syntax: the comparison operator and its literal, the assigned expression
// (integer literals, named constants -- which must be generated earlier in the same spec --,
// + - *) and the argument of semaphore.NewWeighted (int64(opts.Concurrency) possibly inside
// + - * with literals / constants).  Anything else (a second assignment to opts.Concurrency before
// the limiter is created, another condition shape, no NewWeighted call) fails the translation
// (layer T), so that the hand-written eff_K of Model/CopyTop.v -- proved equal to this function in
// Proofs/CopyCode.v -- cannot silently drift from either site.

import (
	"fmt"
	"go/ast"
	"go/token"
)

func c04isOptConc(e ast.Expr) bool {
	return calleePath(e) == "opts.Concurrency"
}

// c04expr translates an integer expression over literals, named constants and (optionally) the
// option value itself.
func c04expr(e ast.Expr, optOK bool, what string) string {
	switch v := e.(type) {
	case *ast.BasicLit:
		if v.Kind == token.INT {
			return "(" + v.Value + ")%Z"
		}
	case *ast.Ident:
		return v.Name
	case *ast.ParenExpr:
		return c04expr(v.X, optOK, what)
	case *ast.SelectorExpr:
		if optOK && c04isOptConc(v) {
			return "opt"
		}
	case *ast.CallExpr:
		// int64(x) / int(x): conversions between integer types
		if id, ok := v.Fun.(*ast.Ident); ok && (id.Name == "int64" || id.Name == "int") && len(v.Args) == 1 {
			return c04expr(v.Args[0], optOK, what)
		}
	case *ast.BinaryExpr:
		op := map[token.Token]string{token.ADD: "+", token.SUB: "-", token.MUL: "*"}[v.Op]
		if op != "" {
			return "(" + c04expr(v.X, optOK, what) + " " + op + " " + c04expr(v.Y, optOK, what) + ")%Z"
		}
	}
	fail("%s: expression not understood (integer literals, constants, opts.Concurrency, + - * only)", what)
	return ""
}

func init() {
	kinds["c04_limitersize"] = func(x *Ctx, it Item) {
		what := it.File + ":" + it.Func
		fd := findFunc(x.File(it.File), it.Recv, it.Func)
		if fd == nil || fd.Body == nil {
			fail("%s: function not found", what)
		}
		// statements of the function in source order, descending into blocks but not into function literals
		var guards []string // "let opt := if ... in" lines, in order
		size := ""
		var walk func(list []ast.Stmt)
		assignsOpt := func(s ast.Stmt) (ast.Expr, bool) {
			as, ok := s.(*ast.AssignStmt)
			if !ok || len(as.Lhs) != 1 || len(as.Rhs) != 1 || !c04isOptConc(as.Lhs[0]) {
				return nil, false
			}
			if as.Tok != token.ASSIGN {
				fail("%s: opts.Concurrency modified by %s", what, as.Tok)
			}
			return as.Rhs[0], true
		}
		findNew := func(n ast.Node) ast.Expr {
			var arg ast.Expr
			ast.Inspect(n, func(m ast.Node) bool {
				if _, isLit := m.(*ast.FuncLit); isLit {
					return false
				}
				if c, ok := m.(*ast.CallExpr); ok && calleePath(c.Fun) == "semaphore.NewWeighted" && len(c.Args) == 1 && arg == nil {
					arg = c.Args[0]
				}
				return true
			})
			return arg
		}
		walk = func(list []ast.Stmt) {
			for _, s := range list {
				if size != "" {
					return
				}
				switch v := s.(type) {
				case *ast.IfStmt:
					// the defaulting guard: if opts.Concurrency OP lit { opts.Concurrency = e }
					if be, ok := v.Cond.(*ast.BinaryExpr); ok && c04isOptConc(be.X) && v.Init == nil && v.Else == nil {
						cmp := map[token.Token]string{token.LEQ: "<=?", token.LSS: "<?", token.EQL: "=?"}[be.Op]
						if cmp == "" {
							fail("%s: comparison %s of opts.Concurrency not understood", what, be.Op)
						}
						if len(v.Body.List) != 1 {
							fail("%s: the guard on opts.Concurrency has %d statements", what, len(v.Body.List))
						}
						rhs, ok := assignsOpt(v.Body.List[0])
						if !ok {
							fail("%s: the guard on opts.Concurrency does not assign it", what)
						}
						guards = append(guards, fmt.Sprintf("let opt := if (opt %s %s)%%Z then %s else opt in",
							cmp, c04expr(be.Y, false, what), c04expr(rhs, true, what)))
						continue
					}
					// any other if: look inside (copyGraph creates the limiter under `if limiter == nil`)
					walk(v.Body.List)
					if els, ok := v.Else.(*ast.BlockStmt); ok {
						walk(els.List)
					}
				case *ast.BlockStmt:
					walk(v.List)
				default:
					if rhs, ok := assignsOpt(s); ok {
						guards = append(guards, fmt.Sprintf("let opt := %s in", c04expr(rhs, true, what)))
						continue
					}
					if arg := findNew(s); arg != nil {
						size = c04expr(arg, true, what)
					}
				}
			}
		}
		walk(fd.Body.List)
		if size == "" {
			fail("%s: no semaphore.NewWeighted(...) found", what)
		}
		x.Printf("(* %s: size of the limiter created by %s as a function of CopyGraphOptions.Concurrency *)\n", it.File, it.Func)
		x.Printf("Definition %s (opt : Z) : Z :=\n", coqName(it))
		for _, g := range guards {
			x.Printf("  %s\n", g)
		}
		x.Printf("  %s.\n\n", size)
	}
}
