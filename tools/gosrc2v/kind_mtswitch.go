package main

// kind "mtswitch": the case lists of a `switch <x>.MediaType { case A, B: ... }`
// statement inside a function (also inside function literals of that function).
//
//	{"kind": "mtswitch", "file": "extendedcopy.go", "recv": "ExtendedCopyGraphOptions",
//	 "func": "FilterArtifactType", "name": "filterArtifactType_cases", "args": {"index": 0}}
//
// emits  Definition <name> : list str := [b "spec.MediaTypeArtifactManifest"; ...].
// i.e. the selector expressions of every non-default case clause of the
// index-th such switch, in source order.  Every case expression must be one of
// the known media type constants (anything else is untranslatable: the model's
// media type classes would no longer be adequate).

import (
	"go/ast"
	"strings"
)

var knownMediaTypeSelectors = map[string]bool{
	"docker.MediaTypeManifest":        true,
	"docker.MediaTypeManifestList":    true,
	"ocispec.MediaTypeImageManifest":  true,
	"ocispec.MediaTypeImageIndex":     true,
	"spec.MediaTypeArtifactManifest":  true,
}

func init() {
	kinds["mtswitch"] = func(x *Ctx, it Item) {
		fd := findFunc(x.File(it.File), it.Recv, it.Func)
		what := it.File + ":" + it.Recv + "." + it.Func
		if fd == nil || fd.Body == nil {
			fail("%s: function not found", what)
		}
		want := 0
		if v, ok := it.Args["index"].(float64); ok {
			want = int(v)
		}
		var found []*ast.SwitchStmt
		ast.Inspect(fd.Body, func(n ast.Node) bool {
			sw, ok := n.(*ast.SwitchStmt)
			if !ok || sw.Tag == nil {
				return true
			}
			if sel, ok := sw.Tag.(*ast.SelectorExpr); ok && sel.Sel.Name == "MediaType" {
				found = append(found, sw)
			}
			return true
		})
		if want >= len(found) {
			fail("%s: %d switch statements on .MediaType, index %d wanted", what, len(found), want)
		}
		var names []string
		for _, st := range found[want].Body.List {
			cc, ok := st.(*ast.CaseClause)
			if !ok {
				fail("%s: unexpected statement in switch body", what)
			}
			for _, e := range cc.List { // default clause has an empty list
				sel, ok := e.(*ast.SelectorExpr)
				if !ok {
					fail("%s: case expression is not a package constant", what)
				}
				pkg, ok := sel.X.(*ast.Ident)
				if !ok {
					fail("%s: case expression is not a package constant", what)
				}
				name := pkg.Name + "." + sel.Sel.Name
				if !knownMediaTypeSelectors[name] {
					fail("%s: case %s is not a known manifest media type constant", what, name)
				}
				names = append(names, name)
			}
		}
		parts := make([]string, len(names))
		for i, n := range names {
			parts[i] = coqStr(n)
		}
		x.Printf("(* %s: switch #%d on .MediaType *)\n", what, want)
		x.Printf("Definition %s : list str :=\n  [%s].\n\n", coqName(it), strings.Join(parts, ";\n   "))
	}
}
