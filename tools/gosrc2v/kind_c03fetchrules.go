package main

// kind "c03fetchrules": what fetchArtifactType returns per media type case.
//
//	{"kind": "c03fetchrules", "file": "extendedcopy.go", "recv": "", "func": "fetchArtifactType",
//	 "name": "fetchArtifactType_rules"}
//
// Every non-default case of the `switch desc.MediaType` must have the shape
//
//	var m T; if err := json...Decode(&m); err != nil { return "", err }
//	[ if m.<G> != "" { return m.<F>, nil } ]*
//	return m.<F>, nil
//
// and is emitted as (selector, [(G, F); ...; ("", F)]): the first step whose guard field G is
// non-empty (or whose guard is "") gives the field F that is returned.  Field paths are the
// selector chains below the decoded value ("ArtifactType", "Config.MediaType").  Anything else
// is untranslatable (the model's rule interpreter would no longer be adequate).

import (
	"go/ast"
	"go/token"
	"strings"
)

func init() {
	kinds["c03fetchrules"] = func(x *Ctx, it Item) {
		fd := findFunc(x.File(it.File), it.Recv, it.Func)
		what := it.File + ":" + it.Recv + "." + it.Func
		if fd == nil || fd.Body == nil {
			fail("%s: function not found", what)
		}
		var sw *ast.SwitchStmt
		ast.Inspect(fd.Body, func(n ast.Node) bool {
			if s, ok := n.(*ast.SwitchStmt); ok && sw == nil && s.Tag != nil {
				if sel, ok := s.Tag.(*ast.SelectorExpr); ok && sel.Sel.Name == "MediaType" {
					sw = s
				}
			}
			return true
		})
		if sw == nil {
			fail("%s: no switch on .MediaType", what)
		}
		// path of m.A.B below the root identifier
		path := func(e ast.Expr) (string, bool) {
			var parts []string
			for {
				sel, ok := e.(*ast.SelectorExpr)
				if !ok {
					break
				}
				parts = append([]string{sel.Sel.Name}, parts...)
				e = sel.X
			}
			if _, ok := e.(*ast.Ident); !ok || len(parts) == 0 {
				return "", false
			}
			return strings.Join(parts, "."), true
		}
		// return <path>, nil
		retField := func(s ast.Stmt) (string, bool) {
			r, ok := s.(*ast.ReturnStmt)
			if !ok || len(r.Results) != 2 {
				return "", false
			}
			if id, ok := r.Results[1].(*ast.Ident); !ok || id.Name != "nil" {
				return "", false
			}
			return path(r.Results[0])
		}
		var cases []string
		for _, st := range sw.Body.List {
			cc := st.(*ast.CaseClause)
			if len(cc.List) == 0 {
				// default: return "", nil
				if len(cc.Body) != 1 {
					fail("%s: default case is not a single return", what)
				}
				r, ok := cc.Body[0].(*ast.ReturnStmt)
				if !ok || len(r.Results) != 2 {
					fail("%s: default case is not `return \"\", nil`", what)
				}
				if lit, ok := r.Results[0].(*ast.BasicLit); !ok || lit.Value != `""` {
					fail("%s: default case does not return the empty string", what)
				}
				continue
			}
			if len(cc.List) != 1 {
				fail("%s: a case with several media types", what)
			}
			sel, ok := cc.List[0].(*ast.SelectorExpr)
			if !ok {
				fail("%s: case expression is not a package constant", what)
			}
			name := sel.X.(*ast.Ident).Name + "." + sel.Sel.Name
			if !knownMediaTypeSelectors[name] {
				fail("%s: case %s is not a known manifest media type constant", what, name)
			}
			body := cc.Body
			// var m T
			if len(body) < 3 {
				fail("%s: case %s: unexpected shape", what, name)
			}
			if _, ok := body[0].(*ast.DeclStmt); !ok {
				fail("%s: case %s: does not start with a variable declaration", what, name)
			}
			// if err := ...Decode(&m); err != nil { return "", err }
			ifs, ok := body[1].(*ast.IfStmt)
			if !ok || ifs.Init == nil || ifs.Else != nil {
				fail("%s: case %s: second statement is not the decode check", what, name)
			}
			decodeOK := false
			ast.Inspect(ifs.Init, func(n ast.Node) bool {
				if c, ok := n.(*ast.CallExpr); ok {
					if s, ok := c.Fun.(*ast.SelectorExpr); ok && s.Sel.Name == "Decode" {
						decodeOK = true
					}
				}
				return true
			})
			if !decodeOK {
				fail("%s: case %s: second statement does not decode the manifest", what, name)
			}
			var steps []string
			rest := body[2:]
			for i, s := range rest {
				if i == len(rest)-1 {
					f, ok := retField(s)
					if !ok {
						fail("%s: case %s: last statement is not `return m.<field>, nil`", what, name)
					}
					steps = append(steps, "("+coqStr("")+", "+coqStr(f)+")")
					break
				}
				g, ok := s.(*ast.IfStmt)
				if !ok || g.Init != nil || g.Else != nil || len(g.Body.List) != 1 {
					fail("%s: case %s: unexpected statement before the final return", what, name)
				}
				be, ok := g.Cond.(*ast.BinaryExpr)
				if !ok || be.Op != token.NEQ {
					fail("%s: case %s: guard is not `m.<field> != \"\"`", what, name)
				}
				lit, ok := be.Y.(*ast.BasicLit)
				if !ok || lit.Value != `""` {
					fail("%s: case %s: guard does not compare with the empty string", what, name)
				}
				gf, ok := path(be.X)
				if !ok {
					fail("%s: case %s: guard is not on a field of the decoded manifest", what, name)
				}
				f, ok := retField(g.Body.List[0])
				if !ok {
					fail("%s: case %s: guarded statement is not `return m.<field>, nil`", what, name)
				}
				steps = append(steps, "("+coqStr(gf)+", "+coqStr(f)+")")
			}
			cases = append(cases, "("+coqStr(name)+",\n    ["+strings.Join(steps, ";\n     ")+"])")
		}
		x.Printf("(* %s: per media type, the guarded field returns (guard field \"\" = unconditional) *)\n", what)
		x.Printf("Definition %s : list (str * list (str * str)) :=\n  [%s].\n\n", coqName(it), strings.Join(cases, ";\n   "))
	}
}
