package main

// kind "c03findroots": the depth arithmetic of findRoots (extendedcopy.go), translated
// expression by expression into Gallina over Z:
//
//	findRoots_start_depth            Depth of the NodeInfo pushed before the loop
//	findRoots_stop limit d           condition of the `if` that mentions opts.Depth (stop and add a root)
//	findRoots_push_depth limit d     Depth of the NodeInfo pushed for a predecessor (inside the range loop)
//
// with opts.Depth = limit and current.Depth = d.  Operators: && || ! == != < <= > >= + -,
// integer literals, parentheses.  Anything else is untranslatable.

import (
	"go/ast"
	"go/token"
)

func init() {
	kinds["c03findroots"] = func(x *Ctx, it Item) {
		fd := findFunc(x.File(it.File), it.Recv, it.Func)
		what := it.File + ":" + it.Recv + "." + it.Func
		if fd == nil || fd.Body == nil {
			fail("%s: function not found", what)
		}
		var tr func(e ast.Expr) string
		tr = func(e ast.Expr) string {
			switch v := e.(type) {
			case *ast.ParenExpr:
				return tr(v.X)
			case *ast.BasicLit:
				if v.Kind != token.INT {
					fail("%s: literal %s is not an integer", what, v.Value)
				}
				return "(" + v.Value + ")%Z"
			case *ast.SelectorExpr:
				if id, ok := v.X.(*ast.Ident); ok && v.Sel.Name == "Depth" {
					switch id.Name {
					case "opts":
						return "limit"
					case "current":
						return "d"
					}
				}
				fail("%s: unknown operand in the depth arithmetic", what)
			case *ast.UnaryExpr:
				if v.Op == token.NOT {
					return "(negb " + tr(v.X) + ")"
				}
				fail("%s: unknown unary operator", what)
			case *ast.BinaryExpr:
				a, b := tr(v.X), tr(v.Y)
				switch v.Op {
				case token.LAND:
					return "(andb " + a + " " + b + ")"
				case token.LOR:
					return "(orb " + a + " " + b + ")"
				case token.EQL:
					return "(Z.eqb " + a + " " + b + ")"
				case token.NEQ:
					return "(negb (Z.eqb " + a + " " + b + "))"
				case token.LSS:
					return "(Z.ltb " + a + " " + b + ")"
				case token.LEQ:
					return "(Z.leb " + a + " " + b + ")"
				case token.GTR:
					return "(Z.gtb " + a + " " + b + ")"
				case token.GEQ:
					return "(Z.geb " + a + " " + b + ")"
				case token.ADD:
					return "(Z.add " + a + " " + b + ")"
				case token.SUB:
					return "(Z.sub " + a + " " + b + ")"
				}
				fail("%s: unknown binary operator %s", what, v.Op)
			}
			fail("%s: unknown expression in the depth arithmetic", what)
			return ""
		}
		mentionsOptsDepth := func(e ast.Expr) bool {
			found := false
			ast.Inspect(e, func(n ast.Node) bool {
				if s, ok := n.(*ast.SelectorExpr); ok && s.Sel.Name == "Depth" {
					if id, ok := s.X.(*ast.Ident); ok && id.Name == "opts" {
						found = true
					}
				}
				return true
			})
			return found
		}
		depthOf := func(cl *ast.CompositeLit) ast.Expr {
			sel, ok := cl.Type.(*ast.SelectorExpr)
			if !ok || sel.Sel.Name != "NodeInfo" {
				return nil
			}
			for _, el := range cl.Elts {
				if kv, ok := el.(*ast.KeyValueExpr); ok {
					if k, ok := kv.Key.(*ast.Ident); ok && k.Name == "Depth" {
						return kv.Value
					}
				}
			}
			return nil
		}
		var stop ast.Expr
		var startDepth, pushDepth ast.Expr
		var walk func(n ast.Node, inRange bool)
		walk = func(n ast.Node, inRange bool) {
			ast.Inspect(n, func(m ast.Node) bool {
				switch v := m.(type) {
				case *ast.RangeStmt:
					if m != n {
						walk(v.Body, true)
						return false
					}
				case *ast.IfStmt:
					if v.Init == nil && mentionsOptsDepth(v.Cond) {
						if stop != nil {
							fail("%s: more than one condition on opts.Depth", what)
						}
						stop = v.Cond
					}
				case *ast.CompositeLit:
					if de := depthOf(v); de != nil {
						if inRange {
							if pushDepth != nil {
								fail("%s: more than one NodeInfo pushed inside a range loop", what)
							}
							pushDepth = de
						} else {
							if startDepth != nil {
								fail("%s: more than one NodeInfo pushed outside the range loop", what)
							}
							startDepth = de
						}
					}
				}
				return true
			})
		}
		walk(fd.Body, false)
		if stop == nil || startDepth == nil || pushDepth == nil {
			fail("%s: depth condition / initial NodeInfo / pushed NodeInfo not found", what)
		}
		x.Printf("(* %s: depth arithmetic (opts.Depth = limit, current.Depth = d) *)\n", what)
		x.Printf("Definition findRoots_start_depth : Z := %s.\n", tr(startDepth))
		x.Printf("Definition findRoots_stop (limit d : Z) : bool :=\n  %s.\n", tr(stop))
		x.Printf("Definition findRoots_push_depth (limit d : Z) : Z :=\n  %s.\n\n", tr(pushDepth))
	}
}
