module gosrc2v

go 1.23
