package main

// kind "referrer_art_table" (property C14): the media-type switch of
// manifestStore.indexReferrersForPush as a table
//   (kind, artifact type falls back to config.mediaType when empty)
// with kind 0 = artifact manifest, 1 = image manifest, 2 = image index.
// Recognised shape per case: `desc.ArtifactType = manifest.ArtifactType`,
// optionally followed by
//   if desc.ArtifactType == "" { desc.ArtifactType = manifest.Config.MediaType }
// Anything else assigned to desc.ArtifactType is reported as untranslatable.

import (
	"go/ast"
	"go/token"
)

func exprString(e ast.Expr) string {
	switch x := e.(type) {
	case *ast.Ident:
		return x.Name
	case *ast.SelectorExpr:
		return exprString(x.X) + "." + x.Sel.Name
	case *ast.BasicLit:
		return x.Value
	}
	return "?"
}

func init() {
	kinds["referrer_art_table"] = func(x *Ctx, it Item) {
		fd := findFunc(x.File(it.File), it.Recv, it.Func)
		if fd == nil {
			fail("%s: function %s.%s not found", it.File, it.Recv, it.Func)
		}
		var sw *ast.SwitchStmt
		ast.Inspect(fd.Body, func(n ast.Node) bool {
			if s, ok := n.(*ast.SwitchStmt); ok && sw == nil && s.Tag != nil && exprString(s.Tag) == "desc.MediaType" {
				sw = s
			}
			return true
		})
		if sw == nil {
			fail("%s: %s: switch desc.MediaType not found", it.File, it.Func)
		}
		kindOf := map[string]int{"spec.MediaTypeArtifactManifest": 0, "ocispec.MediaTypeImageManifest": 1, "ocispec.MediaTypeImageIndex": 2}
		seen := map[int]bool{}
		x.Printf("(* %s: switch desc.MediaType of %s *)\nDefinition %s : list (N * bool) :=\n  [", it.File, it.Func, coqName(it))
		first := true
		for _, st := range sw.Body.List {
			cc := st.(*ast.CaseClause)
			if cc.List == nil {
				continue // default: no indexing
			}
			for _, lab := range cc.List {
				k, ok := kindOf[exprString(lab)]
				if !ok {
					fail("%s: %s: unknown case label %s", it.File, it.Func, exprString(lab))
				}
				direct, fallback := false, false
				for _, s := range cc.Body {
					switch a := s.(type) {
					case *ast.AssignStmt:
						if len(a.Lhs) == 1 && exprString(a.Lhs[0]) == "desc.ArtifactType" {
							if a.Tok == token.ASSIGN && len(a.Rhs) == 1 && exprString(a.Rhs[0]) == "manifest.ArtifactType" {
								direct = true
							} else {
								fail("%s: %s: unexpected assignment to desc.ArtifactType", it.File, it.Func)
							}
						}
					case *ast.IfStmt:
						touches := false
						ast.Inspect(a, func(n ast.Node) bool {
							if as, ok := n.(*ast.AssignStmt); ok && len(as.Lhs) == 1 && exprString(as.Lhs[0]) == "desc.ArtifactType" {
								touches = true
							}
							return true
						})
						if !touches {
							continue
						}
						be, ok := a.Cond.(*ast.BinaryExpr)
						okShape := ok && be.Op == token.EQL && exprString(be.X) == "desc.ArtifactType" && exprString(be.Y) == `""` &&
							a.Else == nil && len(a.Body.List) == 1
						if okShape {
							as, ok2 := a.Body.List[0].(*ast.AssignStmt)
							okShape = ok2 && len(as.Rhs) == 1 && exprString(as.Rhs[0]) == "manifest.Config.MediaType"
						}
						if !okShape {
							fail("%s: %s: unexpected conditional assignment to desc.ArtifactType", it.File, it.Func)
						}
						fallback = true
					}
				}
				if !direct {
					fail("%s: %s: case %s does not set desc.ArtifactType = manifest.ArtifactType", it.File, it.Func, exprString(lab))
				}
				if !first {
					x.Printf("; ")
				}
				first = false
				fb := "false"
				if fallback {
					fb = "true"
				}
				x.Printf("(%d, %s)", k, fb)
				seen[k] = true
			}
		}
		x.Printf("].\n\n")
		if len(seen) != 3 {
			fail("%s: %s: expected the three manifest media types, found %d", it.File, it.Func, len(seen))
		}
	}
}

// kind "c14_field_uses" (property C14): every syntactic use of the struct field it.Name
// (Repository.referrersState) in the listed files, classified:
//   <coq>_cas_from_unknown  atomic.CompareAndSwapInt32(&x.f, referrersStateUnknown, _)
//   <coq>_loads             atomic.LoadInt32(&x.f)
//   <coq>_other             anything else (assignment, address taken elsewhere, composite literal, ...)
// The CAS theorem (C14_capability_monotone) covers every detection path only if the field has
// no other writer: Proofs require <coq>_other = 0.
func init() {
	kinds["c14_field_uses"] = func(x *Ctx, it Item) {
		files, _ := it.Args["files"].([]any)
		if len(files) == 0 {
			files = []any{it.File}
		}
		cas, loads, other := 0, 0, 0
		for _, f := range files {
			file := x.File(f.(string))
			classified := map[ast.Node]bool{}
			isField := func(e ast.Expr) bool {
				u, ok := e.(*ast.UnaryExpr)
				if !ok || u.Op != token.AND {
					return false
				}
				s, ok := u.X.(*ast.SelectorExpr)
				return ok && s.Sel.Name == it.Name
			}
			ast.Inspect(file, func(n ast.Node) bool {
				c, ok := n.(*ast.CallExpr)
				if !ok {
					return true
				}
				fn := exprString(c.Fun)
				if fn == "atomic.CompareAndSwapInt32" && len(c.Args) == 3 && isField(c.Args[0]) {
					classified[c.Args[0].(*ast.UnaryExpr).X] = true
					if exprString(c.Args[1]) == "referrersStateUnknown" {
						cas++
					} else {
						other++
					}
				}
				if fn == "atomic.LoadInt32" && len(c.Args) == 1 && isField(c.Args[0]) {
					classified[c.Args[0].(*ast.UnaryExpr).X] = true
					loads++
				}
				return true
			})
			ast.Inspect(file, func(n ast.Node) bool {
				switch v := n.(type) {
				case *ast.SelectorExpr:
					if v.Sel.Name == it.Name && !classified[v] {
						other++
					}
				case *ast.KeyValueExpr:
					if id, ok := v.Key.(*ast.Ident); ok && id.Name == it.Name {
						other++
					}
				}
				return true
			})
		}
		x.Printf("(* uses of the field %s in %v *)\nDefinition %s_cas_from_unknown : Z := %d%%Z.\nDefinition %s_loads : Z := %d%%Z.\nDefinition %s_other : Z := %d%%Z.\n\n",
			it.Name, files, coqName(it), cas, coqName(it), loads, coqName(it), other)
	}
}
