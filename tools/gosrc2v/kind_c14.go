package main

// kind "referrer_art_table" (property C14): the media-type switch of
// manifestStore.indexReferrersForPush as a table
//   (kind, artifact type falls back to config.mediaType when empty)
// with kind 0 = artifact manifest, 1 = image manifest, 2 = image index.
// Recognised shape per case: `desc.ArtifactType = manifest.ArtifactType`,
// optionally followed by
//   if desc.ArtifactType == "" { desc.ArtifactType = manifest.Config.MediaType }
// Anything else assigned to desc.ArtifactType is reported as untranslatable.

import (
	"go/ast"
	"go/token"
)

func exprString(e ast.Expr) string {
	switch x := e.(type) {
	case *ast.Ident:
		return x.Name
	case *ast.SelectorExpr:
		return exprString(x.X) + "." + x.Sel.Name
	case *ast.BasicLit:
		return x.Value
	}
	return "?"
}

func init() {
	kinds["referrer_art_table"] = func(x *Ctx, it Item) {
		fd := findFunc(x.File(it.File), it.Recv, it.Func)
		if fd == nil {
			fail("%s: function %s.%s not found", it.File, it.Recv, it.Func)
		}
		var sw *ast.SwitchStmt
		ast.Inspect(fd.Body, func(n ast.Node) bool {
			if s, ok := n.(*ast.SwitchStmt); ok && sw == nil && s.Tag != nil && exprString(s.Tag) == "desc.MediaType" {
				sw = s
			}
			return true
		})
		if sw == nil {
			fail("%s: %s: switch desc.MediaType not found", it.File, it.Func)
		}
		kindOf := map[string]int{"spec.MediaTypeArtifactManifest": 0, "ocispec.MediaTypeImageManifest": 1, "ocispec.MediaTypeImageIndex": 2}
		seen := map[int]bool{}
		x.Printf("(* %s: switch desc.MediaType of %s *)\nDefinition %s : list (N * bool) :=\n  [", it.File, it.Func, coqName(it))
		first := true
		for _, st := range sw.Body.List {
			cc := st.(*ast.CaseClause)
			if cc.List == nil {
				continue // default: no indexing
			}
			for _, lab := range cc.List {
				k, ok := kindOf[exprString(lab)]
				if !ok {
					fail("%s: %s: unknown case label %s", it.File, it.Func, exprString(lab))
				}
				direct, fallback := false, false
				for _, s := range cc.Body {
					switch a := s.(type) {
					case *ast.AssignStmt:
						if len(a.Lhs) == 1 && exprString(a.Lhs[0]) == "desc.ArtifactType" {
							if a.Tok == token.ASSIGN && len(a.Rhs) == 1 && exprString(a.Rhs[0]) == "manifest.ArtifactType" {
								direct = true
							} else {
								fail("%s: %s: unexpected assignment to desc.ArtifactType", it.File, it.Func)
							}
						}
					case *ast.IfStmt:
						touches := false
						ast.Inspect(a, func(n ast.Node) bool {
							if as, ok := n.(*ast.AssignStmt); ok && len(as.Lhs) == 1 && exprString(as.Lhs[0]) == "desc.ArtifactType" {
								touches = true
							}
							return true
						})
						if !touches {
							continue
						}
						be, ok := a.Cond.(*ast.BinaryExpr)
						okShape := ok && be.Op == token.EQL && exprString(be.X) == "desc.ArtifactType" && exprString(be.Y) == `""` &&
							a.Else == nil && len(a.Body.List) == 1
						if okShape {
							as, ok2 := a.Body.List[0].(*ast.AssignStmt)
							okShape = ok2 && len(as.Rhs) == 1 && exprString(as.Rhs[0]) == "manifest.Config.MediaType"
						}
						if !okShape {
							fail("%s: %s: unexpected conditional assignment to desc.ArtifactType", it.File, it.Func)
						}
						fallback = true
					}
				}
				if !direct {
					fail("%s: %s: case %s does not set desc.ArtifactType = manifest.ArtifactType", it.File, it.Func, exprString(lab))
				}
				if !first {
					x.Printf("; ")
				}
				first = false
				fb := "false"
				if fallback {
					fb = "true"
				}
				x.Printf("(%d, %s)", k, fb)
				seen[k] = true
			}
		}
		x.Printf("].\n\n")
		if len(seen) != 3 {
			fail("%s: %s: expected the three manifest media types, found %d", it.File, it.Func, len(seen))
		}
	}
}
