package main

// kind "callarg": a string-literal argument of a call inside a function body,
// e.g. the tchar set in isNotTokenChar (strings.ContainsRune("!#$...", r)) or
// the scheme names in parseScheme (strings.EqualFold(scheme, "basic")).
//
//   {"kind": "callarg", "file": "...", "recv": "", "func": "isNotTokenChar",
//    "name": "strings.ContainsRune", "coq": "tcharSpecials",
//    "args": {"index": 0, "occurrence": 0}}
//
// emits  Definition <coq> : str := [...].

import (
	"go/ast"
	"go/token"
	"strconv"
)

func init() {
	kinds["callarg"] = func(x *Ctx, it Item) {
		fd := findFunc(x.File(it.File), it.Recv, it.Func)
		if fd == nil || fd.Body == nil {
			fail("%s: function %s.%s not found", it.File, it.Recv, it.Func)
		}
		num := func(k string) int {
			if v, ok := it.Args[k].(float64); ok {
				return int(v)
			}
			return 0
		}
		index, occ := num("index"), num("occurrence")
		seen := 0
		var lit *ast.BasicLit
		found := false
		ast.Inspect(fd.Body, func(n ast.Node) bool {
			call, ok := n.(*ast.CallExpr)
			if !ok || found {
				return !found
			}
			name := ""
			switch f := call.Fun.(type) {
			case *ast.SelectorExpr:
				if id, ok := f.X.(*ast.Ident); ok {
					name = id.Name + "." + f.Sel.Name
				}
			case *ast.Ident:
				name = f.Name
			}
			if name != it.Name {
				return true
			}
			if seen == occ {
				found = true
				if index < len(call.Args) {
					lit, _ = call.Args[index].(*ast.BasicLit)
				}
				return false
			}
			seen++
			return true
		})
		if !found {
			fail("%s: %s has no call #%d of %s", it.File, it.Func, occ, it.Name)
		}
		if lit == nil || lit.Kind != token.STRING {
			fail("%s: argument %d of call #%d of %s in %s is not a string literal", it.File, index, occ, it.Name, it.Func)
		}
		s, err := strconv.Unquote(lit.Value)
		if err != nil {
			fail("%s: %s: %v", it.File, it.Func, err)
		}
		x.Printf("(* %s: %s, argument %d of call #%d of %s *)\n", it.File, it.Func, index, occ, it.Name)
		x.Printf("Definition %s : str := %s.\n\n", coqName(it), coqStr(s))
	}
}
