// Kinds added for C13 (registry/remote):
//
//	strlist      a package-level `var x = []string{...}` whose elements are string
//	             constants, possibly of other packages (pkg.Const) -> `list str`
//	switchcases  the case list of the first `switch <expr>` of a function whose first
//	             clause lists string constants (args.index selects another switch) -> `list str`
//
// pkg.Const is resolved through the file's imports: packages of this module are
// read from the working tree, other modules from the module cache at the version
// pinned in go.mod.
package main

import (
	"go/ast"
	"go/constant"
	"go/parser"
	"os"
	"path/filepath"
	"strconv"
	"strings"
)

func modCache() string {
	if d := os.Getenv("GOMODCACHE"); d != "" {
		return d
	}
	if d := os.Getenv("GOPATH"); d != "" {
		return filepath.Join(strings.Split(d, string(os.PathListSeparator))[0], "pkg", "mod")
	}
	h, _ := os.UserHomeDir()
	return filepath.Join(h, "go", "pkg", "mod")
}

// pkgDir maps an import path to a directory.
func pkgDir(importPath, what string) string {
	data, err := os.ReadFile(filepath.Join(*repo, "go.mod"))
	if err != nil {
		fail("%s: %v", what, err)
	}
	module := ""
	req := map[string]string{}
	for _, l := range strings.Split(string(data), "\n") {
		f := strings.Fields(l)
		if len(f) >= 2 && f[0] == "module" {
			module = f[1]
		}
		if len(f) >= 2 && strings.Contains(f[0], ".") && strings.HasPrefix(f[1], "v") {
			req[f[0]] = f[1]
		}
		if len(f) >= 3 && f[0] == "require" && strings.HasPrefix(f[2], "v") {
			req[f[1]] = f[2]
		}
	}
	if importPath == module {
		return *repo
	}
	if strings.HasPrefix(importPath, module+"/") {
		return filepath.Join(*repo, strings.TrimPrefix(importPath, module+"/"))
	}
	best := ""
	for m := range req {
		if (importPath == m || strings.HasPrefix(importPath, m+"/")) && len(m) > len(best) {
			best = m
		}
	}
	if best == "" {
		fail("%s: import %s is neither in this module nor required by go.mod", what, importPath)
	}
	esc := ""
	for _, r := range best {
		if r >= 'A' && r <= 'Z' {
			esc += "!" + string(r+32)
		} else {
			esc += string(r)
		}
	}
	return filepath.Join(modCache(), esc+"@"+req[best], strings.TrimPrefix(importPath, best))
}

// foreignConst evaluates constant `name` of the package imported as `pkg` in f.
func foreignConst(x *Ctx, f *ast.File, pkg, name, what string) constant.Value {
	for _, im := range f.Imports {
		p, _ := strconv.Unquote(im.Path.Value)
		local := filepath.Base(p)
		if im.Name != nil {
			local = im.Name.Name
		}
		if local != pkg {
			continue
		}
		dir := pkgDir(p, what)
		ents, err := os.ReadDir(dir)
		if err != nil {
			fail("%s: %v", what, err)
		}
		for _, e := range ents {
			if !strings.HasSuffix(e.Name(), ".go") || strings.HasSuffix(e.Name(), "_test.go") {
				continue
			}
			pf, err := parser.ParseFile(x.Fset(), filepath.Join(dir, e.Name()), nil, parser.SkipObjectResolution)
			if err != nil {
				continue
			}
			if v := findVarInit(pf, name); v != nil {
				return strConst(x, pf, v, what)
			}
		}
		fail("%s: constant %s.%s not found in %s", what, pkg, name, dir)
	}
	fail("%s: package %s is not imported", what, pkg)
	return nil
}

// strConst evaluates a string constant expression, following pkg.Const selectors.
func strConst(x *Ctx, f *ast.File, e ast.Expr, what string) constant.Value {
	if s, ok := e.(*ast.SelectorExpr); ok {
		if id, ok := s.X.(*ast.Ident); ok {
			return foreignConst(x, f, id.Name, s.Sel.Name, what)
		}
	}
	if id, ok := e.(*ast.Ident); ok {
		if v := findVarInit(f, id.Name); v != nil {
			return strConst(x, f, v, what)
		}
	}
	v := evalConst(f, e, what)
	if v.Kind() != constant.String {
		fail("%s: not a string constant", what)
	}
	return v
}

func emitStrList(x *Ctx, it Item, f *ast.File, es []ast.Expr, what string) {
	var parts []string
	for _, e := range es {
		parts = append(parts, coqStr(constant.StringVal(strConst(x, f, e, what))))
	}
	x.Printf("(* %s *)\nDefinition %s : list str :=\n  [%s].\n\n", what, coqName(it), strings.Join(parts, ";\n   "))
}

func init() {
	kinds["strlist"] = func(x *Ctx, it Item) {
		f := x.File(it.File)
		e := findVarInit(f, it.Name)
		what := it.File + ":" + it.Name
		cl, ok := e.(*ast.CompositeLit)
		if e == nil || !ok {
			fail("%s: not a composite literal", what)
		}
		if at, ok := cl.Type.(*ast.ArrayType); !ok || at.Len != nil {
			fail("%s: not a slice literal", what)
		}
		emitStrList(x, it, f, cl.Elts, what)
	}
	kinds["switchcases_str"] = func(x *Ctx, it Item) {
		f := x.File(it.File)
		fd := findFunc(f, it.Recv, it.Func)
		what := it.File + ":" + it.Recv + "." + it.Func + " switch"
		if fd == nil || fd.Body == nil {
			fail("%s: function not found", what)
		}
		want := 0
		if v, ok := it.Args["index"].(float64); ok {
			want = int(v)
		}
		n := 0
		var found *ast.SwitchStmt
		ast.Inspect(fd.Body, func(nd ast.Node) bool {
			if sw, ok := nd.(*ast.SwitchStmt); ok && sw.Tag != nil && found == nil {
				if n == want {
					found = sw
				}
				n++
			}
			return found == nil
		})
		if found == nil || len(found.Body.List) == 0 {
			fail("%s: no such switch", what)
		}
		cc := found.Body.List[0].(*ast.CaseClause)
		if len(cc.List) == 0 {
			fail("%s: first clause is default", what)
		}
		emitStrList(x, it, f, cc.List, what)
	}
}
