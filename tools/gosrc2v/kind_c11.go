package main

// kind "c11_state_reads": the state, other than its parameters and locals, that a function of
// content/file consults: every selector on its receiver (fields read or written and methods
// called: "s.workingDir", "s.absPath") and every package-level variable of the listed files that
// its body mentions ("var:ErrPathTraversalDisallowed").  Emitted as a sorted Coq list
//
//	Definition <coq> : list str := [...].
//
// Model/FileConfine.v models the write paths of the file store as functions of the file-system
// state alone (each operation walks the path again in the CURRENT tree); Proofs/FileConfineSrc.v
// proves by reflexivity that the lists are the expected ones, so that a store-side cache or any
// other remembered state consulted by ensureWriteDir / ensureDirNoSymlink / pushFile / ... breaks
// layer P (and sends bin/check into its search) instead of slipping past the model.
//
//	{"kind": "c11_state_reads", "file": "content/file/file.go", "recv": "Store", "func": "ensureWriteDir",
//	 "coq": "reads_ensureWriteDir", "args": {"pkgfiles": ["content/file/file.go", "content/file/utils.go", "content/file/errors.go"]}}

import (
	"bytes"
	"go/ast"
	"go/printer"
	"go/token"
	"sort"
	"strconv"
	"strings"
)

func c11pkgVars(x *Ctx, files []string) map[string]bool {
	vars := map[string]bool{}
	for _, fn := range files {
		f := x.File(fn)
		if f == nil {
			continue
		}
		for _, d := range f.Decls {
			gd, ok := d.(*ast.GenDecl)
			if !ok || gd.Tok != token.VAR {
				continue
			}
			for _, sp := range gd.Specs {
				if vs, ok := sp.(*ast.ValueSpec); ok {
					for _, n := range vs.Names {
						vars[n.Name] = true
					}
				}
			}
		}
	}
	return vars
}

func init() {
	kinds["c11_state_reads"] = func(x *Ctx, it Item) {
		fd := findFunc(x.File(it.File), it.Recv, it.Func)
		if fd == nil || fd.Body == nil {
			fail("%s: function %s.%s not found", it.File, it.Recv, it.Func)
		}
		var files []string
		if l, ok := it.Args["pkgfiles"].([]any); ok {
			for _, v := range l {
				if s, ok := v.(string); ok {
					files = append(files, s)
				}
			}
		}
		vars := c11pkgVars(x, files)
		recv := ""
		if fd.Recv != nil && len(fd.Recv.List) == 1 && len(fd.Recv.List[0].Names) == 1 {
			recv = fd.Recv.List[0].Names[0].Name
		}
		// names bound inside the function shadow package-level variables
		local := map[string]bool{}
		for _, fl := range []*ast.FieldList{fd.Type.Params, fd.Type.Results} {
			if fl != nil {
				for _, p := range fl.List {
					for _, n := range p.Names {
						local[n.Name] = true
					}
				}
			}
		}
		ast.Inspect(fd.Body, func(n ast.Node) bool {
			switch s := n.(type) {
			case *ast.AssignStmt:
				if s.Tok == token.DEFINE {
					for _, l := range s.Lhs {
						if id, ok := l.(*ast.Ident); ok {
							local[id.Name] = true
						}
					}
				}
			case *ast.ValueSpec:
				for _, id := range s.Names {
					local[id.Name] = true
				}
			case *ast.RangeStmt:
				for _, e := range []ast.Expr{s.Key, s.Value} {
					if id, ok := e.(*ast.Ident); ok && s.Tok == token.DEFINE {
						local[id.Name] = true
					}
				}
			}
			return true
		})
		seen := map[string]bool{}
		ast.Inspect(fd.Body, func(n ast.Node) bool {
			switch e := n.(type) {
			case *ast.SelectorExpr:
				if id, ok := e.X.(*ast.Ident); ok {
					if recv != "" && id.Name == recv {
						seen["s."+e.Sel.Name] = true
					} else if vars[id.Name] && !local[id.Name] {
						seen["var:"+id.Name] = true
					}
					return false // a qualified identifier pkg.Name is not a package-level variable of ours
				}
			case *ast.KeyValueExpr:
				// field names of composite literals are not reads
				ast.Inspect(e.Value, func(m ast.Node) bool {
					if id, ok := m.(*ast.Ident); ok && vars[id.Name] && !local[id.Name] {
						seen["var:"+id.Name] = true
					}
					return true
				})
				return false
			case *ast.Ident:
				if vars[e.Name] && !local[e.Name] {
					seen["var:"+e.Name] = true
				}
			}
			return true
		})
		var out []string
		for k := range seen {
			out = append(out, k)
		}
		sort.Strings(out)
		x.Printf("(* %s: state consulted by %s.%s besides parameters and locals *)\n", it.File, it.Recv, it.Func)
		x.Printf("Definition %s : list str :=\n  [", coqName(it))
		for i, k := range out {
			if i > 0 {
				x.Printf(";\n   ")
			}
			x.Printf("(* %s *) %s", k, coqStr(k))
		}
		x.Printf("].\n\n")
	}
}

// kind "c11_intlit": an integer literal argument of a call inside a function (or, with "or": true,
// the literal L of an argument of the form `x|L`), emitted as a Coq N:
//
//	{"kind": "c11_intlit", "file": "content/file/file.go", "recv": "Store", "func": "ensureWriteDir",
//	 "name": "ensureDirNoSymlink", "coq": "c11_write_dir_perm", "args": {"occ": 0, "index": 2}}
//
// The model's creation modes (0777 for the directories of a write path, mode|0700 for unpacked
// directories) are these constants, not hand-copied numbers.
func init() {
	kinds["c11_intlit"] = func(x *Ctx, it Item) {
		fd := findFunc(x.File(it.File), it.Recv, it.Func)
		if fd == nil || fd.Body == nil {
			fail("%s: function %s.%s not found", it.File, it.Recv, it.Func)
		}
		geti := func(k string) int {
			if v, ok := it.Args[k].(float64); ok {
				return int(v)
			}
			return 0
		}
		occ, index := geti("occ"), geti("index")
		orForm, _ := it.Args["or"].(bool)
		n := 0
		var lit *ast.BasicLit
		ast.Inspect(fd.Body, func(nd ast.Node) bool {
			call, ok := nd.(*ast.CallExpr)
			if !ok || lit != nil {
				return true
			}
			name := ""
			switch f := call.Fun.(type) {
			case *ast.Ident:
				name = f.Name
			case *ast.SelectorExpr:
				if id, ok := f.X.(*ast.Ident); ok {
					name = id.Name + "." + f.Sel.Name
				}
			}
			if name != it.Name {
				return true
			}
			if n == occ && index < len(call.Args) {
				arg := call.Args[index]
				if orForm {
					if be, ok := arg.(*ast.BinaryExpr); ok && be.Op == token.OR {
						arg = be.Y
					} else {
						arg = nil
					}
				}
				if bl, ok := arg.(*ast.BasicLit); ok && bl.Kind == token.INT {
					lit = bl
				}
			}
			n++
			return true
		})
		if lit == nil {
			fail("%s: %s.%s: argument %d of call #%d of %s is not an integer literal (or x|literal)", it.File, it.Recv, it.Func, index, occ, it.Name)
		}
		v, err := strconv.ParseInt(lit.Value, 0, 64)
		if err != nil {
			fail("%s: %s: bad integer literal %s", it.File, it.Func, lit.Value)
		}
		x.Printf("(* %s: %s.%s, argument %d of call #%d of %s = %s *)\n", it.File, it.Recv, it.Func, index, occ, it.Name, lit.Value)
		x.Printf("Definition %s : N := %d%%N.\n\n", coqName(it), v)
	}
}

// kind "c11_srcfact": a guard or statement that Model/FileConfine.v mirrors is present, verbatim up
// to white space, in the body of the named function:
//
//	{"kind": "c11_srcfact", "file": "content/file/file.go", "recv": "Store", "func": "resolveWritePath",
//	 "coq": "c11_fact_traversal_test", "args": {"text": "strings.HasPrefix(rel, \"../\") || rel == \"..\""}}
//
// emitted as `Definition <coq> : bool := true | false.`; Proofs/FileConfineSrc.v proves the
// conjunction by reflexivity, so an edit of one of these places (the traversal test, where a hard
// link's old name is resolved, which Lstat results count as "not there", ...) breaks layer P even
// when no generated input happens to distinguish the behaviours.
func init() {
	kinds["c11_srcfact"] = func(x *Ctx, it Item) {
		fd := findFunc(x.File(it.File), it.Recv, it.Func)
		if fd == nil || fd.Body == nil {
			fail("%s: function %s.%s not found", it.File, it.Recv, it.Func)
		}
		text, _ := it.Args["text"].(string)
		if text == "" {
			fail("%s: c11_srcfact %s without text", it.File, coqName(it))
		}
		var buf bytes.Buffer
		if err := printer.Fprint(&buf, x.Fset(), fd.Body); err != nil {
			fail("%s: cannot print %s", it.File, it.Func)
		}
		norm := func(s string) string { return strings.Join(strings.Fields(s), "") }
		v := "false"
		if strings.Contains(norm(buf.String()), norm(text)) {
			v = "true"
		}
		x.Printf("(* %s: %s.%s contains `%s` *)\n", it.File, it.Recv, it.Func, strings.ReplaceAll(text, "*)", "* )"))
		x.Printf("Definition %s : bool := %s.\n\n", coqName(it), v)
	}
}
