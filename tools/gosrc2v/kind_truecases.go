package main

// kind "truecases": a predicate of the shape
//
//	func f(x T) bool { switch <expr> { case A, B, C: return true; default: return false } }
//
// is emitted as the list of its accepted case expressions, rendered as source
// text ("digest.SHA256", "ocispec.MediaTypeImageIndex", ...):
//
//	Definition <coq> : list str := [ <"A">; <"B">; <"C"> ].
//
// Any other shape (more statements, a case that does not return a boolean
// literal, non-selector/identifier case expressions) is an error.
//
//	{"kind": "truecases", "file": "content/oci/oci.go", "func": "isKnownAlgorithm", "coq": "isKnownAlgorithm_cases"}

import (
	"go/ast"
	"strings"
)

func exprText(e ast.Expr) (string, bool) {
	switch v := e.(type) {
	case *ast.Ident:
		return v.Name, true
	case *ast.SelectorExpr:
		if x, ok := v.X.(*ast.Ident); ok {
			return x.Name + "." + v.Sel.Name, true
		}
	}
	return "", false
}

func boolReturn(stmts []ast.Stmt) (val bool, ok bool) {
	if len(stmts) != 1 {
		return false, false
	}
	r, isRet := stmts[0].(*ast.ReturnStmt)
	if !isRet || len(r.Results) != 1 {
		return false, false
	}
	id, isID := r.Results[0].(*ast.Ident)
	if !isID || (id.Name != "true" && id.Name != "false") {
		return false, false
	}
	return id.Name == "true", true
}

func init() {
	kinds["truecases"] = func(x *Ctx, it Item) {
		what := it.File + ":" + it.Recv + "." + it.Func
		fd := findFunc(x.File(it.File), it.Recv, it.Func)
		if fd == nil || fd.Body == nil {
			fail("%s: function not found", what)
		}
		if len(fd.Body.List) != 1 {
			fail("%s: body is not a single switch statement", what)
		}
		sw, ok := fd.Body.List[0].(*ast.SwitchStmt)
		if !ok || sw.Init != nil {
			fail("%s: body is not a single switch statement", what)
		}
		var accepted []string
		sawDefault := false
		for _, st := range sw.Body.List {
			cc := st.(*ast.CaseClause)
			val, ok := boolReturn(cc.Body)
			if !ok {
				fail("%s: a case does not consist of `return true|false`", what)
			}
			if cc.List == nil {
				sawDefault = true
				if val {
					fail("%s: default returns true", what)
				}
				continue
			}
			for _, e := range cc.List {
				t, ok := exprText(e)
				if !ok {
					fail("%s: case expression is not an identifier or pkg.Name", what)
				}
				if val {
					accepted = append(accepted, t)
				}
			}
		}
		if !sawDefault {
			fail("%s: no default case", what)
		}
		var parts []string
		for _, a := range accepted {
			parts = append(parts, coqStr(a))
		}
		x.Printf("(* %s: cases returning true: %s *)\n", what, strings.Join(accepted, ", "))
		x.Printf("Definition %s : list str :=\n  [%s].\n\n", coqName(it), strings.Join(parts, ";\n   "))
	}
}
