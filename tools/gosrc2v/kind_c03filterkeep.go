package main

// kind "c03filterkeep": the two decisions of FilterAnnotation / FilterArtifactType
// (extendedcopy.go), translated into Gallina over booleans:
//
//	<name>_keep ok re_nil matches      the return expression of the `keep` closure, with the atoms
//	                                   ok                      (the key is in desc.Annotations)
//	                                   regex == nil            re_nil
//	                                   regex.MatchString(..)   matches
//	<name>_fetch_guard missing         the condition of the `if` around the media type switch in the
//	                                   predecessor loop, with the atom
//	                                   p.Annotations == nil / p.ArtifactType == ""   missing
//
// Operators && || ! and parentheses; anything else is untranslatable.

import (
	"go/ast"
	"go/token"
)

func init() {
	kinds["c03filterkeep"] = func(x *Ctx, it Item) {
		fd := findFunc(x.File(it.File), it.Recv, it.Func)
		what := it.File + ":" + it.Recv + "." + it.Func
		if fd == nil || fd.Body == nil {
			fail("%s: function not found", what)
		}
		var tr func(e ast.Expr) string
		tr = func(e ast.Expr) string {
			switch v := e.(type) {
			case *ast.ParenExpr:
				return tr(v.X)
			case *ast.Ident:
				if v.Name == "ok" {
					return "ok"
				}
			case *ast.UnaryExpr:
				if v.Op == token.NOT {
					return "(negb " + tr(v.X) + ")"
				}
			case *ast.CallExpr:
				if s, ok := v.Fun.(*ast.SelectorExpr); ok && s.Sel.Name == "MatchString" {
					if id, ok := s.X.(*ast.Ident); ok && id.Name == "regex" && len(v.Args) == 1 {
						return "matches"
					}
				}
			case *ast.BinaryExpr:
				switch v.Op {
				case token.LAND:
					return "(andb " + tr(v.X) + " " + tr(v.Y) + ")"
				case token.LOR:
					return "(orb " + tr(v.X) + " " + tr(v.Y) + ")"
				case token.EQL:
					if id, ok := v.X.(*ast.Ident); ok && id.Name == "regex" {
						if n, ok := v.Y.(*ast.Ident); ok && n.Name == "nil" {
							return "re_nil"
						}
					}
					if s, ok := v.X.(*ast.SelectorExpr); ok {
						if id, ok := s.X.(*ast.Ident); ok && id.Name == "p" {
							if n, ok := v.Y.(*ast.Ident); ok && n.Name == "nil" && s.Sel.Name == "Annotations" {
								return "missing"
							}
							if l, ok := v.Y.(*ast.BasicLit); ok && l.Value == `""` && s.Sel.Name == "ArtifactType" {
								return "missing"
							}
						}
					}
				}
			}
			fail("%s: expression outside the recognised atoms / operators", what)
			return ""
		}
		// keep := func(desc ocispec.Descriptor) bool { ...; return <expr> }
		var keepExpr ast.Expr
		// the if statement whose body is (only) the switch on p.MediaType
		var guard ast.Expr
		ast.Inspect(fd.Body, func(n ast.Node) bool {
			switch v := n.(type) {
			case *ast.AssignStmt:
				if len(v.Lhs) == 1 && len(v.Rhs) == 1 {
					if id, ok := v.Lhs[0].(*ast.Ident); ok && id.Name == "keep" {
						if fl, ok := v.Rhs[0].(*ast.FuncLit); ok {
							last := fl.Body.List[len(fl.Body.List)-1]
							if r, ok := last.(*ast.ReturnStmt); ok && len(r.Results) == 1 {
								keepExpr = r.Results[0]
							}
						}
					}
				}
			case *ast.IfStmt:
				if v.Init == nil && v.Else == nil && len(v.Body.List) >= 1 {
					if sw, ok := v.Body.List[len(v.Body.List)-1].(*ast.SwitchStmt); ok && sw.Tag != nil {
						if s, ok := sw.Tag.(*ast.SelectorExpr); ok && s.Sel.Name == "MediaType" {
							if guard != nil {
								fail("%s: more than one guarded media type switch", what)
							}
							guard = v.Cond
						}
					}
				}
			}
			return true
		})
		if keepExpr == nil || guard == nil {
			fail("%s: keep closure or fetch guard not found", what)
		}
		x.Printf("(* %s: keep closure and fetch guard *)\n", what)
		x.Printf("Definition %s_keep (ok re_nil matches : bool) : bool :=\n  %s.\n", coqName(it), tr(keepExpr))
		x.Printf("Definition %s_fetch_guard (missing : bool) : bool :=\n  %s.\n\n", coqName(it), tr(guard))
	}
}
