package main

// kind "c05_digest_algs": the algorithm table of the pinned dependency
// github.com/opencontainers/go-digest that Model/Verify.v (valid_digest) depends on, read
// from the module cache at the version named in the repository's go.mod:
//
//	const ( SHA256 Algorithm = "sha256" ... )
//	anchoredEncodedRegexps = map[Algorithm]*regexp.Regexp{ SHA256: regexp.MustCompile(`^[a-f0-9]{64}$`), ... }
//
// Every entry must have exactly the shape ^[a-f0-9]{N}$ (lower-case hex of a fixed length);
// anything else is untranslatable.  Emitted:
//
//	Definition <coq> : list (str * nat) := [(<"sha256">, 64%nat); ...].   (sorted by name)
//
//	{"kind": "c05_digest_algs", "file": "go.mod", "name": "c05_alg_table"}

import (
	"go/ast"
	"go/parser"
	"go/printer"
	"go/token"
	"os"
	"path/filepath"
	"regexp"
	"sort"
	"strconv"
	"strings"
)

func init() { kinds["c05_digest_algs"] = kindC05DigestAlgs }

var c05EncodedShape = regexp.MustCompile(`^\^\[a-f0-9\]\{(\d+)\}\$$`)

func c05ModCache() string {
	if d := os.Getenv("GOMODCACHE"); d != "" {
		return d
	}
	if d := os.Getenv("GOPATH"); d != "" {
		return filepath.Join(strings.Split(d, string(os.PathListSeparator))[0], "pkg", "mod")
	}
	home, _ := os.UserHomeDir()
	return filepath.Join(home, "go", "pkg", "mod")
}

func kindC05DigestAlgs(x *Ctx, it Item) {
	gomod, err := os.ReadFile(filepath.Join(*repo, "go.mod"))
	if err != nil {
		fail("go.mod: %v", err)
	}
	m := regexp.MustCompile(`github\.com/opencontainers/go-digest\s+(v[0-9A-Za-z.\-+]+)`).FindSubmatch(gomod)
	if m == nil {
		fail("go.mod: go-digest is not required")
	}
	src := filepath.Join(c05ModCache(), "github.com", "opencontainers", "go-digest@"+string(m[1]), "algorithm.go")
	f, err := parser.ParseFile(token.NewFileSet(), src, nil, parser.SkipObjectResolution)
	if err != nil {
		fail("go-digest %s: %v", string(m[1]), err)
	}
	names := map[string]string{} // constant identifier -> algorithm name
	var table *ast.CompositeLit
	for _, d := range f.Decls {
		gd, ok := d.(*ast.GenDecl)
		if !ok {
			continue
		}
		for _, s := range gd.Specs {
			vs, ok := s.(*ast.ValueSpec)
			if !ok {
				continue
			}
			for i, n := range vs.Names {
				if i >= len(vs.Values) {
					continue
				}
				if id, ok := vs.Type.(*ast.Ident); ok && id.Name == "Algorithm" {
					if bl, ok := vs.Values[i].(*ast.BasicLit); ok && bl.Kind == token.STRING {
						v, _ := strconv.Unquote(bl.Value)
						names[n.Name] = v
					}
				}
				if n.Name == "anchoredEncodedRegexps" {
					table, _ = vs.Values[i].(*ast.CompositeLit)
				}
			}
		}
	}
	if table == nil {
		fail("go-digest: anchoredEncodedRegexps is not a composite literal")
	}
	type ent struct {
		name string
		n    int
	}
	var ents []ent
	for _, el := range table.Elts {
		kv, ok := el.(*ast.KeyValueExpr)
		if !ok {
			fail("go-digest: anchoredEncodedRegexps entry without key")
		}
		id, ok := kv.Key.(*ast.Ident)
		alg, known := names[idName(id, ok)]
		if !known {
			fail("go-digest: anchoredEncodedRegexps key is not an Algorithm constant")
		}
		call, ok := kv.Value.(*ast.CallExpr)
		if !ok || len(call.Args) != 1 {
			fail("go-digest: entry %s is not regexp.MustCompile(<literal>)", alg)
		}
		bl, ok := call.Args[0].(*ast.BasicLit)
		if !ok || bl.Kind != token.STRING {
			fail("go-digest: entry %s is not regexp.MustCompile(<literal>)", alg)
		}
		pat, _ := strconv.Unquote(bl.Value)
		sm := c05EncodedShape.FindStringSubmatch(pat)
		if sm == nil {
			fail("go-digest: encoded form of %s is %q, not ^[a-f0-9]{N}$", alg, pat)
		}
		n, _ := strconv.Atoi(sm[1])
		ents = append(ents, ent{alg, n})
	}
	sort.Slice(ents, func(i, j int) bool { return ents[i].name < ents[j].name })
	var parts []string
	for _, e := range ents {
		parts = append(parts, "("+coqStr(e.name)+", "+strconv.Itoa(e.n)+"%nat)")
	}
	x.Printf("(* go-digest %s algorithm.go: anchoredEncodedRegexps (all of the shape ^[a-f0-9]{N}$) *)\n", string(m[1]))
	x.Printf("Definition %s : list (str * nat) :=\n  [%s].\n\n", coqName(it), strings.Join(parts, ";\n   "))
}

func idName(id *ast.Ident, ok bool) string {
	if !ok || id == nil {
		return ""
	}
	return id.Name
}

// kind "c05_srcfact": one syntactic fact about a Go function that Model/Verify.v mirrors by
// hand: the function body, printed by go/printer (comments dropped) with all white space
// removed, contains the given fragments IN THIS ORDER.  Emitted as
//
//	Definition <coq> : bool := true | false.
//
// Proofs/VerifyFacts.v proves the conjunction of all facts by reflexivity, so an edit of one
// of these places breaks layer P and sends bin/check into its search (the edit may be
// harmless: then the fragment has to be re-read by hand against the model).
//
//	{"kind": "c05_srcfact", "file": "content/reader.go", "recv": "", "func": "ReadAll", "name": "c05_readall_size_first",
//	 "args": {"frags": ["{ifdesc.Size<0{returnnil,ErrInvalidDescriptorSize}"]}}

func init() { kinds["c05_srcfact"] = kindC05SrcFact }

func kindC05SrcFact(x *Ctx, it Item) {
	fd := findFunc(x.File(it.File), it.Recv, it.Func)
	holds := false
	if fd != nil && fd.Body != nil {
		fd.Doc = nil
		var sb strings.Builder
		cfg := printerConfig()
		if err := cfg.Fprint(&sb, x.Fset(), fd.Body); err == nil {
			text := strings.Join(strings.Fields(sb.String()), "")
			holds = true
			raw, _ := it.Args["frags"].([]any)
			if len(raw) == 0 {
				fail("%s: c05_srcfact %s without frags", it.File, it.Name)
			}
			for _, r := range raw {
				frag, _ := r.(string)
				i := strings.Index(text, frag)
				if i < 0 {
					holds = false
					break
				}
				text = text[i+len(frag):]
			}
		}
	}
	x.Printf("(* %s: %s.%s *)\nDefinition %s : bool := %v.\n\n", it.File, it.Recv, it.Func, coqName(it), holds)
}

// comments are not part of a fact
func printerConfig() *printer.Config { return &printer.Config{Mode: printer.RawFormat} }

// kind "c05_zguard": the condition of the index-th `if` statement (pre-order) of a function,
// translated into a Gallina boolean function over Z.  Supported: comparisons < <= > >= == !=
// between integer literals and operands named in args.vars (printed Go expression -> Coq
// variable), combined with && || ! and parentheses.  Anything else is untranslatable.
//
//	{"kind": "c05_zguard", "file": "content/limitedstorage.go", "recv": "LimitedStorage", "func": "Push",
//	 "name": "c05_g_limited", "args": {"index": 0, "vars": {"expected.Size": "sz", "ls.PushLimit": "limit"}, "order": ["sz", "limit"]}}
//
// emits   Definition c05_g_limited (sz limit : Z) : bool := (sz >? limit)%Z.
// Proofs/VerifyFacts.v proves that the model's hand-written guards are these functions.

func init() { kinds["c05_zguard"] = kindC05ZGuard }

func kindC05ZGuard(x *Ctx, it Item) {
	fd := findFunc(x.File(it.File), it.Recv, it.Func)
	if fd == nil || fd.Body == nil {
		fail("%s: function %s.%s not found", it.File, it.Recv, it.Func)
	}
	idx := 0
	if f, ok := it.Args["index"].(float64); ok {
		idx = int(f)
	}
	vars := map[string]string{}
	if m, ok := it.Args["vars"].(map[string]any); ok {
		for k, v := range m {
			vars[strings.Join(strings.Fields(k), "")], _ = v.(string)
		}
	}
	var order []string
	if l, ok := it.Args["order"].([]any); ok {
		for _, v := range l {
			s, _ := v.(string)
			order = append(order, s)
		}
	}
	var cond ast.Expr
	n := 0
	ast.Inspect(fd.Body, func(nd ast.Node) bool {
		if is, ok := nd.(*ast.IfStmt); ok {
			if n == idx && cond == nil {
				cond = is.Cond
			}
			n++
		}
		return true
	})
	if cond == nil {
		fail("%s: %s.%s has no if statement #%d", it.File, it.Recv, it.Func, idx)
	}
	what := it.File + ":" + it.Recv + "." + it.Func
	var tr func(e ast.Expr) string
	operand := func(e ast.Expr) string {
		if bl, ok := e.(*ast.BasicLit); ok && bl.Kind == token.INT {
			return bl.Value
		}
		var sb strings.Builder
		printerConfig().Fprint(&sb, x.Fset(), e)
		key := strings.Join(strings.Fields(sb.String()), "")
		if v, ok := vars[key]; ok {
			return v
		}
		fail("%s: operand %q of if #%d is not a literal or a declared variable", what, key, idx)
		return ""
	}
	tr = func(e ast.Expr) string {
		switch t := e.(type) {
		case *ast.ParenExpr:
			return tr(t.X)
		case *ast.UnaryExpr:
			if t.Op == token.NOT {
				return "negb (" + tr(t.X) + ")"
			}
		case *ast.BinaryExpr:
			switch t.Op {
			case token.LAND:
				return "(" + tr(t.X) + " && " + tr(t.Y) + ")"
			case token.LOR:
				return "(" + tr(t.X) + " || " + tr(t.Y) + ")"
			case token.LSS:
				return "(" + operand(t.X) + " <? " + operand(t.Y) + ")%Z"
			case token.LEQ:
				return "(" + operand(t.X) + " <=? " + operand(t.Y) + ")%Z"
			case token.GTR:
				return "(" + operand(t.X) + " >? " + operand(t.Y) + ")%Z"
			case token.GEQ:
				return "(" + operand(t.X) + " >=? " + operand(t.Y) + ")%Z"
			case token.EQL:
				return "(" + operand(t.X) + " =? " + operand(t.Y) + ")%Z"
			case token.NEQ:
				return "negb (" + operand(t.X) + " =? " + operand(t.Y) + ")%Z"
			}
		}
		fail("%s: condition of if #%d is not a comparison formula", what, idx)
		return ""
	}
	body := tr(cond)
	x.Printf("(* %s: condition of if #%d *)\nDefinition %s (%s : Z) : bool := %s.\n\n", what, idx, coqName(it), strings.Join(order, " "), body)
}
