package main

// kind "c02_srcfacts": the facts about the error handling of copyGraph.fn (copy.go), of
// syncutil.Go / LimitedRegion.Start (internal/syncutil/limit.go) and of ExtendedCopyGraph's outer
// closure (extendedcopy.go) that the hand-written transition systems of C02 (Model/CopyFault.v:
// a failing task's node is Dead and stays so; Model/CopyImpl.v: LWaitCancel / LStartFail /
// finish) ASSUME.  Each fact is a syntactic shape of the current source, compared after
// printing the syntax node without white space; it is emitted as a Coq boolean
//
//	Definition c02_<fact> : bool := true | false.
//
// and Proofs/CopyFnFacts.v proves the conjunction by reflexivity, so that an edit of one of
// these places (the named result `err`, the deferred `if err == nil { close(done) }`, the
// `case <-ctx.Done(): return ctx.Err()` arm, `region.Start()`'s error being returned,
// `return context.Cause(ctx)` ...) breaks layer P and sends bin/check into its search
// (the change may be harmless: then the recogniser has to be taught the new shape by hand).
//
//	{"kind": "c02_srcfacts", "file": "copy.go", "name": "c02_srcfacts"}

import (
	"bytes"
	"go/ast"
	"go/printer"
	"strings"
)

func c02norm(x *Ctx, n ast.Node) string {
	if n == nil {
		return ""
	}
	var buf bytes.Buffer
	if err := printer.Fprint(&buf, x.Fset(), n); err != nil {
		return ""
	}
	return strings.Join(strings.Fields(buf.String()), "")
}

// c02fnLit: the function literal assigned to `fn` inside copyGraph.
func c02fnLit(fd *ast.FuncDecl) *ast.FuncLit {
	var lit *ast.FuncLit
	if fd == nil || fd.Body == nil {
		return nil
	}
	ast.Inspect(fd.Body, func(n ast.Node) bool {
		if as, ok := n.(*ast.AssignStmt); ok && len(as.Lhs) == 1 && len(as.Rhs) == 1 {
			if id, ok := as.Lhs[0].(*ast.Ident); ok && id.Name == "fn" {
				if l, ok := as.Rhs[0].(*ast.FuncLit); ok && lit == nil {
					lit = l
				}
			}
		}
		return true
	})
	return lit
}

func c02anyNode(x *Ctx, root ast.Node, pred func(ast.Node, string) bool) bool {
	found := false
	if root == nil {
		return false
	}
	ast.Inspect(root, func(n ast.Node) bool {
		if n == nil || found {
			return false
		}
		switch n.(type) {
		case ast.Stmt:
			if pred(n, c02norm(x, n)) {
				found = true
			}
		}
		return true
	})
	return found
}

// consecutive statements of one block
func c02consecutive(x *Ctx, root ast.Node, first string, secondPrefix string) bool {
	found := false
	if root == nil {
		return false
	}
	ast.Inspect(root, func(n ast.Node) bool {
		if b, ok := n.(*ast.BlockStmt); ok {
			for i := 0; i+1 < len(b.List); i++ {
				if c02norm(x, b.List[i]) == first && strings.HasPrefix(c02norm(x, b.List[i+1]), secondPrefix) {
					found = true
				}
			}
		}
		return true
	})
	return found
}

func init() {
	kinds["c02_srcfacts"] = func(x *Ctx, it Item) {
		emit := func(name string, v bool, what string) {
			x.Printf("(* %s *)\n", what)
			if v {
				x.Printf("Definition c02_%s : bool := true.\n\n", name)
			} else {
				x.Printf("Definition c02_%s : bool := false.\n\n", name)
			}
		}
		// ---- copy.go: copyGraph.fn
		fn := c02fnLit(findFunc(x.File("copy.go"), "", "copyGraph"))
		var body *ast.BlockStmt
		if fn != nil {
			body = fn.Body
		}
		stmt := func(i int) string {
			if body == nil || i >= len(body.List) {
				return ""
			}
			return c02norm(x, body.List[i])
		}
		has := func(root ast.Node, want string) bool {
			return c02anyNode(x, root, func(_ ast.Node, s string) bool { return s == want })
		}
		var bodyNode ast.Node
		if body != nil {
			bodyNode = body
		}
		namedErr := false
		if fn != nil && fn.Type.Results != nil && len(fn.Type.Results.List) == 1 {
			f := fn.Type.Results.List[0]
			if id, ok := f.Type.(*ast.Ident); ok && id.Name == "error" && len(f.Names) == 1 && f.Names[0].Name == "err" {
				namedErr = true
			}
		}
		emit("fn_named_err", namedErr,
			"copy.go copyGraph: fn = func(...) (err error): the deferred closure sees the returned error")
		emit("fn_uncommitted_returns_first", stmt(0) == "done,committed:=tracker.TryCommit(desc)" && stmt(1) == "if!committed{returnnil}",
			"copy.go copyGraph.fn: a task that does not own the node returns nil before anything is deferred")
		emit("fn_defer_close_on_nil", stmt(2) == "deferfunc(){iferr==nil{close(done)}}()",
			"copy.go copyGraph.fn: defer func() { if err == nil { close(done) } }() -- done is closed only on success")
		nilReturns := 0
		if bodyNode != nil {
			ast.Inspect(bodyNode, func(n ast.Node) bool {
				if _, ok := n.(*ast.FuncLit); ok && n != ast.Node(fn) {
					return false // (the deferred closure)
				}
				if r, ok := n.(*ast.ReturnStmt); ok && c02norm(x, r) == "returnnil" {
					nilReturns++
				}
				return true
			})
		}
		emit("fn_two_nil_returns", nilReturns == 2,
			"copy.go copyGraph.fn: exactly two `return nil` (not the owner; node exists in the destination): every other exit returns what a callee returned")
		emit("fn_exists_err_returned", has(bodyNode, `iferr!=nil{returnnewCopyError("Exists",CopyErrorOriginDestination,err)}`),
			"copy.go copyGraph.fn: an error of dst.Exists is returned")
		emit("fn_find_err_returned", has(bodyNode, `iferr!=nil{returnnewCopyError("FindSuccessors",CopyErrorOriginSource,err)}`),
			"copy.go copyGraph.fn: an error of FindSuccessors (proxy fetch) is returned")
		emit("fn_end_then_go_err_returned", c02consecutive(x, bodyNode, "region.End()", "iferr:=syncutil.Go(ctx,limiter,fn,successors...);err!=nil{returnerr}"),
			"copy.go copyGraph.fn: region.End() immediately precedes syncutil.Go(ctx, limiter, fn, successors...), whose error is returned")
		emit("fn_wait_select", has(bodyNode, "select{case<-done:case<-ctx.Done():returnctx.Err()}"),
			"copy.go copyGraph.fn: select { case <-done: case <-ctx.Done(): return ctx.Err() } -- a cancelled wait returns an error")
		emit("fn_wait_loop", c02anyNode(x, bodyNode, func(n ast.Node, s string) bool {
			_, ok := n.(*ast.RangeStmt)
			return ok && strings.HasPrefix(s, "for_,node:=rangesuccessors{done,committed:=tracker.TryCommit(node)ifcommitted{returnfmt.Errorf(") &&
				strings.HasSuffix(s, "select{case<-done:case<-ctx.Done():returnctx.Err()}}")
		}), "copy.go copyGraph.fn: the wait loop ranges over ALL successors: TryCommit(node) must not commit, then the select on its done channel")
		emit("fn_start_err_returned", has(bodyNode, "iferr:=region.Start();err!=nil{returnerr}"),
			"copy.go copyGraph.fn: an error of region.Start() after the wait is returned")
		emit("fn_copy_results_returned", has(bodyNode, "returncopyNode(ctx,proxy.Cache,dst,desc,opts)") && has(bodyNode, "returnmountOrCopyNode(ctx,src,dst,desc,opts)"),
			"copy.go copyGraph.fn: the results of copyNode / mountOrCopyNode are returned as they are")
		// ---- copy.go: doCopyNode
		dcn := findFunc(x.File("copy.go"), "", "doCopyNode")
		var dcnBody ast.Node
		if dcn != nil && dcn.Body != nil {
			dcnBody = dcn.Body
		}
		emit("docopy_errs_returned", has(dcnBody, `iferr!=nil{returnnewCopyError("Fetch",CopyErrorOriginSource,err)}`) &&
			has(dcnBody, `iferr!=nil&&!errors.Is(err,errdef.ErrAlreadyExists){returnnewCopyError("Push",CopyErrorOriginDestination,err)}`),
			"copy.go doCopyNode: an error of src.Fetch / of dst.Push other than ErrAlreadyExists is returned")
		// ---- copy.go: prepareCopy (the wiring that makes Copy tag the root: Model/CopySpec.v root_tagger /
		// root_refpush, TagP0/TagP1, the PushReference of a ReferencePusher root, TagX / PuX faults on it)
		pc := findFunc(x.File("copy.go"), "", "prepareCopy")
		var pcBody ast.Node
		first := ""
		if pc != nil && pc.Body != nil {
			pcBody = pc.Body
			if len(pc.Body.List) > 0 {
				if is, ok := pc.Body.List[0].(*ast.IfStmt); ok {
					first = c02norm(x, is.Init) + ";" + c02norm(x, is.Cond)
				}
			}
		}
		tagStmt := `iferr:=dst.Tag(ctx,root,dstRef);err!=nil{returnnewCopyError("Tag",CopyErrorOriginDestination,err)}`
		emit("prepare_refpusher_branch", first == "refPusher,ok:=dst.(registry.ReferencePusher);ok",
			"copy.go prepareCopy: the hooks are chosen by `refPusher, ok := dst.(registry.ReferencePusher)`")
		emit("prepare_precopy_pushes_root_with_reference",
			has(pcBody, "if!content.Equal(desc,root){returnnil}") &&
				has(pcBody, "iferr:=copyCachedNodeWithReference(ctx,proxy,refPusher,desc,dstRef);err!=nil{returnerr}") &&
				has(pcBody, "returnSkipNode"),
			"copy.go prepareCopy (ReferencePusher): PreCopy pushes the ROOT with the reference (its error is returned), then PostCopy, then SkipNode; other nodes untouched")
		emit("prepare_postcopy_tags_root",
			has(pcBody, "ifcontent.Equal(desc,root){"+tagStmt+"}") && has(pcBody, "ifpostCopy!=nil{returnpostCopy(ctx,desc)}"),
			"copy.go prepareCopy (Tagger): PostCopy tags the root first (a Tag error is returned), then calls the user's PostCopy if set")
		nTag := 0
		if pcBody != nil {
			ast.Inspect(pcBody, func(n ast.Node) bool {
				if st, ok := n.(ast.Stmt); ok && c02norm(x, st) == tagStmt {
					nTag++
				}
				return true
			})
		}
		emit("prepare_skipped_and_mounted_root_tagged",
			nTag == 3 && has(pcBody, "returncopyCachedNodeWithReference(ctx,proxy,refPusher,desc,dstRef)") &&
				has(pcBody, "ifonCopySkipped!=nil{iferr:=onCopySkipped(ctx,desc);err!=nil{returnerr}}") &&
				has(pcBody, "ifonMounted!=nil{iferr:=onMounted(ctx,desc);err!=nil{returnerr}}"),
			"copy.go prepareCopy: a skipped / mounted ROOT is tagged too (Tag, or PushReference for a ReferencePusher), after the user's callback, whose error is returned; exactly three dst.Tag sites")
		// ---- internal/syncutil/limit.go
		lim := x.File("internal/syncutil/limit.go")
		gof := findFunc(lim, "", "Go")
		var goBody ast.Node
		last, prev := "", ""
		if gof != nil && gof.Body != nil {
			goBody = gof.Body
			if n := len(gof.Body.List); n >= 2 {
				last, prev = c02norm(x, gof.Body.List[n-1]), c02norm(x, gof.Body.List[n-2])
			}
		}
		emit("go_returns_cause", last == "returncontext.Cause(ctx)" && prev == "iferr:=eg.Wait();err!=nil{cancel(err)}",
			"limit.go Go: if err := eg.Wait(); err != nil { cancel(err) }; return context.Cause(ctx)")
		emit("go_task_err_cancels", has(goBody, "iferr:=fn(egCtx,lr,t);err!=nil{cancel(err)returnerr}"),
			"limit.go Go: a task's error cancels the group with that cause and is returned to the errgroup")
		emit("go_start_fail_cancels", has(goBody, "iferr:=region.Start();err!=nil{cancel(err)break}"),
			"limit.go Go: a failing region.Start() during dispatch records the cause and stops dispatching")
		emit("go_skip_when_cancelled", has(goBody, "select{case<-egCtx.Done():returnnildefault:}"),
			"limit.go Go: a task whose group context is already cancelled is skipped (returns nil without running fn)")
		st := findFunc(lim, "LimitedRegion", "Start")
		var stBody ast.Node
		if st != nil && st.Body != nil {
			stBody = st.Body
		}
		emit("start_acquire_err_returned", has(stBody, "iferr:=lr.limiter.Acquire(lr.ctx,1);err!=nil{returnerr}"),
			"limit.go LimitedRegion.Start: an error of Acquire (cancelled context) is returned")
		// ---- extendedcopy.go: the outer closure
		ecg := findFunc(x.File("extendedcopy.go"), "", "ExtendedCopyGraph")
		outer := false
		if ecg != nil && ecg.Body != nil {
			ast.Inspect(ecg.Body, func(n ast.Node) bool {
				if l, ok := n.(*ast.FuncLit); ok {
					if c02norm(x, l.Body) == "{region.End()iferr:=copyGraph(ctx,src,dst,root,proxy,limiter,tracker,opts.CopyGraphOptions);err!=nil{returnerr}returnregion.Start()}" &&
						l.Type.Params != nil && len(l.Type.Params.List) == 3 && len(l.Type.Params.List[0].Names) == 1 &&
						l.Type.Params.List[0].Names[0].Name == "ctx" && l.Type.Params.List[1].Names[0].Name == "region" {
						outer = true // (the closure's own ctx -- the group context -- is the one given to copyGraph)
					}
				}
				return true
			})
		}
		emit("ext_outer_closure", outer,
			"extendedcopy.go ExtendedCopyGraph: per root { region.End(); if err := copyGraph(..., proxy, limiter, tracker, ...); err != nil { return err }; return region.Start() }")
	}
}
