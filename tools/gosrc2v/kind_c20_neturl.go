package main

// kind "neturl_table": the escaping table of the toolchain's net/url (GOROOT/src/net/url/
// encoding_table.go, `var table = [256]encoding{ 'a': hexChar | encodeHost | ..., ... }`):
//
//   {"kind": "neturl_table", "coq": "neturl", "args": {"modes": ["encodeHost", "encodeZone", "encodeQueryComponent", "hexChar"]}}
//
// emits, per requested mode,  Definition <coq>_<mode> : list N := [bytes whose table entry has the bit].
//
// Used by C20: Model/NetURL.v's character classes (host_plain, query_plain, is_hex_c) are proved
// equal to these lists, so the hand model of unescape / escape is tied to the toolchain source.

import (
	"go/ast"
	"go/parser"
	"go/token"
	"os"
	"os/exec"
	"path/filepath"
	"strconv"
	"strings"
)

func goRoot() string {
	for _, g := range []string{"go1.26.8", "go"} {
		cmd := exec.Command(g, "env", "GOROOT")
		cmd.Env = append(os.Environ(), "GOTOOLCHAIN=local")
		if out, err := cmd.Output(); err == nil && strings.TrimSpace(string(out)) != "" {
			return strings.TrimSpace(string(out))
		}
	}
	return os.Getenv("GOROOT")
}

func init() {
	kinds["neturl_table"] = func(x *Ctx, it Item) {
		root := goRoot()
		src := filepath.Join(root, "src", "net", "url", "encoding_table.go")
		fset := token.NewFileSet()
		f, err := parser.ParseFile(fset, src, nil, 0)
		if err != nil {
			fail("%s: %v", src, err)
		}
		var tbl *ast.CompositeLit
		for _, d := range f.Decls {
			gd, ok := d.(*ast.GenDecl)
			if !ok {
				continue
			}
			for _, sp := range gd.Specs {
				if vs, ok := sp.(*ast.ValueSpec); ok && len(vs.Names) == 1 && vs.Names[0].Name == "table" && len(vs.Values) == 1 {
					tbl, _ = vs.Values[0].(*ast.CompositeLit)
				}
			}
		}
		if tbl == nil {
			fail("%s: var table = [256]encoding{...} not found", src)
		}
		bits := map[string][]int{}
		var collect func(e ast.Expr, c int)
		collect = func(e ast.Expr, c int) {
			switch v := e.(type) {
			case *ast.Ident:
				bits[v.Name] = append(bits[v.Name], c)
			case *ast.BinaryExpr:
				if v.Op != token.OR {
					fail("%s: table entry %d is not an | of mode names", src, c)
				}
				collect(v.X, c)
				collect(v.Y, c)
			case *ast.ParenExpr:
				collect(v.X, c)
			default:
				fail("%s: table entry %d has an unexpected shape", src, c)
			}
		}
		for _, e := range tbl.Elts {
			kv, ok := e.(*ast.KeyValueExpr)
			if !ok {
				fail("%s: table has a positional element", src)
			}
			lit, ok := kv.Key.(*ast.BasicLit)
			if !ok || lit.Kind != token.CHAR {
				fail("%s: table key is not a character literal", src)
			}
			r, _, _, err := strconv.UnquoteChar(lit.Value[1:len(lit.Value)-1], '\'')
			if err != nil || r > 255 {
				fail("%s: table key %s", src, lit.Value)
			}
			collect(kv.Value, int(r))
		}
		modes, _ := it.Args["modes"].([]any)
		ver, _ := os.ReadFile(filepath.Join(root, "VERSION"))
		x.Printf("(* net/url encoding_table.go of %s (%s) *)\n", strings.SplitN(string(ver), "\n", 2)[0], src)
		for _, m := range modes {
			name, _ := m.(string)
			cs, ok := bits[name]
			if !ok {
				fail("%s: no table entry has mode %s", src, name)
			}
			var parts []string
			for _, c := range cs {
				parts = append(parts, strconv.Itoa(c))
			}
			x.Printf("Definition %s_%s : list N :=\n  [%s].\n\n", it.Coq, name, strings.Join(parts, "; "))
		}
	}
}
