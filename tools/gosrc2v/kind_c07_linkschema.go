package main

// kind "linkschema": the successor schema of content.Successors.
//
//	{"kind": "linkschema", "file": "content/graph.go", "func": "Successors", "name": "successors_schema"}
//
// For every case of the `switch node.MediaType` of the function the ordered list of the
// document members whose descriptors are returned is emitted:
//
//	Definition successors_schema : list (str * list str) :=
//	  [(b "docker.MediaTypeManifest", [b "Config"; b "Layers*"]); ...].
//
// Items: "F" one descriptor (member F), "F*" all descriptors of the slice member F,
// "F?" the pointer member F when it is not nil.  Recognised statement shapes in a case body
// (anything else that mentions `append` or returns a non-nil first result is an error, so
// that a new way of building the result cannot slip through unseen):
//
//	return append([]T{x.F}, x.G...), nil
//	return x.G, nil
//	if x.F != nil { nodes = append(nodes, *x.F) }
//	nodes = append(nodes, x.F)            nodes = append(nodes, x.G...)
//	return append(nodes, x.G...), nil     return nodes, nil
//
// Statements that fetch and decode the document (FetchAll, json.Unmarshal, `var` and error
// checks) carry no successor information and are skipped.

import (
	"go/ast"
	"go/token"
	"strings"
)

func lsMember(e ast.Expr) (string, bool) {
	if st, ok := e.(*ast.StarExpr); ok {
		e = st.X
	}
	sel, ok := e.(*ast.SelectorExpr)
	if !ok {
		return "", false
	}
	if _, ok := sel.X.(*ast.Ident); !ok {
		return "", false
	}
	return sel.Sel.Name, true
}

// lsAppend decodes append(base, args...) into items; base may be `nodes` (accumulator, no
// item) or a composite literal []T{x.F, ...}.
func lsAppend(call *ast.CallExpr, what string) []string {
	var items []string
	if len(call.Args) == 0 {
		fail("%s: append without arguments", what)
	}
	switch b := call.Args[0].(type) {
	case *ast.Ident: // accumulator
	case *ast.CompositeLit:
		for _, el := range b.Elts {
			m, ok := lsMember(el)
			if !ok {
				fail("%s: element of the slice literal is not a document member", what)
			}
			items = append(items, m)
		}
	default:
		fail("%s: unrecognised first argument of append", what)
	}
	for i, a := range call.Args[1:] {
		m, ok := lsMember(a)
		if !ok {
			fail("%s: appended value is not a document member", what)
		}
		if call.Ellipsis != token.NoPos && i == len(call.Args)-2 {
			m += "*"
		}
		items = append(items, m)
	}
	return items
}

func isAppend(e ast.Expr) (*ast.CallExpr, bool) {
	c, ok := e.(*ast.CallExpr)
	if !ok {
		return nil, false
	}
	id, ok := c.Fun.(*ast.Ident)
	return c, ok && id.Name == "append"
}

func init() {
	kinds["linkschema"] = func(x *Ctx, it Item) {
		what := it.File + ":" + it.Func
		fd := findFunc(x.File(it.File), it.Recv, it.Func)
		if fd == nil || fd.Body == nil {
			fail("%s: function not found", what)
		}
		var sw *ast.SwitchStmt
		for _, st := range fd.Body.List {
			if s, ok := st.(*ast.SwitchStmt); ok {
				if sel, ok := s.Tag.(*ast.SelectorExpr); ok && sel.Sel.Name == "MediaType" {
					sw = s
				}
			}
		}
		if sw == nil {
			fail("%s: no top-level switch on .MediaType", what)
		}
		var rows []string
		for _, st := range sw.Body.List {
			cc := st.(*ast.CaseClause)
			if cc.List == nil {
				fail("%s: unexpected default case", what)
			}
			var items []string
			returned := false
			for _, bs := range cc.Body {
				switch s := bs.(type) {
				case *ast.ReturnStmt:
					if len(s.Results) != 2 {
						fail("%s: return with %d results", what, len(s.Results))
					}
					if id, ok := s.Results[0].(*ast.Ident); ok && id.Name == "nil" {
						continue // error return
					}
					returned = true
					if c, ok := isAppend(s.Results[0]); ok {
						items = append(items, lsAppend(c, what)...)
					} else if _, ok := s.Results[0].(*ast.Ident); ok {
						// return nodes, nil
					} else if m, ok := lsMember(s.Results[0]); ok {
						items = append(items, m+"*")
					} else {
						fail("%s: unrecognised result expression", what)
					}
				case *ast.AssignStmt:
					if len(s.Rhs) == 1 {
						if c, ok := isAppend(s.Rhs[0]); ok {
							items = append(items, lsAppend(c, what)...)
						}
					}
				case *ast.IfStmt:
					// `if x.F != nil { nodes = append(nodes, *x.F) }`; error checks contain no append
					hasAppend := false
					ast.Inspect(s.Body, func(n ast.Node) bool {
						if c, ok := n.(*ast.CallExpr); ok {
							if _, ok := isAppend(c); ok {
								hasAppend = true
							}
						}
						return true
					})
					if !hasAppend {
						continue
					}
					be, ok := s.Cond.(*ast.BinaryExpr)
					if !ok || be.Op != token.NEQ || s.Else != nil || len(s.Body.List) != 1 {
						fail("%s: unrecognised conditional append", what)
					}
					cm, ok1 := lsMember(be.X)
					as, ok2 := s.Body.List[0].(*ast.AssignStmt)
					if !ok1 || !ok2 || len(as.Rhs) != 1 {
						fail("%s: unrecognised conditional append", what)
					}
					c, ok := isAppend(as.Rhs[0])
					if !ok {
						fail("%s: unrecognised conditional append", what)
					}
					got := lsAppend(c, what)
					if len(got) != 1 || got[0] != cm {
						fail("%s: conditional append of %v under a test of %s", what, got, cm)
					}
					items = append(items, cm+"?")
				}
			}
			if !returned {
				fail("%s: a case does not return a successor list", what)
			}
			var its []string
			for _, i := range items {
				its = append(its, coqStr(i))
			}
			for _, e := range cc.List {
				t, ok := exprText(e)
				if !ok {
					fail("%s: case expression is not a package constant", what)
				}
				rows = append(rows, "("+coqStr(t)+", ["+strings.Join(its, "; ")+"])")
			}
		}
		x.Printf("(* %s: per media type, the document members returned as successors, in order *)\n", what)
		x.Printf("Definition %s : list (str * list str) :=\n  [%s].\n\n", coqName(it), strings.Join(rows, ";\n   "))
	}
}
