(* C16 model runner: one case per line on stdin, one result per line on stdout.
   S n <hex>*                CleanScopes
   A n <hex>*                cleanActions
   G nh <hex>* ng <hex>*     GetAllScopesForHost(WithScopesForHost(..), WithScopes(..))
   C <hex>                   parseChallenge
   H <hseed> <flavour> <oauth2> ncred {<host> <UPRA flags>}* np {<hexhdr> <scheme> <hexrealm> <hexservice> <hexscope>}* nreq
       { <host> <body> nh <hex>* ng <hex>* nans <ans>* }*      a history of Client.Do calls
   O nevents <ev>*           syncutil.Once trace acceptance *)
let show_list l = "L" ^ String.concat "" (List.map (fun s -> " " ^ hex_of_str s) l)

let toks = ref []
let next () = match !toks with [] -> failwith "eol" | x :: r -> toks := r; x
let next_int () = int_of_string (next ())
let rec next_n n f = if n <= 0 then [] else let x = f () in x :: next_n (n - 1) f
let next_strs () = let n = next_int () in next_n n (fun () -> str_of_hex (next ()))

let show_secret s = match s with
  | SBasicTok h -> Printf.sprintf "B%d" (int_of_n h)
  | SUserPass h -> Printf.sprintf "P%d" (int_of_n h)
  | SRefresh h -> Printf.sprintf "F%d" (int_of_n h)
  | SAccess h -> Printf.sprintf "A%d" (int_of_n h)
  | SIssued (h, id) -> Printf.sprintf "I%d.%d" (int_of_n h) (int_of_n id)
let show_auth a = match a with
  | NoAuth -> "-" | ABasic s -> "b" ^ show_secret s | ABearer s -> "t" ^ show_secret s
let show_send s = match s with
  | SReg (h, a, _) -> Printf.sprintf "R%d:%s" (int_of_n h) (show_auth a)
  | SDist (h, realm, service, scopes, basic) ->
    Printf.sprintf "D%d:%s:%s:%s:%s" (int_of_n h) (hex_of_str realm) (hex_of_str service)
      (hex_of_str (join [n_of_int 32] scopes)) (match basic with None -> "-" | Some s -> show_secret s)
  | SOAuth (h, realm, service, scopes, grant) ->
    Printf.sprintf "O%d:%s:%s:%s:%s" (int_of_n h) (hex_of_str realm) (hex_of_str service)
      (hex_of_str (join [n_of_int 32] scopes)) (show_secret grant)
let show_result r = match r with
  | RResp true -> "=401" | RResp false -> "=ok"
  | RErr ENoCred -> "=nocred" | RErr EMissing -> "=missing" | RErr EFetch -> "=fetch" | RErr ERewind -> "=rewind" | RErr ETransport -> "=transport" | RErr ECred -> "=crederr" | RErr EShared -> "=fetch"
  | RBad -> "=BAD"

let parse_answer t =
  match t.[0] with
  | 'K' -> AOk
  | 'U' -> A401 (str_of_hex (String.sub t 1 (String.length t - 1)))
  | 'T' -> ATok (n_of_int (int_of_string (String.sub t 1 (String.length t - 1))))
  | 'F' -> AFail
  | 'S' -> AShare (n_of_int (int_of_string (String.sub t 1 (String.length t - 1))))
  | 'X' -> AErr
  | 'Z' -> AShareFail
  | _ -> failwith "answer"

let () =
  iter_lines (fun l ->
    match split_ws l with
    | [] -> ()
    | id :: kind :: rest ->
      toks := rest;
      (match kind with
       | "S" -> Printf.printf "%s %s\n" id (show_list (clean_scopes (next_strs ())))
       | "A" -> Printf.printf "%s %s\n" id (show_list (clean_actions (next_strs ())))
       | "G" ->
         let h = next_strs () in
         let g = next_strs () in
         Printf.printf "%s %s\n" id (show_list (get_all_scopes clean_scopes h g))
       | "C" ->
         (match parse_challenge (str_of_hex (next ())) with
          | ChUnjudged -> Printf.printf "%s UNJUDGED\n" id
          | Ch (s, p) ->
            let key k = List.map (fun c -> n_of_int (Char.code c)) (List.init (String.length k) (String.get k)) in
            Printf.printf "%s CH %s %d %s %s %s\n" id
              (match s with SchUnknown -> "unknown" | SchBasic -> "basic" | SchBearer -> "bearer")
              (List.length p) (hex_of_str (get_param (key "realm") p))
              (hex_of_str (get_param (key "service") p)) (hex_of_str (get_param (key "scope") p)))
       | "H" ->
         let _hseed = next () in
         let fl = (match next () with "none" -> FNone | "shared" -> FShared | "single" -> FSingle | _ -> failwith "flavour") in
         let oauth2 = (next () = "1") in
         let ncred = next_int () in
         let creds = next_n ncred (fun () ->
           let h = n_of_int (next_int ()) in
           let f = next () in
           (h, { c_user = f.[0] = '1'; c_pass = f.[1] = '1'; c_refresh = f.[2] = '1'; c_access = f.[3] = '1' })) in
         let key k = List.map (fun c -> n_of_int (Char.code c)) (List.init (String.length k) (String.get k)) in
         let nerr = next_int () in
         let errs = next_n nerr (fun () -> n_of_int (next_int ())) in
         let np = next_int () in
         let ptable = next_n np (fun () ->
           let hdr = str_of_hex (next ()) in
           let sch = (match next () with "basic" -> SchBasic | "bearer" -> SchBearer | _ -> SchUnknown) in
           let realm = str_of_hex (next ()) in
           let service = str_of_hex (next ()) in
           let scope = str_of_hex (next ()) in
           (hdr, (sch, [(key "realm", realm); (key "service", service); (key "scope", scope)]))) in
         let nreq = next_int () in
         let hist = next_n nreq (fun () ->
           let h = n_of_int (next_int ()) in
           let body = (match next () with "none" -> BNone | "rewind" -> BRewindable | "once" -> BOnce | "geterr" -> BGetBodyErr | _ -> failwith "body") in
           let hh = next_strs () in
           let gh = next_strs () in
           let nans = next_int () in
           let script = next_n nans (fun () -> parse_answer (next ())) in
           ({ rq_host = h; rq_hints_host = hh; rq_hints_global = gh; rq_body = body }, script)) in
         let out = run_model fl oauth2 creds errs ptable hist in
         let bad = List.exists (fun (_, r) -> r = RBad) out
                   || List.exists (fun (_, script) -> List.exists (unjudged_header ptable) script) hist in
         if bad then Printf.printf "%s UNJUDGED\n" id
         else
           Printf.printf "%s %s\n" id
             (String.concat " | " (List.map (fun (evs, r) ->
                String.concat " " (List.map (fun (s, _) -> show_send s) evs @ [show_result r])) out))
       | "O" ->
         let n = next_int () in
         let evs = next_n n (fun () ->
           let t = next () in
           let body = String.sub t 1 (String.length t - 1) in
           let g, v = (match String.split_on_char '.' body with
             | [g] -> (n_of_int (int_of_string g), n_of_int 0)
             | [g; v] -> (n_of_int (int_of_string g), n_of_int (int_of_string v))
             | _ -> failwith "once event") in
           match t.[0] with
           | 'a' -> OAcquire g | 'd' -> ODone (g, v) | 'c' -> OCancelF g | 'r' -> OReadClosed (g, v)
           | 'x' -> OCtxDone g | _ -> failwith "once event") in
         Printf.printf "%s %s\n" id (if once_accepts evs then "ACCEPT" else "REJECT")
       | "J" ->
         (* J <flavour> <oauth2> ncred {<host> <UPRA>}* np {ptable}* <host> <body> nh <hex>* ng <hex>*
              <osch> <otok1> n2 {<hexkey> <tok>}* nans <ans>*
            one Client.Do call of a concurrent mix, with what the cache told it (Model/AuthConc.v) *)
         let fl = (match next () with "none" -> FNone | "shared" -> FShared | "single" -> FSingle | _ -> failwith "flavour") in
         let oauth2 = (next () = "1") in
         let ncred = next_int () in
         let creds = next_n ncred (fun () ->
           let h = n_of_int (next_int ()) in
           let f = next () in
           (h, { c_user = f.[0] = '1'; c_pass = f.[1] = '1'; c_refresh = f.[2] = '1'; c_access = f.[3] = '1' })) in
         let key k = List.map (fun c -> n_of_int (Char.code c)) (List.init (String.length k) (String.get k)) in
         let nerr = next_int () in
         let errs = next_n nerr (fun () -> n_of_int (next_int ())) in
         let np = next_int () in
         let ptable = next_n np (fun () ->
           let hdr = str_of_hex (next ()) in
           let sch = (match next () with "basic" -> SchBasic | "bearer" -> SchBearer | _ -> SchUnknown) in
           let realm = str_of_hex (next ()) in
           let service = str_of_hex (next ()) in
           let scope = str_of_hex (next ()) in
           (hdr, (sch, [(key "realm", realm); (key "service", service); (key "scope", scope)]))) in
         let h = n_of_int (next_int ()) in
         let body = (match next () with "none" -> BNone | "rewind" -> BRewindable | "once" -> BOnce | _ -> failwith "body") in
         let hh = next_strs () in
         let gh = next_strs () in
         let secret_of t =
           let rest = String.sub t 1 (String.length t - 1) in
           (match t.[0] with
            | 'B' -> SBasicTok (n_of_int (int_of_string rest))
            | 'A' -> SAccess (n_of_int (int_of_string rest))
            | 'I' -> (match String.split_on_char '.' rest with
                      | [a; b] -> SIssued (n_of_int (int_of_string a), n_of_int (int_of_string b))
                      | _ -> failwith "secret")
            | _ -> failwith "secret") in
         let opt_secret t = if t = "-" then None else Some (secret_of t) in
         let osch = (match next () with "basic" -> Some SchBasic | "bearer" -> Some SchBearer | "unknown" -> Some SchUnknown | _ -> None) in
         let otok1 = opt_secret (next ()) in
         let n2 = next_int () in
         let tbl2 = next_n n2 (fun () -> let k = str_of_hex (next ()) in let t = opt_secret (next ()) in (k, t)) in
         let otok2 k = (try List.assoc k tbl2 with Not_found -> None) in
         let nans = next_int () in
         let script = next_n nans (fun () -> parse_answer (next ())) in
         let rq = { rq_host = h; rq_hints_host = hh; rq_hints_global = gh; rq_body = body } in
         let cf = { cf_flavour = fl; cf_oauth2 = oauth2; cf_creds = lookup_cred creds; cf_cred_err = (fun x -> List.mem x errs) } in
         if List.exists (unjudged_header ptable) script then Printf.printf "%s UNJUDGED\n" id else
         let ((evs, op), r) = do_request_rd clean_scopes (parse_with ptable) cf rq osch otok1 otok2 script in
         if r = RBad then Printf.printf "%s UNJUDGED\n" id else
         let ops = (match op, fl with
           | _, FNone | None, _ -> ""
           | Some ((s, k), v), _ ->
             Printf.sprintf " +%s:%s:%s" (match s with SchBasic -> "basic" | SchBearer -> "bearer" | SchUnknown -> "unknown")
               (hex_of_str k) (show_secret v)) in
         Printf.printf "%s %s%s\n" id
           (String.concat " " (List.map (fun (s, _) -> show_send s) evs @ [show_result r])) ops
       | "RD" ->
         (* RD <hexfrom> <hexto> <status> : a redirect follow-up made by net/http *)
         let a = str_of_hex (next ()) in
         let c = str_of_hex (next ()) in
         let st = n_of_int (next_int ()) in
         let flags = !toks in
         let noauth = List.mem "noauth" flags and nobody = List.mem "nobody" flags in
         Printf.printf "%s %s %s\n" id
           (if noauth then "AUTH-STRIPPED" else if keeps_authorization a c then "AUTH-KEPT" else "AUTH-STRIPPED")
           (if nobody then "BODY-DROPPED" else if keeps_body st then "BODY-KEPT" else "BODY-DROPPED")
       | "OS" ->
         (* OS nev ev* : the visible events of an Once execution (a<g> f starts, c<g> f ends cancelled,
            d<g>.<v> f ends with a result, r<g>.<v> result received, x<g> gave up), replayed on the slot
            machine generated from once.go; prints the slot at the end *)
         let n = next_int () in
         let raw = next_n n (fun () -> next ()) in
         let gnum t = let body = String.sub t 1 (String.length t - 1) in
           n_of_int (int_of_string (List.hd (String.split_on_char '.' body))) in
         let len_taken i = List.length (List.nth paths_taken i) in
         let rec int_of_nat' x = int_of_nat x in
         let idx a l = (match path_with a l with Some i -> i | None -> failwith "no such path") in
         let entered = Hashtbl.create 8 in
         let steps = Hashtbl.create 8 in   (* remaining SAct steps of a caller inside f *)
         let evs = List.concat_map (fun t ->
           let g = gnum t in
           match t.[0] with
           | 'a' ->
             (* the path is decided by how this caller's f ends *)
             let cancel = List.exists (fun u -> u.[0] = 'c' && gnum u = g) raw in
             let i = idx (if cancel then AHandBack else AClose) paths_taken in
             Hashtbl.replace entered g true;
             Hashtbl.replace steps g (len_taken (int_of_nat' i) - 1);
             let panics = List.exists (fun u -> u.[0] = 'p' && gnum u = g) raw in
             if panics then [SEnter g; STake (g, i)]          (* the call of f does not return *)
             else [SEnter g; STake (g, i); SAct g]            (* ... up to the call of f *)
           | 'c' | 'd' ->
             let k = (try Hashtbl.find steps g with Not_found -> 0) in
             List.init k (fun _ -> SAct g)
           | 'p' ->
             (* f panicked: the deferred recover path (the first one) runs to its end *)
             SPanicF (g, O) :: List.init (List.length (List.hd paths_panic)) (fun _ -> SAct g)
           | 'r' -> [SEnter g; SReadClosed (g, idx ARet paths_closed); SAct g]
           | 'x' -> [SEnter g; SCtxDone g]
           | _ -> failwith "once event") raw in
         Printf.printf "%s %s\n" id
           (match once_slot_final evs with
            | None -> "REJECT"
            | Some SFree -> "ACCEPT free" | Some SClosed -> "ACCEPT closed" | Some (STaken _) -> "ACCEPT taken")
       | "KS" ->
         (* KS ncalls {g host scheme hexkey}* nev ev* : a recorded concurrent Set execution *)
         let ncalls = next_int () in
         let tbl = next_n ncalls (fun () ->
           let g = n_of_int (next_int ()) in
           let h = n_of_int (next_int ()) in
           let sch = (match next () with "basic" -> SchBasic | "bearer" -> SchBearer | _ -> SchUnknown) in
           let k = str_of_hex (next ()) in
           (g, { ck = ((h, sch), k); csrc = None })) in
         let nev = next_int () in
         let evs = next_n nev (fun () ->
           let t = next () in
           let body = String.sub t 1 (String.length t - 1) in
           let a, bopt = (match String.split_on_char '.' body with
             | [a] -> (int_of_string a, None)
             | [a; b] -> (int_of_string a, Some (int_of_string b))
             | _ -> failwith "set event") in
           let g = n_of_int a in
           let v = (match bopt with Some b -> n_of_int b | None -> n_of_int 0) in
           match t.[0] with
           | 'L' -> (CLoad g, (match bopt with Some b -> Some (nat_of_int b) | None -> None))
           | 'D' -> (CDelete g, None)
           | 'a' -> (COnce (g, OAcquire g), None)
           | 'd' -> (COnce (g, ODone (g, v)), None)
           | 'c' -> (COnce (g, OCancelF g), None)
           | 'r' -> (COnce (g, OReadClosed (g, v)), None)
           | 'x' -> (COnce (g, OCtxDone g), None)
           | _ -> failwith "set event") in
         Printf.printf "%s %s\n" id (if set_accepts tbl evs then "ACCEPT" else "REJECT")
       | _ -> Printf.printf "%s BADLINE\n" id)
    | _ -> Printf.printf "BADLINE %s\n" l)
