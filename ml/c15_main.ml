(* C15 model runner: one case per line on stdin, one observable per line on stdout.
   Token formats (hex strings, "-" = empty string):
     items  : "_" | <name>:<atype>{,<name>:<atype>}
     query  : "_" | <key>=S<hex> | <key>=N<dec> joined by '&'
   Cases:
     C <T|K|R> <n> <limit> <at> <last> <cbfail> <path> <query> <nresp> {13 tokens per response}
         response = status nameunknown ctype json doclen totlen items links fhdr fann ttext tpath tquery
         (links: "_" or the Link header lines joined by ',')
     W <U|S|N> <cbunsupp> <tsfound> <tssize> <tsitems> <the fields of a C line>   Repository.Referrers
         (ttext "!" = the response has no resolvable link target; tpath "!" = net/url rejects it)
     S <T|K|R> <L items> <cap> <path> <query> <m> <extra query> <filter> <fhdr> <fann> <cursor key|-> <cursor salt> <hidden names>
     L <cmp> <header>          parseLink extraction
     F <applied> <requested>   isReferrersFilterApplied
     FR <items> <at>           filterReferrers
     B <limit> <json> <doclen> <totlen>   limitReader + decoder
     Z <limit> <size>          limitSize
     O <entries> <last>        content/oci listTags
     X <limit> <found> <size> <items> <at> <cbfail>   referrers tag schema
     P <U|S|N> <status> <nameunknown> <ctype>   pingReferrers: answer (1|0|E), state, requests
     CA <the fields of a C line>    registry.Tags / registry.Repositories / registry.Referrers / Predecessors
     CS <scheme> <host> <the fields of a C line>   the whole page loop on strings (raw requests)
     U <T|K|R> <n> <scheme> <host> <base path> <base raw query> <Link header>   the next request on strings
     U0 <T|K|R> <n> <at> <last>     raw query of the first request
     QS <raw> {<key> <value>}       setQueryParams
     QE <s>                         url.QueryEscape, url.QueryUnescape
     QL <raw>                       the registry's lenient reading of a raw query
     RR <scheme> <host> <base path> <base raw query> <ref>   net/url: base.Parse(ref)
     RB <limit> <docend> <total>    body bytes the client consumes (limitReader + json.Decoder buffering)
     XB <limit> <size>              bytes consumed of the referrers index of the tag schema
     J <bytes>                      json.Decoder: end offset of the first (bracketed) value, or incomplete *)
let z_of_int (i : int) : z =
  if i = 0 then Z0 else if i > 0 then Zpos (pos_of_int i) else Zneg (pos_of_int (- i))

let split_on_char_ne c s = if s = "_" then [] else String.split_on_char c s

let item_of_tok t =
  match String.split_on_char ':' t with
  | [a; b] -> (str_of_hex a, str_of_hex b)
  | _ -> failwith ("bad item " ^ t)
let items_of_tok t = List.map item_of_tok (split_on_char_ne ',' t)
let tok_of_items l =
  match l with
  | [] -> "_"
  | _ -> String.concat "," (List.map (fun (a, b) -> hex_of_str a ^ ":" ^ hex_of_str b) l)

let kv_of_tok t =
  match String.index_opt t '=' with
  | None -> failwith ("bad kv " ^ t)
  | Some i ->
    let k = String.sub t 0 i and v = String.sub t (i + 1) (String.length t - i - 1) in
    let body = String.sub v 1 (String.length v - 1) in
    (str_of_hex k, if v.[0] = 'N' then VN (n_of_int (int_of_string body)) else VS (str_of_hex body))
let query_of_tok t = List.map kv_of_tok (split_on_char_ne '&' t)
let str_of_ascii s = List.map (fun c -> n_of_int (Char.code c)) (List.of_seq (String.to_seq s))
let tok_of_query q =
  (* url.Values.Encode order: keys sorted (hex order = byte order), values of one key in order *)
  let q = List.stable_sort (fun (k1, _) (k2, _) -> compare (hex_of_str k1) (hex_of_str k2)) q in
  match q with
  | [] -> "_"
  | _ -> String.concat "&" (List.map (fun (k, v) ->
      hex_of_str k ^ "=" ^ (match v with
        | VS s -> hex_of_str s
        | VN n -> hex_of_str (str_of_ascii (string_of_int (int_of_n n))))) q)
let tok_of_url u = hex_of_str u.u_path ^ "?" ^ tok_of_query u.u_query

let kind_of_tok = function "T" -> KTags | "K" -> KCatalog | "R" -> KReferrers | _ -> failwith "kind"
let out_name = function
  | Done -> "Done" | ErrStatus -> "ErrStatus" | ErrUnsupported -> "ErrUnsupported" | ErrCType -> "ErrCType" | ErrDecode -> "ErrDecode"
  | ErrCallback -> "ErrCallback" | ErrLink -> "ErrLink" | ErrResolve -> "ErrResolve" | ErrSize -> "ErrSize"
  | OutOfFuel -> "OutOfFuel"

let rec take n l = if n = 0 then ([], l) else match l with x :: r -> let (a, b) = take (n - 1) r in (x :: a, b) | [] -> failwith "short"

let bool_tok t = (t = "1")

let tok_of_pages ps = match ps with [] -> "_" | _ -> String.concat ";" (List.map tok_of_items ps)
let strs_of_tok t = List.map str_of_hex (split_on_char_ne ',' t)

(* the client loop of a C/W line: kd n limit at last cbfail path query nresp {13 tokens per response} *)
let run_client toks =
  match toks with
  | kd :: n :: limit :: at :: last :: cbf :: path :: q :: nresp :: rest ->
      let cfg = { c_kind = kind_of_tok kd; c_n = z_of_int (int_of_string n);
                  c_limit = z_of_int (int_of_string limit); c_at = str_of_hex at } in
      let nr = int_of_string nresp in
      let rec parse k toks =
        if k = 0 then [] else
        let (r, toks') = take 13 toks in
        match r with
        | [st; nu; ct; js; dl; tl; its; links; fh; fa; tt; tp; tq] ->
          let resp = { rs_status = n_of_int (int_of_string st); rs_name_unknown = bool_tok nu; rs_ctype = str_of_hex ct;
                       rs_json_ok = bool_tok js;
                       rs_doc_len = n_of_int (int_of_string dl); rs_total_len = n_of_int (int_of_string tl);
                       rs_items = items_of_tok its; rs_links = strs_of_tok links; rs_fhdr = str_of_hex fh;
                       rs_fann = str_of_hex fa } in
          let tgt = if tt = "!" then None
            else Some (str_of_hex tt, if tp = "!" then None else Some { u_path = str_of_hex tp; u_query = query_of_tok tq }) in
          (resp, tgt) :: parse (k - 1) toks'
        | _ -> failwith "resp" in
      let script = Array.of_list (parse nr rest) in
      let dead = { rs_status = n_of_int 599; rs_name_unknown = false; rs_ctype = []; rs_json_ok = false; rs_doc_len = N0;
                   rs_total_len = N0; rs_items = []; rs_links = []; rs_fhdr = []; rs_fann = [] } in
      let serve i _ = let i = int_of_nat i in if i < Array.length script then fst script.(i) else dead in
      let resolve _ t =
        let r = ref None in
        Array.iter (fun (_, tg) -> match tg, !r with
          | Some (tt, u), None when tt = t -> r := Some u
          | _ -> ()) script;
        (match !r with Some u -> u | None -> None) in
      let cbfail = int_of_string cbf in
      let cb k = (int_of_nat k = cbfail) in
      (cfg, loop serve resolve cb cfg (nat_of_int (nr + 2)) O O
          { u_path = str_of_hex path; u_query = query_of_tok q } (str_of_hex last))
  | _ -> failwith "client line"

(* the loop on strings for a CS line: sch host <the fields of a C line> *)
let run_client_s toks =
  match toks with
  | sch :: host :: kd :: n :: limit :: at :: last :: cbf :: path :: _ :: nresp :: rest ->
      let cfg = { c_kind = kind_of_tok kd; c_n = z_of_int (int_of_string n);
                  c_limit = z_of_int (int_of_string limit); c_at = str_of_hex at } in
      let nr = int_of_string nresp in
      let rec parse k toks =
        if k = 0 then [] else
        let (r, toks') = take 13 toks in
        match r with
        | [st; nu; ct; js; dl; tl; its; links; fh; fa; _; _; _] ->
          { rs_status = n_of_int (int_of_string st); rs_name_unknown = bool_tok nu; rs_ctype = str_of_hex ct;
            rs_json_ok = bool_tok js;
            rs_doc_len = n_of_int (int_of_string dl); rs_total_len = n_of_int (int_of_string tl);
            rs_items = items_of_tok its; rs_links = strs_of_tok links; rs_fhdr = str_of_hex fh;
            rs_fann = str_of_hex fa } :: parse (k - 1) toks'
        | _ -> failwith "resp" in
      let script = Array.of_list (parse nr rest) in
      let dead = { rs_status = n_of_int 599; rs_name_unknown = false; rs_ctype = []; rs_json_ok = false; rs_doc_len = N0;
                   rs_total_len = N0; rs_items = []; rs_links = []; rs_fhdr = []; rs_fann = [] } in
      let serve i _ = let i = int_of_nat i in if i < Array.length script then script.(i) else dead in
      let cbfail = int_of_string cbf in
      let q0 = (match cfg.c_kind with KReferrers -> referrers_q0 cfg.c_at | _ -> []) in
      loop_s (str_of_hex sch) (str_of_hex host) serve (fun k -> int_of_nat k = cbfail) cfg (nat_of_int (nr + 2)) O O
        (str_of_hex path) q0 (str_of_hex last)
  | _ -> failwith "client line"

let () =
  iter_lines (fun l ->
    match split_ws l with
    | id :: "C" :: rest ->
      let (cfg, tr) = run_client rest in
      Printf.printf "%s R %s P %d %s O %s\n" id
        (String.concat "|" (List.map tok_of_url tr.t_reqs))
        (List.length tr.t_pages) (tok_of_pages tr.t_pages) (out_name tr.t_out)
    | id :: "CA" :: rest ->
      let (cfg, tr) = run_client rest in
      let (o, items) = collect_all tr in
      Printf.printf "%s I %s O %s\n" id (tok_of_items items) (out_name o)
    | id :: "CS" :: rest ->
      (match run_client_s rest with
       | None -> Printf.printf "%s UNJUDGED\n" id
       | Some tr ->
         Printf.printf "%s R %s P %d %s O %s\n" id
           (match tr.st_reqs with [] -> "_" | rs -> String.concat "|" (List.map (fun r -> hex_of_str r.sr_path ^ "?" ^ hex_of_str r.sr_query) rs))
           (List.length tr.st_pages) (tok_of_pages tr.st_pages) (out_name tr.st_out))
    | id :: "W" :: st :: cbu :: found :: size :: tsitems :: rest ->
      let (cfg, tr) = run_client rest in
      let cbfail = (match rest with _ :: _ :: _ :: _ :: _ :: cbf :: _ -> int_of_string cbf | _ -> -1) in
      let ts k = tag_schema cfg.c_limit (bool_tok found) (z_of_int (int_of_string size)) (items_of_tok tsitems) cfg.c_at
          (fun j -> int_of_nat k + int_of_nat j = cbfail) in
      let state = (match st with "U" -> RUnknown | "S" -> RSupported | _ -> RUnsupported) in
      let w = referrers_wrap state (bool_tok cbu) tr ts in
      Printf.printf "%s R %s P %d %s O %s F %d S %s\n" id
        (match w.w_reqs with [] -> "_" | rs -> String.concat "|" (List.map tok_of_url rs))
        (List.length w.w_pages) (tok_of_pages w.w_pages) (out_name w.w_out)
        (if w.w_fell_back then 1 else 0)
        (match w.w_state with RUnknown -> "U" | RSupported -> "S" | RUnsupported -> "N")
    | [id; "S"; kd; its; cap; path; q; m; extra; flt; fh; fa; ck; salt; hidden] ->
      let d = { d_m = nat_of_int (int_of_string m); d_extra = query_of_tok extra; d_filter = bool_tok flt;
                d_fhdr = str_of_hex fh; d_fann = str_of_hex fa; d_doc_len = N0; d_pad = N0 } in
      let cu = if ck = "-" then CLast else CToken (str_of_hex ck, str_of_hex salt) in
      let hid = strs_of_tok hidden in
      let vis it = not (List.mem (fst it) hid) in
      let ((items, more), lq) = reg_page (kind_of_tok kd) cu vis (items_of_tok its) (nat_of_int (int_of_string cap))
          { u_path = str_of_hex path; u_query = query_of_tok q } d in
      Printf.printf "%s %s %d %s\n" id (tok_of_items items) (if more then 1 else 0)
        (if more then tok_of_query lq else "_")
    | [id; "L"; cmp; h] ->
      (match parse_link (str_of_hex h) with
       | LNone -> Printf.printf "%s NONE\n" id
       | LErrLt -> Printf.printf "%s ERRLT\n" id
       | LErrGt -> Printf.printf "%s ERRGT\n" id
       | LTarget t -> if cmp = "1" then Printf.printf "%s T %s\n" id (hex_of_str t) else Printf.printf "%s T\n" id)
    | [id; "F"; a; r] ->
      Printf.printf "%s %d\n" id (if is_filter_applied (str_of_hex a) (str_of_hex r) then 1 else 0)
    | [id; "FR"; its; at] ->
      Printf.printf "%s %s\n" id (tok_of_items (filter_referrers (items_of_tok its) (str_of_hex at)))
    | [id; "B"; limit; js; dl; tl] ->
      let cfg = { c_kind = KTags; c_n = Z0; c_limit = z_of_int (int_of_string limit); c_at = [] } in
      let rs = { rs_status = n_of_int 200; rs_name_unknown = false; rs_ctype = mediaTypeImageIndex; rs_json_ok = bool_tok js;
                 rs_doc_len = n_of_int (int_of_string dl); rs_total_len = n_of_int (int_of_string tl);
                 rs_items = []; rs_links = []; rs_fhdr = []; rs_fann = [] } in
      Printf.printf "%s %s\n" id (if body_fits cfg rs then "OK" else "ERR")
    | [id; "Z"; limit; size] ->
      Printf.printf "%s %d\n" id (if limit_size_rejects (z_of_int (int_of_string limit)) (z_of_int (int_of_string size)) then 1 else 0)
    | [id; "O"; ents; last] ->
      let es = List.map item_of_tok (split_on_char_ne ',' ents) in
      let r = list_tags es (str_of_hex last) in
      Printf.printf "%s %s\n" id (match r with [] -> "_" | _ -> String.concat "," (List.map hex_of_str r))
    | [id; "X"; limit; found; size; its; at; cbf] ->
      let cbfail = int_of_string cbf in
      let (pages, out) = tag_schema (z_of_int (int_of_string limit)) (bool_tok found) (z_of_int (int_of_string size))
          (items_of_tok its) (str_of_hex at) (fun k -> int_of_nat k = cbfail) in
      Printf.printf "%s P %d %s O %s\n" id (List.length pages)
        (match pages with [] -> "_" | ps -> String.concat ";" (List.map tok_of_items ps)) (out_name out)
    | [id; "P"; st; status; nu; ct] ->
      let state = (match st with "U" -> RUnknown | "S" -> RSupported | _ -> RUnsupported) in
      let rs = { rs_status = n_of_int (int_of_string status); rs_name_unknown = bool_tok nu; rs_ctype = str_of_hex ct;
                 rs_json_ok = true; rs_doc_len = N0; rs_total_len = N0; rs_items = []; rs_links = []; rs_fhdr = []; rs_fann = [] } in
      let (st', r) = ping state rs in
      Printf.printf "%s %s %s %d\n" id (match r with Some true -> "1" | Some false -> "0" | None -> "E")
        (match st' with RUnknown -> "U" | RSupported -> "S" | RUnsupported -> "N")
        (match state with RUnknown -> 1 | _ -> 0)
    | [id; "U"; kd; n; sch; host; bpath; bq; hdr] ->
      let cfg = { c_kind = kind_of_tok kd; c_n = z_of_int (int_of_string n); c_limit = Z0; c_at = [] } in
      let base = { s_scheme = str_of_hex sch; s_host = str_of_hex host; s_path = str_of_hex bpath; s_query = str_of_hex bq } in
      (match next_request cfg base (str_of_hex hdr) with
       | NNone -> Printf.printf "%s NONE\n" id
       | NErrLink -> Printf.printf "%s ERRLINK\n" id
       | NErrResolve -> Printf.printf "%s ERRRESOLVE\n" id
       | NUnjudged -> Printf.printf "%s UNJUDGED\n" id
       | NNext (p, q) -> Printf.printf "%s NEXT %s %s\n" id (hex_of_str p) (hex_of_str q))
    | [id; "U0"; kd; n; at; last] ->
      let cfg = { c_kind = kind_of_tok kd; c_n = z_of_int (int_of_string n); c_limit = Z0; c_at = str_of_hex at } in
      let q0 = (match cfg.c_kind with KReferrers -> referrers_q0 (str_of_hex at) | _ -> []) in
      Printf.printf "%s %s\n" id (hex_of_str (first_query cfg q0 (str_of_hex last)))
    | id :: "QS" :: raw :: kvs ->
      let rec pairs = function k :: v :: r -> (str_of_hex k, str_of_hex v) :: pairs r | _ -> [] in
      Printf.printf "%s %s\n" id (hex_of_str (set_query_params (str_of_hex raw) (pairs kvs)))
    | [id; "QE"; s] ->
      Printf.printf "%s %s %s\n" id (hex_of_str (query_escape (str_of_hex s)))
        (match query_unescape (str_of_hex s) with Some t -> hex_of_str t | None -> "!")
    | [id; "QL"; raw] ->
      let kvs = List.stable_sort (fun (k1, _) (k2, _) -> compare (hex_of_str k1) (hex_of_str k2)) (parse_query_lenient (str_of_hex raw)) in
      Printf.printf "%s %s\n" id (match kvs with [] -> "_" | _ -> String.concat "&" (List.map (fun (k, v) -> hex_of_str k ^ "=" ^ hex_of_str v) kvs))
    | [id; "RB"; limit; docend; total] ->
      Printf.printf "%s %d\n" id (int_of_n (consumed_of (z_of_int (int_of_string limit)) (n_of_int (int_of_string docend)) (n_of_int (int_of_string total))))
    | [id; "XB"; limit; size] ->
      Printf.printf "%s %d\n" id (int_of_n (consumed_index (z_of_int (int_of_string limit)) (n_of_int (int_of_string size))))
    | [id; "J"; doc] ->
      (match scan (str_of_hex doc) with
       | Some m -> Printf.printf "%s OK %d\n" id (int_of_nat m)
       | None -> Printf.printf "%s INC\n" id)
    | [id; "RR"; sch; host; bpath; bq; r] ->
      let base = { s_scheme = str_of_hex sch; s_host = str_of_hex host; s_path = str_of_hex bpath; s_query = str_of_hex bq } in
      (match resolve_ref base (str_of_hex r) with
       | RErr -> Printf.printf "%s ERR\n" id
       | RUnjudged -> Printf.printf "%s UNJUDGED\n" id
       | ROk u -> Printf.printf "%s OK %s %s %s %s\n" id (hex_of_str u.s_scheme) (hex_of_str u.s_host) (hex_of_str u.s_path) (hex_of_str u.s_query))
    | [] -> ()
    | _ -> Printf.printf "BADLINE %s\n" l)
