(* C01/C04 model runner: one recorded copy per line on stdin.
   <id> <N> <K> <mode g|t|r> <root> <cached0 ids|-> <nodes> <d0> <trace> [rp=...]
     K     : CopyGraphOptions.Concurrency as passed (<= 0: the default regenerated from copy.go)
     root  : root after resolveRoot/MapRoot; -1 = the prologue fails (trace must be just RT.0);
             r1+r2+...: the roots of an ExtendedCopyGraph call (mode g)
     nodes : ';'-separated, per node  <flags>/<dkey>/<succ>   flags: f foreign, m manifest, - none;
             succ: ','-separated node ids or '-'
     d0    : ','-separated node ids initially in the destination, or '-'
     trace : ','-separated event tokens or '-':
             XB.n  XE.n.b  SB.n SE.n SC.n  PB.n.ref PE.n.ref.(k|x)  CB.kind.n  CF.kind.n  TB.n TE.n
             MB.n  ME.n.(m|s|c)  RT.b  CX (the caller's context ended: Model/CopyCancel.v)
     mode  : g|t|r, followed by m when the destination is a Mounter and MountFrom is set, optionally
             followed by /<5 bits>: which of PreCopy PostCopy OnCopySkipped OnMounted MountFrom are set
             (default all); the invocations of nil callbacks are inserted by Model/CopyOpt.step_opt
             kind: pre post skip mounted mountfrom
   output: <id> ACC ret=<1|0|-> tag=<n|-> dst=<ids> cr=<ids|-> ms=<max src reads in flight> md=<max dst ops in flight>  (both '-' unless ret=1)
        or <id> REJ <index> <token>  (first event the transition system refuses) *)
(* pl=<arch>.<os>.<osver>.<variant>.<feat+feat|->@<node>.<arch|->.<os>,...  : WithTargetPlatform on an index *)
let platform_field fields =
  List.fold_left (fun acc f ->
    if String.length f > 3 && String.sub f 0 3 = "pl=" then Some (String.sub f 3 (String.length f - 3)) else acc) None fields
let select_of spec =
  match String.split_on_char '@' spec with
  | [w; es] ->
    let ni s = nat_of_int (int_of_string s) in
    let want = (match String.split_on_char '.' w with
      | [a; o; v; va; fs] ->
        { p_arch = ni a; p_os = ni o; p_osver = ni v; p_variant = ni va;
          p_feats = (if fs = "-" then [] else List.map ni (String.split_on_char '+' fs)) }
      | _ -> failwith "want") in
    let entries = if es = "" then [] else List.map (fun e ->
      match String.split_on_char '.' e with
      | [n; "-"; _] -> (ni n, None)
      | [n; a; o] -> (ni n, Some { p_arch = ni a; p_os = ni o; p_osver = O; p_variant = O; p_feats = [] })
      | _ -> failwith "entry") (String.split_on_char ',' es) in
    (match select_manifest entries want with Some n -> string_of_int (int_of_nat n) | None -> "-")
  | _ -> failwith "pl"
let z_of_int i = if i = 0 then Z0 else if i > 0 then Zpos (pos_of_int i) else Zneg (pos_of_int (-i))
let ints s = if s = "-" || s = "" then [] else List.map int_of_string (String.split_on_char ',' s)
let show_ints l = if l = [] then "-" else String.concat "," (List.map string_of_int l)
let sort_uniq_ints l = List.sort_uniq compare l

let kind_of = function
  | "pre" -> CPre | "post" -> CPost | "skip" -> CSkip | "mounted" -> CMounted | "mountfrom" -> CMountFrom
  | s -> failwith ("kind " ^ s)

let event_of tok =
  (* an event on a descriptor that is not a node of the graph (the harness writes -1) is not an event of
     the model: reject the line instead of aliasing it to node 0 *)
  let nn s = let i = int_of_string s in if i < 0 then failwith ("unknown descriptor in " ^ tok) else nat_of_int i in
  let bb s = (s = "1") in
  match String.split_on_char '.' tok with
  | ["XB"; n] -> ExB (nn n)
  | ["XE"; n; b] -> ExE (nn n, bb b)
  | ["SB"; n] -> SFB (nn n)
  | ["SE"; n] -> SFE (nn n)
  | ["SC"; n] -> SFC (nn n)
  | ["PB"; n; r] -> PuB (nn n, bb r)
  | ["PE"; n; r; "k"] -> PuE (nn n, bb r, POk)
  | ["PE"; n; r; "x"] -> PuE (nn n, bb r, PExists)
  | ["CB"; k; n] -> Cb (kind_of k, nn n)
  | ["CF"; k; n] -> CbFail (kind_of k, nn n)
  | ["MB"; n] -> MtB (nn n)
  | ["ME"; n; "m"] -> MtE (nn n, MMounted)
  | ["ME"; n; "s"] -> MtE (nn n, MSkipped)
  | ["ME"; n; "c"] -> MtE (nn n, MCopied)
  | ["TB"; n] -> TagB (nn n)
  | ["TE"; n] -> TagE (nn n)
  | ["RT"; b] -> Ret (bb b)
  | _ -> failwith ("event " ^ tok)

let () =
  iter_lines (fun l ->
    match split_ws l with
    | id :: _ :: _ :: "u" :: _ -> Printf.printf "%s UNJUDGED\n" id  (* outside the model's symmetric key: oracle only *)
    | id :: sn :: sk :: smode :: sroot :: sc0 :: snodes :: sd0 :: strace :: rest ->
      (try
        let sel = match platform_field rest with Some spec -> " sel=" ^ select_of spec | None -> "" in
        if sroot.[0] = '-' then begin
          (match prologue None None with
           | None -> if strace = "RT.0" then Printf.printf "%s PROLOGUE-ERR%s\n" id sel
                     else Printf.printf "%s REJ 0 %s\n" id strace
           | Some _ -> failwith "prologue")
        end else
        let n = int_of_string sn in
        let specs = Array.of_list (String.split_on_char ';' snodes) in
        if Array.length specs <> n then failwith "node count";
        let foreign = Array.make n false and ismf = Array.make n false
        and dkey = Array.make n 0 and succ = Array.make n [] in
        Array.iteri (fun i s ->
          match String.split_on_char '/' s with
          | [fl; dk; su] ->
            foreign.(i) <- String.contains fl 'f';
            ismf.(i) <- String.contains fl 'm';
            dkey.(i) <- int_of_string dk;
            succ.(i) <- List.map nat_of_int (ints su)
          | _ -> failwith "node spec") specs;
        let get a d x = let i = int_of_nat x in if i < n then a.(i) else d in
        let g = { g_n = nat_of_int n;
                  g_succ = (fun x -> get succ [] x);
                  g_foreign = (fun x -> get foreign false x);
                  g_ismf = (fun x -> get ismf false x);
                  g_dkey = (fun x -> let i = int_of_nat x in nat_of_int (if i < n then dkey.(i) else 1000000 + i)) } in
        let smode, cbits = match String.split_on_char '/' smode with
          | [m; b] when String.length b = 5 -> m, b
          | [m] -> m, "11111"
          | _ -> failwith "mode" in
        let cs = function
          | CPre -> cbits.[0] = '1' | CPost -> cbits.[1] = '1' | CSkip -> cbits.[2] = '1'
          | CMounted -> cbits.[3] = '1' | CMountFrom -> cbits.[4] = '1' in
        let mount = String.length smode = 2 && smode.[1] = 'm' in
        let mode = match String.sub smode 0 1 with "g" -> MGraph | "t" -> MTagger | "r" -> MRefPush | _ -> failwith "mode" in
        let root, xroots = match List.map int_of_string (String.split_on_char '+' sroot) with
          | r :: xs -> r, xs | [] -> failwith "root" in
        let c = { c_K = eff_K_gen (z_of_int (int_of_string sk)); c_mode = mode; c_root = nat_of_int root; c_mount = mount; c_tagmounted = true;
                  c_cached0 = List.map nat_of_int (ints sc0); c_xroots = List.map nat_of_int xroots } in
        let d0 = List.map nat_of_int (ints sd0) in
        let toks = if strace = "-" then [] else String.split_on_char ',' strace in
        (* CX = the caller's context ended here (Model/CopyCancel.v) *)
        let tr = List.map (fun t -> if t = "CX" then Cancel else Ev (event_of t)) toks in
        let ms = ref 0 and md = ref 0 in
        let rec go st tr i =
          match tr with
          | [] -> Ok st
          | e :: tr' ->
            (match cstep_opt cs g c st e with
             | None -> Error i
             | Some (st', _) ->
               ms := max !ms (int_of_nat (inflight_src g st'.cs_st));
               md := max !md (int_of_nat (inflight_dst g st'.cs_st));
               go st' tr' (i + 1)) in
        (* pt=<node>: the destination reference existed before the call and pointed at that node *)
        let pretag = List.fold_left (fun acc f ->
          if String.length f > 3 && String.sub f 0 3 = "pt=" then Some (nat_of_int (int_of_string (String.sub f 3 (String.length f - 3)))) else acc) None rest in
        let st0 = let s0 = init c d0 in (match pretag with Some _ -> { s0 with tag = pretag } | None -> s0) in
        match go { cs_st = st0; cs_cancelled = false } tr 0 with
        | Error i ->
          Printf.printf "%s REJ %d %s\n" id i (List.nth toks i)
        | Ok cst ->
          let st = cst.cs_st in
          let ret = match st.returned with Some true -> "1" | Some false -> "0" | None -> "-" in
          let tg = match st.tag with Some t -> string_of_int (int_of_nat t) | None -> "-" in
          let pres d = sort_uniq_ints (List.map int_of_nat (present_nodes g d)) in
          (* copy_result is the final content only for mt_consistent graphs (C01_copy_result); otherwise the
             outcome depends on the schedule (known finding twin-digest-exists) and is not compared *)
          let keys i = List.sort_uniq compare (List.filter_map (fun x ->
            let j = int_of_nat x in if j < n && foreign.(j) then None else Some (if j < n then dkey.(j) else -1)) succ.(i)) in
          let non_mt = ref false in
          for i = 0 to n - 1 do for j = i + 1 to n - 1 do
            if dkey.(i) = dkey.(j) && keys i <> keys j then non_mt := true done done;
          let cr = if !non_mt then "-" else if ret = "1" then show_ints (pres (List.concat (List.map (fun r ->
                     copy_result g d0 (nat_of_int (n + 1)) (nat_of_int r)) (root :: xroots)))) else "-" in
          let gauges = if ret = "1" then Printf.sprintf "ms=%d md=%d" !ms !md else "ms=- md=-" in
          Printf.printf "%s ACC ret=%s tag=%s dst=%s cr=%s %s%s\n" id ret tg (show_ints (pres st.dst)) cr gauges sel
      with Failure m -> Printf.printf "%s BAD %s\n" id m)
    | [] -> ()
    | _ -> Printf.printf "BADLINE %s\n" l)
