(* C09 model runner.  One case per line:
     <id> s<caseseed> k<0|1> n<N> <node>*N : <op>*     (k1: GC keeps the digest references of live descriptors)
   node = <kind 0..5>,<subject|->,<succ.succ...|->  (kind: 0 blob 1 image 2 docker 3 index 4 dockerl 5 artifact)
   op = P<n> T<n>.<t> U<t> D<n> G R(eopen) F(oreign index + reopen) A<0|1> S<id>.<alg 0 sha256 1 sha512 2 sha384 3 other>.<valid>
        V<0|1> (AutoSaveIndex)  I (SaveIndex)  B<id> (Push of an undecodable manifest)  Y<n> (Delete of blob n with its octet-stream descriptor)
        Q<k>:<order> (GC whose sweep fails at entry k of the directory order)  Ke (GC cancelled before the index is rebuilt)
        K<k>:<b<n>|s<id>>,... (GC cancelled in the sweep after k entries of the given directory order)
   Output: <id> then, per op, <op>=<res>/B:..../I:..../P:..../S:..../J:....  (see harness/cmd/c09; J = index.json). *)
let ints_of sep s = if s = "-" || s = "" then [] else List.map int_of_string (String.split_on_char sep s)
let join sep l = String.concat sep l
let show_res r = match r with Ok -> "ok" | ENotFound -> "notfound" | EExists -> "exists" | EHang -> "hang" | ECanceled -> "canceled" | EOther -> "other"
let show_disk d =
  let tags = List.sort compare (List.filter_map (fun (r, m) -> match r with RTag t -> Some (int_of_nat t, int_of_nat m) | _ -> None) d) in
  let digs = List.sort_uniq compare (List.filter_map (fun (r, m) -> match r with RDig _ -> Some (int_of_nat m) | _ -> None) d) in
  join "," (List.map (fun (t, m) -> Printf.sprintf "t%d>%d" t m) tags @ List.map (fun m -> Printf.sprintf "d%d" m) digs)
let observe succ n st =
  let ids l = join "," (List.map string_of_int (List.sort_uniq compare (List.map int_of_nat l))) in
  let tags = List.sort compare (List.filter_map (fun (r, m) -> match r with RTag t -> Some (int_of_nat t, int_of_nat m) | _ -> None) st.idx) in
  let digs = List.sort_uniq compare (List.filter_map (fun (r, m) -> match r with RDig _ -> Some (int_of_nat m) | _ -> None) st.idx) in
  let i = join "," (List.map (fun (t, m) -> Printf.sprintf "t%d>%d" t m) tags @ List.map (fun m -> Printf.sprintf "d%d" m) digs) in
  let p = ref [] in
  for k = n - 1 downto 0 do
    let ps = preds succ st.gnodes (nat_of_int k) in
    if ps <> [] then p := (Printf.sprintf "%d<%s" k (ids ps)) :: !p
  done;
  let s = join "," (List.map string_of_int (List.sort_uniq compare (List.map (fun x -> int_of_nat x.s_id) st.strays))) in
  Printf.sprintf "B:%s/I:%s/P:%s/S:%s" (ids st.blobs) i (join ";" !p) s

let () =
  (* default: the repaired code; "orig": the code before all repairs; "orig+f1": before all
     repairs except F1 (used by hand to validate the pre-repair variants against old sources) *)
  let cfg = if Array.length Sys.argv > 1 && Sys.argv.(1) = "orig" then cfg_orig
            else if Array.length Sys.argv > 1 && Sys.argv.(1) = "orig+f1" then { cfg_orig with fixF1 = true }
            else cfg_fixed in
  iter_lines (fun l ->
    match split_ws l with
    | id :: _seed :: kl :: nn :: rest when String.length nn > 1 && nn.[0] = 'n' ->
      let kl = (kl = "k1") in
      let n = int_of_string (String.sub nn 1 (String.length nn - 1)) in
      let rec take k l acc = if k = 0 then (List.rev acc, l) else match l with x :: r -> take (k - 1) r (x :: acc) | [] -> failwith "short" in
      let (nodes, rest) = take n rest [] in
      let ops = match rest with ":" :: o -> o | _ -> failwith "no ops" in
      let parsed = Array.of_list (List.map (fun s ->
        match String.split_on_char ',' s with
        | [k; sub; sc] ->
          let kind = nat_of_int (int_of_string k) in
          (* the subject field is read only for the media types of manifestutil.Subject's switch *)
          (is_manifest_kind kind, (if sub = "-" || not (kind_has_subject kind) then None else Some (nat_of_int (int_of_string sub))), List.map nat_of_int (ints_of '.' sc))
        | _ -> failwith "node") nodes) in
      let get k = let i = int_of_nat k in if i < n then Some parsed.(i) else None in
      let succ k = match get k with Some (_, _, s) -> s | None -> [] in
      let subject k = match get k with Some (_, s, _) -> s | None -> None in
      let manifest k = match get k with Some (m, _, _) -> m | None -> false in
      let st = ref pinit in
      let out = Buffer.create 256 in
      let stop = ref false in
      List.iter (fun o ->
        if not !stop then begin
          let arg = String.sub o 1 (String.length o - 1) in
          let op = match o.[0] with
            | 'P' -> PO (OPush (nat_of_int (int_of_string arg)))
            | 'T' -> (match ints_of '.' arg with [a; t] -> PO (OTag (nat_of_int a, nat_of_int t)) | _ -> failwith "T")
            | 'U' -> PO (OUntag (nat_of_int (int_of_string arg)))
            | 'D' -> PO (ODelete (nat_of_int (int_of_string arg)))
            | 'G' -> PO OGC
            | 'R' -> PO OReopen
            | 'F' -> PO OForeign
            | 'A' -> PO (OAuto (arg = "1"))
            | 'S' -> (match ints_of '.' arg with [a; k; v] -> PO (OStray { s_id = nat_of_int a; s_alg = nat_of_int k; s_valid = (v = 1) }) | _ -> failwith "S")
            | 'V' -> PAutoSave (arg = "1")
            | 'I' -> PSave
            | 'Y' -> PDeleteAlt (nat_of_int (int_of_string arg))
            | 'B' -> PPushBad (nat_of_int (int_of_string arg))
            | 'Q' ->
              (match String.split_on_char ':' arg with
                | [k; ord] ->
                  let ents = List.map (fun e ->
                    let v = nat_of_int (int_of_string (String.sub e 1 (String.length e - 1))) in
                    if e.[0] = 'b' then SBlob v else SStray v) (List.filter (fun x -> x <> "") (String.split_on_char ',' ord)) in
                  PGCBlocked (ents, nat_of_int (int_of_string k))
                | _ -> failwith "Q")
            | 'K' ->
              if arg = "e" then PGCCancel (true, [], O)
              else (match String.split_on_char ':' arg with
                | [k; ord] ->
                  let ents = List.map (fun e ->
                    let v = nat_of_int (int_of_string (String.sub e 1 (String.length e - 1))) in
                    if e.[0] = 'b' then SBlob v else SStray v) (List.filter (fun x -> x <> "") (String.split_on_char ',' ord)) in
                  PGCCancel (false, ents, nat_of_int (int_of_string k))
                | _ -> failwith "K")
            | _ -> failwith "op" in
          let (st', r) = pstep succ subject manifest cfg kl !st op in
          st := st';
          if r = EHang then begin stop := true; Buffer.add_string out (Printf.sprintf " %s=hang" o) end
          else Buffer.add_string out (Printf.sprintf " %s=%s/%s/J:%s" o (show_res r) (observe succ n st'.mem) (show_disk st'.disk))
        end) ops;
      Printf.printf "%s%s\n" id (Buffer.contents out)
    | [] -> ()
    | _ -> Printf.printf "BADLINE %s\n" l)
