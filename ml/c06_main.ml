(* C06 model runner.  One case per line:
     <id> seq <store> <op> <op> ...          sequential history; prints the outputs
     <id> lin <store> <nthreads> <ev> ...    concurrent history with intervals; prints LIN ok|fail
   store = mem | oci.
   desc  = mt,dig,size,ann     key = mt,dig,size     blob = hash,len,key+key+... (or - for no links)
   ref   = n<k> | g<dig> | e
   op    = P/desc/blob F/desc E/desc T/desc/ref R/ref Q/desc U/ref D/desc L
   out   = ok | err:<e> | B:hash,len | X:0|1 | D:desc | S:key;key (sorted) | L:ref;ref (sorted) *)
let ni s = n_of_int (int_of_string s)
let parse_desc s =
  match String.split_on_char ',' s with
  | [a; b; c; d] -> { d_mt = ni a; d_dig = ni b; d_size = ni c; d_ann = ni d }
  | _ -> failwith ("desc " ^ s)
let parse_key_t s =
  let (ks, title) = match String.split_on_char '@' s with
    | [k] -> (k, 0) | [k; t] -> (k, int_of_string t) | _ -> failwith ("key " ^ s) in
  match String.split_on_char ',' ks with
  | [a; b; c] -> (((ni a, ni b), ni c), title)
  | _ -> failwith ("key " ^ s)
let parse_key s = fst (parse_key_t s)
let parse_links_t l = if l = "-" || l = "" then [] else List.map parse_key_t (String.split_on_char '+' l)
let untitled l = List.map fst l
let titled l = List.map (fun (k, t) -> (k, n_of_int t)) (List.filter (fun (_, t) -> t <> 0) l)
(* blob = hash,len,links[~prehash,prelinks]   link = key[@title] *)
let parse_blob s =
  let (main, pre) = match String.split_on_char '~' s with
    | [m] -> (m, None) | [m; p] -> (m, Some p) | _ -> failwith ("blob " ^ s) in
  match String.split_on_char ',' main with
  | a :: b :: rest ->
    let links = parse_links_t (String.concat "," rest) in
    let (ph, pl) = match pre with
      | None -> (ni a, links)
      | Some p -> (match String.split_on_char ',' p with
          | h :: r -> (ni h, parse_links_t (String.concat "," r))
          | _ -> failwith ("blob " ^ s)) in
    { b_hash = ni a; b_len = ni b; b_links = untitled links; b_pre_hash = ph; b_pre_links = untitled pl;
      b_tl = titled links; b_pre_tl = titled pl }
  | _ -> failwith ("blob " ^ s)
let parse_ref s =
  if s = "e" then REmpty
  else if s.[0] = 'n' then RName (ni (String.sub s 1 (String.length s - 1)))
  else if s.[0] = 'g' then RDig (ni (String.sub s 1 (String.length s - 1)))
  else failwith ("ref " ^ s)
let parse_op s =
  match String.split_on_char '/' s with
  | ["P"; d; c] -> Push (parse_desc d, parse_blob c)
  | ["F"; d] -> Fetch (parse_desc d)
  | ["E"; d] -> Exists (parse_desc d)
  | ["T"; d; r] -> Tag (parse_desc d, parse_ref r)
  | ["R"; r] -> Resolve (parse_ref r)
  | ["Q"; d] -> Preds (parse_desc d)
  | ["U"; r] -> Untag (parse_ref r)
  | ["D"; d] -> Delete (parse_desc d)
  | ["L"] -> Tags
  | _ -> failwith ("op " ^ s)

let ii = int_of_n
let show_err = function
  | EAlreadyExists -> "exists" | ENotFound -> "notfound" | EMissingRef -> "missingref"
  | EInvalidRef -> "invalidref" | EMismatch -> "mismatch" | EUnsupported -> "unsupported"
let key_t ((a, b), c) = (ii a, ii b, ii c)
let show_key_t (a, b, c) = Printf.sprintf "%d,%d,%d" a b c
let ref_t = function RName n -> (0, ii n) | RDig g -> (1, ii g) | REmpty -> (2, 0)
let show_ref_t = function (0, n) -> Printf.sprintf "n%d" n | (1, g) -> Printf.sprintf "g%d" g | _ -> "e"
let show_out = function
  | OOk -> "ok"
  | OErr e -> "err:" ^ show_err e
  | OBytes (h, l) -> Printf.sprintf "B:%d,%d" (ii h) (ii l)
  | OBool x -> if x then "X:1" else "X:0"
  | ODesc d -> Printf.sprintf "D:%d,%d,%d,%d" (ii d.d_mt) (ii d.d_dig) (ii d.d_size) (ii d.d_ann)
  | OPreds l -> "S:" ^ String.concat ";" (List.map show_key_t (List.sort compare (List.map key_t l)))
  | OTags l -> "L:" ^ String.concat ";" (List.map show_ref_t (List.sort compare (List.map ref_t l)))

(* U: digest id -> key, first occurrence in the history *)
let build_u (ops : op list) =
  let tbl = Hashtbl.create 16 in
  let add_k (((a, b), c) as k) = let g = ii b in if not (Hashtbl.mem tbl g) then Hashtbl.add tbl g k in
  let add_d d = add_k (gk d) in
  List.iter (function
      | Push (d, c) -> add_d d; List.iter add_k c.b_links
      | Fetch d | Exists d | Preds d | Delete d -> add_d d
      | Tag (d, _) -> add_d d
      | _ -> ()) ops;
  fun g -> (try Hashtbl.find tbl (ii g) with Not_found -> ((N0, g), N0))

let show_fout = function
  | FO o -> show_out o
  | FE FDuplicateName -> "err:dupname"
  | FE FOverwrite -> "err:overwrite"
  | FE FTraversal -> "err:traversal"
let is_file store = String.length store = 6 && String.sub store 0 4 = "file"
let file_stepper store = file_step true (store.[4] = '1') (store.[5] = '1')

(* third component: the files the model expects on disk after the history -- file store:
   working-directory path = hash,length of the regular files; OCI store: blob file = hash,length *)
let show_disk l = "K:" ^ String.concat ";" (List.sort compare l)
let run_store store ops =
  if is_file store && store.[4] = 'L' then begin
    (* file store created with NewWithFallbackLimit(dir, 400): Model/StoresFileLimit.v *)
    let lim = n_of_int 400 in
    let show_lout = function LLimit -> "err:sizelimit" | LOut x -> show_fout x in
    let (st, outs) = runl (file_step_lim lim true false (store.[5] = '1')) file_init ops in
    let l = List.map show_lout outs in
    let alias_free = List.for_all (function
        | Push (d, c) -> ii (d_name d) <> 5 && List.for_all (fun (_, n) -> ii n <> 5) (c.b_tl @ c.b_pre_tl)
        | _ -> true) ops in
    let sl = if alias_free then List.map show_lout (snd (runl (fspec_step_lim lim false) fspec_init ops)) else l in
    (l, sl, show_disk (List.map (fun (p, c) -> Printf.sprintf "%d=%d,%d" (ii p) (ii c.b_hash) (ii c.b_len)) st.f_disk))
  end else
  if is_file store then begin
    let (st, outs) = runf (file_stepper store) file_init ops in
    let l = List.map show_fout outs in
    (* the abstract specification (C06_refines_file) speaks about histories without the aliasing
       name 5, as a descriptor's name or as the title of a successor *)
    let alias_free = List.for_all (function
        | Push (d, c) -> ii (d_name d) <> 5 && List.for_all (fun (_, n) -> ii n <> 5) (c.b_tl @ c.b_pre_tl)
        | _ -> true) ops in
    let sl = if alias_free then List.map show_fout (snd (runf (fspec_step (store.[4] = '1')) fspec_init ops)) else l in
    (l, sl, show_disk (List.map (fun (p, c) -> Printf.sprintf "%d=%d,%d" (ii p) (ii c.b_hash) (ii c.b_len)) st.f_disk))
  end else
  match store with
  | "mem" ->
    let (_, outs) = run mem_step mem_init ops in
    let (_, souts) = run mspec_step mspec_init ops in
    (List.map show_out outs, List.map show_out souts, "K:")
  | "oci" ->
    let u = build_u ops in
    let (st, outs) = run oci_step oci_init ops in
    (* the specification is stated for canonical histories (one descriptor per digest) *)
    let canonical = List.for_all (function
        | Push (d, _) | Fetch d | Exists d | Preds d | Delete d | Tag (d, _) -> gkey_eqb (gk d) (u d.d_dig)
        | _ -> true) ops in
    let (_, souts) = if canonical then run (ospec_step u) ospec_init ops else ((), outs) |> fun (_, o) -> (ospec_init, o) in
    (List.map show_out outs, List.map show_out souts,
     show_disk (List.map (fun (g, c) -> Printf.sprintf "%d=%d,%d" (ii g) (ii c.b_hash) (ii c.b_len)) st.o_blobs))
  | _ -> failwith "store"

(* ---- serialisability search over the extracted sequential model ----
   event = <thread>:<inv>:<resp>:<op>=<observed out> ; times are integers (logical clock) *)
type ev = { th : int; inv : int; resp : int; o : op; obs : string }
let parse_ev s =
  match String.split_on_char ':' s with
  | th :: inv :: resp :: rest ->
    let body = String.concat ":" rest in
    let i = String.index body '=' in
    { th = int_of_string th; inv = int_of_string inv; resp = int_of_string resp;
      o = parse_op (String.sub body 0 i); obs = String.sub body (i + 1) (String.length body - i - 1) }
  | _ -> failwith ("ev " ^ s)

(* Quiescent serialisability: is there a sequential order of the concurrent operations
   (respecting real time: an operation that responded before another was invoked comes
   first) after which the sequential probe observes exactly what the implementation
   showed?  Outputs of the concurrent operations themselves are not constrained (the
   property speaks of the quiescent state).  Read-only operations are dropped. *)
let read_only = function Fetch _ | Exists _ | Resolve _ | Preds _ | Tags -> true | _ -> false
(* [constrained o]: the observed output of this concurrent operation must be the one the
   sequential model gives at its place in the order (operations whose result is decided at
   one atomic step: everything but Predecessors on the memory store, Push on the file
   store; reads of monotone or atomically updated maps -- Fetch/Exists/Resolve on the file store,
   Exists/Fetch/Resolve-by-name on the OCI store: the theorems C06_reads_linearisable_memory, _oci, _file).  Unconstrained read-only operations are dropped from the search. *)
let serialisable (type s) ?(constrained : op -> bool = fun _ -> false) ?(fin : s -> bool = fun _ -> true)
    (step : s -> op -> s * string) (init : s) (repr : s -> string)
    (evs : ev array) (probe : ev list) : bool =
  let evs = Array.of_list (List.filter (fun e -> constrained e.o || not (read_only e.o)) (Array.to_list evs)) in
  let n = Array.length evs in
  let donev = Array.make n false in
  let seen = Hashtbl.create 1024 in
  let leaf (st : s) =
    let rec chk st = function
      | [] -> fin st
      | e :: tl -> let (st', shown) = step st e.o in shown = e.obs && chk st' tl in
    chk st probe in
  let rec go (st : s) (k : int) : bool =
    if k = n then leaf st
    else begin
      let key = (Array.to_list donev, repr st) in
      if Hashtbl.mem seen key then false
      else begin
        Hashtbl.add seen key ();
        let minresp = ref max_int in
        Array.iteri (fun i e -> if not donev.(i) && e.resp < !minresp then minresp := e.resp) evs;
        let ok = ref false in
        let i = ref 0 in
        while not !ok && !i < n do
          let e = evs.(!i) in
          if not donev.(!i) && e.inv <= !minresp then begin
            let (st', shown) = step st e.o in
            if not (constrained e.o) || shown = e.obs then begin
              donev.(!i) <- true;
              if go st' (k + 1) then ok := true;
              donev.(!i) <- false
            end
          end;
          incr i
        done;
        !ok
      end
    end in
  go init 0

let show_content_mem (c : (((n * n) * n) * blob) list) =
  String.concat ";" (List.sort compare (List.map (fun (k, bl) -> show_key_t (key_t k) ^ "=" ^ string_of_int (ii bl.b_hash)) c))
let show_content_oci (c : (n * blob) list) =
  String.concat ";" (List.sort compare (List.map (fun (g, bl) -> Printf.sprintf "%d=%d" (ii g) (ii bl.b_hash)) c))
let show_graph (g : graph) =
  String.concat ";" (List.sort compare (List.map (fun (k, l) ->
    show_key_t (key_t k) ^ ">" ^ String.concat "+" (List.sort compare (List.map (fun x -> show_key_t (key_t x)) l))) g.g_succs))
let show_tags (t : (ref * desc) list) =
  String.concat ";" (List.sort compare (List.map (fun (r, d) -> show_ref_t (ref_t r) ^ "=" ^ show_out (ODesc d)) t))

let rec split_at k l = if k = 0 then ([], l) else match l with [] -> ([], []) | x :: tl -> let (a, b) = split_at (k - 1) tl in (x :: a, b)

let () =
  iter_lines (fun l ->
    match List.filter (fun t -> t.[0] <> '#') (split_ws l) with
    | id :: "seq" :: store :: toks ->
      (try
         (* a final token K asks for the expected on-disk files as one more output *)
         let want_disk = (match List.rev toks with "K" :: _ -> true | _ -> false) in
         let toks = if want_disk then List.rev (List.tl (List.rev toks)) else toks in
         let ops = List.map parse_op toks in
         let (outs, souts, disk) = run_store store ops in
         let tail = if want_disk then [disk] else [] in
         Printf.printf "%s %s%s\n" id (String.concat "|" (outs @ tail)) (if outs = souts then "" else " SPECDIFF " ^ String.concat "|" souts)
       with Failure m -> Printf.printf "%s BADCASE %s\n" id m)
    | id :: "lin" :: store :: nprobe :: toks ->
      (try
         (* a final token K=<files> is the observed on-disk state at quiescence: the sequential
            order must end with exactly these files *)
         let (toks, disk_obs) = (match List.rev toks with
           | last :: rest when String.length last >= 2 && String.sub last 0 2 = "K=" ->
             (List.rev rest, Some (String.sub last 2 (String.length last - 2)))
           | _ -> (toks, None)) in
         let disk_ok shown = (match disk_obs with None -> true | Some o -> shown = "K:" ^ o) in
         let all = List.map parse_ev toks in
         let (conc, probe) = split_at (List.length all - int_of_string nprobe) all in
         let evs = Array.of_list conc in
         let ok =
           if is_file store then
             serialisable ~constrained:(function Push _ | Fetch _ | Exists _ | Resolve _ -> true | _ -> false)
               ~fin:(fun s -> disk_ok (show_disk (List.map (fun (p, c) -> Printf.sprintf "%d=%d,%d" (ii p) (ii c.b_hash) (ii c.b_len)) s.f_disk)))
               (fun s o -> let (s', x) = file_stepper store s o in (s', show_fout x)) file_init
               (fun s -> String.concat "," (List.map (fun n -> string_of_int (ii n)) (List.sort compare s.f_names)) ^ "#" ^
                         String.concat "," (List.sort compare (List.map (fun (g, p) -> Printf.sprintf "%d>%d" (ii g) (ii p)) s.f_d2p)) ^ "#" ^
                         show_content_mem s.f_cas ^ "#" ^ show_tags s.f_res.r_index ^ "#" ^ show_graph s.f_graph ^ "#" ^
                         String.concat "," (List.sort compare (List.map (fun (p, c) -> Printf.sprintf "%d=%d" (ii p) (ii c.b_hash)) s.f_disk)) ^ "#" ^
                         String.concat "," (List.sort compare (List.map (fun (k, _) -> show_key_t (key_t k)) s.f_graph.g_nodes))) evs probe
           else
           match store with
           | "mem" ->
             serialisable ~constrained:(function Preds _ -> false | _ -> true)
               (fun s o -> let (s', x) = mem_step s o in (s', show_out x)) mem_init
               (fun s -> let a = mem_abs s in show_content_mem a.sp_content ^ "#" ^ show_tags a.sp_tags ^ "#" ^ show_graph s.m_graph) evs probe
           | "oci" ->
             (* content-map reads are atomic (stat/open of a blob file that appears by rename and
                disappears only under the exclusive lock): C06_reads_linearisable_oci *)
             serialisable ~constrained:(function Exists _ | Fetch _ | Resolve (RName _) -> true | _ -> false)
               ~fin:(fun s -> disk_ok (show_disk (List.map (fun (g, c) -> Printf.sprintf "%d=%d,%d" (ii g) (ii c.b_hash) (ii c.b_len)) s.o_blobs)))
               (fun s o -> let (s', x) = oci_step s o in (s', show_out x)) oci_init
               (fun s -> let a = oci_abs s in show_content_oci a.sp_content ^ "#" ^ show_tags a.sp_tags ^ "#" ^ show_graph s.o_graph) evs probe
           | _ -> failwith "store" in
         Printf.printf "%s LIN %s\n" id (if ok then "ok" else "fail")
       with Failure m -> Printf.printf "%s BADCASE %s\n" id m)
    | [] -> ()
    | _ -> Printf.printf "BADLINE %s\n" l)
