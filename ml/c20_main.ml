(* C20 model runner: one case per line on stdin, one result per line on stdout.
   P <hex>                   registry.ParseReference
   R <hexreg> <hexrepo> <hex>  Repository.ParseReference with base
   U <kind> <plain> <hexreg> <hexrepo> <hexref>   URL builders
   V <repo|tag|digest> <hex>   one component validator
   A <hexalg> <true|false>     configuration: is the hash implementation linked into the harness binary
   F <hexreg> <hexrepo> <hexref>   Reference.String()
   Q <referrers|mount> <plain> <hexreg> <hexrepo> <hexref> <hexarg>   query-carrying URL builders
   D <op> <plain> <hexreg> <hexrepo> <hexdigest> <hexarg> <hexpagesize>   descriptor-driven operations
   G <hexreg>                  Reference.ValidateRegistry (Model/NetURL.v)
   O <op> <plain> <hexreg> <hexrepo> <hexinput> <hexdescdigest>   requests of a reference-taking operation *)
let show_verdict v =
  match v with
  | VOk r -> Printf.sprintf "OK %s %s %s" (hex_of_str r.r_registry) (hex_of_str r.r_repository) (hex_of_str r.r_reference)
  | VErr -> "ERR"
  | VUnjudged -> "UNJUDGED"

(* which hash implementations the harness binary links: configured by the "A" lines the harness
   emits first (default: all) *)
let unavailable : n list list ref = ref []
let avail (a : n list) : bool = not (List.mem a !unavailable)

let () =
  iter_lines (fun l ->
    match split_ws l with
    | [id; "A"; h; v] ->
      let a = str_of_hex h in
      if v = "true" then unavailable := List.filter (fun x -> x <> a) !unavailable
      else unavailable := a :: !unavailable;
      Printf.printf "%s AVAIL %s\n" id v
    | [id; "Q"; kind; plain; hr; hp; hf; ha] ->
      let unh h = if h = "-" then [] else str_of_hex h in
      let r = { r_registry = unh hr; r_repository = unh hp; r_reference = unh hf } in
      let p = (plain = "1") in
      let u = match kind with
        | "referrers" -> gen_url_referrers_at p r (unh ha)
        | "mount" -> gen_url_mount p r (unh hf) (unh ha)
        | _ -> failwith "qkind" in
      let ho o = match o with None -> "none" | Some s -> "some:" ^ hex_of_str s in
      (match url_split u with
       | Some q -> Printf.printf "%s URL %s SPLIT %s %s %s %s %s\n" id (hex_of_str u) (hex_of_str q.u_scheme) (hex_of_str q.u_authority) (hex_of_str q.u_path) (ho q.u_query) (ho q.u_fragment)
       | None -> Printf.printf "%s URL %s NOSPLIT\n" id (hex_of_str u))
    | [id; "D"; op; plain; hr; hp; hd; ha; hn] ->
      let unh h = if h = "-" then [] else str_of_hex h in
      let o = match op with
        | "dmfetch" -> DMFetch | "dmdelete" -> DMDelete | "dbfetch" -> DBFetch | "dbdelete" -> DBDelete
        | "dreferrers" -> DReferrers | "dmount" -> DMount | "dbpush" -> DBPush | "dtags" -> DTags
        | _ -> failwith "descop" in
      let base = { r_registry = unh hr; r_repository = unh hp; r_reference = [] } in
      let l = desc_op_requests o (plain = "1") base (unh hd) (unh ha) (unh hn) in
      Printf.printf "%s REQS%s\n" id
        (String.concat "" (List.map (fun (m, u) -> " " ^ hex_of_str m ^ ":" ^ hex_of_str u) l))
    | [id; "N"; "repo"; h; _] ->
      let s = if h = "-" then [] else str_of_hex h in
      (match new_repository avail go_vr s with
       | Some r -> Printf.printf "%s %s\n" id (show_verdict (VOk r))
       | None -> Printf.printf "%s ERR\n" id)
    | [id; "N"; "reg"; hn; hs] ->
      let unh h = if h = "-" then [] else str_of_hex h in
      (match new_registry go_vr (unh hn) with
       | None -> Printf.printf "%s ERR\n" id
       | Some reg ->
         (match registry_repository reg (unh hs) with
          | Some r -> Printf.printf "%s %s\n" id (show_verdict (VOk r))
          | None -> Printf.printf "%s REGOK\n" id))
    | [id; "E"; op; plain; hr; hl; hn] ->
      let unh h = if h = "-" then [] else str_of_hex h in
      let o = match op with "rping" -> RPing | "rcatalog" -> RCatalog | _ -> failwith "regop" in
      let l = reg_op_requests o (plain = "1") (unh hr) (unh hl) (unh hn) in
      Printf.printf "%s REQS%s\n" id
        (String.concat "" (List.map (fun (m, u) -> " " ^ hex_of_str m ^ ":" ^ hex_of_str u) l))
    | id :: "T" :: plain :: hr :: hp :: hs :: hserved :: hdsts ->
      let unh h = if h = "-" then [] else str_of_hex h in
      let l = oras_tag_requests avail go_vr (plain = "1") (unh hr) (unh hp) (unh hs) (List.map unh hdsts) (unh hserved) in
      Printf.printf "%s REQS%s\n" id
        (String.concat "" (List.map (fun (m, u) -> " " ^ hex_of_str m ^ ":" ^ hex_of_str u) l))
    | [id; "G"; h] ->
      let reg = if h = "-" then [] else str_of_hex h in
      (match go_registry_verdict reg with
       | Some v -> Printf.printf "%s REG %s\n" id (if v then "true" else "false")
       | None -> Printf.printf "%s UNJUDGED\n" id)
    | [id; "W"; hr; hp; hf] ->
      let unh h = if h = "-" then [] else str_of_hex h in
      let r = { r_registry = unh hr; r_repository = unh hp; r_reference = unh hf } in
      Printf.printf "%s VALID %s\n" id (if validate avail go_vr r then "true" else "false")
    | [id; "F"; hr; hp; hf] ->
      let unh h = if h = "-" then [] else str_of_hex h in
      let r = { r_registry = unh hr; r_repository = unh hp; r_reference = unh hf } in
      Printf.printf "%s FMT %s\n" id (hex_of_str (format avail r))
    | [id; "P"; h] ->
      let v = parse_verdict avail (str_of_hex h) in
      (match v with
       | VOk r -> Printf.printf "%s %s FMT %s\n" id (show_verdict v) (hex_of_str (format avail r))
       | _ -> Printf.printf "%s %s\n" id (show_verdict v))
    | [id; "R"; hr; hp; h] ->
      Printf.printf "%s %s\n" id (show_verdict (repo_parse_verdict avail (str_of_hex hr) (str_of_hex hp) (str_of_hex h)))
    | [id; "U"; kind; plain; hr; hp; hf] ->
      let r = { r_registry = str_of_hex hr; r_repository = str_of_hex hp; r_reference = str_of_hex hf } in
      let p = (plain = "1") in
      let u = match kind with
        | "manifest" -> gen_url_manifest p r
        | "blob" -> gen_url_blob p r
        | "referrers" -> gen_url_referrers p r
        | "taglist" -> gen_url_taglist p r
        | "upload" -> gen_url_upload p r
        | "base" -> gen_url_base p r
        | "catalog" -> gen_url_catalog p r
        | "repobase" -> gen_url_repo_base p r
        | _ -> failwith "kind" in
      let hx s = match s with [] -> "-" | _ -> hex_of_str s in
      let ho o = match o with None -> "none" | Some s -> "some:" ^ hx s in
      (match url_split u with
       | Some p -> Printf.printf "%s URL %s SPLIT %s %s %s %s %s\n" id (hex_of_str u) (hx p.u_scheme) (hx p.u_authority) (hx p.u_path) (ho p.u_query) (ho p.u_fragment)
       | None -> Printf.printf "%s URL %s NOSPLIT\n" id (hex_of_str u))
    | [id; "O"; op; plain; hr; hp; hs; hd] ->
      let o = match op with
        | "mresolve" -> OpMResolve | "mfetchref" -> OpMFetchRef | "tag" -> OpTag
        | "pushref" -> OpPushRef | "bresolve" -> OpBResolve | "bfetchref" -> OpBFetchRef
        | _ -> failwith "op" in
      (match op_requests_verdict avail o (plain = "1") (str_of_hex hr) (str_of_hex hp) (str_of_hex hs) (str_of_hex hd) with
       | OUnjudged -> Printf.printf "%s UNJUDGED\n" id
       | ORefused -> Printf.printf "%s REQS\n" id
       | OReqs l -> Printf.printf "%s REQS%s\n" id
                      (String.concat "" (List.map (fun (m, u) -> " " ^ hex_of_str m ^ ":" ^ hex_of_str u) l)))
    | [id; "V"; kind; h] ->
      let s = if h = "-" then [] else str_of_hex h in
      let v = match kind with
        | "repo" -> valid_repository s
        | "tag" -> valid_tag s
        | "digest" -> valid_digest_gen avail s
        | _ -> failwith "component" in
      Printf.printf "%s VALID %s\n" id (if v then "true" else "false")
    | [] -> ()
    | _ -> Printf.printf "BADLINE %s\n" l)
