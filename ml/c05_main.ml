(* C05 model runner: one case per line on stdin, one result per line on stdout.
   Common tokens
     <script>  comma separated  D<hex> | Z | F | E   ("-" = empty script)
     <hashes>  comma separated  <alghex>:<len>:<fnv>:<djb>:<hexdigest>  ("-" = none): the
               SHA-2 values of the byte strings the model may ask for (ground truth
               of the harness; SHA-2 itself is not modelled)
   Cases
     RA <hashes> <dghex> <sz> <comb> <lim|-> <script>
     CB <hashes> <bufsz> <dghex> <sz> <comb> <lim|-> <script>
     VR <hashes> <dghex> <sz> <comb> <script> <ops>          ops: r<k> | v , comma separated
     ST <hashes> <kind> <n> { <namehex> <mthex> <dghex> <sz> <comb> <script> }*n
        kind: mem | lim<limit> | oci | olim<limit> | file ; for file the name field is <namehex>:<resolved path hex> *)
let fnv (s : n list) : int =
  List.fold_left (fun h c -> ((h lxor (int_of_n c)) * 16777619) land 0xFFFFFFFF) 2166136261 s
let djb (s : n list) : int =
  List.fold_left (fun h c -> (h * 31 + (int_of_n c) + 7) land 0xFFFFFFFF) 5381 s
let rec z_of_int (i : int) : z =
  if i = 0 then Z0 else if i > 0 then Zpos (pos_of_int i) else Zneg (pos_of_int (- i))
let int_of_z (x : z) : int = match x with Z0 -> 0 | Zpos p -> int_of_pos p | Zneg p -> - (int_of_pos p)

let err_name e = match e with
  | EEof -> "EOF" | EInjected -> "INJECTED" | EUnexpEof -> "UNEXPECTED_EOF" | EBadDigest -> "BAD_DIGEST"
  | ETrailing -> "TRAILING" | EMismatch -> "MISMATCH" | EEarly -> "EARLY" | EInvalidSize -> "INVALID_SIZE"
  | EExists -> "EXISTS" | ETooBig -> "TOO_BIG" | ENotFound -> "NOT_FOUND" | EDupName -> "DUP_NAME"
  | EOverwrite -> "OVERWRITE" | EFuel -> "FUEL" | EWrite -> "WRITE" | EShortWrite -> "SHORT_WRITE" | ETraversal -> "TRAVERSAL"
let res_name e = match e with None -> "OK" | Some e -> err_name e

let parse_script (s : string) : ev list =
  if s = "-" then [] else
  List.map (fun t ->
    if t = "Z" then Zero else if t = "F" then Fail else if t = "E" then Eof
    else if String.length t >= 1 && t.[0] = 'D' then
      Data (str_of_hex (let r = String.sub t 1 (String.length t - 1) in if r = "" then "-" else r))
    else failwith ("bad script token " ^ t)) (String.split_on_char ',' s)

let parse_hashes (s : string) =
  if s = "-" then [] else
  List.map (fun t -> match String.split_on_char ':' t with
    | [a; l; f; d; hx] -> ((str_of_hex a, int_of_string l, int_of_string f, int_of_string d), str_of_hex hx)
    | _ -> failwith ("bad hash entry " ^ t)) (String.split_on_char ',' s)

let mk_h table : n list -> n list -> n list = fun alg data ->
  let key = (alg, List.length data, fnv data, djb data) in
  match List.assoc_opt key table with
  | Some hx -> hx
  | None -> str_of_hex "3f"   (* "?" never equals an encoded digest *)

let digest_str s = Printf.sprintf "%d:%d" (List.length s) (fnv s)
let fuel_of evs = S (S (S (ev_weight evs)))
let base_of evs lim = { b_evs = evs; b_lim = (if lim = "-" then None else Some (z_of_int (int_of_string lim))) }
let fixed = true
let cur_name_path : (n list * n list) ref = ref ([], [])
let total evs = List.length (stream evs)

let () =
  iter_lines (fun l ->
    match split_ws l with
    | [id; "RA"; hs; dg; sz; comb; lim; sc] ->
      let h = mk_h (parse_hashes hs) and evs = parse_script sc and comb = (comb = "1") in
      let ((e, buf), v) = read_all h comb fixed (fuel_of evs) (base_of evs lim) (str_of_hex dg) (z_of_int (int_of_string sz)) in
      let delivered = total evs - total v.v_base.b_evs in
      (match e with
       | None -> Printf.printf "%s OK %d %s\n" id delivered (digest_str buf)
       | Some e -> Printf.printf "%s %s %d\n" id (err_name e) delivered)
    | [id; "CB"; hs; bufsz; dg; sz; comb; lim; sc] ->
      let h = mk_h (parse_hashes hs) and evs = parse_script sc and comb = (comb = "1") in
      let ((e, out), v) = copy_buffer h comb fixed (fuel_of evs) (base_of evs lim) (nat_of_int (int_of_string bufsz))
          (str_of_hex dg) (z_of_int (int_of_string sz)) in
      let delivered = total evs - total v.v_base.b_evs in
      Printf.printf "%s %s %d W%s\n" id (res_name e) delivered (digest_str out)
    | [id; "CW"; hs; bufsz; dg; sz; comb; lim; sc; wmode; wat] ->
      (* CopyBuffer into a destination that fails / short-writes after <wat> bytes *)
      let h = mk_h (parse_hashes hs) and evs = parse_script sc and comb = (comb = "1") in
      let w = { w_mode = Some (if wmode = "short" then WShort else WFail); w_left = nat_of_int (int_of_string wat) } in
      let (((e, out), v), _) = copy_buffer_w h comb fixed (fuel_of evs) (base_of evs lim) (nat_of_int (int_of_string bufsz))
          (str_of_hex dg) (z_of_int (int_of_string sz)) w in
      let delivered = total evs - total v.v_base.b_evs in
      Printf.printf "%s %s %d W%s\n" id (res_name e) delivered (digest_str out)
    | id :: "VR" :: hs :: dg :: sz :: comb :: sc :: ops :: limopt when List.length limopt <= 1 ->
      let lim = (match limopt with [l] -> l | _ -> "-") in
      let h = mk_h (parse_hashes hs) and evs = parse_script sc and comb = (comb = "1") in
      let dg = str_of_hex dg in
      let v = ref (new_vr fixed (base_of evs lim) dg (z_of_int (int_of_string sz))) in
      let outs = List.map (fun op ->
        if op = "v" then begin
          let (e, v') = vr_verify h comb (fuel_of evs) dg !v in
          v := v'; "v=" ^ res_name e
        end else begin
          let k = int_of_string (String.sub op 1 (String.length op - 1)) in
          let ((bs, e), v') = vr_read comb !v (nat_of_int k) in
          v := v'; Printf.sprintf "r=%s/%s" (digest_str bs) (res_name e)
        end) (String.split_on_char ',' ops) in
      Printf.printf "%s %s\n" id (String.concat " " outs)
    | id :: "ST" :: hs :: kind :: n :: rest ->
      let h = mk_h (parse_hashes hs) in
      let n = int_of_string n in
      let buf = Buffer.create 256 in
      let show_fetch (e, b) = match e with None -> "OK/" ^ digest_str b | Some e -> err_name e in
      let seen = ref [] in
      (* final sweep: every descriptor of the history is queried again on the final state *)
      let sweep (observe : n list -> desc -> string) =
        " Q=" ^ String.concat "," (List.rev_map (fun (nm, d) -> observe nm d) !seen) in
      let rec pushes i rest (step : n list -> desc -> bool -> ev list -> string) =
        if i = 0 then () else
        match rest with
        | name :: mt :: dg :: sz :: comb :: sc :: rest' ->
          let d = { d_mt = str_of_hex mt; d_dg = str_of_hex dg; d_sz = z_of_int (int_of_string sz) } in
          let (nm, pth) = match String.index_opt name ':' with
            | Some i -> (str_of_hex (String.sub name 0 i), str_of_hex (String.sub name (i + 1) (String.length name - i - 1)))
            | None -> (str_of_hex name, str_of_hex name) in
          cur_name_path := (nm, pth);
          seen := (nm, d) :: !seen;
          Buffer.add_string buf (step nm d (comb = "1") (parse_script sc));
          Buffer.add_string buf " ";
          pushes (i - 1) rest' step
        | _ -> failwith "bad ST case" in
      let listing l = match List.sort compare l with [] -> "-" | l -> String.concat ";" l in
      let nolist = (kind = "memstore") in
      let kind = if kind = "memstore" then "mem" else if kind = "ocistore" then "oci" else kind in
      (if kind = "mem" || (String.length kind > 3 && String.sub kind 0 3 = "lim") then begin
        let st = ref [] in
        pushes n rest (fun _ d comb evs ->
          let (e, st') =
            if kind = "mem" then mem_push h comb fixed (fuel_of evs) !st d (base_of evs "-")
            else limited_push (fun s d b -> mem_push h comb fixed (fuel_of evs) s d b)
                (z_of_int (int_of_string (String.sub kind 3 (String.length kind - 3)))) !st d evs in
          st := st';
          let c = mem_get !st d in
          Printf.sprintf "%s X%d F%s" (res_name e) (if c = None then 0 else 1) (show_fetch (mem_fetch_all h !st d)));
        Buffer.add_string buf (if nolist then "B=?" else "B=" ^ listing (List.map (fun (d, c) ->
          Printf.sprintf "%s/%s/%d/%s" (hex_of_str d.d_mt) (hex_of_str d.d_dg) (int_of_z d.d_sz) (digest_str c)) !st));
        Buffer.add_string buf (sweep (fun _ d -> let c = mem_get !st d in
          Printf.sprintf "X%d/F%s" (if c = None then 0 else 1) (show_fetch (mem_fetch_all h !st d))))
      end else if kind = "oci" || (String.length kind > 4 && String.sub kind 0 4 = "olim") then begin
        let st = ref [] in
        pushes n rest (fun _ d comb evs ->
          let (e, st') =
            if kind = "oci" then oci_push h comb fixed (fuel_of evs) !st d (base_of evs "-")
            else limited_push (fun s d b -> oci_push h comb fixed (fuel_of evs) s d b)
                (z_of_int (int_of_string (String.sub kind 4 (String.length kind - 4)))) !st d evs in
          st := st';
          let (xe, x) = oci_exists !st d in
          let xs = match xe with Some e -> err_name e | None -> if x then "1" else "0" in
          let f = show_fetch (oci_fetch_all h !st d) in
          Printf.sprintf "%s X%s F%s" (res_name e) xs f);
        Buffer.add_string buf ("B=" ^ listing (List.map (fun (dg, c) ->
          Printf.sprintf "%s/%s" (hex_of_str dg) (digest_str c)) !st) ^ " I=0");
        Buffer.add_string buf (sweep (fun _ d ->
          let (xe, x) = oci_exists !st d in
          let xs = match xe with Some e -> err_name e | None -> if x then "1" else "0" in
          let f = show_fetch (oci_fetch_all h !st d) in
          Printf.sprintf "X%s/F%s" xs f))
      end else if String.length kind >= 4 && String.sub kind 0 4 = "file" then begin
        (* file | fileD (DisableOverwrite) | fileI (IgnoreNoName) | fileF (unlimited fallback) | fileC (ForceCAS) *)
        let opts = match kind with
          | "fileD" -> { default_opts with o_disable_overwrite = true }
          | "fileI" -> { default_opts with o_ignore_noname = true }
          | "fileF" -> { default_opts with o_fb_limit = None }
          | _ -> default_opts in
        let st = ref { f_files = []; f_names = []; f_d2p = []; f_fb = [] } in
        pushes n rest (fun name d comb evs ->
          let (name, path) = !cur_name_path in
          (* the model resolves the name itself (filepath.Clean + traversal check); the
             harness's filepath.Clean of the name is only compared with it *)
          let clean_note = match resolve_name name with
            | Some p when name <> [] && p <> path ->
              Printf.sprintf " CLEAN-MISMATCH(model=%s,filepath=%s)" (hex_of_str p) (hex_of_str path)
            | _ -> "" in
          let (e, st') = file_push_opt h comb fixed opts (fuel_of evs) !st name d evs in
          st := st';
          let x = file_exists !st name d in
          let f = show_fetch (file_fetch_all h !st name d) in
          Printf.sprintf "%s X%d F%s%s" (res_name e) (if x then 1 else 0) f clean_note);
        Buffer.add_string buf ("B=" ^ listing (List.map (fun (nm, c) ->
          Printf.sprintf "%s/%s" (hex_of_str nm) (digest_str c)) !st.f_files));
        Buffer.add_string buf (sweep (fun name d ->
          Printf.sprintf "X%d/F%s" (if file_exists !st name d then 1 else 0) (show_fetch (file_fetch_all h !st name d))))
      end else failwith ("bad store kind " ^ kind));
      Printf.printf "%s %s\n" id (Buffer.contents buf)
    | id :: "PF" :: hs :: kind :: n :: rest ->
      (* PF <hashes> <mem|lim<limit>> <n> { <stop> <mthex> <dghex> <sz> <comb> <script> <ks> }*n *)
      let h = mk_h (parse_hashes hs) in
      let limit = if kind = "mem" then None
        else Some (z_of_int (int_of_string (String.sub kind 3 (String.length kind - 3)))) in
      let buf = Buffer.create 256 in
      let st = ref [] in
      let rec steps i rest =
        if i = 0 then () else
        match rest with
        | stop :: mt :: dg :: sz :: comb :: sc :: ks :: rest' ->
          let d = { d_mt = str_of_hex mt; d_dg = str_of_hex dg; d_sz = z_of_int (int_of_string sz) } in
          let ks = if ks = "-" then [] else List.map (fun k -> nat_of_int (int_of_string k)) (String.split_on_char ',' ks) in
          let ((rs, ce), m') = proxy_fetch h limit (stop = "1") !st d (comb = "1") (parse_script sc) ks in
          st := m';
          List.iter (fun (bs, e) -> Buffer.add_string buf (Printf.sprintf "r=%s/%s " (digest_str bs) (res_name e))) rs;
          Buffer.add_string buf (Printf.sprintf "c=%s | " (res_name ce));
          steps (i - 1) rest'
        | _ -> failwith "bad PF case" in
      steps (int_of_string n) rest;
      let l = List.sort compare (List.map (fun (d, c) ->
          Printf.sprintf "%s/%s/%d/%s" (hex_of_str d.d_mt) (hex_of_str d.d_dg) (int_of_z d.d_sz) (digest_str c)) !st) in
      Printf.printf "%s %sB=%s\n" id (Buffer.contents buf) (match l with [] -> "-" | l -> String.concat ";" l)
    | id :: "CC" :: hs :: ("oci" | "ocistore") :: n :: rest when int_of_string n <= 3 && List.mem "OBS" rest ->
      (* concurrent pushes into one OCI layout: is the observed outcome (per-goroutine results,
         blobs/ listing, files left in ingest/) one of the model's reachable terminal outcomes? *)
      let h = mk_h (parse_hashes hs) in
      let n = int_of_string n in
      let rec threads i rest acc =
        if i = 0 then (List.rev acc, rest) else
        match rest with
        | _ :: mt :: dg :: sz :: comb :: sc :: rest' ->
          let d = { d_mt = str_of_hex mt; d_dg = str_of_hex dg; d_sz = z_of_int (int_of_string sz) } in
          let evs = parse_script sc in
          threads (i - 1) rest' ({ t_d = d; t_evs = evs; t_comb = (comb = "1"); t_fuel = fuel_of evs; t_pc = PStart } :: acc)
        | _ -> failwith "bad CC case" in
      let (ts, rest') = threads n rest [] in
      let observed = match rest' with "OBS" :: o -> String.concat " " o | _ -> failwith "bad CC obs" in
      let big = nat_of_int (List.fold_left (fun a t -> a + total t.t_evs) 1 ts) in
      let finals = explore h (nat_of_int (4 * n + 2)) big { c_blobs = []; c_thr = ts } in
      let show st =
        let rs = List.map (fun r -> match r with Some r -> res_name r | None -> "RUNNING") (thread_results st) in
        let bl = List.sort compare (List.map (fun (dg, c) -> Printf.sprintf "%s/%s" (hex_of_str dg) (digest_str c))
                                      (visible_blobs [] st.c_blobs)) in
        Printf.sprintf "%s %s I=%d" (String.concat "," rs) (match bl with [] -> "-" | l -> String.concat ";" l)
          (List.length (ingest_files st)) in
      let outs = List.sort_uniq compare (List.map show finals) in
      if List.mem observed outs then Printf.printf "%s MEMBER\n" id
      else Printf.printf "%s NOT-REACHABLE observed={%s} model={%s}\n" id observed (String.concat " | " outs)
    | id :: "CC" :: hs :: kind :: n :: rest
      when (kind = "mem" || (String.length kind > 3 && String.sub kind 0 3 = "lim")) && int_of_string n <= 3 && List.mem "OBS" rest ->
      (* races on one cas.Memory (directly or through LimitedStorage): outcome membership *)
      let h = mk_h (parse_hashes hs) in
      let n = int_of_string n in
      let lim = if kind = "mem" then None else Some (z_of_int (int_of_string (String.sub kind 3 (String.length kind - 3)))) in
      let rec threads i rest acc =
        if i = 0 then (List.rev acc, rest) else
        match rest with
        | _ :: mt :: dg :: sz :: comb :: sc :: rest' ->
          let d = { d_mt = str_of_hex mt; d_dg = str_of_hex dg; d_sz = z_of_int (int_of_string sz) } in
          let evs = parse_script sc in
          threads (i - 1) rest' ({ m_d = d; m_evs = evs; m_comb = (comb = "1"); m_fuel = fuel_of evs; m_lim = lim; m_pc = MStart } :: acc)
        | _ -> failwith "bad CC case" in
      let (ts, rest') = threads n rest [] in
      let observed = match rest' with "OBS" :: o -> String.concat " " o | _ -> failwith "bad CC obs" in
      let finals = explore_m h (nat_of_int (3 * n + 2)) { ms_mem = []; ms_thr = ts } in
      let show st =
        let rs = List.map (fun r -> match r with Some r -> res_name r | None -> "RUNNING") (mthread_results st) in
        let bl = List.sort compare (List.map (fun (d, c) ->
            Printf.sprintf "%s/%s/%d/%s" (hex_of_str d.d_mt) (hex_of_str d.d_dg) (int_of_z d.d_sz) (digest_str c)) st.ms_mem) in
        Printf.sprintf "%s %s I=-1" (String.concat "," rs) (match bl with [] -> "-" | l -> String.concat ";" l) in
      let outs = List.sort_uniq compare (List.map show finals) in
      if List.mem observed outs then Printf.printf "%s MEMBER\n" id
      else Printf.printf "%s NOT-REACHABLE observed={%s} model={%s}\n" id observed (String.concat " | " outs)
    | id :: "CC" :: hs :: "file" :: n :: rest when int_of_string n <= 3 && List.mem "OBS" rest ->
      (* races of named pushes on one file.Store: outcome membership *)
      let h = mk_h (parse_hashes hs) in
      let n = int_of_string n in
      let rec threads i rest acc =
        if i = 0 then (List.rev acc, rest) else
        match rest with
        | name :: mt :: dg :: sz :: comb :: sc :: rest' ->
          let nm = match String.index_opt name ':' with
            | Some j -> str_of_hex (String.sub name 0 j) | None -> str_of_hex name in
          let d = { d_mt = str_of_hex mt; d_dg = str_of_hex dg; d_sz = z_of_int (int_of_string sz) } in
          let evs = parse_script sc in
          threads (i - 1) rest' ({ ft_name = nm; ft_d = d; ft_evs = evs; ft_comb = (comb = "1"); ft_fuel = fuel_of evs; ft_pc = FStart } :: acc)
        | _ -> failwith "bad CC case" in
      let (ts, rest') = threads n rest [] in
      let observed = match rest' with "OBS" :: o -> String.concat " " o | _ -> failwith "bad CC obs" in
      let finals = explore_f h (nat_of_int (3 * n + 2))
          { fc_st = { f_files = []; f_names = []; f_d2p = []; f_fb = [] }; fc_thr = ts } in
      let show st =
        let rs = List.map (fun r -> match r with Some r -> res_name r | None -> "RUNNING") (fthread_results st) in
        let bl = List.sort compare (List.map (fun (p, c) -> Printf.sprintf "%s/%s" (hex_of_str p) (digest_str c)) st.fc_st.f_files) in
        Printf.sprintf "%s %s I=-1" (String.concat "," rs) (match bl with [] -> "-" | l -> String.concat ";" l) in
      let outs = List.sort_uniq compare (List.map show finals) in
      if List.mem observed outs then Printf.printf "%s MEMBER\n" id
      else Printf.printf "%s NOT-REACHABLE observed={%s} model={%s}\n" id observed (String.concat " | " outs)
    | id :: ("CC" | "PX" | "HUGE" | "SX") :: _ -> Printf.printf "%s UNJUDGED\n" id
    | [] -> ()
    | _ -> Printf.printf "BADLINE %s\n" l)
