(* C12 model runner: one case per line on stdin, one result per line on stdout.
   <id> T <repro> <prefix> <tree>                      tar entry list of Store.Add(dir)
   <id> X <umask> <preserve> <prefix> <tree>           listing restored by pushDir
   <id> P <repro> <prefix> <tree> | <tree>             are the two descriptors equal
   <id> M <forceCAS> <ignoreNoName> <pushed> <layers>  names existing after the copy
   <id> U <umask> <preserve> <ck> <dok> <sok> <prefix> <tree>   Push verdict under an altered descriptor
   <id> F <umask> <prefix> <hex>                        a plain file pushed under its own descriptor
   <id> E <umask> <preserve> <prefix> <n> (<name> <f|d|l> <mode> <payload>)*   an explicit entry list extracted
   prefix = hex components joined by '/', tree = D mode mtime n (name tree)* | F mode mtime hex | L mtime hex
   a trailing token starting with '#' (the scenario, for replays) is ignored. *)
let comps (s : string) : n list list =
  List.map str_of_hex (List.filter (fun x -> x <> "") (String.split_on_char '/' s))

let rec parse_tree (toks : string list) : tree * string list =
  match toks with
  | "F" :: m :: t :: h :: rest -> (File (str_of_hex h, n_of_int (int_of_string m), n_of_int (int_of_string t)), rest)
  | "L" :: t :: h :: rest -> (Link (str_of_hex h, n_of_int (int_of_string t)), rest)
  | "D" :: m :: t :: k :: rest ->
    let k = int_of_string k in
    let rec kids i toks acc =
      if i = 0 then (List.rev acc, toks)
      else match toks with
        | nm :: toks' ->
          let (c, toks'') = parse_tree toks' in
          kids (i - 1) toks'' ((str_of_hex nm, c) :: acc)
        | [] -> failwith "tree: missing child" in
    let (ch, rest') = kids k rest [] in
    (Dir (n_of_int (int_of_string m), n_of_int (int_of_string t), ch), rest')
  | _ -> failwith "tree: bad token"

let path_str (p : n list list) : string =
  match p with
  | [] -> "."
  | _ -> String.concat "/" (List.map hex_of_str p)

let show_entry (e : entry) : string =
  let (typ, payload) = match e.e_kind with
    | EReg c -> ("f", hex_of_str c)
    | EDir -> ("d", "-")
    | ELnk t -> ("l", hex_of_str t) in
  Printf.sprintf "%s:%s:%o:%d:%s:ids0" (path_str e.e_name) typ (int_of_n e.e_mode) (int_of_n e.e_mtime) payload

let show_fs (f : (n list list * node) list) : string =
  let paths = List.sort_uniq compare (List.map (fun (p, _) -> path_str p) f) in
  let tbl = Hashtbl.create 64 in
  List.iter (fun (p, _) -> Hashtbl.replace tbl (path_str p) p) f;
  let line ps =
    let p = Hashtbl.find tbl ps in
    match fs_lookup f p with
    | Some (NFile (c, m)) -> Printf.sprintf "%s:f:%o:%s" ps (int_of_n m) (hex_of_str c)
    | Some (NDir m) -> Printf.sprintf "%s:d:%o:-" ps (int_of_n m)
    | Some (NLink t) -> Printf.sprintf "%s:l:-:%s" ps (hex_of_str t)
    | None -> ps ^ ":?" in
  String.concat "," (List.sort compare (List.map line paths))

let show_err (e : xerr) : string =
  match e with
  | XOutside -> "ERR outside"
  | XDigest -> "ERR digest"
  | XAbsLink | XWriteThrough -> "UNJUDGED"
  | _ -> "ERR reject"

let pairs (s : string) : (n list * nat) list =
  if s = "-" || s = "" then [] else
  List.map (fun x ->
    match String.split_on_char ':' x with
    | [nm; id] -> (str_of_hex nm, nat_of_int (int_of_string id))
    | _ -> failwith "pair") (String.split_on_char ',' s)

let strip_tail (toks : string list) : string list =
  List.filter (fun t -> String.length t = 0 || t.[0] <> '#') toks

let () =
  iter_lines (fun l ->
    match strip_tail (split_ws l) with
    | id :: "T" :: repro :: pre :: toks ->
      let (t, _) = parse_tree toks in
      let es = tar_entries (comps pre) (repro = "1") t in
      Printf.printf "%s ENT %s\n" id (String.concat "," (List.map show_entry es))
    | id :: "XG" :: umask :: preserve :: pre :: toks ->
      (* the base directory is set-group-ID (destination working directory setgid) *)
      let (t, _) = parse_tree toks in
      let es = tar_entries (comps pre) false t in
      let um = n_of_int (int_of_string umask) in
      let hyp = if is_dir t && wf_treeb t && modes_okb t && benign_tree (comps pre) t then "B1" else "B0" in
      let f0 = fs_init_sg um sgid in
      (match extract_list_partial true (comps pre) um (preserve = "1") f0 es with
       | (f, None) -> Printf.printf "%s %s OK %s\n" id hyp (show_fs (finish_dirs (comps pre) (preserve = "1") es f))
       | (_, Some (XAbsLink | XWriteThrough)) -> Printf.printf "%s UNJUDGED\n" id
       | (_, Some e) -> Printf.printf "%s %s %s\n" id hyp (show_err e))
    | id :: (("X" | "XU") as k) :: umask :: preserve :: pre :: toks ->
      let (t, _) = parse_tree toks in
      let es = tar_entries (comps pre) false t in
      (* B1 = the hypotheses of the round-trip theorems hold for this tree *)
      let hyp = if is_dir t && wf_treeb t && modes_okb t && benign_tree (comps pre) t then "B1" else "B0" in
      (match extract_p (k = "X") (comps pre) (n_of_int (int_of_string umask)) (preserve = "1") es with
       | Ok f -> Printf.printf "%s %s OK %s\n" id hyp (show_fs f)
       | Err (XAbsLink | XWriteThrough) -> Printf.printf "%s UNJUDGED\n" id
       | Err e -> Printf.printf "%s %s %s\n" id hyp (show_err e))
    | [id; "F"; umask; pre; h] ->
      let c = str_of_hex h in
      let hh (s : n list) = s in
      let d = file_descriptor hh (comps pre) c in
      (match push_file hh (fun a b -> a = b) (n_of_int (int_of_string umask)) d c with
       | Ok (NFile (c', m)) -> Printf.printf "%s FILE %o %s\n" id (int_of_n m) (hex_of_str c')
       | _ -> Printf.printf "%s ERR\n" id)
    | id :: "P" :: repro :: pre :: toks ->
      let (ta, rest) = parse_tree toks in
      (match rest with
       | "|" :: rest' ->
         let (tb, _) = parse_tree rest' in
         let r = (repro = "1") in
         let eq = (tar_entries (comps pre) r ta = tar_entries (comps pre) r tb) in
         Printf.printf "%s %s\n" id (if eq then "EQ" else "NE")
       | _ -> Printf.printf "BADLINE %s\n" l)
    | id :: (("E" | "EU") as k) :: umask :: preserve :: pre :: n :: toks ->
      let rec ents k toks acc =
        if k = 0 then List.rev acc else
        match toks with
        | nm :: typ :: mode :: payload :: rest ->
          let kind = match typ with
            | "f" -> EReg (str_of_hex payload)
            | "d" -> EDir
            | _ -> ELnk (str_of_hex payload) in
          ents (k - 1) rest ({ e_name = comps nm; e_kind = kind; e_mode = n_of_int (int_of_string mode); e_mtime = n_of_int 0 } :: acc)
        | _ -> failwith "entries" in
      let es = ents (int_of_string n) toks [] in
      (match extract_partial (k = "E") (comps pre) (n_of_int (int_of_string umask)) (preserve = "1") es with
       | (f, None) when k = "EU" ->
         (* the unprivileged owner: restoreDirModes in its real order, every chmod checked *)
         (match extract_po false (comps pre) (n_of_int (int_of_string umask)) (preserve = "1") es with
          | Ok f' -> Printf.printf "%s OK %s\n" id (show_fs f')
          | Err e -> Printf.printf "%s %s RES %s\n" id (show_err e) (show_fs f))
       | (f, None) -> Printf.printf "%s OK %s\n" id (show_fs f)
       | (_, Some (XAbsLink | XWriteThrough)) -> Printf.printf "%s UNJUDGED\n" id
       | (f, Some e) -> Printf.printf "%s %s RES %s\n" id (show_err e) (show_fs f))
    | [id; "M"; fc; inn; pushed; layers] ->
      let s = copy_into (fc = "1") (inn = "1") (pairs pushed) (pairs layers) in
      let names = List.sort compare (List.map (fun (nm, d) -> Printf.sprintf "%s:%d" (hex_of_str nm) (int_of_nat d)) s.s_names) in
      Printf.printf "%s NAMES %s\n" id (String.concat "," names)
    | id :: (("U" | "UU") as k) :: umask :: preserve :: ck :: dok :: sok :: pre :: toks ->
      let (t, _) = parse_tree toks in
      let blob = [n_of_int 0] and tarb = [n_of_int 1] in
      let h s = if s = blob then 10 else 20 in
      let d = { d_digest = (if dok = "1" then 10 else 11);
                d_size = n_of_int (if sok = "1" then 1 else 2);
                d_title = comps pre; d_unpack = true;
                d_checksum = (match ck with "1" -> Some 20 | "2" -> Some 21 | _ -> None) } in
      let r = unpack h (fun a b -> a = b) (fun _ -> Some (tar_entries (comps pre) false t)) (fun _ -> Some tarb)
                (n_of_int (int_of_string umask)) (preserve = "1") d blob in
      (* UU: pushed by an unprivileged owner -- the extraction inside must also pass the permission check *)
      let r = match r with
        | Ok f when k = "UU" ->
          (match extract_p false (comps pre) (n_of_int (int_of_string umask)) (preserve = "1") (tar_entries (comps pre) false t) with
           | Ok _ -> Ok f
           | Err e -> Err e)
        | _ -> r in
      let um = n_of_int (int_of_string umask) in
      let residue =
        if k = "U" then
          unpack_residue h (fun a b -> a = b) (fun _ -> Some (tar_entries (comps pre) false t)) (fun _ -> Some tarb) um (preserve = "1") d blob
        else if dok = "1" && sok = "1" then
          fst (extract_partial false (comps pre) um (preserve = "1") (tar_entries (comps pre) false t))
        else fs_init um in
      (match r with
       | Ok _ -> Printf.printf "%s OK RES %s\n" id (show_fs residue)
       | Err (XAbsLink | XWriteThrough) -> Printf.printf "%s UNJUDGED\n" id
       | Err _ -> Printf.printf "%s ERR RES %s\n" id (show_fs residue))
    | [] -> ()
    | _ -> Printf.printf "BADLINE %s\n" l)
