(* C13 model runner: one case per line on stdin, one observable line per case on stdout.

   History case:
     <id> H <main> <other> <prof:5 bits> <plainhttp:0|1> <rst:0|1|2> <nmts> <mt>* <K> <npool> (<bytes> <digest> <subj>)*
          <nother> <poolidx>* <nops> <op>*
       K    = "-" | <k> <field> [<hexarg>]
       subj = "N" (not JSON) | "-" (no subject) | <mt>/<dg>/<sz>
       op   = push D <ci> | fetch D | exists D | delete D | resolve <s> | fetchref <s> | tag D <s>
            | pushref D <ci> <s> | mount D <ci|-> | preds D | bresolve <s> | bfetchref <s>
       D    = <mt> <dg> <sz>
   Seek case:
     <id> S <content> <prof:5 bits> <via:0 Fetch|1 blob FetchReference> <K: - | j field [arg]> <nmodes> (<chunk> <eof-with-data:0|1>)* <nops> (r <n> | s <off> <0|1|2> | c)*
       (the i-th response body behaves as mode i mod nmodes; r = ONE Read call with a buffer of n bytes)
   Request-grammar case (the formal [allowed] against the harness's endpoint table):
     <id> A <METHOD> <repo> <epkind> <arg> <digest> <mountd> <from> <ctype> <clen> <ra> <rb> <body>
   Upload location case (Model/Location.v):
     <id> U <scheme> <host> <port> <Location header> <digest>     -> url:<PUT url> | UNJUDGED
   All strings hex encoded, "-" = empty. *)

let z_of_int (i : int) : z =
  if i = 0 then Z0 else if i > 0 then Zpos (pos_of_int i) else Zneg (pos_of_int (-i))

(* decimal string (possibly beyond OCaml's int) -> Coq Z, digit by digit *)
let z_of_string (s : string) : z =
  let neg = String.length s > 0 && s.[0] = '-' in
  let ds = if neg then String.sub s 1 (String.length s - 1) else s in
  let ten = z_of_int 10 in
  let acc = ref Z0 in
  String.iter (fun ch -> acc := Z.add (Z.mul !acc ten) (z_of_int (Char.code ch - 48))) ds;
  if neg then Z.opp !acc else !acc

(* SHA-256 (the harness's hash function), so that the model can hash bodies it builds itself
   (referrers indexes) and not only the bytes of the case's pool *)
let sha256_hex (bytes : int list) : string =
  let k = [|
    0x428a2f98l;0x71374491l;0xb5c0fbcfl;0xe9b5dba5l;0x3956c25bl;0x59f111f1l;0x923f82a4l;0xab1c5ed5l;
    0xd807aa98l;0x12835b01l;0x243185bel;0x550c7dc3l;0x72be5d74l;0x80deb1fel;0x9bdc06a7l;0xc19bf174l;
    0xe49b69c1l;0xefbe4786l;0x0fc19dc6l;0x240ca1ccl;0x2de92c6fl;0x4a7484aal;0x5cb0a9dcl;0x76f988dal;
    0x983e5152l;0xa831c66dl;0xb00327c8l;0xbf597fc7l;0xc6e00bf3l;0xd5a79147l;0x06ca6351l;0x14292967l;
    0x27b70a85l;0x2e1b2138l;0x4d2c6dfcl;0x53380d13l;0x650a7354l;0x766a0abbl;0x81c2c92el;0x92722c85l;
    0xa2bfe8a1l;0xa81a664bl;0xc24b8b70l;0xc76c51a3l;0xd192e819l;0xd6990624l;0xf40e3585l;0x106aa070l;
    0x19a4c116l;0x1e376c08l;0x2748774cl;0x34b0bcb5l;0x391c0cb3l;0x4ed8aa4al;0x5b9cca4fl;0x682e6ff3l;
    0x748f82eel;0x78a5636fl;0x84c87814l;0x8cc70208l;0x90befffal;0xa4506cebl;0xbef9a3f7l;0xc67178f2l |] in
  let ( +% ) = Int32.add and ( ^% ) = Int32.logxor and ( &% ) = Int32.logand in
  let rotr x n = Int32.logor (Int32.shift_right_logical x n) (Int32.shift_left x (32 - n)) in
  let len = List.length bytes in
  let padlen = let r = (len + 9) mod 64 in if r = 0 then 0 else 64 - r in
  let total = len + 9 + padlen in
  let msg = Bytes.make total '\000' in
  List.iteri (fun i c -> Bytes.set msg i (Char.chr c)) bytes;
  Bytes.set msg len '\128';
  let bits = len * 8 in
  for i = 0 to 7 do
    Bytes.set msg (total - 1 - i) (Char.chr ((bits lsr (8 * i)) land 255))
  done;
  let h = [| 0x6a09e667l;0xbb67ae85l;0x3c6ef372l;0xa54ff53al;0x510e527fl;0x9b05688cl;0x1f83d9abl;0x5be0cd19l |] in
  let w = Array.make 64 0l in
  for blk = 0 to total / 64 - 1 do
    for t = 0 to 15 do
      let b i = Int32.of_int (Char.code (Bytes.get msg (blk * 64 + t * 4 + i))) in
      w.(t) <- Int32.logor (Int32.shift_left (b 0) 24) (Int32.logor (Int32.shift_left (b 1) 16) (Int32.logor (Int32.shift_left (b 2) 8) (b 3)))
    done;
    for t = 16 to 63 do
      let s0 = rotr w.(t-15) 7 ^% rotr w.(t-15) 18 ^% Int32.shift_right_logical w.(t-15) 3 in
      let s1 = rotr w.(t-2) 17 ^% rotr w.(t-2) 19 ^% Int32.shift_right_logical w.(t-2) 10 in
      w.(t) <- w.(t-16) +% s0 +% w.(t-7) +% s1
    done;
    let a = ref h.(0) and b = ref h.(1) and c = ref h.(2) and d = ref h.(3)
    and e = ref h.(4) and f = ref h.(5) and g = ref h.(6) and hh = ref h.(7) in
    for t = 0 to 63 do
      let s1 = rotr !e 6 ^% rotr !e 11 ^% rotr !e 25 in
      let ch = (!e &% !f) ^% (Int32.lognot !e &% !g) in
      let t1 = !hh +% s1 +% ch +% k.(t) +% w.(t) in
      let s0 = rotr !a 2 ^% rotr !a 13 ^% rotr !a 22 in
      let maj = (!a &% !b) ^% (!a &% !c) ^% (!b &% !c) in
      let t2 = s0 +% maj in
      hh := !g; g := !f; f := !e; e := !d +% t1; d := !c; c := !b; b := !a; a := t1 +% t2
    done;
    h.(0) <- h.(0) +% !a; h.(1) <- h.(1) +% !b; h.(2) <- h.(2) +% !c; h.(3) <- h.(3) +% !d;
    h.(4) <- h.(4) +% !e; h.(5) <- h.(5) +% !f; h.(6) <- h.(6) +% !g; h.(7) <- h.(7) +% !hh
  done;
  String.concat "" (Array.to_list (Array.map (fun x -> Printf.sprintf "%08lx" x) h))

let hx = hex_of_str
(* decimal printing of N without going through OCaml's 63-bit int *)
let dec_double_plus (s : string) (carry0 : int) : string =
  let b = Bytes.of_string s in
  let carry = ref carry0 in
  for i = Bytes.length b - 1 downto 0 do
    let v = (Char.code (Bytes.get b i) - 48) * 2 + !carry in
    Bytes.set b i (Char.chr (48 + v mod 10)); carry := v / 10
  done;
  (if !carry > 0 then string_of_int !carry else "") ^ Bytes.to_string b
let rec dec_of_pos (p : positive) : string =
  match p with
  | XH -> "1"
  | XO q -> dec_double_plus (dec_of_pos q) 0
  | XI q -> dec_double_plus (dec_of_pos q) 1
let show_n x = match x with N0 -> "0" | Npos p -> dec_of_pos p
let show_opt f o = match o with Some x -> f x | None -> "-"
let show_ostr o = match o with Some [] -> "-" | Some s -> hx s | None -> "-"

let show_desc d = Printf.sprintf "%s/%s/%s" (hx d.d_mt) (hx d.d_dg) (show_n d.d_sz)
let show_ep e = match e with
  | EBlob d -> "blob:" ^ hx d
  | EManifest r -> "man:" ^ hx r
  | EUploads -> "up"
  | ESession i -> "sess:" ^ show_n i
  | EReferrers d -> "refs:" ^ hx d
let show_meth m = match m with GET -> "GET" | HEAD -> "HEAD" | PUT -> "PUT" | POST -> "POST" | DELETE -> "DELETE"

(* how requests are turned into URLs in the current case: PlainHTTP, registry host, ReferrerListPageSize;
   printed as the first 12 hex digits of the SHA-256 of the URL *)
let url_ctx : (bool * str * n) ref = ref (false, [], N0)
let url_tag q =
  let (plain, host, rp) = !url_ctx in
  String.sub (sha256_hex (List.map int_of_n (request_url plain host rp q))) 0 12

let show_req q =
  Printf.sprintf "%s,%s,%s,u=%s,dg=%s,mt=%s,ac=%s,ct=%s,cl=%s,rg=%s,b=%s"
    (show_meth q.q_m) (hx q.q_repo) (show_ep q.q_ep) (url_tag q) (show_ostr q.q_digest)
    (show_opt (fun (d, f) -> hx d ^ "+" ^ hx f) q.q_mount)
    (show_ostr q.q_accept) (show_ostr q.q_ctype) (show_opt show_n q.q_clen)
    (show_opt (fun (a, b) -> show_n a ^ "-" ^ show_n b) q.q_range) (hx q.q_body)

let show_descs l =
  match l with
  | [] -> "-"
  | _ -> String.concat "+" (List.sort compare (List.map show_desc l))

let show_resp r =
  let err = int_of_n r.r_status >= 400 in
  Printf.sprintf "%s,ct=%s,cl=%s,dg=%s,loc=%s,ar=%s,sj=%s,rf=%s,b=%s"
    (show_n r.r_status) (show_ostr r.r_ctype)
    (if err then "-" else show_opt show_n r.r_clen) (show_ostr r.r_dig)
    (show_opt (fun (rp, e) -> hx rp ^ "+" ^ show_ep e) r.r_loc)
    (if r.r_ar then "1" else "0") (show_ostr r.r_subj) (show_descs r.r_refs)
    (* of an error response only the error code NAME_UNKNOWN is observable *)
    (if err && r.r_body <> name_unknown then "-" else hx r.r_body)

exception Unjudged

let show_result r = match r with
  | ROk -> "ok"
  | RBool x -> if x then "bool:1" else "bool:0"
  | RDesc d -> "desc:" ^ show_desc d
  | RBytes c -> "bytes:" ^ hx c
  | RDescBytes (d, c) -> "db:" ^ show_desc d ^ "," ^ hx c
  | RDescs l -> "descs:" ^ show_descs l
  | RErr ENotFound -> "err:nf"
  | RErr EInvalidRef -> "err:ref"
  | RErr EOther -> "err:other"
  | RErr EUnmodelled -> raise Unjudged

let parse_desc3 a b c = { d_mt = str_of_hex a; d_dg = str_of_hex b; d_sz = n_of_int (int_of_string c) }
let parse_desc_slash s =
  match String.split_on_char '/' s with
  | [a; b; c] -> parse_desc3 a b c
  | _ -> failwith "desc"

let garbage = str_of_hex "67617262616765" (* "garbage" *)
let rec is_prefix p s = match p, s with
  | [], _ -> true
  | x :: p', y :: s' -> x = y && is_prefix p' s'
  | _, [] -> false
let parse_mt (s : str) : str option =
  if s = [] || is_prefix garbage s then None else Some s

let parse_corruption next f =
  match f with
  | "dig-other" -> KDigOther (str_of_hex (next ()))
  | "dig-garbage" -> KDigGarbage
  | "dig-drop" -> KDigDrop
  | "len-inc" -> KLenInc
  | "len-drop" -> KLenDrop
  | "type-other" -> KTypeOther
  | "type-garbage" -> KTypeGarbage
  | "type-drop" -> KTypeDrop
  | "status" -> KStatus (n_of_int (int_of_string (next ())))
  | "loc-drop" -> KLocDrop
  | "name-unknown" -> KNameUnknown
  | _ -> failwith "corruption"

let history toks =
  let t = ref toks in
  let next () = match !t with x :: r -> t := r; x | [] -> failwith "eol" in
  let nexti () = int_of_string (next ()) in
  let main = str_of_hex (next ()) in
  let other = str_of_hex (next ()) in
  let pb = next () in
  let bit i = pb.[i] = '1' in
  let p = { p_dighdr = bit 0; p_range = bit 1; p_clen = bit 2; p_mount = bit 3; p_referrers = bit 4 } in
  let plain = next () in
  (* options token: <plain bit>g.w.r.t.m<MaxMetadataBytes>; only the limit matters to the model *)
  let maxmeta =
    match String.rindex_opt plain 'm' with
    | Some i -> (try int_of_string (String.sub plain (i + 1) (String.length plain - i - 1)) with _ -> 0)
    | None -> 0 in
  let limit = eff_limit (n_of_int maxmeta) in
  let skip_gc = String.length plain > 2 && plain.[1] = 'g' && plain.[2] = '1' in
  let ref_page =
    (* ...r<ReferrerListPageSize>t... *)
    match String.index_opt plain 'r', String.index_opt plain 't' with
    | Some i, Some j when j > i -> (try int_of_string (String.sub plain (i + 1) (j - i - 1)) with _ -> 0)
    | _ -> 0 in
  url_ctx := (String.length plain > 0 && plain.[0] = '1', str_of_hex "72656769737472792e6578616d706c65", n_of_int ref_page);
  let rst = match nexti () with 0 -> RSUnknown | 1 -> RSSupported | _ -> RSUnsupported in
  let nm = nexti () in
  let mts = List.init nm (fun _ -> str_of_hex (next ())) in
  let kor =
    match next () with
    | "-" -> None
    | k ->
      let k = n_of_int (int_of_string k) in
      let c = parse_corruption next (next ()) in
      Some (k, c) in
  let np = nexti () in
  let pool = Array.init np (fun _ ->
    let c = str_of_hex (next ()) in
    let d = str_of_hex (next ()) in
    let sj = match next () with
      | "N" -> None
      | "-" -> Some None
      | s -> Some (Some (parse_desc_slash s)) in
    (c, d, sj)) in
  (* H = SHA-256 (checked against the digests the harness put into the pool) *)
  let str_of_string (s : string) : str = List.init (String.length s) (fun i -> n_of_int (Char.code s.[i])) in
  let h (c : str) : str = str_of_string ("sha256:" ^ sha256_hex (List.map int_of_n c)) in
  Array.iter (fun (c', d, _) -> if h c' <> d then failwith "sha256 of a pool item differs") pool;
  (* index_of: the referrers indexes the model itself generated (gen_index), otherwise the JSON
     view of the pool (a decodable manifest without "manifests" decodes to the empty list) *)
  let string_of_str (c : str) : string =
    let b = Buffer.create 64 in List.iter (fun x -> Buffer.add_char b (Char.chr (int_of_n x))) c; Buffer.contents b in
  let index_prefix = "{\"schemaVersion\":2,\"mediaType\":\"application/vnd.oci.image.index.v1+json\",\"manifests\":[" in
  let entry_re = Str.regexp "{\"mediaType\":\"\\([^\"]*\\)\",\"digest\":\"\\([^\"]*\\)\",\"size\":\\([0-9]+\\)}" in
  let index_of (c : str) : desc list option =
    let txt = string_of_str c in
    let pl = String.length index_prefix in
    if String.length txt >= pl && String.sub txt 0 pl = index_prefix then begin
      let out = ref [] and pos = ref pl in
      (try
        while true do
          let _ = Str.search_forward entry_re txt !pos in
          out := { d_mt = str_of_string (Str.matched_group 1 txt); d_dg = str_of_string (Str.matched_group 2 txt);
                   d_sz = n_of_int (int_of_string (Str.matched_group 3 txt)) } :: !out;
          pos := Str.match_end ()
        done
      with Not_found -> ());
      Some (List.rev !out)
    end else
      let r = ref (Some []) in
      Array.iter (fun (c', _, sj) -> if c' = c then r := (match sj with None -> None | Some _ -> Some [])) pool; !r in
  let subject_of (c : str) =
    let r = ref (Some None) in
    Array.iter (fun (c', _, sj) -> if c' = c then r := sj) pool; !r in
  let no = nexti () in
  let other_blobs = List.init no (fun _ -> let (c, d, _) = pool.(nexti ()) in (d, c)) in
  let nops = nexti () in
  let d3 () = let a = next () in let b = next () in let c = next () in parse_desc3 a b c in
  let content () = let (c, _, _) = pool.(nexti ()) in c in
  let ops = List.init nops (fun _ ->
    match next () with
    | "push" -> let d = d3 () in OPush (d, content ())
    | "fetch" -> OFetch (d3 ())
    | "exists" -> OExists (d3 ())
    | "delete" -> ODelete (d3 ())
    | "resolve" -> OResolve (str_of_hex (next ()))
    | "fetchref" -> OFetchRef (str_of_hex (next ()))
    | "tag" -> let d = d3 () in OTag (d, str_of_hex (next ()))
    | "pushref" -> let d = d3 () in let c = content () in OPushRef (d, c, str_of_hex (next ()))
    | "mount" -> let d = d3 () in
      (match next () with
       | "-" -> OMount (d, None)
       | i -> let (c, _, _) = pool.(int_of_string i) in OMount (d, Some c))
    | "preds" -> OPreds (d3 ())
    | "bresolve" -> OBlobResolve (str_of_hex (next ()))
    | "bfetchref" -> OBlobFetchRef (str_of_hex (next ()))
    | x -> failwith ("op " ^ x)) in
  let (_, out) = run_history h parse_mt subject_of main other mts limit skip_gc index_of p kor other_blobs rst ops in
  let bad = ref 0 in
  let parts = List.map (fun (tr, res) ->
    let rs = show_result res in
    List.iter (fun (q, _) -> if not (allowed q) then incr bad) tr;
    rs ^ " " ^ (match tr with
                | [] -> "-"
                | _ -> String.concat ";" (List.map (fun (q, r) -> show_req q ^ ">" ^ show_resp r) tr))) out in
  Printf.sprintf "notallowed=%d | %s" !bad (String.concat " | " parts)

let seek toks =
  match toks with
  | c :: pb :: _via :: rest ->
    let content = str_of_hex c in
    let bit i = pb.[i] = '1' in
    let p = { p_dighdr = bit 0; p_range = bit 1; p_clen = bit 2; p_mount = bit 3; p_referrers = bit 4 } in
    let ranged = p.p_range in
    let t = ref rest in
    let next () = match !t with x :: r -> t := r; x | [] -> failwith "eol" in
    (* K = "-" | <j> <field> [arg]: the answer to the j-th Range request is corrupted *)
    let kor = match next () with
      | "-" -> None
      | j -> let f = next () in Some (nat_of_int (int_of_string j), parse_corruption next f) in
    let nm = int_of_string (next ()) in
    let ms = Array.init nm (fun _ ->
      let ch = n_of_int (int_of_string (next ())) in
      let e = next () = "1" in { bm_chunk = ch; bm_eofd = e }) in
    let modes (i : nat) = if nm = 0 then { bm_chunk = N0; bm_eofd = false } else ms.(int_of_nat i mod nm) in
    let n = int_of_string (next ()) in
    let ops = List.init n (fun _ ->
      match next () with
      | "r" -> SRead (n_of_int (int_of_string (next ())))
      | "s" -> let off = z_of_string (next ()) in
        let w = match next () with "0" -> SeekStart | "1" -> SeekCurrent | _ -> SeekEnd in
        SSeek (off, w)
      | _ -> SClose) in
    (* without range support the client returns the plain body: only the reads of the script run *)
    let ops = if ranged then ops else List.filter (fun o -> match o with SRead _ -> true | _ -> false) ops in
    (* the reader's size is the size of the descriptor: Fetch's argument, or the one blob
       FetchReference derives (RemoteRefine.blob_fetchref_hit: len content in every profile);
       the digest in the Range request's URL plays no role in the answers *)
    let out = rsc_run modes (range_srv p [] content kor) (rsc_open content (n_of_int (List.length content))) ops in
    String.concat " | " ((if ranged then "seeker" else "noseeker") :: List.map (fun (rq, o) ->
      (match rq with
       | [] -> "-"
       | _ -> String.concat "+" (List.map (fun (a, b) -> show_n a ^ "-" ^ show_n b) rq))
      ^ ":" ^
      (match o with
       | SData (c, e) -> "data:" ^ hx c ^ (if e then ":eof" else ":more")
       | SPos n -> "pos:" ^ show_n n
       | SErr -> "err"
       | SClosed -> "closed")) out)
  | _ -> failwith "seek"

(* A <METHOD> <repo> <epkind> <arg> <digest|-> <mountd|-> <from|-> <ctype|-> <clen|-> <ra|-> <rb|-> <body>
   (absent = "-" for the optional fields; "~" = present but empty string) *)
let grammar toks =
  match toks with
  | [m; repo; ek; arg; dg; md; mf; ct; cl; ra; rb; body] ->
    let opt s = if s = "-" then None else if s = "~" then Some [] else Some (str_of_hex s) in
    let meth = match m with "GET" -> GET | "HEAD" -> HEAD | "PUT" -> PUT | "POST" -> POST | _ -> DELETE in
    let ep = match ek with
      | "blob" -> EBlob (str_of_hex arg)
      | "man" -> EManifest (str_of_hex arg)
      | "up" -> EUploads
      | "sess" -> ESession (n_of_int (int_of_string arg))
      | _ -> EReferrers (str_of_hex arg) in
    let q = { q_m = meth; q_repo = str_of_hex repo; q_ep = ep; q_digest = opt dg;
              q_mount = (if md = "-" then None else Some ((match opt md with Some x -> x | None -> []),
                                                         (match opt mf with Some x -> x | None -> [])));
              q_accept = None; q_ctype = opt ct;
              q_clen = (if cl = "-" then None else Some (n_of_int (int_of_string cl)));
              q_range = (if ra = "-" then None else Some (n_of_int (int_of_string ra), n_of_int (int_of_string rb)));
              q_body = str_of_hex body } in
    if allowed q then "allowed=1" else "allowed=0"
  | _ -> failwith "grammar"

let () =
  iter_lines (fun l ->
    match split_ws l with
    | id :: "H" :: rest ->
      (try Printf.printf "%s %s\n" id (history rest)
       with Unjudged -> Printf.printf "%s UNJUDGED\n" id)
    | id :: "S" :: rest -> Printf.printf "%s %s\n" id (seek rest)
    | id :: "A" :: rest -> Printf.printf "%s %s\n" id (grammar rest)
    | [id; "U"; sch; host; port; loc; dg] ->
      (match put_url_str (str_of_hex sch) (str_of_hex host) (str_of_hex port) (str_of_hex loc) (str_of_hex dg) with
       | Some u -> Printf.printf "%s url:%s\n" id (hex_of_str u)
       | None -> Printf.printf "%s UNJUDGED\n" id)
    | [] -> ()
    | _ -> Printf.printf "BADLINE %s\n" l)
