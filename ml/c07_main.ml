(* C07 model runner.  One case per line:
     <id> <nuniv> <content-table> <ops> <origin>      (origin is ignored)
   content-table:  `n:s,s,s;n:;...` (ordered successor list of every key, `-` = empty table)
   ops (comma separated): I<n> Index, R<n> Remove (danglings printed), D<n> Remove (nothing
   printed), A<n> IndexAll, Q<n> Predecessors, E<n> Exists, +<n>/-<n> Successors(n) starts /
   stops succeeding, Z fresh graph.
   Output: one token per printing op.  Sets are printed sorted, `?` = a key missing from
   Memory.nodes (zero descriptor). *)
let ints_of s = if s = "" then [] else List.map int_of_string (String.split_on_char ',' s)
let show_ints l = String.concat "," (List.map string_of_int (List.sort compare l))
let show_raw (l : n option list) =
  let known = List.filter_map (fun x -> match x with Some k -> Some (int_of_n k) | None -> None) l in
  let unk = List.length l - List.length known in
  String.concat "," (List.map string_of_int (List.sort compare known) @ List.init unk (fun _ -> "?"))
let parse_ct s : (n * n list) list =
  if s = "-" then [] else
  List.filter_map (fun e ->
    if e = "" then None else
    match String.split_on_char ':' e with
    | [k; v] -> Some (n_of_int (int_of_string k), List.map n_of_int (ints_of v))
    | _ -> failwith "ct") (String.split_on_char ';' s)
let parse_op (t : string) : op * bool =
  let arg () = n_of_int (int_of_string (String.sub t 1 (String.length t - 1))) in
  match t.[0] with
  | 'I' -> (OIndex (arg ()), true)
  | 'R' -> (ORemove (arg ()), true)
  | 'D' -> (ORemove (arg ()), false)
  | 'A' -> (OIndexAll (arg ()), true)
  | 'Q' -> (OQuery (arg ()), true)
  | 'E' -> (OExists (arg ()), true)
  | '+' -> (OSok (arg (), true), false)
  | '-' -> (OSok (arg (), false), false)
  | 'Z' -> (OReset, false)
  | _ -> failwith "op"
let show_out (o : out) =
  match o with
  | RNone -> "-" | ROk -> "ok" | RNotFound -> "nf" | RFuel -> "FUEL"
  | RDang d -> "d:" ^ show_ints (List.map int_of_n d)
  | RPreds p -> "p:" ^ show_raw p
  | RBool v -> if v then "t" else "f"

let () =
  iter_lines (fun l ->
    match split_ws l with
    | [id; _; cts; opss; _] ->
      (try
        let ct = parse_ct cts in
        let ops = if opss = "-" then [] else List.map parse_op (String.split_on_char ',' opss) in
        let fuel = nat_of_int 100000 in
        let (s, outs) = run ct fuel init_state (List.map fst ops) in
        let toks = List.concat (List.map2 (fun (_, pr) o -> if pr then [show_out o] else []) ops outs) in
        ignore s;
        Printf.printf "%s %s\n" id (String.concat " " toks)
      with e -> Printf.printf "%s MODELERROR %s\n" id (Printexc.to_string e))
    | [id; "S"; nu; cts; mans; opss; _] ->
      (* store-level model (Model/GraphStore.v, repaired gcIndex):
         P<n> Push, N<n>=<r> Tag n under name r, M<r> Untag name r (T<n>/U<n>: node-level tag / loses its last name), X<n> delete, G<k.k.k> GC keeping the untagged manifests k,
         O reopen, Y0/Y1 AutoSaveIndex off/on, W SaveIndex, K<n> Push of an undecodable manifest, F<r.r> foreign index + reopen, S observe (stored set, what index.json lists / lists under a name, Predecessors of every key), s the same without index.json *)
      (try
        let nu = int_of_string nu in
        let ct = parse_ct cts in
        let mans = if mans = "-" then [] else ints_of mans in
        let isman x = List.mem (int_of_n x) mans in
        let content = ctab ct in
        let fuel = nat_of_int 100000 in
        let ops = if opss = "-" then [] else String.split_on_char ',' opss in
        let st = ref empty_astore in
        let names = ref [] in
        let toks = ref [] in
        let fuel_out = ref false in
        List.iter (fun t ->
          let rest = String.sub t 1 (String.length t - 1) in
          let arg () = n_of_int (int_of_string rest) in
          let applya1 o =
            let (s', ok) = astep content isman fuel !st o in
            st := s'; if not ok then fuel_out := true in
          (* name layer: reference -> node map kept by the model ([ntrans1]) *)
          let applyn o =
            let (names', l) = ntrans1 !names o in
            names := names'; List.iter applya1 l in
          let applya o = applyn (NOp o) in
          let apply o = applya (AOp o) in
          match t.[0] with
          | 'P' -> apply (PPush (arg ()))
          | 'T' -> apply (PTag (arg ()))
          | 'U' -> apply (PUntag (arg ()))
          | 'X' -> apply (PDelete (arg ()))
          | 'G' ->
            let kept = if rest = "" then [] else List.map (fun x -> n_of_int (int_of_string x)) (String.split_on_char '.' rest) in
            apply (PGC kept)
          | 'F' ->
            let roots = if rest = "" then [] else List.map (fun x -> n_of_int (int_of_string x)) (String.split_on_char '.' rest) in
            apply (PForeign roots)
          | 'N' ->
            (match String.split_on_char '=' rest with
             | [a; r] -> applyn (NTag (n_of_int (int_of_string a), n_of_int (int_of_string r)))
             | _ -> failwith "N")
          | 'M' -> applyn (NUntag (n_of_int (int_of_string rest)))
          | 'O' -> apply PReopen
          | 'Y' -> applya (ASetAuto (rest = "1"))
          | 'W' -> applya ASaveIndex
          | 'K' -> applya (ABadPush (arg ()))
          | 'S' | 's' ->
            toks := ("b:" ^ show_ints (List.map int_of_n !st.a_s.o_blobs)) :: !toks;
            if t.[0] = 'S' then begin
              let uniq l = List.sort_uniq compare (List.map int_of_n l) in
              toks := ("i:" ^ show_ints (uniq (!st.a_s.o_dbydigest @ !st.a_s.o_dtagged))) :: !toks;
              toks := ("t:" ^ show_ints (uniq !st.a_s.o_dtagged)) :: !toks
            end;
            for i = 0 to nu - 1 do
              toks := ("p:" ^ show_raw (predecessors_raw !st.a_s.o_graph (n_of_int i))) :: !toks
            done
          | _ -> failwith "sop") ops;
        if !fuel_out then Printf.printf "%s NOTOK\n" id
        else Printf.printf "%s %s\n" id (String.concat " " (List.rev !toks))
      with e -> Printf.printf "%s MODELERROR %s\n" id (Printexc.to_string e))
    | [id; "L"; kind; subj; cfg; layers; mans; blobs; _] ->
      (* content.Successors on a document: kind subject config layers manifests blobs *)
      (try
        let lst s = if s = "-" then [] else List.map (fun x -> n_of_int (int_of_string x)) (String.split_on_char ',' s) in
        let k = match kind with
          | "dockermanifest" -> KDockerManifest | "imagemanifest" -> KImageManifest
          | "dockerlist" -> KDockerList | "imageindex" -> KImageIndex
          | "artifact" -> KArtifact | _ -> KOther in
        let d = { d_kind = k; d_subject = (if subj = "-" then None else Some (n_of_int (int_of_string subj)));
                  d_config = n_of_int (int_of_string cfg); d_layers = lst layers; d_manifests = lst mans; d_blobs = lst blobs } in
        Printf.printf "%s s:%s\n" id (String.concat "," (List.map (fun x -> string_of_int (int_of_n x)) (successors_of d)))
      with e -> Printf.printf "%s MODELERROR %s\n" id (Printexc.to_string e))
    | [] -> ()
    | _ -> Printf.printf "BADLINE %s\n" l)
