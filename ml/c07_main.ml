(* C07 model runner.  One case per line:
     <id> <nuniv> <content-table> <ops> <origin>      (origin is ignored)
   content-table:  `n:s,s,s;n:;...` (ordered successor list of every key, `-` = empty table)
   ops (comma separated): I<n> Index, R<n> Remove (danglings printed), D<n> Remove (nothing
   printed), A<n> IndexAll, Q<n> Predecessors, E<n> Exists, +<n>/-<n> Successors(n) starts /
   stops succeeding, Z fresh graph.
   Output: one token per printing op.  Sets are printed sorted, `?` = a key missing from
   Memory.nodes (zero descriptor). *)
let ints_of s = if s = "" then [] else List.map int_of_string (String.split_on_char ',' s)
let show_ints l = String.concat "," (List.map string_of_int (List.sort compare l))
let show_raw (l : n option list) =
  let known = List.filter_map (fun x -> match x with Some k -> Some (int_of_n k) | None -> None) l in
  let unk = List.length l - List.length known in
  String.concat "," (List.map string_of_int (List.sort compare known) @ List.init unk (fun _ -> "?"))
let parse_ct s : (n * n list) list =
  if s = "-" then [] else
  List.filter_map (fun e ->
    if e = "" then None else
    match String.split_on_char ':' e with
    | [k; v] -> Some (n_of_int (int_of_string k), List.map n_of_int (ints_of v))
    | _ -> failwith "ct") (String.split_on_char ';' s)
let parse_op (t : string) : op * bool =
  let arg () = n_of_int (int_of_string (String.sub t 1 (String.length t - 1))) in
  match t.[0] with
  | 'I' -> (OIndex (arg ()), true)
  | 'R' -> (ORemove (arg ()), true)
  | 'D' -> (ORemove (arg ()), false)
  | 'A' -> (OIndexAll (arg ()), true)
  | 'Q' -> (OQuery (arg ()), true)
  | 'E' -> (OExists (arg ()), true)
  | '+' -> (OSok (arg (), true), false)
  | '-' -> (OSok (arg (), false), false)
  | 'Z' -> (OReset, false)
  | _ -> failwith "op"
let show_out (o : out) =
  match o with
  | RNone -> "-" | ROk -> "ok" | RNotFound -> "nf" | RFuel -> "FUEL"
  | RDang d -> "d:" ^ show_ints (List.map int_of_n d)
  | RPreds p -> "p:" ^ show_raw p
  | RBool v -> if v then "t" else "f"

let () =
  iter_lines (fun l ->
    match split_ws l with
    | [id; _; cts; opss; _] ->
      (try
        let ct = parse_ct cts in
        let ops = if opss = "-" then [] else List.map parse_op (String.split_on_char ',' opss) in
        let fuel = nat_of_int 100000 in
        let (s, outs) = run ct fuel init_state (List.map fst ops) in
        let toks = List.concat (List.map2 (fun (_, pr) o -> if pr then [show_out o] else []) ops outs) in
        ignore s;
        Printf.printf "%s %s\n" id (String.concat " " toks)
      with e -> Printf.printf "%s MODELERROR %s\n" id (Printexc.to_string e))
    | [] -> ()
    | _ -> Printf.printf "BADLINE %s\n" l)
