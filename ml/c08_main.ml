(* C08 model runner.  One history per line:
     <id> H <meta> <autosave> <autogc> <N> <T> <node>*N <op>*   (meta = seed.tier.index, ignored)
   node:  <m|b><d|-><s|-><x|-> ':' <succ,succ,..|-> ':' <subject|->
   op:    P<k> | Q<k>:<x>:<a|-> | T<k>:<x>:<a|->:<t|d|D<j>> | U<t> | V<k> | D<k> | G | S | R | C | I<k> | X<v|i|a|f><id> | A<0|1> | W.. M.. (not judged)
   Output: <id> followed by one token per op: the result, or for C the observation
   of the store and of the store reopened from its directory (printed three times:
   oci.New, NewFromFS, NewFromTar all read the same index.json / blobs). *)
let fix_f2 = true
let fix_a = true
let fix_f1 = true
let fix_hold = true
let fix_ref = true

let ios = int_of_string
let list_of_commas s = if s = "-" then [] else List.map ios (String.split_on_char ',' s)

let show_ref r = match r with RTag t -> "t" ^ string_of_int (int_of_nat t) | RDig k -> "d" ^ string_of_int (int_of_nat k)
let show_desc d =
  Printf.sprintf "%d.%d.%s" (int_of_nat d.d_node) (int_of_nat d.d_extra)
    (match d.d_refann with None -> "-" | Some r -> show_ref r)
let show_result r = match r with
  | ROk -> "ok" | RAlreadyExists -> "exists" | RNotFound -> "notfound"
  | RInvalidReference -> "invalidref" | RHang -> "hang" | ROutOfFuel -> "fuel"
  | RBadContent -> "badcontent"

let () =
  iter_lines (fun l ->
    match split_ws l with
    | id :: "H" :: _meta :: asv :: agc :: ns :: ts :: fs :: rest ->
      let n = ios ns and t = ios ts in
      let froms = list_of_commas fs in
      let ismf = Array.make n false and isd = Array.make n false and issk = Array.make n false and isbad = Array.make n false
      and sc = Array.make n [] and sj = Array.make n None in
      let rec nodes i rest =
        if i = n then rest else
        match rest with
        | tok :: rest' ->
          (match String.split_on_char ':' tok with
           | [fl; su; sb] ->
             ismf.(i) <- fl.[0] = 'm'; isd.(i) <- fl.[1] = 'd'; issk.(i) <- fl.[2] = 's'; isbad.(i) <- (String.length fl > 3 && fl.[3] = 'x');
             sc.(i) <- List.map nat_of_int (list_of_commas su);
             sj.(i) <- (if sb = "-" then None else Some (nat_of_int (ios sb)))
           | _ -> failwith "node");
          nodes (i + 1) rest'
        | [] -> failwith "nodes" in
      let ops = nodes 0 rest in
      let inr k = let i = int_of_nat k in if i < n then Some i else None in
      let mf k = match inr k with Some i -> ismf.(i) | None -> false in
      let dflt k = match inr k with Some i -> isd.(i) | None -> false in
      let bad k = match inr k with Some i -> isbad.(i) | None -> false in
      let sk k = match inr k with Some i -> issk.(i) | None -> false in
      let succs k = match inr k with Some i -> sc.(i) | None -> [] in
      let subj k = match inr k with Some i -> sj.(i) | None -> None in
      let nn = nat_of_int n and tn = nat_of_int t in
      let idnum = (try int_of_string (String.sub id 1 (String.length id - 1)) with _ -> 0) in
      let eval seed0 =
      let strays = ref [] and all_strays = ref [] in
      let cfg = ref { autosave = (asv = "1"); autogc = (agc = "1") } in
      let st = ref store_empty in
      let buf = Buffer.create 256 in
      (* Go's map iteration orders are not controllable: the model is run with
         pseudo-random orders (seeded by the case id); what is compared is independent
         of them (theorems for index.json / reopening; generator restrictions for the
         AutoGC cascade and the referrer pass of GC) *)
      let rs = ref seed0 in
      let rnd () = rs := (!rs * 1103515245 + 12345) land 0x3fffffff; (!rs lsr 8) land 0xffff in
      let rec rlist k = if k = 0 then [] else let x = nat_of_int (rnd () mod 13) in x :: rlist (k - 1) in
      let rec rlists n k = if n = 0 then [] else let x = rlist k in x :: rlists (n - 1) k in
      let rec rpairs n = if n = 0 then [] else let a = rlist 5 in let b = rlist 5 in (a, b) :: rpairs (n - 1) in
      (* evaluation order fixed by the lets: bin/props.d/C08.py replays the same stream *)
      let orders () =
        let a = rlist 10 in let b = rlist 10 in let c = rlist 10 in
        let d = rlists 6 10 in let e = rpairs 8 in
        { o_save1 = a; o_save2 = b; o_gc1 = c; o_gc2 = d; o_del = e } in
      let do_op o =
        let (s', r) = step nn mf succs subj sk bad fix_f2 fix_a fix_f1 fix_hold fix_ref !cfg !st (o, orders ()) in
        st := s'; Buffer.add_string buf (" " ^ show_result r) in
      let obs s =
        let b = Buffer.create 128 in
        let tags = obs_tags tn s in
        Buffer.add_string b "tags=";
        Buffer.add_string b (String.concat "," (List.map (fun x -> string_of_int (int_of_nat x)) tags));
        List.iter (fun f ->
          Buffer.add_string b (Printf.sprintf ";tf%d=%s" f
            (String.concat "," (List.map (fun x -> string_of_int (int_of_nat x)) (obs_tags_from tn (nat_of_int f) s))))) froms;
        List.iter (fun tg ->
          match obs_resolve_tag s tg with
          | Some d -> Buffer.add_string b (Printf.sprintf ";rt%d=%s" (int_of_nat tg) (show_desc d))
          | None -> ()) (List.init t nat_of_int);
        for k = 0 to n - 1 do
          let kk = nat_of_int k in
          let rd = match obs_resolve_dig dflt s kk with
            | DPlain x -> if int_of_nat x = k then "D" else "X"
            | DFull d -> "F" ^ show_desc d
            | DBlob _ -> "B" | DNotFound -> "N" in
          Buffer.add_string b (Printf.sprintf ";k%d=%s,e%d,p%s" k rd
            (if obs_exists s kk then 1 else 0)
            (String.concat "." (List.map (fun x -> string_of_int (int_of_nat x)) (obs_preds nn succs s kk))))
        done;
        Buffer.contents b in
      (* the store operation of a token (those that may occur in a concurrent batch) *)
      let op_of_tok tok =
        let arg = String.sub tok 1 (String.length tok - 1) in
        match tok.[0] with
        | 'P' -> OPush (nat_of_int (ios arg))
        | 'Q' ->
          (match String.split_on_char ':' arg with
           | [k; x; a] ->
             let x = if x = "6" then "0" else x in
             OPushX { d_node = nat_of_int (ios k); d_extra = nat_of_int (ios x);
                      d_refann = (if a = "-" then None else Some (RTag (nat_of_int (ios a)))) }
           | _ -> failwith "push op")
        | 'T' ->
          (match String.split_on_char ':' arg with
           | [k; x; a; r] ->
             let x = if x = "6" then "0" else x in
             let d = { d_node = nat_of_int (ios k); d_extra = nat_of_int (ios x);
                       d_refann = (if a = "-" then None else Some (RTag (nat_of_int (ios a)))) } in
             let rf = if r = "d" then RDig d.d_node
                      else if r = "B" then RDig (nat_of_int (n + 7))
                      else if r.[0] = 'D' then RDig (nat_of_int (ios (String.sub r 1 (String.length r - 1))))
                      else RTag (nat_of_int (ios r)) in
             OTag (d, rf)
           | _ -> failwith "tag op")
        | 'U' -> OUntag (RTag (nat_of_int (ios arg)))
        | 'V' -> OUntag (RDig (nat_of_int (ios arg)))
        | 'D' -> ODelete (nat_of_int (ios arg))
        | 'G' -> OGC
        | 'S' -> OSave
        | _ -> failwith "batch op" in
      (* all permutations of a list *)
      let rec perms l = match l with
        | [] -> [[]]
        | _ -> List.concat_map (fun x -> List.map (fun p -> x :: p) (perms (List.filter (fun y -> y <> x) l))) l in
      List.iter (fun tok ->
        let arg = String.sub tok 1 (String.length tok - 1) in
        match tok.[0] with
        | '&' ->
          (* concurrent batch: &op|op..=res|res..@<live observation>@<observation of the reopened store>.  Accepted if some sequential
             order of the operations, run by the model from the current state, gives these
             results and this live state; the model continues from that state. *)
          let i = String.index arg '=' in
          let ops_s = String.sub arg 0 i in
          let rest = String.sub arg (i + 1) (String.length arg - i - 1) in
          let j = String.index rest '@' in
          let res_s = String.sub rest 0 j and obs2 = String.sub rest (j + 1) (String.length rest - j - 1) in
          let j2 = String.index obs2 '@' in
          let obs_s = String.sub obs2 0 j2 and reobs_s = String.sub obs2 (j2 + 1) (String.length obs2 - j2 - 1) in
          if res_s = "hang" then Buffer.add_string buf " &HANG" else begin
            let bops = Array.of_list (String.split_on_char '|' ops_s)
            and bres = Array.of_list (String.split_on_char '|' res_s) in
            let idx = List.init (Array.length bops) (fun i -> i) in
            let accepted = ref false in
            List.iter (fun perm ->
              if not !accepted then begin
                let s = ref !st and ok = ref true and sweeps = ref false in
                List.iter (fun i ->
                  if !ok then begin
                    let (s', r) = step nn mf succs subj sk bad fix_f2 fix_a fix_f1 fix_hold fix_ref !cfg !s
                                    (op_of_tok bops.(i), orders ()) in
                    if show_result r <> bres.(i) then ok := false
                    else begin s := s'; if bops.(i) = "G" then sweeps := true end
                  end) perm;
                if !ok && obs !s = obs_s && obs (reopen nn mf succs !s) = reobs_s then begin
                  accepted := true; st := !s;
                  if !sweeps then strays := List.filter (fun (_, k) -> not (gc_sweeps_stray k)) !strays
                end
              end) (perms idx);
            Buffer.add_string buf (if !accepted then " &LIN" else " &NOLIN")
          end
        | 'P' -> do_op (OPush (nat_of_int (ios arg)))
        | 'Q' ->
          (match String.split_on_char ':' arg with
           | [k; x; a] ->
             let x = if x = "6" then "0" else x in
             do_op (OPushX { d_node = nat_of_int (ios k); d_extra = nat_of_int (ios x);
                             d_refann = (if a = "-" then None else Some (RTag (nat_of_int (ios a)))) })
           | _ -> failwith "push op")
        | 'T' ->
          (match String.split_on_char ':' arg with
           | [k; x; a; r] ->
             (* variant 6 (empty non-nil containers) is the same JSON value as variant 0 *)
             let x = if x = "6" then "0" else x in
             let d = { d_node = nat_of_int (ios k); d_extra = nat_of_int (ios x);
                       d_refann = (if a = "-" then None else Some (RTag (nat_of_int (ios a)))) } in
             let rf = if r = "d" then RDig d.d_node
                      else if r = "B" then RDig (nat_of_int (n + 7))   (* a name Tag refuses: not valid UTF-8 *)
                      else if r.[0] = 'D' then RDig (nat_of_int (ios (String.sub r 1 (String.length r - 1))))
                      else RTag (nat_of_int (ios r)) in
             do_op (OTag (d, rf))
           | _ -> failwith "tag op")
        | 'U' -> do_op (OUntag (RTag (nat_of_int (ios arg))))
        | 'V' -> do_op (OUntag (RDig (nat_of_int (ios arg))))
        | 'D' -> do_op (ODelete (nat_of_int (ios arg)))
        | 'G' ->
          let before = Buffer.length buf in
          do_op OGC;
          if Buffer.sub buf before (Buffer.length buf - before) = " ok" then
            strays := List.filter (fun (_, k) -> not (gc_sweeps_stray k)) !strays
        | 'I' -> do_op (OInject (nat_of_int (ios arg)))
        | 'A' -> do_op (OSetAutoGC (arg = "1")); cfg := { !cfg with autogc = (arg = "1") }
        | 'X' ->
          let k = match arg.[0] with 'v' -> SValidName | 'i' -> SInvalidName | 'a' -> SUnknownAlg | _ -> SBlobsFile in
          strays := !strays @ [("x" ^ arg, k)];
          all_strays := !all_strays @ ["x" ^ arg];
          Buffer.add_string buf " ok"
        | 'S' -> do_op OSave
        | 'R' -> do_op OReopen
        | 'C' ->
          let o = obs !st and r = obs (reopen nn mf succs !st) in
          let xs = String.concat "," (List.map (fun tok ->
            tok ^ (if List.mem_assoc tok !strays then "=1" else "=0")) !all_strays) in
          let ents = List.sort compare (List.map (fun d ->
            match d.d_refann with
            | None -> Printf.sprintf "%d.*.-" (int_of_nat d.d_node)
            | Some _ -> show_desc d) (!st).disk) in
          Buffer.add_string buf (Printf.sprintf " C[%s|%s|%s|%s|%s|v%d|x:%s|i:%s]" o r r r r
            (if disk_valid !st then 1 else 0) xs (String.concat "," ents))
        | _ -> failwith "op") ops;
      Buffer.contents buf in
      (* the history is evaluated under two unrelated streams of iteration orders: the
         compared text must not depend on them (a difference is reported, never hidden) *)
      if List.exists (fun tok -> tok.[0] = 'W' || tok.[0] = 'M') ops then
        (* Tag with a descriptor that does not describe the stored content: outside the model *)
        Printf.printf "%s UNJUDGED\n" id
      else
      let o1 = eval (idnum * 7919 + 17) in
      let o2 = eval (idnum * 104729 + 3) in
      if o1 = o2 then Printf.printf "%s%s\n" id o1
      else Printf.printf "%s ORDER-DEPENDENT-MODEL-OUTCOME%s ///%s\n" id o1 o2
    | id :: "F" :: _fmt :: cl :: "E" :: rest ->
      (* internal/fs/tarfs unit case: F <format> <clean ids> E <raw:kind:content>* Q <path>* *)
      let tbl = Array.of_list (list_of_commas cl) in
      let clean r = let i = int_of_nat r in if i < Array.length tbl then nat_of_int tbl.(i) else r in
      let rec split acc = function
        | "Q" :: qs -> (List.rev acc, qs)
        | x :: xs -> split (x :: acc) xs
        | [] -> (List.rev acc, []) in
      let (ents, qs) = split [] rest in
      let tar = List.map (fun t ->
        match String.split_on_char ':' t with
        | [r; k; c] -> { te_raw = nat_of_int (ios r); te_kind = (if k = "r" then TReg else TOther);
                         te_data = nat_of_int (ios c) }
        | _ -> failwith "tar entry") ents in
      let outs = List.map (fun q ->
        match tar_open clean true tar (nat_of_int (ios q)) with
        | FData c -> "D" ^ string_of_int (int_of_nat c)
        | FNotExist -> "N"
        | FUnsupported -> "U"
        | FBroken -> "X") qs in
      Printf.printf "%s %s\n" id (String.concat " " outs)
    | [] -> ()
    | _ -> Printf.printf "BADLINE %s\n" l)
