(* C19 model runner: one case per line on stdin, one result per line on stdout.
   M <hex>      validateMediaType
   T <hex>      the created validation of pack.go (validateRFC3339) accepts
   L <hex>      time.Parse(time.RFC3339, _) alone succeeds (the lenient recogniser)
   F y mo d h mi s   time.Date(..., UTC).Format(time.RFC3339) of a valid civil time (INVALID otherwise)
   D <hex>      mediaType, artifactType and config (mediaType:digest:size) a stored manifest document declares (NONE = absent)
   A <ann>      json.Marshal of a map[string]string and the pairs read back from it, in document order
   S <hex>      digest.FromBytes(..).String() (sha256)
   J <hex>      json.Marshal of a string (escaping)      B <hex>   base64.StdEncoding of bytes
   U <hex>      a string after json.Marshal / Unmarshal (invalid UTF-8 coerced)
   K <fn> <exists> <key 0=full 1=digest 2=namespace 3=file> <failat|-> <at> <subject> <layers> <ann> <config> <config_ann> <store>
   Descriptors  D:<mt>:<dg>:<size>:<ann>:<at>:<extra>   (hex fields, "-" = empty)
   Annotations  -  |  k=v;k=v
   Option       N | <desc>          List  N | L,<desc>,<desc>...
   Store        S,<mt>:<dg>:<size>[:<name>],...   (name = file name in a file store)                                          *)
let z_of_int (i : int) : z =
  if i = 0 then Z0 else if i > 0 then Zpos (pos_of_int i) else Zneg (pos_of_int (-i))
let int_of_z (x : z) : int =
  match x with Z0 -> 0 | Zpos p -> int_of_pos p | Zneg p -> - (int_of_pos p)

let split c s = String.split_on_char c s

let ann_of (s : string) =
  if s = "-" then []
  else List.map (fun p ->
      match split '=' p with
      | [k; v] -> (str_of_hex k, str_of_hex v)
      | _ -> failwith "ann") (split ';' s)

let show_ann l =
  match l with
  | [] -> "-"
  | _ ->
    let ps = List.map (fun (k, v) -> (hex_of_str k, hex_of_str v)) l in
    let ps = List.sort compare ps in
    String.concat ";" (List.map (fun (k, v) -> k ^ "=" ^ v) ps)

(* extra = urls~data~platform ; "_" = absent; urls hex joined by "."; platform arch.os.osver.features.variant,
   features "_" or hex joined by "+" *)
let extra_of (s : string) : dextra =
  match split '~' s with
  | [u; d; p] ->
    { x_urls = (if u = "_" then [] else List.map str_of_hex (split '.' u));
      x_data = (if d = "_" then [] else str_of_hex d);
      x_platform = (if p = "_" then None else
        match split '.' p with
        | [a; o; v; f; r] ->
          Some { p_arch = str_of_hex a; p_os = str_of_hex o; p_osver = str_of_hex v;
                 p_osfeat = (if f = "_" then [] else List.map str_of_hex (split '+' f)); p_variant = str_of_hex r }
        | _ -> failwith "platform") }
  | _ -> failwith ("extra " ^ s)

let show_extra (x : dextra) =
  let u = match x.x_urls with [] -> "_" | l -> String.concat "." (List.map hex_of_str l) in
  let d = match x.x_data with [] -> "_" | l -> hex_of_str l in
  let p = match x.x_platform with
    | None -> "_"
    | Some p -> String.concat "." [hex_of_str p.p_arch; hex_of_str p.p_os; hex_of_str p.p_osver;
                                   (match p.p_osfeat with [] -> "_" | l -> String.concat "+" (List.map hex_of_str l));
                                   hex_of_str p.p_variant] in
  u ^ "~" ^ d ^ "~" ^ p

let desc_of (s : string) : desc =
  match split ':' s with
  | ["D"; mt; dg; sz; ann; at; ex] ->
    { d_mt = str_of_hex mt; d_dg = str_of_hex dg; d_sz = z_of_int (int_of_string sz);
      d_ann = ann_of ann; d_at = str_of_hex at; d_extra = extra_of ex }
  | _ -> failwith ("desc " ^ s)

let show_desc (d : desc) =
  Printf.sprintf "D:%s:%s:%d:%s:%s:%s" (hex_of_str d.d_mt) (hex_of_str d.d_dg) (int_of_z d.d_sz)
    (show_ann d.d_ann) (hex_of_str d.d_at) (show_extra d.d_extra)

let odesc_of s = if s = "N" then None else Some (desc_of s)
let show_odesc o = match o with None -> "N" | Some d -> show_desc d

let list_of s =
  if s = "N" then None
  else match split ',' s with
    | "L" :: ds -> Some (List.map desc_of ds)
    | _ -> failwith "list"
let show_list o =
  match o with
  | None -> "N"
  | Some l -> String.concat "," ("L" :: List.map show_desc l)

let store_of s =
  match split ',' s with
  | "S" :: es ->
    List.map (fun e -> match split ':' e with
        | [mt; dg; sz] -> { e_mt = str_of_hex mt; e_dg = str_of_hex dg; e_sz = z_of_int (int_of_string sz); e_bytes = []; e_name = [] }
        | [mt; dg; sz; nm] -> { e_mt = str_of_hex mt; e_dg = str_of_hex dg; e_sz = z_of_int (int_of_string sz); e_bytes = []; e_name = str_of_hex nm }
        | _ -> failwith "entry") es
  | _ -> failwith "store"

let show_event e =
  match e with
  | EvExists d -> Printf.sprintf "X:%s:%s:%d:%s" (hex_of_str d.d_mt) (hex_of_str d.d_dg) (int_of_z d.d_sz) (show_ann d.d_ann)
  | EvPush (RBlob, d, _) ->
    Printf.sprintf "PB:%s:%s:%d:%s" (hex_of_str d.d_mt) (hex_of_str d.d_dg) (int_of_z d.d_sz) (show_ann d.d_ann)
  | EvPush (RManifest, d, _) ->
    Printf.sprintf "PM:%s:%s:%s" (hex_of_str d.d_mt) (hex_of_str d.d_at) (show_ann d.d_ann)

let show_events l = match l with [] -> "-" | _ -> String.concat ";" (List.map show_event l)

let show_err e =
  match e with
  | EUnsupported -> "unsupported"
  | EInvalidMediaType -> "invalid-media-type"
  | EMissingArtifactType -> "missing-artifact-type"
  | EInvalidDateTime -> "invalid-datetime"
  | EInjected -> "storage-error"

let fn_of s =
  match s with
  | "v10" -> FV10 | "v11" -> FV11 | "vbad" -> FBadVersion | "rc2" -> FRC2 | "art" -> FArtifact
  | _ -> failwith "fn"

(* json.Marshal is the executable model json_manifest (Model/PackEnc.v): the bytes are an observable.
   The digest stays a parameter; the runner's observables do not depend on it except for "{}" *)
let dummy_marshal (m : manifest) : n list = json_manifest m
let dummy_h (s : n list) : n list = if s = empty_json then empty_json_digest else [n_of_int 63]
let now_placeholder = List.map (fun c -> n_of_int (Char.code c)) ['<'; 'N'; 'O'; 'W'; '>']

let () =
  iter_lines (fun l ->
    match split_ws l with
    | [id; "M"; h] -> Printf.printf "%s %s\n" id (if valid_media_type (str_of_hex h) then "1" else "0")
    | [id; "F"; y; mo; d; h; mi; s] ->
      let n x = n_of_int (int_of_string x) in
      if civil_ok (n y) (n mo) (n d) (n h) (n mi) (n s)
      then Printf.printf "%s %s\n" id (hex_of_str (format_rfc3339_utc (n y) (n mo) (n d) (n h) (n mi) (n s)))
      else Printf.printf "%s INVALID\n" id
    | [id; "D"; h] ->
      let bs = str_of_hex h in
      let sh o = match o with Some x -> hex_of_str x | None -> "NONE" in
      let cfg = match doc_config_head bs with
        | Some ((mt, dg), n) -> Printf.sprintf "%s:%s:%d" (hex_of_str mt) (hex_of_str dg) (int_of_n n)
        | None -> "NONE" in
      Printf.printf "%s %s %s %s\n" id (sh (doc_media_type bs)) (sh (doc_artifact_type bs)) cfg
    | [id; "A"; a] ->
      let l = ann_of a in
      let bytes = json_ann l in
      let back = match read_obj bytes with
        | Some (ps, []) -> (match ps with [] -> "-" | _ ->
            String.concat ";" (List.map (fun (k, v) -> hex_of_str k ^ "=" ^ hex_of_str v) ps))
        | _ -> "UNREADABLE" in
      Printf.printf "%s %s %s\n" id (hex_of_str bytes) back
    | [id; "S"; h] -> Printf.printf "%s %s\n" id (hex_of_str (digest_of (str_of_hex h)))
    | [id; "J"; h] -> Printf.printf "%s %s\n" id (hex_of_str (json_string (str_of_hex h)))
    | [id; "B"; h] -> Printf.printf "%s %s\n" id (hex_of_str (base64 (str_of_hex h)))
    | [id; "L"; h] -> Printf.printf "%s %s\n" id (if rfc3339_ok_prefix (str_of_hex h) then "1" else "0")
    | [id; "U"; h] -> Printf.printf "%s %s\n" id (hex_of_str (utf8_san (str_of_hex h)))
    | [id; "T"; h] -> Printf.printf "%s %s\n" id (if rfc3339_ok (str_of_hex h) then "1" else "0")
    | [id; "K"; f; ex; bd; fa; at; subj; layers; ann; cfg; cann; store; _spec] ->
      let tc = { t_exists = (ex = "1");
                 t_key = (match bd with "0" -> KFull | "1" -> KDigest | "2" -> KNamespace | "3" -> KFile | _ -> failwith "key") } in
      (* a trailing "d" on the fault token: run with the modelled SHA-256 and show the digest *)
      let with_digest = String.length fa > 0 && fa.[String.length fa - 1] = 'd' in
      let fa = if with_digest then String.sub fa 0 (String.length fa - 1) else fa in
      let h = if with_digest then digest_of else dummy_h in
      let fa = if fa = "-" then None else Some (nat_of_int (int_of_string fa)) in
      let o = { o_subject = odesc_of subj; o_layers = list_of layers; o_ann = ann_of ann;
                o_config = odesc_of cfg; o_config_ann = ann_of cann } in
      let (s', r) = pack dummy_marshal h (fn_of f) tc fa (init_state (store_of store))
          (str_of_hex at) o now_placeholder in
      (match r with
       | Err e -> Printf.printf "%s ERR %s EV %s\n" id (show_err e) (show_events s'.s_events)
       | Ok (d, m) ->
         (* the document is shown as it can be read back from the stored bytes (json.Marshal
            coerces strings to valid UTF-8); descriptor and events are what Pack handed out *)
         let bytes = json_manifest m in
         let m = san_manifest m in
         Printf.printf "%s OK %s:%s:%s kind=%s cfg=%s layers=%s subj=%s at=%s ann=%s EV %s SIZE %d BYTES %s DIGEST %s\n" id
           (hex_of_str d.d_mt) (hex_of_str d.d_at) (show_ann d.d_ann)
           (match m.m_kind with KImage -> "I" | KArtifact -> "A")
           (show_odesc m.m_config) (show_list m.m_layers) (show_odesc m.m_subject)
           (hex_of_str m.m_at) (show_ann m.m_ann) (show_events s'.s_events) (int_of_z d.d_sz) (hex_of_str bytes)
           (if with_digest then hex_of_str d.d_dg else "-"))
    | [] -> ()
    | _ -> Printf.printf "BADLINE %s\n" l)
