(* C03 model runner: one case per line on stdin, one result per line on stdout.
   <id> FR <n> <limit> <start> <lister> <nf> <filters> <nodes> [#replay]   findRoots (lister: 1 = ReferrerLister source, c = caller-supplied FindPredecessors: the table is its output)
   <id> FP <n> <x> <lister> <nf> <filters> <nodes> [#replay]      opts.FindPredecessors(x)
   <id> FE <n> <limit> <start> <lister> <k> <nf> <filters> <nodes> [#replay]   findRoots, k-th source operation fails
   <id> AT <kind> <hexmat> <hexmcfg>                              fetchArtifactType
   <id> XC <resolves> <rootsok> <copyok> <tagok> <hexsrcref> <hexdstref>   ExtendedCopy wrapper (result or error origin)
   filters: A0 | A <table> | N0 <hexkey> | N <hexkey> <table>;  table: hex=0|1,... or _
   node:    <kind> <hexmat> <hexmcfg> <ann> <np> (<pid> <hexat> <ann>)*
   ann:     ~ (nil) | @ (empty) | hexk=hexv;hexk=hexv *)
let z_of_int (i : int) : z =
  if i = 0 then Z0 else if i > 0 then Zpos (pos_of_int i) else Zneg (pos_of_int (- i))

let kind_of = function
  | "I" -> KImage | "D" -> KDocker | "X" -> KIndex | "L" -> KDockerList | "A" -> KArtifact
  | "O" -> KOther | _ -> failwith "kind"

let ann_of (t : string) =
  if t = "~" then None
  else if t = "@" then Some []
  else Some (List.map (fun kv ->
    match String.split_on_char '=' kv with
    | [k; v] -> (str_of_hex k, str_of_hex v)
    | _ -> failwith "ann") (String.split_on_char ';' t))

let show_ann = function
  | None -> "~"
  | Some [] -> "@"
  | Some m -> String.concat ";" (List.map (fun (k, v) -> hex_of_str k ^ "=" ^ hex_of_str v) m)

let table_of (t : string) : (n list -> bool) =
  let entries =
    if t = "_" then []
    else List.map (fun kv ->
      match String.split_on_char '=' kv with
      | [k; v] -> (str_of_hex k, v = "1")
      | _ -> failwith "table") (String.split_on_char ',' t) in
  (* every string the model can ask about is in the harness's pool; a miss is an error, not "no match" *)
  fun s -> (try List.assoc s entries with Not_found -> failwith ("regex table has no entry for " ^ hex_of_str s))

(* returns (filters, rest) *)
let rec parse_filters (k : int) (toks : string list) =
  if k = 0 then ([], toks)
  else match toks with
    | "A0" :: r -> let (fs, r') = parse_filters (k - 1) r in (FArt None :: fs, r')
    | "A" :: t :: r -> let (fs, r') = parse_filters (k - 1) r in (FArt (Some (table_of t)) :: fs, r')
    | "N0" :: key :: r -> let (fs, r') = parse_filters (k - 1) r in (FAnn (str_of_hex key, None) :: fs, r')
    | "N" :: key :: t :: r ->
      let (fs, r') = parse_filters (k - 1) r in (FAnn (str_of_hex key, Some (table_of t)) :: fs, r')
    | _ -> failwith "filters"

let rec parse_preds (k : int) (toks : string list) =
  if k = 0 then ([], toks)
  else match toks with
    | pid :: at :: an :: r ->
      let d = { d_id = nat_of_int (int_of_string pid); d_at = str_of_hex at; d_ann = ann_of an } in
      let (ps, r') = parse_preds (k - 1) r in (d :: ps, r')
    | _ -> failwith "preds"

let rec parse_nodes (k : int) (toks : string list) =
  if k = 0 then []
  else match toks with
    | kd :: mat :: mcfg :: an :: np :: r ->
      let (ps, r') = parse_preds (int_of_string np) r in
      (kind_of kd, str_of_hex mat, str_of_hex mcfg, ann_of an, ps) :: parse_nodes (k - 1) r'
    | _ -> failwith "nodes"

let source_of nodes lister =
  let arr = Array.of_list nodes in
  let get i = let j = int_of_nat i in if j < Array.length arr then Some arr.(j) else None in
  { s_preds = (fun i -> match get i with Some (_, _, _, _, ps) -> ps | None -> []);
    s_kind = (fun i -> match get i with Some (k, _, _, _, _) -> k | None -> KOther);
    s_mat = (fun i -> match get i with Some (_, a, _, _, _) -> a | None -> []);
    s_mcfg = (fun i -> match get i with Some (_, _, c, _, _) -> c | None -> []);
    s_mann = (fun i -> match get i with Some (_, _, _, m, _) -> m | None -> None);
    s_lister = lister }

let strip_replay toks = List.filter (fun t -> String.length t = 0 || t.[0] <> '#') toks

let () =
  iter_lines (fun l ->
    try
    match strip_replay (split_ws l) with
    | id :: "FR" :: n :: limit :: start :: lister :: nf :: rest ->
      let n = int_of_string n in
      let (fs, rest) = parse_filters (int_of_string nf) rest in
      let src = source_of (parse_nodes n rest) (lister = "1") in
      let node = { d_id = nat_of_int (int_of_string start); d_at = []; d_ann = None } in
      (* find_preds_g / find_preds_custom_g: the filters with the keep closures and fetch guards
         re-read from the source (= find_preds / find_preds_custom, proved) *)
      let fpf = if lister = "c" then find_preds_custom_g src src.s_preds fs
                (* the served table is what the caller's own FindPredecessors returns *)
                else find_preds_g src fs in
      (* find_roots_run: the loop with the depth arithmetic re-read from findRoots (= find_roots_log, proved) *)
      (match find_roots_run (fuel_for src (nat_of_int n)) fpf (z_of_int (int_of_string limit)) node with
       | None -> Printf.printf "%s FUEL\n" id
       | Some (roots, calls) ->
         let ids = List.sort_uniq compare (List.map (fun d -> int_of_nat d.d_id) roots) in
         let show l = if l = [] then "-" else String.concat "," (List.map string_of_int l) in
         (* roots as a set (rootMap order is Go map order), the FindPredecessors calls in call order *)
         Printf.printf "%s OK %s %s\n" id (show ids) (show (List.map int_of_nat calls)))
    | id :: "FE" :: n :: limit :: start :: lister :: k :: nf :: rest ->
      (* findRoots with the k-th source operation failing *)
      let n = int_of_string n in
      let (fs, rest) = parse_filters (int_of_string nf) rest in
      let src = source_of (parse_nodes n rest) (lister = "1") in
      let node = { d_id = nat_of_int (int_of_string start); d_at = []; d_ann = None } in
      let r =
        if lister = "c" then
          find_roots_custom_e (fuel_for src (nat_of_int n)) src src.s_preds fs (z_of_int (int_of_string limit)) node
            (nat_of_int (int_of_string k))
        else find_roots_e (fuel_for src (nat_of_int n)) src fs (z_of_int (int_of_string limit)) node
               (nat_of_int (int_of_string k)) in
      (match r with
       | RFuel -> Printf.printf "%s FUEL\n" id
       | RErr -> Printf.printf "%s ERR\n" id
       | ROk roots ->
         let ids = List.sort_uniq compare (List.map (fun d -> int_of_nat d.d_id) roots) in
         Printf.printf "%s OK %s\n" id
           (if ids = [] then "-" else String.concat "," (List.map string_of_int ids)))
    | id :: "FP" :: n :: x :: lister :: nf :: rest ->
      let n = int_of_string n in
      let (fs, rest) = parse_filters (int_of_string nf) rest in
      let src = source_of (parse_nodes n rest) (lister = "1") in
      let ps = if lister = "c" then find_preds_custom_g src src.s_preds fs (nat_of_int (int_of_string x))
               else find_preds_g src fs (nat_of_int (int_of_string x)) in
      Printf.printf "%s P%s\n" id
        (String.concat "" (List.map (fun d ->
           Printf.sprintf " %d:%s:%s" (int_of_nat d.d_id) (hex_of_str d.d_at) (show_ann d.d_ann)) ps))
    | [id; "AT"; kd; mat; mcfg] ->
      let src = source_of [ (kind_of kd, str_of_hex mat, str_of_hex mcfg, None, []) ] false in
      Printf.printf "%s T %s\n" id (hex_of_str (fetch_artifact_type src O))
    | [id; "XC"; res; rok; gok; tok; sref; dref] ->
      let node = { d_id = nat_of_int 7; d_at = []; d_ann = None } in
      let resolve r = if res = "1" && r = str_of_hex sref then Some node else None in
      (match extended_copy_x resolve (rok = "1") (gok = "1") (tok = "1") (str_of_hex sref) (str_of_hex dref) [] with
       | XErr OpResolve -> Printf.printf "%s ERR Resolve/source\n" id
       | XErr OpFindPredecessors -> Printf.printf "%s ERR FindPredecessors/source\n" id
       | XErr OpCopy -> Printf.printf "%s ERR copy\n" id
       | XErr OpTag -> Printf.printf "%s ERR Tag/destination\n" id
       | XOk (d, tags) ->
         Printf.printf "%s OK %s\n" id
           (String.concat "," (List.map (fun (k, v) -> hex_of_str k ^ "=" ^ string_of_int (int_of_nat v)) tags)))
    | [] -> ()
    | _ -> Printf.printf "BADLINE %s\n" l
    with Failure msg ->
      (match split_ws l with id :: _ -> Printf.printf "%s MODEL-ERROR %s\n" id msg | [] -> ()))
