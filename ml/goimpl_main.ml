(* goimpl model runner (protocol part of C02/C04): trace acceptance against the extracted LTS of
   Model/CopyImpl.v.  One case per line:
     <id> J<base64 case> G <K> <ext> <N> <succ_0> ... <succ_N-1> R <roots> P <initial destination> E <event> ...
   Events (recorded by the harness around the real syncutil.Go / LimitedRegion / Tracker):
     go:<ptid>:<fid>  start:<tid>:<fid>:<node>  try:<tid>:<0|1>  ex:<tid>:<t|f|e>  find:<tid>:<1|e>
     end:<tid>  wait:<tid>:<m>:<ok|cancel|uncommitted>  startok:<tid>  startfail:<tid>
     push:<tid>:<1|e>  ret:<tid>:<0|1>  goret:<fid>:<0|1>  cancel
   Steps inside syncutil.Go are not observable; they are inferred: an item is dispatched (LDispatchAcq)
   at the latest when it or a later item of its frame starts; an item that never starts was skipped
   (LChildSkip, as soon as its frame is cancelled in the model) or never dispatched (LDispatchFail at
   the return of Go).  The LTS is run WITH its destination (Model/CopyImplDst.v: Exists must answer by the
   destination content, a successful push stores the node); closed = the destination was link-closed after every step.
   Output: ACCEPT ret=<0|1> done=<nodes> dst=<nodes> closed=<1|0>   or   REJECT <event index> <event> <why>. *)
exception Reject of string
exception RejectAt of int * string * string

let csv_ints s = if s = "-" then [] else List.map int_of_string (String.split_on_char ',' s)

type finfo = { items : int array; mtask : int array; started : bool array; mutable disp : int; mframe : int }

let process id k ext succs roots pres events =
  let succ_arr = Array.of_list (List.map (fun s -> List.map nat_of_int (csv_ints s)) succs) in
  let succ (x : nat) = let i = int_of_nat x in if i < Array.length succ_arr then succ_arr.(i) else [] in
  (* the protocol state with the destination (Model/CopyImplDst.v); !st is its protocol component *)
  let dst = ref (dinit (nat_of_int k) ext (List.map nat_of_int roots) (List.map nat_of_int pres)) in
  let st = ref (!dst).ds in
  let closed = ref (dclosedb succ (!dst).dd) in
  let nsteps = ref 0 in
  let maxhold = ref 0 in
  let do_step what l =
    match dstep succ !dst (DL l) with
    | Some x' -> let s' = x'.ds in dst := x'; st := s'; incr nsteps;
      if not (dclosedb succ x'.dd) then closed := false;
      let h = int_of_nat (holders s') in if h > !maxhold then maxhold := h
    | None -> raise (Reject what) in
  let tmap : (int, int) Hashtbl.t = Hashtbl.create 16 in
  let fmap : (int, finfo) Hashtbl.t = Hashtbl.create 16 in
  let ghosts = ref [] in
  let evs = Array.of_list (List.map (fun e -> Array.of_list (String.split_on_char ':' e)) events) in
  (* pre-scan: how many starts per (frame, node) *)
  let starts : (int * int, int) Hashtbl.t = Hashtbl.create 16 in
  Array.iter (fun e -> if e.(0) = "start" then begin
      let key = (int_of_string e.(2), int_of_string e.(3)) in
      Hashtbl.replace starts key (1 + (try Hashtbl.find starts key with Not_found -> 0)) end) evs;
  let will_start fid (fi : finfo) i =
    let x = fi.items.(i) in
    let c = ref 0 in
    for j = 0 to i - 1 do if fi.items.(j) = x then incr c done;
    !c < (try Hashtbl.find starts (fid, x) with Not_found -> 0) in
  let task t = try Hashtbl.find tmap t with Not_found -> raise (Reject "unknown task") in
  let frame f = try Hashtbl.find fmap f with Not_found -> raise (Reject "unknown frame") in
  let mt t = nat_of_int (task t) in
  let tk i = (!st).tasks (nat_of_int i) in
  let fr i = (!st).frames (nat_of_int i) in
  let sweep () =
    ghosts := List.filter (fun g ->
        if (fr (int_of_nat (tk g).t_frame)).f_cancelled then begin do_step "skip of a never-started item" (LChildSkip (nat_of_int g)); false end
        else true) !ghosts in
  let new_frame fid mf =
    let its = Array.of_list (List.map int_of_nat (fr mf).f_all) in
    Hashtbl.replace fmap fid { items = its; mtask = Array.make (Array.length its) (-1);
                               started = Array.make (Array.length its) false; disp = 0; mframe = mf } in
  let expect_fin t e =
    match (tk (task t)).t_pc with
    | TFin e' when e' = e -> ()
    | _ -> raise (Reject "the model task is not finished with this result") in
  Array.iteri (fun idx e ->
      try
        (match Array.to_list e with
         | ["cancel"] -> do_step "top cancel not enabled" LCancelTop
         | ["go"; p; f] ->
           let f = int_of_string f and p = int_of_string p in
           if p < 0 then new_frame f 0
           else begin
             let mf = int_of_nat (!st).nframes in
             do_step "Go not enabled" (LGo (mt p)); new_frame f mf end
         | ["start"; t; f; n] ->
           let t = int_of_string t and f = int_of_string f and n = int_of_string n in
           let fi = frame f in
           let j = ref (-1) in
           Array.iteri (fun i x -> if !j < 0 && x = n && not fi.started.(i) && (i >= fi.disp || fi.mtask.(i) >= 0) && will_start f fi i then j := i) fi.items;
           if !j < 0 then raise (Reject "start of an item that is not in the frame");
           for i = fi.disp to !j do
             let id = int_of_nat (!st).ntasks in
             do_step "dispatch: no free permit in the model (more than K permits in use)" (LDispatchAcq (nat_of_int fi.mframe));
             fi.mtask.(i) <- id;
             if not (will_start f fi i) then ghosts := id :: !ghosts
           done;
           if !j >= fi.disp then fi.disp <- !j + 1;
           fi.started.(!j) <- true;
           do_step "child run" (LChildRun (nat_of_int fi.mtask.(!j)));
           Hashtbl.replace tmap t fi.mtask.(!j)
         | ["try"; t; c] ->
           let t = int_of_string t in
           do_step "TryCommit not enabled" (LTryCommit (mt t));
           (match (tk (task t)).t_pc, c with
            | TExists, "1" | TFin false, "0" -> ()
            | _ -> raise (Reject "TryCommit result differs from the model tracker"))
         | ["ex"; t; r] ->
           do_step "Exists not enabled" (LExists (mt (int_of_string t), (match r with "t" -> ExTrue | "f" -> ExFalse | _ -> ExFail)))
         | ["find"; t; r] -> do_step "FindSuccessors not enabled" (LFind (mt (int_of_string t), r = "1"))
         | ["end"; t] -> do_step "End not enabled" (LEnd (mt (int_of_string t)))
         | ["wait"; t; m; r] ->
           let t = int_of_string t and m = int_of_string m in
           (match (tk (task t)).t_pc with
            | TWait (m' :: _) when int_of_nat m' = m -> ()
            | _ -> raise (Reject "the model task is not waiting for this successor"));
           (match r with
            | "ok" ->
              if not (is_done ((!st).tracker (nat_of_int m))) then raise (Reject "done channel observed closed but the node is not Done in the model");
              do_step "wait" (LWaitDone (mt t))
            | "uncommitted" -> do_step "wait" (LWaitDone (mt t)); expect_fin t true
            | _ -> do_step "ctx.Done observed but the frame is not cancelled in the model" (LWaitCancel (mt t)))
         | ["startok"; t] -> do_step "Start: no free permit in the model (more than K permits in use)" (LStart (mt (int_of_string t)))
         | ["startfail"; t] -> do_step "Start failed but the frame is not cancelled in the model" (LStartFail (mt (int_of_string t)))
         | ["push"; t; "s"] ->
           (* the push stored the node and then failed: DPushFailStored of Model/CopyImplDst.v *)
           (match dstep succ !dst (DPushFailStored (mt (int_of_string t))) with
            | Some x' -> dst := x'; st := x'.ds; incr nsteps; if not (dclosedb succ x'.dd) then closed := false
            | None -> raise (Reject "push not enabled"))
         | ["push"; t; r] -> do_step "push not enabled" (LPush (mt (int_of_string t), r = "1"))
         | ["ret"; t; e] -> expect_fin (int_of_string t) (e = "1")
         | ["goret"; f; e] ->
           let f = int_of_string f in
           let fi = frame f in
           let n = Array.length fi.items in
           for i = fi.disp to n - 1 do
             if will_start f fi i then raise (Reject "internal: undispatched item that starts later")
           done;
           if fi.disp < n then do_step "Go returned without running every item but its frame is not cancelled in the model" (LDispatchFail (nat_of_int fi.mframe))
           else do_step "dispatch end" (LDispatchEnd (nat_of_int fi.mframe));
           fi.disp <- n;
           sweep ();
           do_step "Go returned while a task of the frame is unfinished / a never-started item cannot be skipped" (LGoReturn (nat_of_int fi.mframe));
           (match (fr fi.mframe).f_pc with
            | FRet e' when e' = (e = "1") -> ()
            | _ -> raise (Reject "return value of Go differs from the model"))
         | _ -> raise (Reject "unknown event"));
        sweep ()
      with Reject why -> raise (RejectAt (idx, String.concat ":" (Array.to_list e), String.concat "_" (String.split_on_char ' ' why)))
    ) evs;
  if not (is_final !st) then raise (Reject "end trace-ended the-model-is-not-final");
  if !maxhold > k then raise (Reject "end holders more-than-K-holders");
  let n = Array.length succ_arr in
  let dn = ref [] in
  for i = n - 1 downto 0 do if is_done ((!st).tracker (nat_of_int i)) then dn := string_of_int i :: !dn done;
  let dl = List.sort_uniq compare (List.map int_of_nat (!dst).dd) in
  Printf.printf "%s ACCEPT ret=%d done=%s dst=%s closed=%d\n" id
    (match result !st with Some true -> 1 | _ -> 0)
    (if !dn = [] then "-" else String.concat "," !dn)
    (if dl = [] then "-" else String.concat "," (List.map string_of_int dl))
    (if !closed then 1 else 0)

let () =
  iter_lines (fun l ->
      match split_ws l with
      | id :: j :: "G" :: k :: ext :: n :: rest when String.length j > 0 && j.[0] = 'J' ->
        let n = int_of_string n in
        let rec take i l acc = if i = 0 then (List.rev acc, l) else match l with x :: r -> take (i - 1) r (x :: acc) | [] -> failwith "short" in
        let succs, rest = take n rest [] in
        (match rest with
         | "R" :: roots :: "P" :: pres :: "E" :: events ->
           (* The value returned by syncutil.Go (context.Cause) is read before the harness can log
              `goret`.  When an ancestor context is cancelled in between, the log shows the cancellation
              first and a nil result afterwards.  Such a `goret:<f>:0` is moved back, one event at a time,
              to where it is consistent (its frame has no event of its own in between: all its tasks
              have returned and the caller is blocked in Go).  If no such position exists (the event that
              causes the cancellation was logged even before the last task of the frame returned, while
              the cancellation itself took effect after Go had read the cause) the recorded order is
              ambiguous and the case is left UNJUDGED by the model (the oracle still judges it). *)
           let raced = ref false in
           let evs = Array.of_list events in
           let rec attempt tries =
             try process id (int_of_string k) (ext = "1") succs (csv_ints roots) (csv_ints pres) (Array.to_list evs)
             with
             | RejectAt (i, ev, why) when tries > 0 && i > 0 && why = "return_value_of_Go_differs_from_the_model"
                                          && String.length ev > 6 && String.sub ev 0 6 = "goret:" && ev.[String.length ev - 1] = '0' ->
               raced := true;
               let x = evs.(i) in evs.(i) <- evs.(i - 1); evs.(i - 1) <- x; attempt (tries - 1)
             | RejectAt (i, ev, why) when !raced -> Printf.printf "%s UNJUDGED goret-race %d %s %s\n" id i ev why
             | RejectAt (i, ev, why) -> Printf.printf "%s REJECT %d %s %s\n" id i ev why
             | Reject why -> Printf.printf "%s REJECT %s\n" id why in
           attempt 400
         | _ -> Printf.printf "%s UNJUDGED\n" id)
      | id :: "SEM" :: size :: ops ->
        (* a script for semaphore.Weighted (harness sem.go) replayed on Model/CopyImplSem.v:
           a:<w>:<ctxdone>:<g|b|f>  r:<woken waiter | ->  c:<w> *)
        let s = ref (ssize_init (nat_of_int (int_of_string size))) in
        let bad = ref None in
        let stepm o = match sstep !s o with Some (s', r) -> s := s'; Some r | None -> None in
        List.iteri (fun i tok ->
            if !bad = None then begin
              let wrong why = bad := Some (Printf.sprintf "%d %s %s" i tok why) in
              match String.split_on_char ':' tok with
              | ["a"; w; d; r] ->
                (match stepm (SAcquire (nat_of_int (int_of_string w), d = "1")), r with
                 | Some RGranted, "g" | Some RBlocked, "b" | Some RFailed, "f" -> ()
                 | _ -> wrong "Acquire_result_differs_from_the_model")
              | ["r"; w] when w <> "-" && (match (!s).s_wait with h :: _ -> int_of_nat h <> int_of_string w | [] -> false)
                              && List.exists (fun x -> int_of_nat x = int_of_string w) (!s).s_wait ->
                (* the woken goroutine is queued in the model but not first: the harness issued two blocking
                   Acquire calls whose goroutines enqueued themselves in the other order (scheduling of
                   the harness, not of the semaphore): the recorded order is ambiguous, the oracle judged the run *)
                bad := Some "UNJUDGED enqueue-order"
              | ["r"; w] ->
                (match stepm SRelease with
                 | Some (RDone woken) ->
                   let wk = List.map int_of_nat woken in
                   if (w = "-" && wk = []) || (w <> "-" && wk = [int_of_string w]) then
                     (if w <> "-" then match stepm (SWake (nat_of_int (int_of_string w), false)) with Some RGranted -> () | _ -> wrong "wake")
                   else wrong (Printf.sprintf "Release_wakes_[%s]_in_the_model" (String.concat "," (List.map string_of_int wk)))
                 | _ -> wrong "Release_not_enabled")
              | ["c"; w] ->
                (match stepm (SCancel (nat_of_int (int_of_string w))) with
                 | Some (RDone []) -> ()
                 | _ -> wrong "cancel_differs")
              | _ -> wrong "unknown_op"
            end) ops;
        (match !bad with
         | Some why when String.length why >= 8 && String.sub why 0 8 = "UNJUDGED" -> Printf.printf "%s %s\n" id why
         | Some why -> Printf.printf "%s REJECT %s\n" id why
         | None ->
           Printf.printf "%s SEM held=%d wait=%s\n" id (int_of_nat (!s).s_held)
             (match (!s).s_wait with [] -> "-" | l -> String.concat "," (List.map (fun x -> string_of_int (int_of_nat x)) l)))
      | id :: _ -> Printf.printf "%s UNJUDGED\n" id
      | [] -> ())
