(* C17 model runner.  One case per line:
   <id> T|A|W|V|U|u|X|Y|y <pred>    (V: auth client, token for the request's own scope cached: same re-send structure as A) <maxretry> <minw> <maxw> <tbl> <dflt> <cancel> <bodykind> <hexbody> <script> <opts>
        opts    harness-only options the code under test must not depend on (u = ContentLength left
                unknown, method=..., preauth = auth client stack with Authorization preset); ignored here
        tbl     comma separated integers, or -
        cancel  - | <tc>:c | <tc>:d
        bodykind [M|m]N | B (http.NoBody, no GetBody) | R | O | G<k>      (prefix M/m = manifest push through an auth / another client, I/i = the same with an indexed manifest type)
        pred    - (DefaultPredicate) | <code><R|S|F>,...;d<R|S|F>;e<R|S|F>  (status table; other statuses; transport errors)
        script  beh;beh;... or -   beh = <out>/<read>/<lat>  read = * | <k>
                out = S<code>:<hexRetryAfter>:<chal> | E<isnet><timeout><temporary>[:shape] | TO (=E111) | ER (=E000)
   <id> Q <pred> ... <script> <opts> <G|P<hexform>> <tokenscript>     (auth client, token request modelled)
   <id> I <hexstring>                 strconv.ParseInt(s, 10, 64), error ignored
   <id> Z <pred> ... <script> <opts> <G|P<hexform>> <tokenscript>     (blob push, auth client, token requests modelled)
   <id> D <pred> <maxretry> <minw> <maxw> <tbl> <dflt> <attempt> <out>
   <id> B <D|P> <maxretry> <minw> <maxw> <base> <fnum> <fden> <jnum> <jden> <attempt> <out> <seen>
        seen    STOP | FAIL | PANIC | W<d> *)

let z_of_small (i : int) : z = if i = 0 then Z0 else if i > 0 then Zpos (pos_of_int i) else Zneg (pos_of_int (-i))
let z10 = z_of_small 10

let z_of_string (s : string) : z =
  let neg = String.length s > 0 && s.[0] = '-' in
  let start = if neg || (String.length s > 0 && s.[0] = '+') then 1 else 0 in
  let acc = ref Z0 in
  for i = start to String.length s - 1 do
    let c = s.[i] in
    if c < '0' || c > '9' then failwith ("bad integer " ^ s);
    acc := Z.add (Z.mul !acc z10) (z_of_small (Char.code c - 48))
  done;
  if neg then Z.opp !acc else !acc

let rec string_of_zpos (x : z) : string =
  match x with
  | Z0 -> ""
  | _ -> let (q, r) = Z.quotrem x z10 in
    let d = (match r with Z0 -> 0 | Zpos p -> int_of_pos p | Zneg p -> int_of_pos p) in
    string_of_zpos q ^ string_of_int d

let string_of_z (x : z) : string =
  match x with
  | Z0 -> "0"
  | Zpos _ -> string_of_zpos x
  | Zneg _ -> "-" ^ string_of_zpos (Z.opp x)

let split_on c s = if s = "-" || s = "" then [] else String.split_on_char c s

let parse_out (s : string) : outcome =
  if s = "TO" then OErr (true, true, true)
  else if s = "ER" then OErr (false, false, false)
  else if String.length s >= 4 && s.[0] = 'E' then OErr (s.[1] = '1', s.[2] = '1', s.[3] = '1')   (* E<isnet><timeout><temporary>[:shape] *)
  else if String.length s > 0 && s.[0] = 'S' then begin
    match String.split_on_char ':' (String.sub s 1 (String.length s - 1)) with
    | [code; ra; chal] -> OStatus (z_of_string code, str_of_hex ra, n_of_int (int_of_string chal))
    | _ -> failwith ("bad outcome " ^ s)
  end else failwith ("bad outcome " ^ s)

let parse_beh (s : string) : beh =
  match String.split_on_char '/' s with
  | [o; r; l] ->
    { b_out = parse_out o;
      b_read = (if r = "*" then None else Some (nat_of_int (int_of_string r)));
      b_lat = z_of_string l }
  | _ -> failwith ("bad behaviour " ^ s)

let parse_cancel (s : string) : cancel =
  if s = "-" then None
  else match String.split_on_char ':' s with
    | [t; k] -> Some (z_of_string t, k = "d")
    | _ -> failwith "bad cancel"

let parse_kind (s : string) : bodykind =
  match s.[0] with
  | 'N' -> KNone
  | 'B' -> KNoBody
  | 'R' -> KReplay
  | 'O' -> KOneShot
  | 'G' -> KGetBodyErr (nat_of_int (int_of_string (String.sub s 1 (String.length s - 1))))
  | _ -> failwith "bad body kind"

let show_result (r : result) : string =
  match r with
  | RResp (c, _) -> "RESP" ^ string_of_z c
  | RErr (ne, tmo, tmp) -> Printf.sprintf "EERR%d%d%d" (Bool.to_int ne) (Bool.to_int tmo) (Bool.to_int tmp)
  | RPredErr -> "EPRED"
  | RTokenResp c -> "ETOKEN" ^ string_of_z c
  | RCtx -> "ECTX"
  | RPanic -> "PANIC"
  | RNotRewindable -> "ENOTREWINDABLE"
  | RGetBodyFailed -> "EGETBODY"
  | RFuel -> "FUEL"

let rec length_int l = List.length l

let show_attempts_list (orig : str) (l : (z * str) list) : string =
  match l with
  | [] -> "-"
  | l -> String.concat "," (List.map (fun (t, got) ->
      string_of_z t ^ ":" ^ (if is_prefix got orig then string_of_int (List.length got) else "BAD")) l)

let show_attempts (orig : str) (tr : event list) : string =
  match attempts tr with
  | [] -> "-"
  | l -> String.concat "," (List.map (fun (t, got) ->
      string_of_z t ^ ":" ^ (if is_prefix got orig then string_of_int (List.length got) else "BAD")) l)

let show_seen_decision (d : decision) : string =
  match d with
  | DStop -> "STOP"
  | DFail -> "FAIL"
  | DPanic -> "PANIC"
  | DWait x -> if Z.ltb x Z0 then "STOP" else "W" ^ string_of_z x   (* a negative duration means: do not retry *)

let parse_rule (c : char) : pred_result =
  match c with 'R' -> PRetry | 'S' -> PStop | 'F' -> PFail | _ -> failwith "bad predicate rule"

(* "-" = DefaultPredicate; otherwise <code><R|S|F>,...;d<rule>;e<rule> *)
let parse_pred (s : string) : outcome -> pred_result =
  if s = "-" then default_predicate
  else match String.split_on_char ';' s with
    | [tbl; d; e] ->
      let entries = List.map (fun x ->
          let n = String.length x in
          (z_of_string (String.sub x 0 (n - 1)), parse_rule x.[n - 1])) (split_on ',' tbl) in
      custom_predicate entries (parse_rule d.[1]) (parse_rule e.[1])
    | _ -> failwith ("bad predicate " ^ s)

let parse_seen (s : string) : obs_decision =
  if s = "STOP" then ODStop else if s = "FAIL" then ODFail else if s = "PANIC" then ODPanic
  else ODWait (z_of_string (String.sub s 1 (String.length s - 1)))

let mkq (n : string) (d : string) : q = { qnum = z_of_string n; qden = Z.to_pos (z_of_string d) }

(* whether the current source guards the jitter draw: re-read from policy.go by the translator *)
let guarded = exp_backoff_guarded

let () =
  iter_lines (fun l ->
    match split_ws l with
    | [id; ("T" | "A" | "W" | "V" | "U" | "u" | "X" | "Y" | "y") as op; pred; mr; mn; mx; tbl; dflt; cn; kind; body; script; _opts] ->
      let p = table_policy (parse_pred pred) (z_of_string mr) (z_of_string mn) (z_of_string mx)
          (List.map z_of_string (split_on ',' tbl)) (z_of_string dflt) in
      (* M/m: manifest push (type without subject) through an auth / another client;
         I/i: the same with an OCI image manifest (read into memory by pushWithIndexing) *)
      let manifest, kind' =
        match kind.[0] with
        | 'M' | 'm' | 'I' | 'i' -> Some kind.[0], String.sub kind 1 (String.length kind - 1)
        | _ -> None, kind in
      let bd0 = { bk = parse_kind kind'; bdata = str_of_hex body } in
      let bd = match manifest with
        | Some 'M' -> manifest_push_body true bd0
        | Some 'm' -> manifest_push_body false bd0
        | Some _ -> indexed_manifest_push_body bd0
        | None -> bd0 in
      let sc = List.map parse_beh (split_on ';' script) in
      let cn = parse_cancel cn in
      if op = "Y" || op = "y" then begin
        (* blobStore.Mount declined by the registry (202): the same POST/PUT protocol, the PUT reads
           from an io.ReadCloser, i.e. a body that cannot be replayed *)
        let bd = { bk = KOneShot; bdata = bd.bdata } in
        let u = blob_push_gen (op = "Y") false p cn bd sc in
        let atts a = show_attempts_list bd.bdata a in
        let put1, put2 = match u.u_put with
          | Some a -> atts (attempts a.a_first), atts (attempts a.a_second)
          | None -> "-", "-" in
        Printf.printf "%s %s end=%s post=%s|%s put=%s|%s\n" id (show_result u.u_res) (string_of_z u.u_time)
          (atts (attempts u.u_post.a_first)) (atts (attempts u.u_post.a_second)) put1 put2
      end else if op = "U" || op = "u" || op = "X" then begin
        (* blob push through the Repository: U = auth client, u = plain retrying client,
           X = auth client whose cache already holds the token for the push's scope *)
        let u = blob_push_gen (op <> "u") (op = "X") p cn bd sc in
        let atts a = show_attempts_list bd.bdata a in
        let put1, put2 = match u.u_put with
          | Some a -> atts (attempts a.a_first), atts (attempts a.a_second)
          | None -> "-", "-" in
        Printf.printf "%s %s end=%s post=%s|%s put=%s|%s\n" id (show_result u.u_res) (string_of_z u.u_time)
          (atts (attempts u.u_post.a_first)) (atts (attempts u.u_post.a_second)) put1 put2
      end else if op = "T" then begin
        let o = round_trip p cn bd (init_state bd) sc Z0 in
        Printf.printf "%s %s end=%s first=%s\n" id (show_result o.o_res) (string_of_z o.o_time)
          (show_attempts bd.bdata o.o_trace)
      end else begin
        let o = auth_do (op = "W") p cn bd sc in
        Printf.printf "%s %s end=%s first=%s second=%s third=%s\n" id (show_result o.a_res) (string_of_z o.a_time)
          (show_attempts bd.bdata o.a_first) (show_attempts bd.bdata o.a_second) (show_attempts bd.bdata o.a_third)
      end
    | [id; "Q"; pred; mr; mn; mx; tbl; dflt; cn; kind; body; script; _opts; tokbody; tokscript] ->
      (* auth client with the token request spelled out: tokbody = G (distribution GET, no body)
         or P<hexform> (OAuth2 POST), tokscript = the token service's answers *)
      let p = table_policy (parse_pred pred) (z_of_string mr) (z_of_string mn) (z_of_string mx)
          (List.map z_of_string (split_on ',' tbl)) (z_of_string dflt) in
      let bd = if kind.[0] = 'M'   (* manifest push through the auth client: buffered *)
        then manifest_push_body true { bk = parse_kind (String.sub kind 1 (String.length kind - 1)); bdata = str_of_hex body }
        else { bk = parse_kind kind; bdata = str_of_hex body } in
      let tb = if tokbody.[0] = 'P'
        then { bk = KReplay; bdata = str_of_hex (String.sub tokbody 1 (String.length tokbody - 1)) }
        else { bk = KNone; bdata = [] } in
      let sc = List.map parse_beh (split_on ';' script) in
      let tsc = List.map parse_beh (split_on ';' tokscript) in
      let o = auth_do_tok p (parse_cancel cn) bd sc tb tsc in
      Printf.printf "%s %s end=%s first=%s token=%s second=%s\n" id (show_result o.ak_res) (string_of_z o.ak_time)
        (show_attempts bd.bdata o.ak_first) (show_attempts tb.bdata o.ak_token) (show_attempts bd.bdata o.ak_second)
    | [id; "I"; h] -> Printf.printf "%s %s\n" id (string_of_z (parse_int64 (str_of_hex h)))
    | [id; "w"; pred; mr; mn; mx; tbl; dflt; cn; kind; body; script; _opts; tokbody; tokscript] ->
      (* auth client with a warm Bearer cache (other scope key), token request of the third send modelled *)
      let p = table_policy (parse_pred pred) (z_of_string mr) (z_of_string mn) (z_of_string mx)
          (List.map z_of_string (split_on ',' tbl)) (z_of_string dflt) in
      let bd = { bk = parse_kind kind; bdata = str_of_hex body } in
      let tb = if tokbody.[0] = 'P'
        then { bk = KReplay; bdata = str_of_hex (String.sub tokbody 1 (String.length tokbody - 1)) }
        else { bk = KNone; bdata = [] } in
      let sc = List.map parse_beh (split_on ';' script) in
      let tsc = List.map parse_beh (split_on ';' tokscript) in
      let o = auth_do_tokw_at p (parse_cancel cn) bd sc tb tsc Z0 in
      Printf.printf "%s %s end=%s first=%s second=%s token=%s third=%s\n" id (show_result o.aw_res) (string_of_z o.aw_time)
        (show_attempts bd.bdata o.aw_first) (show_attempts bd.bdata o.aw_second) (show_attempts tb.bdata o.aw_token)
        (show_attempts bd.bdata o.aw_third)
    | [id; "Z"; pred; mr; mn; mx; tbl; dflt; cn; kind; body; script; _opts; tokbody; tokscript] ->
      (* blob push through the auth client, token requests modelled *)
      let p = table_policy (parse_pred pred) (z_of_string mr) (z_of_string mn) (z_of_string mx)
          (List.map z_of_string (split_on ',' tbl)) (z_of_string dflt) in
      let bd = { bk = parse_kind kind; bdata = str_of_hex body } in
      let tb = if tokbody.[0] = 'P'
        then { bk = KReplay; bdata = str_of_hex (String.sub tokbody 1 (String.length tokbody - 1)) }
        else { bk = KNone; bdata = [] } in
      let sc = List.map parse_beh (split_on ';' script) in
      let tsc = List.map parse_beh (split_on ';' tokscript) in
      let u = blob_push_tok true p (parse_cancel cn) bd sc tb tsc in
      let atts a = show_attempts_list bd.bdata a in
      let put1, put2, ptok = match u.uk_put with
        | Some a -> atts (attempts a.ak_first), atts (attempts a.ak_second), attempts a.ak_token
        | None -> "-", "-", [] in
      Printf.printf "%s %s end=%s post=%s|%s put=%s|%s tok=%s\n" id (show_result u.uk_res) (string_of_z u.uk_time)
        (show_attempts_list [] (attempts u.uk_post.ak_first)) (show_attempts_list [] (attempts u.uk_post.ak_second)) put1 put2
        (show_attempts_list tb.bdata (attempts u.uk_post.ak_token @ ptok))
    | [id; "D"; pred; mr; mn; mx; tbl; dflt; att; out] ->
      let p = table_policy (parse_pred pred) (z_of_string mr) (z_of_string mn) (z_of_string mx)
          (List.map z_of_string (split_on ',' tbl)) (z_of_string dflt) in
      Printf.printf "%s %s\n" id (show_seen_decision (generic_retry p (z_of_string att) (parse_out out)))
    | [id; "B"; which; mr; mn; mx; base; fn; fd; jn; jd; att; out; seen] ->
      let (mr, mn, mx, e) =
        if which = "D" then (default_max_retry, default_min_wait, default_max_wait, default_eparams)
        else (z_of_string mr, z_of_string mn, z_of_string mx,
              { e_base = z_of_string base; e_factor = mkq fn fd; e_jitter = mkq jn jd }) in
      let v = accept_decision guarded mr mn mx e (z_of_string att) (parse_out out) (parse_seen seen) in
      Printf.printf "%s %s\n" id (match v with VYes -> "YES" | VNo -> "NO" | VUnjudged -> "UNJUDGED")
    | [] -> ()
    | _ -> Printf.printf "BADLINE %s\n" l)
