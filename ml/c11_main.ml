(* C11 model runner.  One case per line:
   <id> <cfg7bits> <preserve01> <wd as opened> <physical wd> <cwd> <nprep> {d <path> | f <path> <tag> | l <path> <target> | h <path> <earlier file>}* <npush>
        { B <title> <tag> | M <nlayers> {<title> <tag>}* | (U | F <how>) <title> <nent> { (r <name> <tag> <mode> | d <name> <mode> | h <name> <tgt> | s <name> <tgt> | o <name>) <time> }* }*
   strings are hex ("-" = empty); paths are absolute slash-separated strings; modes decimal.
   Pre-populated directories have mode 0755, files 0644.
   Output: <id> {<O|E><8 hex digits: md5 of the listing after that push>}*|<hexpath>:<dMODE|fTAGmMODE|lHEXTARGET>,... sorted by hexpath *)
let path_of_string (s : string) : n list list =
  List.filter_map (fun seg -> if seg = "" then None else
    Some (List.map (fun c -> n_of_int (Char.code c)) (List.of_seq (String.to_seq seg))))
    (String.split_on_char '/' s)
let string_of_hex h = if h = "-" then "" else
  String.init (String.length h / 2) (fun i -> Char.chr (hexval h.[2*i] * 16 + hexval h.[2*i+1]))
let hex_of_path (p : n list list) : string =
  String.concat "" (List.map (fun seg -> "2f" ^ (match seg with [] -> "" | _ -> hex_of_str seg)) p)

let run_case id toks =
  let toks = ref toks in
  let next () = match !toks with x :: r -> toks := r; x | [] -> failwith "short line" in
  let bits = next () in
  let bit i = bits.[i] = '1' in
  let g = { fixH = bit 0; fixA = bit 1; fixR = bit 2; fixN = bit 3; fixW = bit 4; fixT = bit 5; fixK = bit 6 } in
  let pres = (next () = "1") in
  let wd = path_of_string (string_of_hex (next ())) in
  let physwd = path_of_string (string_of_hex (next ())) in
  let cwd = path_of_string (string_of_hex (next ())) in
  let nprep = int_of_string (next ()) in
  let ents = ref [] and cont = ref [] and ino = ref 0 in
  for _ = 1 to nprep do
    match next () with
    | "d" -> let p = path_of_string (string_of_hex (next ())) in ents := (p, NDir) :: !ents
    | "l" -> let p = path_of_string (string_of_hex (next ())) in
             let t = str_of_hex (next ()) in
             ents := (p, sym_node t) :: !ents
    | "h" -> let p = path_of_string (string_of_hex (next ())) in
             let t = path_of_string (string_of_hex (next ())) in
             (match List.assoc_opt t !ents with
              | Some (NFile i) -> ents := (p, NFile i) :: !ents
              | _ -> failwith "prep hard link: target is not an earlier file")
    | "f" -> let p = path_of_string (string_of_hex (next ())) in
             let tag = int_of_string (next ()) in
             ents := (p, NFile (nat_of_int !ino)) :: !ents;
             cont := (nat_of_int !ino, n_of_int (tag * 1024 + 420)) :: !cont; incr ino
    | k -> failwith ("prep kind " ^ k)
  done;
  let fs0 = { ents = !ents; cont = !cont; nexti = nat_of_int !ino; dmode = []; fstamp = []; dstamp = []; taint = [] } in
  let npush = int_of_string (next ()) in
  let ops = ref [] in
  for _ = 1 to npush do
    match next () with
    | "B" -> let t = str_of_hex (next ()) in let tag = int_of_string (next ()) in
             ops := PBlob (t, n_of_int tag) :: !ops
    | ("U" | "F") as kd ->
             let how = if kd = "F" then int_of_string (next ()) else 0 in
             let t = str_of_hex (next ()) in
             let ne = int_of_string (next ()) in
             let es = ref [] and ts = ref [] in
             for _ = 1 to ne do
               (match next () with
               | "r" -> let nm = str_of_hex (next ()) in let tag = int_of_string (next ()) in
                        let m = int_of_string (next ()) in
                        es := EReg (nm, n_of_int tag, n_of_int m) :: !es
               | "d" -> let nm = str_of_hex (next ()) in let m = int_of_string (next ()) in
                        es := EDir (nm, n_of_int m) :: !es
               | "h" -> let nm = str_of_hex (next ()) in let tg = str_of_hex (next ()) in es := EHard (nm, tg) :: !es
               | "s" -> let nm = str_of_hex (next ()) in let tg = str_of_hex (next ()) in es := ESym (nm, tg) :: !es
               | "o" -> es := EOther (str_of_hex (next ())) :: !es
               | k -> failwith ("entry kind " ^ k));
               ts := n_of_int (int_of_string (next ())) :: !ts
             done;
             ops := (if how = 0 then PDir (t, List.rev !ts, List.rev !es)
                     else PDirF (n_of_int how, t, List.rev !ts, List.rev !es)) :: !ops
    | "M" -> let nl = int_of_string (next ()) in
             let ls = ref [] in
             for _ = 1 to nl do
               let t = str_of_hex (next ()) in
               let tag = int_of_string (next ()) in
               ls := (t, n_of_int tag) :: !ls
             done;
             ops := PManifest (List.rev !ls) :: !ops
    | k -> failwith ("push kind " ^ k)
  done;
  let listing (f : fsys) : string =
    let stamp p k = if inside physwd p || k = 0 then "" else "@" ^ string_of_int k in
    let lines = List.map (fun (p, nd) ->
        let hp = hex_of_path p in
        match nd with
        | NDir -> (hp, "d" ^ string_of_int (int_of_n (dir_mode f p)) ^ stamp p (int_of_n (dir_stamp f p)))
        | NFile i -> let c = int_of_n (content f i) in
                     (hp, "f" ^ string_of_int (c / 1024) ^ "m" ^ string_of_int (c mod 1024)
                          ^ stamp p (int_of_n (file_stamp f i)))
        | NSym (d, _, _) -> (hp, "l" ^ hex_of_str d)) f.ents in
    let lines = List.sort compare lines in
    String.concat "," (List.map (fun (a, b) -> a ^ ":" ^ b) lines) in
  (* one push at a time: the verdict and a digest of the whole tree after every push *)
  let st = ref { st_fs = fs0; st_names = []; st_d2p = [] } in
  let steps = List.map (fun o ->
      let (s1, ok) = push g pres wd cwd !st o in
      st := s1;
      (if ok then "O" else "E") ^ String.sub (Digest.to_hex (Digest.string (listing s1.st_fs))) 0 8)
      (List.rev !ops) in
  (* the store's book-keeping: Exists for every (title, content) that was pushed or named as a layer,
     and for every unpack title with content 41 *)
  let queries = List.concat_map (fun o -> match o with
      | PBlob (t, c) -> [(t, c)]
      | PManifest ls -> ls
      | PDir (t, _, _) -> [(t, n_of_int 41)]
      | PDirF (_, t, _, _) -> [(t, n_of_int 41)]) (List.rev !ops) in
  let ex = String.concat "" (List.map (fun (t, c) -> if exists_obs !st t c then "1" else "0") queries) in
  Printf.printf "%s %s|%s|X%s\n" id (String.concat "" steps) (listing !st.st_fs) ex

let () =
  iter_lines (fun l ->
    match split_ws l with
    | [] -> ()
    | [id; "X"] -> Printf.printf "%s UNJUDGED\n" id
    | id :: rest -> (try run_case id rest with Failure m -> Printf.printf "%s BADCASE %s\n" id m))
