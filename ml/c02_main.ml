(* C02 (spec-level part) model runner: one recorded call per line on stdin.
   <id> <N> <K> <api g|t|r|x> <roots> <nodes> <d0> <trace> [rp=...]
     N     : number of content nodes; for api x the runner adds the virtual super-root N
             whose successors are <roots> (the roots found by findRoots: generator's ground truth)
     K     : CopyGraphOptions.Concurrency as passed (<= 0: the default regenerated from copy.go)
     roots : ','-separated; for g|t|r exactly one node (the root)
     nodes : ';'-separated, per node  <flags>/<dkey>/<succ>   flags: f foreign, m manifest, - none
     d0    : ','-separated node ids initially in the destination, or '-'
     trace : ','-separated event tokens or '-': the tokens of ml/c01_main.ml plus
             XX.n  SX.n  SR.n  FX.n  PX.n.ref.stored  TX.n.set  MX.n.stored  MB.n  ME.n.(m|s|c)  QK  QX  CN
     api   : optionally followed by /<5 bits> (which of PreCopy PostCopy OnCopySkipped OnMounted MountFrom are
             set; the invocations of nil callbacks are inserted by Model/CopyFaultOpt.fstep_opt); followed by m when the destination is a Mounter, by c when the root is in the proxy cache at the start
             (resolveRoot through a ReferenceFetcher); m: when the destination is a registry.Mounter and MountFrom is set
   output: <id> ACC ret=<1|0|-> tag=<n|-> dst=<ids> closed=<1|0>
             closed = the destination was link-closed after EVERY event of the trace (self-check of
             the model-side predicate; the theorem C02_closed_always says it is always 1)
        or <id> REJ <index> <token>  (first event the transition system refuses)
        or <id> VIEWDIFF ...         (api x only: the two views of the fan-out -- virtual super-root,
                                      CopySpec's c_xroots -- disagree on the trace) *)
let z_of_int i = if i = 0 then Z0 else if i > 0 then Zpos (pos_of_int i) else Zneg (pos_of_int (-i))
let ints s = if s = "-" || s = "" then [] else List.map int_of_string (String.split_on_char ',' s)
let show_ints l = if l = [] then "-" else String.concat "," (List.map string_of_int l)
let sort_uniq_ints l = List.sort_uniq compare l

let kind_of = function
  | "pre" -> CPre | "post" -> CPost | "skip" -> CSkip | "mounted" -> CMounted | "mountfrom" -> CMountFrom
  | s -> failwith ("kind " ^ s)

let event_of tok =
  let nn s = nat_of_int (int_of_string s) in
  let bb s = (s = "1") in
  match String.split_on_char '.' tok with
  | ["XB"; n] -> Ev (ExB (nn n))
  | ["XE"; n; b] -> Ev (ExE (nn n, bb b))
  | ["SB"; n] -> Ev (SFB (nn n))
  | ["SE"; n] -> Ev (SFE (nn n))
  | ["SC"; n] -> Ev (SFC (nn n))
  | ["PB"; n; r] -> Ev (PuB (nn n, bb r))
  | ["PE"; n; r; "k"] -> Ev (PuE (nn n, bb r, POk))
  | ["PE"; n; r; "x"] -> Ev (PuE (nn n, bb r, PExists))
  | ["CB"; k; n] -> Ev (Cb (kind_of k, nn n))
  | ["CF"; k; n] -> Ev (CbFail (kind_of k, nn n))
  | ["TB"; n] -> Ev (TagB (nn n))
  | ["TE"; n] -> Ev (TagE (nn n))
  | ["RT"; b] -> Ev (Ret (bb b))
  | ["XX"; n] -> ExX (nn n)
  | ["SX"; n] -> SFX (nn n)
  | ["SR"; n] -> SRX (nn n)
  | ["FX"; n] -> FSX (nn n)
  | ["PX"; n; r; s] -> PuX (nn n, bb r, bb s)
  | ["TX"; n; s] -> TagX (nn n, bb s)
  | ["MX"; n; s] -> MtX (nn n, bb s)
  | ["MB"; n] -> Ev (MtB (nn n))
  | ["ME"; n; "m"] -> Ev (MtE (nn n, MMounted))
  | ["ME"; n; "s"] -> Ev (MtE (nn n, MSkipped))
  | ["ME"; n; "c"] -> Ev (MtE (nn n, MCopied))
  | ["QK"] -> ProOk
  | ["QX"] -> ProX
  | ["CN"] -> Cancel
  | _ -> failwith ("event " ^ tok)

let () =
  iter_lines (fun l ->
    match split_ws l with
    | id :: sn :: sk :: sapi :: sroots :: snodes :: sd0 :: strace :: _ ->
      (try
        let n0 = int_of_string sn in
        (* <api>[m][/<5 bits: PreCopy PostCopy OnCopySkipped OnMounted MountFrom set>] *)
        let sapi, bits = (match String.split_on_char '/' sapi with
          | [a; b] when String.length b = 5 -> a, b
          | [a] -> a, "11111"
          | _ -> failwith "api") in
        let cs k = (match k with
          | CPre -> bits.[0] = '1' | CPost -> bits.[1] = '1' | CSkip -> bits.[2] = '1'
          | CMounted -> bits.[3] = '1' | CMountFrom -> bits.[4] = '1') in
        let mount = String.contains_from sapi 1 'm' in
        let cachedroot = String.contains_from sapi 1 'c' in
        let sapi = String.sub sapi 0 1 in
        let ext = (sapi = "x") in
        let n = if ext then n0 + 1 else n0 in
        let specs = Array.of_list (String.split_on_char ';' snodes) in
        if Array.length specs <> n0 then failwith "node count";
        let foreign = Array.make n false and ismf = Array.make n false
        and dkey = Array.make n 0 and succ = Array.make n [] in
        Array.iteri (fun i s ->
          match String.split_on_char '/' s with
          | [fl; dk; su] ->
            foreign.(i) <- String.contains fl 'f';
            ismf.(i) <- String.contains fl 'm';
            dkey.(i) <- int_of_string dk;
            succ.(i) <- List.map nat_of_int (ints su)
          | _ -> failwith "node spec") specs;
        let roots = ints sroots in
        if ext then begin
          dkey.(n0) <- n0;
          succ.(n0) <- List.map nat_of_int roots
        end else if List.length roots <> 1 then failwith "roots";
        let mode = match sapi with "g" | "x" -> MGraph | "t" -> MTagger | "r" -> MRefPush | _ -> failwith "api" in
        let d0 = List.map nat_of_int (ints sd0) in
        let toks = if strace = "-" then [] else String.split_on_char ',' strace in
        List.iter (fun t -> if not (String.length t > 3 && String.sub t 0 3 = "DS.") then ignore (event_of t)) toks;
        (* evaluate the trace on the universe of the first [n] nodes, as a call with configuration
           (root, xroots) in view [ext] *)
        let eval n ext root xroots =
          let get a d x = let i = int_of_nat x in if i < n then a.(i) else d in
          let g = { g_n = nat_of_int n;
                    g_succ = (fun x -> get succ [] x);
                    g_foreign = (fun x -> get foreign false x);
                    g_ismf = (fun x -> get ismf false x);
                    g_dkey = (fun x -> let i = int_of_nat x in nat_of_int (if i < n then dkey.(i) else 1000000 + i)) } in
          let c = { c_K = eff_K_gen (z_of_int (int_of_string sk)); c_mode = mode; c_root = nat_of_int root; c_mount = mount;
                    c_tagmounted = true; c_cached0 = (if cachedroot then [nat_of_int root] else []); c_xroots = List.map nat_of_int xroots } in
          let closed = ref (closedb g d0) in
          (* DS.<ids> : snapshot of the real destination taken (atomically, controlled schedules) when the
             preceding event was logged: it must contain everything the model's destination holds, and may
             exceed it only by nodes whose storing operation is still in flight in the model *)
          let snapshot_ok fs tok =
            let ids = (match String.split_on_char '.' tok with
              | [_; "-"] -> [] | [_; l] -> List.map int_of_string (String.split_on_char '+' l) | _ -> failwith "DS") in
            let pres = List.filter (fun i -> i < n0) (List.map int_of_nat (present_nodes g fs.fb.dst)) in
            let inflight i = (match fs.fb.ph (nat_of_int i) with
              | Pushing (_, _) | Mounting | MtF2 | MtC -> true | _ -> false) in
            List.for_all (fun i -> List.mem i ids) pres &&
            List.for_all (fun i -> List.mem i pres || inflight i) ids in
          let rec go fs toks i =
            match toks with
            | [] -> Ok fs
            | tok :: toks' when String.length tok > 3 && String.sub tok 0 3 = "DS." ->
              if snapshot_ok fs tok then go fs toks' (i + 1) else Error i
            | tok :: toks' ->
              (match fstep_opt cs g c ext fs (event_of tok) with
               | None -> Error i
               | Some (fs', _) ->
                 if not (closedb g fs'.fb.dst) then closed := false;
                 go fs' toks' (i + 1)) in
          match go (finit c ext d0) toks 0 with
          | Error i -> Printf.sprintf "REJ %d %s" i (List.nth toks i)
          | Ok fs ->
            let st = fs.fb in
            let ret = match st.returned with Some true -> "1" | Some false -> "0" | None -> "-" in
            let tg = match st.tag with Some t -> string_of_int (int_of_nat t) | None -> "-" in
            let pres d = sort_uniq_ints (List.filter (fun i -> i < n0) (List.map int_of_nat (present_nodes g d))) in
            Printf.sprintf "ACC ret=%s tag=%s dst=%s closed=%s" ret tg (show_ints (pres st.dst))
              (if !closed then "1" else "0") in
        if ext then begin
          (* ExtendedCopyGraph under both views: the virtual super-root n0 of Model/CopyFault.v, and
             CopySpec's c_xroots (first root as c_root, the others dispatched with it) *)
          let a = eval n true n0 [] in
          let b = (match roots with r :: rs -> eval n0 false r rs | [] -> failwith "no roots") in
          if a = b then Printf.printf "%s %s\n" id a
          else Printf.printf "%s VIEWDIFF superroot=[%s] xroots=[%s]\n" id a b
        end else
          Printf.printf "%s %s\n" id (eval n false (List.hd roots) [])
      with Failure m -> Printf.printf "%s BAD %s\n" id m)
    | [] -> ()
    | _ -> Printf.printf "BADLINE %s\n" l)
