(* C14 model runner: one case per line on stdin, one result per line on stdout.
   A <old> <changes>   applyReferrerChanges      -> NOUPDATE | UPD <list>
   R <hint> <list>     removeEmptyDescriptors    -> L <list>
   F <art> <list>      filterReferrers           -> L <list>
   M <n> <ev> ...      Merge/Pool schedule: G<t> start caller t, P<t>:<f> release its
                       prepare, U<t>:<f> its PUT, D<t>:<f> its DELETE (f = 1: fail)
                       -> ACC B <main>:<items>;... R <t>=<res>,... I <keys> | REJECT <i>
   K <bits>            SetReferrersCapability sequence -> K <state>/<err>,...
   X <sg> <init> <changes> <ev> ...  exchanges of an end-to-end run on one tag -> ACC R .. I .. | REJECT <i>
   L <art> <list|none>  Referrers() by tag schema on the final index -> L <keys>
   T <d:m:z,...>       buildReferrersTag on subject descriptors (digest:mediatype:size, interned) -> T <class,...>
   D <kind> <art> <cfg>  indexReferrersForPush artifact type -> D <type>
   E <n>               end-to-end run (judged by the oracle)   -> E <n>
   descriptor = k:a:p, list = "-" | d,d,...   change = +d | ~d *)
let parse_desc (s : string) : desc =
  match String.split_on_char ':' s with
  | [k; a; p] -> { dkey = n_of_int (int_of_string k); dart = n_of_int (int_of_string a); dpay = n_of_int (int_of_string p) }
  | _ -> failwith "desc"
let parse_list (s : string) : desc list =
  if s = "-" then [] else List.map parse_desc (String.split_on_char ',' s)
let parse_change (s : string) : change =
  let d = parse_desc (String.sub s 1 (String.length s - 1)) in
  if s.[0] = '+' then Add d else Remove d
let parse_changes (s : string) : change list =
  if s = "-" then [] else List.map parse_change (String.split_on_char ',' s)
let show_desc (d : desc) = Printf.sprintf "%d:%d:%d" (int_of_n d.dkey) (int_of_n d.dart) (int_of_n d.dpay)
let show_list (l : desc list) = if l = [] then "-" else String.concat "," (List.map show_desc l)
let dash s = if s = "" then "-" else s
(* RLost (the PUT took effect, its response was lost) is a ghost distinction: the caller sees a plain error *)
let show_res = function ROk -> "ok" | RIdxDel -> "idxdel" | RErr -> "err" | RLost -> "err"

(* a visible schedule (G<t> | P<t>:<f> | U<t>:<f> | D<t>:<f> | E = tag dropped externally) is replayed by the extracted
   vis_summary (Model/Merge.v): the hidden lock regions are inserted there, not here *)
let parse_vis (ev : string) : vis =
  let rest = String.sub ev 1 (String.length ev - 1) in
  match ev.[0] with
  | 'G' -> VG (nat_of_int (int_of_string rest))
  | 'E' -> VX
  | k ->
    let t, f, lost = (match String.split_on_char ':' rest with
                | [a; b] -> nat_of_int (int_of_string a), b = "1", b = "2" | _ -> failwith "ev") in
    (* U<t>:2 / D<t>:2 = the index PUT / DELETE took effect and was answered with an error (EPutLost / EDelLost) *)
    (match k with 'P' -> VP (t, f) | 'U' -> if lost then VL t else VU (t, f) | 'D' -> if lost then VK t else VD (t, f) | _ -> failwith "ev")

let show_results rs =
  String.concat "," (List.mapi (fun t r ->
    match r with Some r -> Printf.sprintf "%d=%s" t (show_res r) | None -> Printf.sprintf "%d=pending" t) rs)

let tids l = String.concat "," (List.map (fun x -> string_of_int (int_of_nat x)) l)

let run_m (n : int) (evs : string list) : string =
  let changes = List.init n (fun t -> Add { dkey = n_of_int (t + 1); dart = N0; dpay = N0 }) in
  let vs = List.map parse_vis evs in
  let coarse = vis_summary false None changes vs in
  (* the channel-level system (Model/MergeFine.v) replays the same schedule: it must agree *)
  if fvis_summary false None changes vs <> coarse then "MODELS-DISAGREE (Merge.v vs MergeFine.v)" else
  match coarse with
  | None -> "REJECT"
  | Some (((rs, idx), log), _) ->
    let batches = List.filter_map (function OBatch (m, ms) -> Some (Printf.sprintf "%d:%s" (int_of_nat m) (tids ms)) | _ -> None) log in
    let keys = match idx with None -> [] | Some l -> List.sort compare (List.map (fun k -> int_of_n k - 1) l) in
    Printf.sprintf "ACC B %s R %s I %s" (dash (String.concat ";" batches)) (show_results rs)
      (dash (String.concat "," (List.map string_of_int keys)))

(* X <skipgc> <init> <changes> <ev> ...: the exchanges of an end-to-end run on one
   referrers tag; caller i passes the i-th change *)
let run_x ?(cmp_dangling = true) (sg : bool) (init0 : string) (changes : change list) (evs : string list) : string =
  let r0 = if init0 = "none" then None else Some (List.map (fun k -> { dkey = n_of_int (int_of_string k); dart = N0; dpay = N0 })
                                                  (if init0 = "-" then [] else String.split_on_char ',' init0)) in
  let vs = List.map parse_vis evs in
  let coarse = vis_summary sg r0 changes vs in
  if fvis_summary sg r0 changes vs <> coarse then "MODELS-DISAGREE (Merge.v vs MergeFine.v)" else
  match coarse with
  | None -> "REJECT"
  | Some (((rs, idx), log), dg) ->
    let keys l = if l = [] then "-" else String.concat "," (List.map (fun k -> string_of_int (int_of_n k)) l) in
    let puts = List.filter_map (function OPut (_, nw) -> Some (if nw = [] then "e" else keys (List.map (fun d -> d.dkey) nw)) | _ -> None) log in
    let hidden = List.map (fun c -> int_of_n (match c with Add d -> d.dpay | Remove d -> d.dpay) = 9) changes in
    let rs_s = String.concat "," (List.mapi (fun t r ->
      if List.nth hidden t then Printf.sprintf "%d=*" t
      else match r with Some r -> Printf.sprintf "%d=%s" t (show_res r) | None -> Printf.sprintf "%d=pending" t) rs) in
    Printf.sprintf "ACC R %s I %s U %s G %s" rs_s
      (match idx with None -> "none" | Some l -> keys l) (dash (String.concat ";" puts))
      (if cmp_dangling then string_of_int (int_of_nat dg) else "*")

(* Y <skipgc> <init> <live0> <changes> <Z> <ev> ...: an end-to-end run on one tag with the
   manifest exchanges (M<t> = the delete's manifest DELETE) replayed by lvis_summary *)
let run_y (sg : bool) (init0 : string) (live0 : string) (changes : change list) (z : string) (evs : string list) : string =
  let ints s = if s = "-" then [] else List.map int_of_string (String.split_on_char ',' s) in
  let r0 = if init0 = "none" then None else Some (List.map (fun k -> { dkey = n_of_int k; dart = N0; dpay = N0 }) (ints init0)) in
  let num e = nat_of_int (int_of_string (String.sub e 1 (String.length e - 1))) in
  let vs = List.map (fun e -> if e.[0] = 'M' then VM (num e) else if e.[0] = 'N' then VN (num e) else if e.[0] = 'Q' then VQ (num e) else LV (parse_vis e)) evs in
  match lvis_summary sg r0 (List.map n_of_int (ints live0)) changes vs with
  | None -> "REJECT"
  | Some ((live, busy), taint) ->
    let zs = ints z in
    let excl = List.map int_of_n busy @ List.map int_of_n taint in
    let l = List.sort_uniq compare (List.filter (fun k -> not (List.mem k zs) && not (List.mem k excl)) (List.map int_of_n live)) in
    let b = List.length (List.sort_uniq compare (List.filter (fun k -> not (List.mem k zs)) excl)) in
    Printf.sprintf "Y L %s B %d" (if l = [] then "-" else String.concat "," (List.map string_of_int l)) b

let cap_num = function CapUnknown -> 0 | CapSupported -> 1 | CapUnsupported -> 2

let () =
  iter_lines (fun l ->
    match split_ws l with
    | [id; "A"; o; c] ->
      (match apply_changes (parse_list o) (parse_changes c) with
       | NoUpdate -> Printf.printf "%s NOUPDATE\n" id
       | Updated r -> Printf.printf "%s UPD %s\n" id (show_list r))
    | [id; "R"; h; s] ->
      Printf.printf "%s L %s\n" id (show_list (remove_empty (parse_list s) (nat_of_int (int_of_string h))))
    | [id; "F"; a; s] ->
      Printf.printf "%s L %s\n" id (show_list (filter_referrers (parse_list s) (n_of_int (int_of_string a))))
    | id :: "M" :: n :: evs -> Printf.printf "%s %s\n" id (run_m (int_of_string n) evs)
    | id :: "X" :: sg :: init0 :: cs :: evs ->
      let evs = List.filter (fun e -> e.[0] <> 'J') evs in   (* J<hex>: the replay of the end-to-end case *)
      Printf.printf "%s %s\n" id (run_x ~cmp_dangling:(String.length sg = 1) (sg.[0] = '1') init0 (parse_changes cs) evs)
    | id :: "Y" :: sg :: init0 :: live0 :: cs :: z :: evs ->
      Printf.printf "%s %s\n" id (run_y (sg = "1") init0 live0 (parse_changes cs) z evs)
    | [id; "K"; bits] ->
      let bs = List.init (String.length bits) (fun i -> bits.[i] = '1') in
      let rs = set_caps CapUnknown bs in
      Printf.printf "%s K %s\n" id
        (String.concat "," (List.map (fun (s, e) -> Printf.sprintf "%d/%d" (cap_num s) (if e then 1 else 0)) rs))
    | [id; "L"; a; l] ->
      let r = if l = "none" then None else Some (parse_list l) in
      let out = list_referrers r (n_of_int (int_of_string a)) in
      Printf.printf "%s L %s\n" id (if out = [] then "-" else String.concat "," (List.map (fun d -> string_of_int (int_of_n d.dkey)) out))
    | [id; "T"; l] ->
      let ds = List.map (fun x -> match String.split_on_char ':' x with
          | [d; m; z] -> { s_mt = n_of_int (int_of_string m); s_digest = n_of_int (int_of_string d); s_size = n_of_int (int_of_string z) }
          | _ -> failwith "subject") (String.split_on_char ',' l) in
      Printf.printf "%s T %s\n" id (String.concat "," (List.map (fun i -> string_of_int (int_of_nat i)) (tag_classes ds)))
    | [id; "D"; k; a; c] ->
      let kind = (match k with "artifact" -> KArtifact | "index" -> KIndex | _ -> KImage) in
      Printf.printf "%s D %d\n" id (int_of_n (referrer_art kind (n_of_int (int_of_string a)) (n_of_int (int_of_string c))))
    | id :: "P" :: ops ->
      (* Pool.Get (g<i>) / release (r<i>) in lock order: for every Get, was a fresh Merge created?
         (N = fresh: nobody held the entry; S = the entry the holders have) *)
      let fr = pool_trace None (List.map (fun o -> o.[0] = 'g') ops) in
      Printf.printf "%s P %s\n" id (String.concat "" (List.map (fun b -> if b then "N" else "S") fr))
    | [id; "E"; n] -> Printf.printf "%s E %s\n" id n
    | [id; "S"; n] -> Printf.printf "%s S %s\n" id n
    | [] -> ()
    | _ -> Printf.printf "BADLINE %s\n" l)
