(* C14 model runner: one case per line on stdin, one result per line on stdout.
   A <old> <changes>   applyReferrerChanges      -> NOUPDATE | UPD <list>
   R <hint> <list>     removeEmptyDescriptors    -> L <list>
   F <art> <list>      filterReferrers           -> L <list>
   E <n>               end-to-end run (judged by the oracle)   -> E <n>
   descriptor = k:a:p, list = "-" | d,d,...   change = +d | ~d *)
let parse_desc (s : string) : desc =
  match String.split_on_char ':' s with
  | [k; a; p] -> { dkey = n_of_int (int_of_string k); dart = n_of_int (int_of_string a); dpay = n_of_int (int_of_string p) }
  | _ -> failwith "desc"
let parse_list (s : string) : desc list =
  if s = "-" then [] else List.map parse_desc (String.split_on_char ',' s)
let parse_change (s : string) : change =
  let d = parse_desc (String.sub s 1 (String.length s - 1)) in
  if s.[0] = '+' then Add d else Remove d
let parse_changes (s : string) : change list =
  if s = "-" then [] else List.map parse_change (String.split_on_char ',' s)
let show_desc (d : desc) = Printf.sprintf "%d:%d:%d" (int_of_n d.dkey) (int_of_n d.dart) (int_of_n d.dpay)
let show_list (l : desc list) = if l = [] then "-" else String.concat "," (List.map show_desc l)

let () =
  iter_lines (fun l ->
    match split_ws l with
    | [id; "A"; o; c] ->
      (match apply_changes (parse_list o) (parse_changes c) with
       | NoUpdate -> Printf.printf "%s NOUPDATE\n" id
       | Updated r -> Printf.printf "%s UPD %s\n" id (show_list r))
    | [id; "R"; h; s] ->
      Printf.printf "%s L %s\n" id (show_list (remove_empty (parse_list s) (nat_of_int (int_of_string h))))
    | [id; "F"; a; s] ->
      Printf.printf "%s L %s\n" id (show_list (filter_referrers (parse_list s) (n_of_int (int_of_string a))))
    | [id; "E"; n] -> Printf.printf "%s E %s\n" id n
    | [] -> ()
    | _ -> Printf.printf "BADLINE %s\n" l)
