(* C14 model runner: one case per line on stdin, one result per line on stdout.
   A <old> <changes>   applyReferrerChanges      -> NOUPDATE | UPD <list>
   R <hint> <list>     removeEmptyDescriptors    -> L <list>
   F <art> <list>      filterReferrers           -> L <list>
   M <n> <ev> ...      Merge/Pool schedule: G<t> start caller t, P<t>:<f> release its
                       prepare, U<t>:<f> its PUT, D<t>:<f> its DELETE (f = 1: fail)
                       -> ACC B <main>:<items>;... R <t>=<res>,... I <keys> | REJECT <i>
   K <bits>            SetReferrersCapability sequence -> K <state>/<err>,...
   X <sg> <init> <changes> <ev> ...  exchanges of an end-to-end run on one tag -> ACC R .. I .. | REJECT <i>
   T <d:m:z,...>       buildReferrersTag on subject descriptors (digest:mediatype:size, interned) -> T <class,...>
   D <kind> <art> <cfg>  indexReferrersForPush artifact type -> D <type>
   E <n>               end-to-end run (judged by the oracle)   -> E <n>
   descriptor = k:a:p, list = "-" | d,d,...   change = +d | ~d *)
let parse_desc (s : string) : desc =
  match String.split_on_char ':' s with
  | [k; a; p] -> { dkey = n_of_int (int_of_string k); dart = n_of_int (int_of_string a); dpay = n_of_int (int_of_string p) }
  | _ -> failwith "desc"
let parse_list (s : string) : desc list =
  if s = "-" then [] else List.map parse_desc (String.split_on_char ',' s)
let parse_change (s : string) : change =
  let d = parse_desc (String.sub s 1 (String.length s - 1)) in
  if s.[0] = '+' then Add d else Remove d
let parse_changes (s : string) : change list =
  if s = "-" then [] else List.map parse_change (String.split_on_char ',' s)
let show_desc (d : desc) = Printf.sprintf "%d:%d:%d" (int_of_n d.dkey) (int_of_n d.dart) (int_of_n d.dpay)
let show_list (l : desc list) = if l = [] then "-" else String.concat "," (List.map show_desc l)
let dash s = if s = "" then "-" else s
let show_res = function ROk -> "ok" | RIdxDel -> "idxdel" | RErr -> "err"

(* replay of a visible Merge schedule in the transition system; hidden steps
   (receiving the main status, commit, complete, release) are inserted where the
   real code performs them between two quiescent points *)
let run_m (n : int) (evs : string list) : string =
  let st = ref (init None []) in
  let rejected = ref (-1) in
  let batches = ref [] in
  let do_step i e =
    if !rejected < 0 then
      match step false !st e with Some s -> st := s | None -> rejected := i in
  let closure i =
    let progress = ref true in
    while !progress && !rejected < 0 do
      progress := false;
      for t = 0 to n - 1 do
        if !rejected < 0 then
          match (!st).pcs (nat_of_int t) with
          | Completing _ -> do_step i (EComplete (nat_of_int t)); progress := true
          | Ret _ -> do_step i (EDone (nat_of_int t)); progress := true
          | _ -> ()
      done
    done in
  List.iteri (fun i ev ->
    let kind = ev.[0] in
    let rest = String.sub ev 1 (String.length ev - 1) in
    (match kind with
     | 'G' ->
       let t = int_of_string rest in
       do_step i (EGet (nat_of_int t, Add { dkey = n_of_int (t + 1); dart = N0; dpay = N0 }));
       do_step i (EAssign (nat_of_int t))
     | _ ->
       let t, f = (match String.split_on_char ':' rest with
                   | [a; b] -> int_of_string a, b = "1" | _ -> failwith "ev") in
       let tn = nat_of_int t in
       (match kind with
        | 'P' ->
          do_step i (ERecvMain tn);
          do_step i (EPrepare (tn, f));
          (match (!st).pcs tn with
           | Prepared (Some _) when !rejected < 0 ->
             let its = List.map (fun (x, _) -> string_of_int (int_of_nat x)) (!st).items in
             batches := (Printf.sprintf "%d:%s" t (String.concat "," its)) :: !batches
           | _ -> ());
          do_step i (ECommit tn)
        | 'U' -> do_step i (EPut (tn, f))
        | 'D' -> do_step i (EDel (tn, f))
        | _ -> failwith "ev"));
    closure i) evs;
  if !rejected >= 0 then Printf.sprintf "REJECT %d" !rejected
  else begin
    let res = List.init n (fun t ->
      match (!st).pcs (nat_of_int t) with
      | Done r -> Printf.sprintf "%d=%s" t (show_res r)
      | _ -> Printf.sprintf "%d=pending" t) in
    let keys = match (!st).reg with
      | None -> []
      | Some l -> List.sort compare (List.map (fun d -> int_of_n d.dkey - 1) l) in
    Printf.sprintf "ACC B %s R %s I %s" (dash (String.concat ";" (List.rev !batches)))
      (String.concat "," res) (dash (String.concat "," (List.map string_of_int keys)))
  end

(* X <skipgc> <init> <changes> <ev> ...: the exchanges of an end-to-end run on one
   referrers tag; caller i passes the i-th change *)
let run_x (sg : bool) (init0 : string) (changes : change list) (evs : string list) : string =
  let n = List.length changes in
  let r0 = if init0 = "none" then None else Some (List.map (fun k -> { dkey = n_of_int (int_of_string k); dart = N0; dpay = N0 })
                                                  (if init0 = "-" then [] else String.split_on_char ',' init0)) in
  let st = ref (init r0 []) in
  let rejected = ref (-1) in
  let puts = ref [] in
  let do_step i e =
    if !rejected < 0 then
      match step sg !st e with Some s -> st := s | None -> rejected := i in
  let closure i =
    let progress = ref true in
    while !progress && !rejected < 0 do
      progress := false;
      for t = 0 to n - 1 do
        if !rejected < 0 then
          match (!st).pcs (nat_of_int t) with
          | Completing _ -> do_step i (EComplete (nat_of_int t)); progress := true
          | Ret _ -> do_step i (EDone (nat_of_int t)); progress := true
          | _ -> ()
      done
    done in
  List.iteri (fun i ev ->
    let kind = ev.[0] in
    let rest = String.sub ev 1 (String.length ev - 1) in
    (match kind with
     | 'G' ->
       let t = int_of_string rest in
       do_step i (EGet (nat_of_int t, List.nth changes t));
       do_step i (EAssign (nat_of_int t))
     | _ ->
       let t, f = (match String.split_on_char ':' rest with
                   | [a; b] -> int_of_string a, b = "1" | _ -> failwith "ev") in
       let tn = nat_of_int t in
       (match kind with
        | 'P' -> do_step i (ERecvMain tn); do_step i (EPrepare (tn, f)); do_step i (ECommit tn)
        | 'U' ->
          (match (!st).pcs tn with
           | NeedPut (nw, _) when !rejected < 0 ->
             puts := (if nw = [] then "-" else String.concat "," (List.map (fun d -> string_of_int (int_of_n d.dkey)) nw)) :: !puts
           | _ -> ());
          do_step i (EPut (tn, f))
        | 'D' -> do_step i (EDel (tn, f))
        | _ -> failwith "ev"));
    closure i) evs;
  if !rejected >= 0 then Printf.sprintf "REJECT %d" !rejected
  else begin
    let res = List.init n (fun t ->
      match (!st).pcs (nat_of_int t) with
      | Done r -> Printf.sprintf "%d=%s" t (show_res r)
      | _ -> Printf.sprintf "%d=pending" t) in
    let idx = match (!st).reg with
      | None -> "none"
      | Some [] -> "-"
      | Some l -> String.concat "," (List.map (fun d -> string_of_int (int_of_n d.dkey)) l) in
    Printf.sprintf "ACC R %s I %s U %s" (String.concat "," res) idx (dash (String.concat ";" (List.rev !puts)))
  end

let cap_num = function CapUnknown -> 0 | CapSupported -> 1 | CapUnsupported -> 2

let () =
  iter_lines (fun l ->
    match split_ws l with
    | [id; "A"; o; c] ->
      (match apply_changes (parse_list o) (parse_changes c) with
       | NoUpdate -> Printf.printf "%s NOUPDATE\n" id
       | Updated r -> Printf.printf "%s UPD %s\n" id (show_list r))
    | [id; "R"; h; s] ->
      Printf.printf "%s L %s\n" id (show_list (remove_empty (parse_list s) (nat_of_int (int_of_string h))))
    | [id; "F"; a; s] ->
      Printf.printf "%s L %s\n" id (show_list (filter_referrers (parse_list s) (n_of_int (int_of_string a))))
    | id :: "M" :: n :: evs -> Printf.printf "%s %s\n" id (run_m (int_of_string n) evs)
    | id :: "X" :: sg :: init0 :: cs :: evs ->
      let evs = List.filter (fun e -> e.[0] <> 'J') evs in   (* J<hex>: the replay of the end-to-end case *)
      Printf.printf "%s %s\n" id (run_x (sg = "1") init0 (parse_changes cs) evs)
    | [id; "K"; bits] ->
      let bs = List.init (String.length bits) (fun i -> bits.[i] = '1') in
      let rs = set_caps CapUnknown bs in
      Printf.printf "%s K %s\n" id
        (String.concat "," (List.map (fun (s, e) -> Printf.sprintf "%d/%d" (cap_num s) (if e then 1 else 0)) rs))
    | [id; "T"; l] ->
      let ds = List.map (fun x -> match String.split_on_char ':' x with
          | [d; m; z] -> { s_mt = n_of_int (int_of_string m); s_digest = n_of_int (int_of_string d); s_size = n_of_int (int_of_string z) }
          | _ -> failwith "subject") (String.split_on_char ',' l) in
      Printf.printf "%s T %s\n" id (String.concat "," (List.map (fun i -> string_of_int (int_of_nat i)) (tag_classes ds)))
    | [id; "D"; k; a; c] ->
      let kind = (match k with "artifact" -> KArtifact | "index" -> KIndex | _ -> KImage) in
      Printf.printf "%s D %d\n" id (int_of_n (referrer_art kind (n_of_int (int_of_string a)) (n_of_int (int_of_string c))))
    | [id; "E"; n] -> Printf.printf "%s E %s\n" id n
    | [] -> ()
    | _ -> Printf.printf "BADLINE %s\n" l)
