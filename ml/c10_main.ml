(* C10 model runner.  One case per line:
     <id> S <script> ...        micro-steps of the final operation
     <id> K <j> <script> ...    directory after the first j micro-steps of the final operation
     <id> R <script> ...        results of every operation of the script
   <script> = blobs=<id>:<chunks>:<manifest>,...;hist=<op>,...;final=<op>
   <op> = push:<b> | pushbad:<b> | tag:<b>:<r> | untag:<r> | delete:<b> | saveindex
   history items may also be crash:<j>:<op> : the operation was interrupted after j
   micro-steps and the store was reopened (oci.New) on what was left
   Trailing fields (the JSON script for replays) are ignored. *)
let unit_good d i = n_of_int (d * 4096 + i)
let unit_bad d = n_of_int (d * 4096 + 4095)
let rec range a b = if a >= b then [] else a :: range (a + 1) b
let content_good d n = List.map (unit_good d) (range 0 n)
let content_bad d n = if n = 0 then [] else List.map (unit_good d) (range 0 (n - 1)) @ [unit_bad d]

type blobinfo = { bid : int; bchunks : int; bman : bool }

let parse_script (s : string) =
  let parts = String.split_on_char ';' s in
  let field name =
    let p = name ^ "=" in
    let l = String.length p in
    match List.filter (fun x -> String.length x >= l && String.sub x 0 l = p) parts with
    | x :: _ -> String.sub x l (String.length x - l)
    | [] -> "" in
  let items x = List.filter (fun y -> y <> "") (String.split_on_char ',' x) in
  let blobs = List.map (fun x ->
      match String.split_on_char ':' x with
      | [a; b; c] -> { bid = int_of_string a; bchunks = int_of_string b; bman = (c = "1") }
      | _ -> failwith "blob") (items (field "blobs")) in
  let find d = List.find (fun b -> b.bid = d) blobs in
  let rec parse_opl l =
    match l with
    | ["push"; d] -> let b = find (int_of_string d) in Push (n_of_int b.bid, content_good b.bid b.bchunks, b.bman)
    | ["pushbad"; d] -> let b = find (int_of_string d) in Push (n_of_int b.bid, content_bad b.bid b.bchunks, b.bman)
    | ["tag"; d; r] -> Tag (n_of_int (int_of_string d), n_of_int (int_of_string r))
    | ["untag"; r] -> Untag (n_of_int (int_of_string r))
    | ["delete"; d] -> Delete (n_of_int (int_of_string d))
    | ["saveindex"] -> SaveIndex
    | _ -> failwith "op" in
  let parse_op x = parse_opl (String.split_on_char ':' x) in
  let parse_hop x =
    match String.split_on_char ':' x with
    | "crash" :: j :: rest -> Crashed (parse_opl rest, nat_of_int (int_of_string j))
    | l -> Done (parse_opl l) in
  (blobs, List.map parse_hop (items (field "hist")), parse_op (field "final"))

(* digest-and-size verification: the name of the blob whose content this is, 0 for anything else *)
let hfun blobs (c : n list) : n =
  match List.filter (fun b -> c = content_good b.bid b.bchunks) blobs with
  | b :: _ -> n_of_int b.bid
  | [] -> N0

let shuffle _ l = l
(* configuration of the model: re-read from the Go source by the translator (Generated/GC10.v) *)
let inplace = src_inplace
let ufirst = src_unlink_first

let fname p =
  match p with
  | FLayout -> "L" | FIndex -> "I" | FIndexTmp _ -> "IT"
  | FBlob d -> "B" ^ string_of_int (int_of_n d)
  | FIngest (d, _) -> "T" ^ string_of_int (int_of_n d)
let dname d = match d with DBlobs -> "blobs" | DAlg -> "blobs/sha256" | DIngest -> "ingest"

let show_step m =
  match m with
  | Mkdir d -> "mkdir:" ^ dname d
  | Create p -> "create:" ^ fname p
  | OpenTrunc p -> "trunc:" ^ fname p
  | Write (p, _) -> "write:" ^ fname p
  | Chmod p -> "chmod:" ^ fname p
  | Close p -> "close:" ^ fname p
  | Rename (p, q) -> "rename:" ^ fname p ^ ":" ^ fname q
  | Unlink p -> "unlink:" ^ fname p

let show_index l =
  let es = List.map (fun (d, r) ->
      string_of_int (int_of_n d) ^ "@" ^ (match r with Some x -> string_of_int (int_of_n x) | None -> "-")) l in
  "[" ^ String.concat "," (List.sort compare es) ^ "]"

(* content of a blob/ingest file of blob d: <d>:<units>:<g|b> *)
let show_content d (l : atom list) =
  let n = List.length l in
  let rec ok i l =
    match l with
    | [] -> Some "g"
    | [AChunk t] when int_of_n t = d * 4096 + 4095 -> Some "b"
    | AChunk t :: r -> if int_of_n t = d * 4096 + i then ok (i + 1) r else None
    | _ -> None in
  match ok 0 l with
  | Some f -> Printf.sprintf "%d:%d:%s" d n f
  | None -> "?"

let show_file p (f : file) =
  let mode = if f.fro then "ro" else "rw" in
  match p with
  | FLayout -> (match f.fcontent with [ALayout] -> "F:L=ok" | _ -> "F:L=bad")
  | FIndex | FIndexTmp _ ->
    "F:" ^ fname p ^ "=" ^ (match f.fcontent with [] -> "empty" | [AIndex l] -> show_index l | _ -> "bad")
  | FBlob d | FIngest (d, _) -> "F:" ^ fname p ^ "=" ^ show_content (int_of_n d) f.fcontent ^ ":" ^ mode

let show_fs blobs ctr (fs : fS) =
  let cs = range 0 (ctr + 1) in
  let paths =
    [FLayout; FIndex] @ List.map (fun c -> FIndexTmp (nat_of_int c)) cs @
    List.concat (List.map (fun b -> FBlob (n_of_int b.bid) :: List.map (fun c -> FIngest (n_of_int b.bid, nat_of_int c)) cs) blobs) in
  let ftoks = List.concat (List.map (fun p -> match fs.files p with Some f -> [show_file p f] | None -> []) paths) in
  let dtoks = List.concat (List.map (fun d -> if fs.dirs d then ["D:" ^ dname d] else []) [DBlobs; DAlg; DIngest]) in
  String.concat " " (List.sort compare (ftoks @ dtoks))

let show_res r = match r with ROk -> "ok" | RExists -> "exists" | RNotFound -> "notfound" | RMismatch -> "mismatch"

let () =
  iter_lines (fun l ->
    match split_ws l with
    | id :: "S" :: sc :: _ ->
      let (blobs, hist, fin) = parse_script sc in
      let h = hfun blobs in
      let s = runc h shuffle inplace ufirst hist init in
      Printf.printf "%s\n" (String.trim (Printf.sprintf "%s STEPS %s" id (String.concat " " (List.map show_step (op_steps h shuffle inplace ufirst s fin)))))
    | id :: "K" :: j :: sc :: _ ->
      let (blobs, hist, fin) = parse_script sc in
      let h = hfun blobs in
      let s = runc h shuffle inplace ufirst hist init in
      let fsk = crash_fs h shuffle inplace ufirst s fin (nat_of_int (int_of_string j)) in
      let s1 = run_op h shuffle inplace ufirst s fin in
      let univ = List.map (fun b -> n_of_int b.bid) blobs in
      let rec_ok = recoverableb h univ s.sfs fsk s1.sfs in
      Printf.printf "%s STATE %s%s\n" id (show_fs blobs (int_of_nat s.sctr) fsk)
        (if rec_ok then "" else " MODEL-NOT-RECOVERABLE")
    | id :: "R" :: sc :: _ ->
      let (blobs, hist, fin) = parse_script sc in
      let h = hfun blobs in
      let rec go s ops acc =
        match ops with
        | [] -> List.rev acc
        | Done o :: r -> go (run_op h shuffle inplace ufirst s o) r (show_res (op_res h s o) :: acc)
        | (Crashed (_, _) as x) :: r ->
          (* results of the processes that were killed are not part of the observation *)
          go (run_hop h shuffle inplace ufirst s x) r [] in
      Printf.printf "%s RES %s\n" id (String.concat " " (go init (hist @ [Done fin]) []))
    | [] -> ()
    | _ -> Printf.printf "BADLINE %s\n" l)
