(* C10 model runner.  One case per line:
     <id> S <script> ...        micro-steps of the final operation
     <id> K <j> <script> ...    directory after the first j micro-steps of the final operation
     <id> R <script> ...        results of every operation of the script
   <script> = blobs=<id>:<chunks>:<manifest>,...;hist=<op>,...;final=<op>
   <op> = push:<b> | pushbad:<b> | tag:<b>:<r> | untag:<r> | delete:<b> | saveindex
   history items may also be crash:<j>:<op> : the operation was interrupted after j
   micro-steps and the store was reopened (oci.New) on what was left
   Trailing fields (the JSON script for replays) are ignored. *)
let unit_good d i = n_of_int (d * 4096 + i)
let unit_bad d = n_of_int (d * 4096 + 4095)
let rec range a b = if a >= b then [] else a :: range (a + 1) b
let content_good d n = List.map (unit_good d) (range 0 n)
let content_bad d n = if n = 0 then [] else List.map (unit_good d) (range 0 (n - 1)) @ [unit_bad d]

(* Store.AutoSaveIndex of the script being evaluated (field autosave=0|1, default 1) *)
let autosv = ref true

(* bbad: manifest media type but bytes that do not decode.  Store.Push stores such content,
   fails to index it and removes it again = the push of the bytes followed by their plain
   delete (a composite call); Store.Tag refuses it (no effect). *)
type blobinfo = { bid : int; bchunks : int; bman : bool; bbad : bool }

let parse_script (s : string) =
  let parts = String.split_on_char ';' s in
  let field name =
    let p = name ^ "=" in
    let l = String.length p in
    match List.filter (fun x -> String.length x >= l && String.sub x 0 l = p) parts with
    | x :: _ -> String.sub x l (String.length x - l)
    | [] -> "" in
  let items x = List.filter (fun y -> y <> "") (String.split_on_char ',' x) in
  let blobs = List.map (fun x ->
      match String.split_on_char ':' x with
      | [a; b; c] -> { bid = int_of_string a; bchunks = int_of_string b; bman = (c = "1"); bbad = (c = "2") }
      | _ -> failwith "blob") (items (field "blobs")) in
  let find d = List.find (fun b -> b.bid = d) blobs in
  let num x = n_of_int (int_of_string x) in
  (* one API call (Model api); the model expands it to primitives (Model expand):
       dgc:<d>:<t1>:...  Delete(d) with AutoGC that went on to delete t1, ...
       gc:<s1>:...       GC that swept s1, ... (everything else is live)
       reopen            oci.New on the existing directory *)
  let parse_call l =
    match l with
    | ["push"; d] -> let b = find (int_of_string d) in APush (n_of_int b.bid, content_good b.bid b.bchunks)
    | ["pushbad"; d] -> let b = find (int_of_string d) in APush (n_of_int b.bid, content_bad b.bid b.bchunks)
    | ["tag"; d; r] -> ATag (num d, num r)
    | ["untag"; r] -> AUntag (num r)
    | ["tagdigest"; d] -> ATagDigest (num d)
    | ["untagdigest"; d] -> AUntagDigest (num d)
    | ["delete"; d] -> ADelete (num d, [])
    | ["saveindex"] -> ASaveIndex
    | "dgc" :: d :: ts -> ADelete (num d, List.map num ts)
    | "gc" :: ss ->
      let swept = List.map int_of_string ss in
      let live = List.filter (fun b -> not (List.mem b.bid swept)) blobs in
      AGC (List.map (fun b -> n_of_int b.bid) live, List.map n_of_int swept)
    | ["reopen"] -> AReopen
    | _ -> failwith "op" in
  let parse_hist x =
    match String.split_on_char ':' x with
    | "crash" :: j :: rest -> ACrashed (parse_call rest, nat_of_int (int_of_string j))
    | l -> ADone (parse_call l) in
  autosv := (field "autosave" <> "0");
  (blobs, List.map parse_hist (items (field "hist")), parse_call (String.split_on_char ':' (field "final")))

(* media type and decodability of the script's blobs (third blob field: 0 = not a manifest,
   1 = manifest, 2 = manifest media type but bytes that do not decode) *)
let mt_of blobs (d : n) = List.exists (fun b -> b.bid = int_of_n d && (b.bman || b.bbad)) blobs
let dec_of blobs (d : n) = not (List.exists (fun b -> b.bid = int_of_n d && b.bbad) blobs)

(* digest-and-size verification: the name of the blob whose content this is, 0 for anything else *)
let hfun blobs (c : n list) : n =
  match List.filter (fun b -> c = content_good b.bid b.bchunks) blobs with
  | b :: _ -> n_of_int b.bid
  | [] -> N0

let shuffle _ l = l
(* configuration of the model: re-read from the Go source by the translator (Generated/GC10.v) *)
let inplace = src_inplace
let ufirst = src_unlink_first


let fname p =
  match p with
  | FLayout -> "L" | FIndex -> "I" | FIndexTmp _ -> "IT" | FLayoutTmp _ -> "LT"
  | FBlob d -> "B" ^ string_of_int (int_of_n d)
  | FIngest (d, _) -> "T" ^ string_of_int (int_of_n d)
let dname d = match d with DBlobs -> "blobs" | DAlg a -> (match int_of_n a with 0 -> "blobs/sha256" | 1 -> "blobs/sha512" | _ -> "blobs/sha384") | DIngest -> "ingest"

let show_step m =
  match m with
  | Mkdir d -> "mkdir:" ^ dname d
  | Create p -> "create:" ^ fname p
  | OpenTrunc p -> "trunc:" ^ fname p
  | Write (p, _) -> "write:" ^ fname p
  | Chmod p -> "chmod:" ^ fname p
  | Close p -> "close:" ^ fname p
  | Rename (p, q) -> "rename:" ^ fname p ^ ":" ^ fname q
  | Unlink p -> "unlink:" ^ fname p

let show_index l =
  let es = List.map (fun (d, r) ->
      string_of_int (int_of_n d) ^ "@" ^ (match r with Some x -> string_of_int (int_of_n x) | None -> "-")) l in
  "[" ^ String.concat "," (List.sort compare es) ^ "]"

(* content of a blob/ingest file of blob d: <d>:<units>:<g|b> *)
let show_content d (l : atom list) =
  let n = List.length l in
  let rec ok i l =
    match l with
    | [] -> Some "g"
    | [AChunk t] when int_of_n t = d * 4096 + 4095 -> Some "b"
    | AChunk t :: r -> if int_of_n t = d * 4096 + i then ok (i + 1) r else None
    | _ -> None in
  match ok 0 l with
  | Some f -> Printf.sprintf "%d:%d:%s" d n f
  | None -> "?"

let show_file p (f : file) =
  let mode = if f.fro then "ro" else "rw" in
  match p with
  | FLayout | FLayoutTmp _ ->
    "F:" ^ fname p ^ "=" ^ (match f.fcontent with [ALayout] -> "ok" | [] -> "empty" | _ -> "bad")
  | FIndex | FIndexTmp _ ->
    "F:" ^ fname p ^ "=" ^ (match f.fcontent with [] -> "empty" | [AIndex l] -> show_index l | _ -> "bad")
  | FBlob d | FIngest (d, _) -> "F:" ^ fname p ^ "=" ^ show_content (int_of_n d) f.fcontent ^ ":" ^ mode

let show_fs blobs ctr (fs : fS) =
  let cs = range 0 (ctr + 1) in
  let paths =
    [FLayout; FIndex] @ List.map (fun c -> FIndexTmp (nat_of_int c)) cs @
    List.map (fun c -> FLayoutTmp (nat_of_int c)) cs @
    List.concat (List.map (fun b -> FBlob (n_of_int b.bid) :: List.map (fun c -> FIngest (n_of_int b.bid, nat_of_int c)) cs) blobs) in
  let ftoks = List.concat (List.map (fun p -> match fs.files p with Some f -> [show_file p f] | None -> []) paths) in
  let dtoks = List.concat (List.map (fun d -> if fs.dirs d then ["D:" ^ dname d] else []) [DBlobs; DAlg (n_of_int 0); DAlg (n_of_int 1); DAlg (n_of_int 2); DIngest]) in
  String.concat " " (List.sort compare (ftoks @ dtoks))

let show_res r =
  match r with
  | ROk -> "ok" | RExists -> "exists" | RNotFound -> "notfound" | RMismatch -> "mismatch" | RInvalid -> "invalid" | RInvalidRef -> "invalidref"

let rec nat_len l = match l with [] -> 0 | _ :: r -> 1 + nat_len r

let run_call h s ops = List.fold_left (fun s o -> run_op h shuffle inplace ufirst !autosv s o) s ops

(* the history of completed and interrupted calls (Model runa: expand, run, crash_ops) *)
let run_hist h blobs hist =
  runa h shuffle inplace ufirst !autosv (mt_of blobs) (dec_of blobs) hist init

(* the primitive the cut falls into: (state before it, it) *)
let rec locate h s ops j =
  match ops with
  | [] -> None
  | o :: r ->
    let n = nat_len (op_steps h shuffle inplace ufirst !autosv s o) in
    if j <= n then Some (s, o) else locate h (run_op h shuffle inplace ufirst !autosv s o) r (j - n)

(* consistency of the two models: a call that runs ALONE in the concurrent model
   (Model/OciCrashConc.v: one thread, scheduled to completion) must leave the same shared
   directory and resolver as the sequential model's operation *)
let conc_agrees h blobs (s : st) (a : api) : bool =
  let m = mt_of blobs and dc = dec_of blobs in
  let call =
    match a with
    | APush (d, c) when dc d || not (m d) -> Some (CPush (d, c, m d), Push (d, c, m d))
    | ATag (d, r) when dc d || not (m d) -> Some (CTag (d, r), Tag (d, r))
    | AUntag r -> Some (CUntag r, Untag r)
    | ASaveIndex -> Some (CSaveIndex, SaveIndex)
    | _ -> None in
  match call with
  | None -> true
  | Some (cc, o) ->
    if not !autosv then true else begin
      let c0 = start h s [cc] in
      let n = (match c0.cthreads with t :: _ -> nat_len t.tprog | [] -> 0) + 2 in
      let c = sched shuffle c0 (List.init n (fun _ -> nat_of_int 0)) in
      let s1 = run_op h shuffle inplace ufirst !autosv s o in
      let same p = (c.cfs.files p = s1.sfs.files p) in
      c.ctags = s1.stags && c.cdigs = s1.sdigs && same FLayout && same FIndex &&
      List.for_all (fun b -> same (FBlob (n_of_int b.bid))) blobs
    end

(* concurrency stream, batches run to completion: the observed final directory must be the final
   directory of SOME schedule of the concurrent model; all interleavings of the extracted
   scheduler are explored (memoised on the configuration) *)
let conc_finals h blobs (s : st) (calls : ccall list) : string list * string list =
  let c0 = start h s calls in
  let n = List.length calls in
  let show (c : conf) =
    let idx = match read_index c.cfs with Some l -> show_index l | None -> "none" in
    let bl = List.filter (fun b -> exists_file c.cfs (FBlob (n_of_int b.bid))) blobs in
    "I=" ^ idx ^ ";B=" ^ String.concat "," (List.map (fun b -> string_of_int b.bid) bl) in
  let key (c : conf) = (show c, Marshal.to_string (c.ctags, c.cdigs, c.clock, c.cthreads) []) in
  let seen = Hashtbl.create 997 in
  let finals = Hashtbl.create 17 in
  let every = Hashtbl.create 97 in
  let rec go (c : conf) =
    let k = key c in
    if not (Hashtbl.mem seen k) then begin
      Hashtbl.add seen k ();
      Hashtbl.replace every (show c) ();
      if List.for_all (fun t -> t.tprog = []) c.cthreads then Hashtbl.replace finals (show c) ()
      else
        for i = 0 to n - 1 do
          let c' = sched shuffle c [nat_of_int i] in
          let len (x : conf) = nat_len (List.nth x.cthreads i).tprog in
          if len c' < len c then go c'
        done
    end in
  go c0;
  (List.sort compare (Hashtbl.fold (fun k () acc -> k :: acc) finals []),
   List.sort compare (Hashtbl.fold (fun k () acc -> k :: acc) every []))

(* the same for goroutines that make several calls (Model gstep: the program of a call is decided
   when it starts) *)
let go_finals h blobs (s : st) (qs : ccall list list) : string list * string list =
  let g0 = gstart s qs in
  let n = List.length qs in
  let show (c : conf) =
    let idx = match read_index c.cfs with Some l -> show_index l | None -> "none" in
    let bl = List.filter (fun b -> exists_file c.cfs (FBlob (n_of_int b.bid))) blobs in
    "I=" ^ idx ^ ";B=" ^ String.concat "," (List.map (fun b -> string_of_int b.bid) bl) in
  let key (g : gconf) = (show g.gc, Marshal.to_string (g.gc.ctags, g.gc.cdigs, g.gc.clock, g.gc.cthreads, g.gq) []) in
  let seen = Hashtbl.create 9973 in
  let finals = Hashtbl.create 17 in
  let every = Hashtbl.create 97 in
  let rec go (g : gconf) =
    let k = key g in
    if not (Hashtbl.mem seen k) && Hashtbl.length seen < 400000 then begin
      Hashtbl.add seen k ();
      Hashtbl.replace every (show g.gc) ();
      if gquietb g then Hashtbl.replace finals (show g.gc) ()
      else
        for i = 0 to n - 1 do
          let g' = gsched h shuffle g [nat_of_int i] in
          if key g' <> k then go g'
        done
    end in
  go g0;
  (List.sort compare (Hashtbl.fold (fun k () acc -> k :: acc) finals []),
   List.sort compare (Hashtbl.fold (fun k () acc -> k :: acc) every []))

let parse_conc blobs (sc : string) : ccall list list =
  let parts = String.split_on_char ';' sc in
  let f = List.fold_left (fun acc x ->
      if String.length x >= 5 && String.sub x 0 5 = "conc=" then String.sub x 5 (String.length x - 5) else acc) "" parts in
  let num x = n_of_int (int_of_string x) in
  let call it =
      match String.split_on_char ':' it with
      | ["push"; d] ->
        let b = List.find (fun b -> b.bid = int_of_string d) blobs in
        CPush (n_of_int b.bid, content_good b.bid b.bchunks, mt_of blobs (n_of_int b.bid))
      | ["tag"; d; r] -> CTag (num d, num r)
      | ["untag"; r] -> CUntag (num r)
      | ["saveindex"] -> CSaveIndex
      | _ -> failwith "conc call" in
  List.map (fun q -> List.map call (List.filter (fun y -> y <> "") (String.split_on_char '+' q)))
    (List.filter (fun y -> y <> "") (String.split_on_char '|' f))

(* initialisation: final=init; the history (if any) consists of earlier attempts crash:<j>:init *)
let is_init sc =
  let n = String.length sc in n >= 10 && String.sub sc (n - 10) 10 = "final=init"
let rec take n l = if n <= 0 then [] else match l with [] -> [] | x :: r -> x :: take (n - 1) r
let init_cuts sc =
  let parts = String.split_on_char ';' sc in
  let h = List.fold_left (fun acc x ->
      if String.length x >= 5 && String.sub x 0 5 = "hist=" then String.sub x 5 (String.length x - 5) else acc) "" parts in
  List.map (fun it ->
      match String.split_on_char ':' it with
      | ["crash"; j; "init"] -> nat_of_int (int_of_string j)
      | _ -> failwith "init history") (List.filter (fun y -> y <> "") (String.split_on_char ',' h))
(* the directory the earlier attempts left, the counter, and the steps of the next attempt *)
let init_state sc =
  let (fs, c) = init_attempts shuffle inplace src_layout_inplace (init_cuts sc) empty_fs (nat_of_int 0) in
  (fs, c, new_steps shuffle inplace src_layout_inplace fs c)

let () =
  iter_lines (fun l ->
    match split_ws l with
    | id :: "S" :: sc :: _ when is_init sc ->
      let (_, _, st) = init_state sc in
      Printf.printf "%s\n" (String.trim (Printf.sprintf "%s STEPS %s" id
        (String.concat " " (List.map show_step st))))
    | id :: "K" :: j :: sc :: _ when is_init sc ->
      let (fs, c, st) = init_state sc in
      let fsk = apply (take (int_of_string j) st) fs in
      let fs2 = apply (new_steps shuffle inplace src_layout_inplace fsk (S c)) fsk in
      let ok = new_okb fsk && layout_okb fs2 && (match read_index fs2 with Some [] -> true | _ -> false) in
      Printf.printf "%s STATE %s%s\n" id (show_fs [] (int_of_nat c + 1) fsk) (if ok then "" else " MODEL-NOT-RECOVERABLE")
    | id :: "R" :: sc :: _ when is_init sc -> Printf.printf "%s RES ok\n" id
    | id :: "S" :: sc :: _ ->
      let (blobs, hist, fin) = parse_script sc in
      let h = hfun blobs in
      let s = run_hist h blobs hist in
      let agree = conc_agrees h blobs s fin in
      let fin = expand h (mt_of blobs) (dec_of blobs) s fin in
      Printf.printf "%s\n" (String.trim (Printf.sprintf "%s STEPS %s%s" id
        (String.concat " " (List.map show_step (steps_seq h shuffle inplace ufirst !autosv s fin)))
        (if agree then "" else " CONC-MODEL-DIFFERS")))
    | id :: "K" :: j :: sc :: _ ->
      let (blobs, hist, fin) = parse_script sc in
      let h = hfun blobs in
      let s = run_hist h blobs hist in
      let fin = expand h (mt_of blobs) (dec_of blobs) s fin in
      let j = int_of_string j in
      let fsk = crash_seq h shuffle inplace ufirst !autosv s fin (nat_of_int j) in
      let univ = List.map (fun b -> n_of_int b.bid) blobs in
      let rec_ok =
        match locate h s fin j with
        | Some (sj, o) -> recoverableb h univ sj.sfs fsk (run_op h shuffle inplace ufirst !autosv sj o).sfs
        | None -> let s1 = run_call h s fin in recoverableb h univ s1.sfs fsk s1.sfs in
      (* C10_api_reopen_loads: loadIndex succeeds on what was left, decoding included *)
      let rec_ok = rec_ok && load_okb (mt_of blobs) (dec_of blobs) fsk in
      Printf.printf "%s STATE %s%s\n" id (show_fs blobs (int_of_nat s.sctr + nat_len fin + 1) fsk)
        (* with AutoSaveIndex off the predicate is known to fail (C10_crash_safe_refuted_autosave_off) *)
        (if rec_ok || not !autosv then "" else " MODEL-NOT-RECOVERABLE")
    | id :: "R" :: sc :: _ ->
      let (blobs, hist, fin) = parse_script sc in
      let h = hfun blobs in
      let m = mt_of blobs and dc = dec_of blobs in
      let rec go s calls acc =
        match calls with
        | [] -> List.rev acc
        | (ADone a as x) :: r ->
          go (run_acall h shuffle inplace ufirst !autosv m dc s x) r (show_res (api_res h m dc s a) :: acc)
        | (ACrashed (_, _) as x) :: r ->
          (* results of the processes that were killed are not part of the observation *)
          go (run_acall h shuffle inplace ufirst !autosv m dc s x) r [] in
      Printf.printf "%s RES %s\n" id (String.concat " " (go init (hist @ [ADone fin]) []))
    | id :: "C" :: _ -> Printf.printf "%s CONC\n" id   (* concurrency stream, killed: oracle only *)
    | id :: "Q" :: sc :: obs :: _ ->
      let (blobs, hist, _) = parse_script sc in
      let h = hfun blobs in
      let s = run_hist h blobs hist in
      let qs = parse_conc blobs sc in
      (* single calls: the batch model (start/sched); queues of calls: gstart/gsched *)
      let (fs, every) =
        if List.for_all (fun q -> List.length q = 1) qs then conc_finals h blobs s (List.map List.hd qs)
        else go_finals h blobs s qs in
      (* "any:<dir>": the process was killed; <dir> must be the directory of some reachable configuration *)
      let killed = String.length obs > 4 && String.sub obs 0 4 = "any:" in
      let obs' = if killed then String.sub obs 4 (String.length obs - 4) else obs in
      if obs = "wedged" || List.mem obs' (if killed then every else fs) then Printf.printf "%s QREACH yes\n" id
      else Printf.printf "%s QREACH no: the model's schedules %s {%s}\n" id
          (if killed then "pass through" else "end in") (String.concat " | " (if killed then every else fs))
    | [] -> ()
    | _ -> Printf.printf "BADLINE %s\n" l)
