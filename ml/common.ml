(* Shared glue, textually appended after an extracted module (so the
   constructors XH/XO/XI/N0/Npos/O/S are the extracted ones). *)
let rec pos_of_int (i : int) : positive =
  if i = 1 then XH
  else if i land 1 = 0 then XO (pos_of_int (i lsr 1))
  else XI (pos_of_int (i lsr 1))
let n_of_int (i : int) : n = if i = 0 then N0 else Npos (pos_of_int i)
let rec int_of_pos (p : positive) : int =
  match p with XH -> 1 | XO q -> 2 * int_of_pos q | XI q -> 2 * int_of_pos q + 1
let int_of_n (x : n) : int = match x with N0 -> 0 | Npos p -> int_of_pos p
let rec nat_of_int (i : int) : nat = if i <= 0 then O else S (nat_of_int (i - 1))
let rec int_of_nat (x : nat) : int = match x with O -> 0 | S y -> 1 + int_of_nat y

let hexval c =
  match c with
  | '0' .. '9' -> Char.code c - 48
  | 'a' .. 'f' -> Char.code c - 87
  | 'A' .. 'F' -> Char.code c - 55
  | _ -> failwith "bad hex"
(* "-" denotes the empty string *)
let str_of_hex (h : string) : n list =
  if h = "-" then [] else begin
    let len = String.length h / 2 in
    let rec go i acc =
      if i < 0 then acc
      else go (i - 1) (n_of_int (hexval h.[2 * i] * 16 + hexval h.[2 * i + 1]) :: acc) in
    go (len - 1) []
  end
let hex_of_str (s : n list) : string =
  match s with
  | [] -> "-"
  | _ ->
    let b = Buffer.create 32 in
    List.iter (fun c -> Buffer.add_string b (Printf.sprintf "%02x" (int_of_n c))) s;
    Buffer.contents b

let split_ws (l : string) : string list =
  List.filter (fun x -> x <> "") (String.split_on_char ' ' l)

let iter_lines (f : string -> unit) : unit =
  try
    while true do
      f (input_line stdin)
    done
  with End_of_file -> ()
