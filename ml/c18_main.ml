(* C18 model runner.  One case per line:
   <id> H <init> <nops> <ops...>       sequential history
   <id> K <dirmode|-> <oldhex|ABSENT> <oldmode> <k> <w> <nchunks> <chunkhex...>   crash cut of a save
   <id> S <init> <nthreads> (<nops> <ops-with-observed-results...>)* FINALMD5 <md5>   concurrent run
   see harness/cmd/c18 for the token grammar. *)
exception Bad of string

let toks : string list ref = ref []
let next () = match !toks with [] -> raise (Bad "eol") | t :: r -> toks := r; t
let next_str () = str_of_hex (next ())
let next_int () = int_of_string (next ())

let parse_kind = function
  | "null" -> KNull | "str" -> KStr | "objstr" -> KObjStr | "obj" -> KObj | _ -> KOther
let kind_str = function
  | KNull -> "null" | KStr -> "str" | KObjStr -> "objstr" | KObj -> "obj" | KOther -> "other"

let parse_entry () =
  match next () with
  | "F" -> let a = next_str () in let i = next_str () in let r = next_str () in Fresh (a, i, r)
  | "O" ->
    let raw = next_str () in
    (match next () with
     | "E" -> Old (raw, VErr)
     | "V" ->
       let a = next_str () in let i = next_str () in let r = next_str () in
       let u = next_str () in let p = next_str () in
       Old (raw, VFields (a, i, r, u, p))
     | t -> raise (Bad ("view " ^ t)))
  | t -> raise (Bad ("entry " ^ t))

let rec times n f = if n <= 0 then [] else let x = f () in x :: times (n - 1) f

let parse_init () : fdoc option option =
  match next () with
  | "ABSENT" -> Some None
  | "DOC" ->
    let n = next_int () in
    Some (Some (times n (fun () ->
      let k = next_str () in
      match next () with
      | "R" -> let kd = parse_kind (next ()) in let raw = next_str () in (k, TRaw (raw, kd))
      | "C" -> (k, TCs (next_str ()))
      | "A" -> let m = next_int () in
        (k, TAuths (times m (fun () -> let a = next_str () in let e = parse_entry () in (a, e))))
      | t -> raise (Bad ("tval " ^ t)))))
  | t -> raise (Bad ("init " ^ t))

let result_str = function
  | ROk -> "ok"
  | RErrFormat -> "efmt"
  | RErrBadCred -> "badcred"
  | RErrPutDisabled -> "putdisabled"
  | RErrIO -> "ioerror"
  | RNative -> "native"
  | RCred c -> Printf.sprintf "c:%s:%s:%s:%s" (hex_of_str c.c_user) (hex_of_str c.c_pass)
                 (hex_of_str c.c_refresh) (hex_of_str c.c_access)

let parse_result (t : string) : result =
  match String.split_on_char ':' t with
  | ["ok"] -> ROk | ["efmt"] -> RErrFormat | ["badcred"] -> RErrBadCred | ["putdisabled"] -> RErrPutDisabled
  | ["c"; u; p; r; a] -> RCred { c_user = str_of_hex u; c_pass = str_of_hex p;
                                 c_refresh = str_of_hex r; c_access = str_of_hex a }
  | _ -> RErrFormat

(* an operation, with the observed result (hint) where the harness gives one *)
let parse_op () : op * string option =
  match next () with
  | "G" -> let a = next_str () in let h = next () in (Get a, Some h)
  | "P" -> let a = next_str () in let u = next_str () in let p = next_str () in
    let r = next_str () in let t = next_str () in
    (Put (a, { c_user = u; c_pass = p; c_refresh = r; c_access = t }), None)
  | "D" -> (Delete (next_str ()), None)
  | "C" -> (SetCs (next_str ()), None)
  | t -> raise (Bad ("op " ^ t))

let canon_entry = function
  | Fresh (a, i, r) -> Printf.sprintf "F:%s:%s:%s" (hex_of_str a) (hex_of_str i) (hex_of_str r)
  | Old (raw, _) -> "O:" ^ hex_of_str raw
let canon_tval = function
  | TRaw (raw, k) -> Printf.sprintf "R:%s:%s" (kind_str k) (hex_of_str raw)
  | TCs s -> "C:" ^ hex_of_str s
  | TAuths l ->
    let items = List.sort (fun (a, _) (b, _) -> compare a b) (List.map (fun (k, e) -> (hex_of_str k, canon_entry e)) l) in
    "A[" ^ String.concat "," (List.map (fun (k, v) -> k ^ "=" ^ v) items) ^ "]"
let canon_doc = function
  | None -> "ABSENT"
  | Some d ->
    let items = List.map (fun (k, v) -> (hex_of_str k, canon_tval v)) d in
    "{" ^ String.concat ";" (List.map (fun (k, v) -> k ^ "=" ^ v) (List.sort (fun (a, _) (b, _) -> compare a b) items)) ^ "}"
let md5 s = Digest.to_hex (Digest.string s)
let string_of_str (s : n list) : string =
  let b = Buffer.create 256 in
  List.iter (fun c -> Buffer.add_char b (Char.chr (int_of_n c))) s;
  Buffer.contents b

(* Get: Go's map iteration order is not observable; the model yields every
   possible answer and the observed one is accepted when it is among them *)
let disable_put = ref false
let step_hinted st (o, hint) : state * string =
  match o, hint with
  | Get a, Some h ->
    let cands = List.map result_str (x_candidates st.st_mem.m_cache a) in
    (st, if List.mem h cands then h else List.hd cands)
  | _ -> let (st', r) = x_fs_step !disable_put st o in (st', result_str r)

let history id =
  match parse_init () with
  | None -> raise (Bad "init")
  | Some f ->
    let n = next_int () in
    let ops = times n parse_op in
    let rec trailer l (m, dp) = match l with
      | "MODE" :: x :: r -> trailer r (x, dp)
      | "DP" :: x :: r -> trailer r (m, x = "1")
      | "SRC" :: r -> toks := r; (m, dp)
      | _ -> toks := []; (m, dp) in
    let (initmode, dp) = trailer !toks ("-", false) in
    disable_put := dp;
    let pairs () = if !toks = [] then [] else
        let n = next_int () in times n (fun () -> let k = next_str () in let v = next_str () in (k, v)) in
    let tops = pairs () in
    let ents0 = pairs () in
    (match x_open_store f with
     | None -> Printf.printf "%s LOADERR\n" id
     | Some st0 ->
       let st = ref st0 in
       let res = ref [] and files = ref [] and saved = ref false and ents = ref ents0 and sums = ref [] in
       List.iter (fun oh ->
           let saves_now = x_saves !st (fst oh) && not (dp && (match fst oh with Put (_, _) -> true | _ -> false)) in
           if saves_now then saved := true;
           ents := retire !ents (fst oh) saves_now;
           let (st', r) = step_hinted !st oh in
           st := st'; res := r :: !res; files := md5 (canon_doc st'.st_file) :: !files;
           (* the bytes of the file: untouched until the first save, then render_file *)
           sums := (match st'.st_file with
               | None -> "absent"
               | Some d -> if !saved then md5 (string_of_str (render_file tops !ents d)) else "orig") :: !sums) ops;
       (* the mode of the config file: 0600 once anything was saved (Model/CredSave.v mode_file) *)
       let mode = if !saved then Printf.sprintf "%o" (int_of_n mode_file) else initmode in
       Printf.printf "%s RES %s FILES %s FINAL %s MODE %s BYTES %s\n" id (String.concat " " (List.rev !res))
         (String.concat " " (List.rev !files)) (canon_doc !st.st_file) mode (String.concat " " (List.rev !sums)))

(* the same from the BYTES of the file: Model/JsonRead.v reads and classifies the document *)
let history_bytes id =
  let init = (match next () with "ABSENT" -> None | "EMPTY" -> Some [] | h -> Some (str_of_hex h)) in
  let n = next_int () in
  let ops = times n parse_op in
  let rec trailer l (m, dp) = match l with
    | "MODE" :: x :: r -> trailer r (x, dp)
    | "DP" :: x :: r -> trailer r (m, x = "1")
    | _ -> (m, dp) in
  let (initmode, dp) = trailer !toks ("-", false) in
  disable_put := dp;
  match open_bytes init with
  | None -> Printf.printf "%s LOADERR\n" id
  | Some ((st0, tops), ents0) ->
    let st = ref st0 in
    let res = ref [] and saved = ref false and ents = ref ents0 and sums = ref [] in
    List.iter (fun oh ->
        let saves_now = x_saves !st (fst oh) && not (dp && (match fst oh with Put (_, _) -> true | _ -> false)) in
        if saves_now then saved := true;
        ents := retire !ents (fst oh) saves_now;
        let (st', r) = step_hinted !st oh in
        st := st'; res := r :: !res;
        sums := (match st'.st_file with
            | None -> "absent"
            | Some d -> if !saved then md5 (string_of_str (render_file tops !ents d)) else "orig") :: !sums) ops;
    let mode = if !saved then Printf.sprintf "%o" (int_of_n mode_file) else initmode in
    (* close the loop inside the model: the bytes the model writes, read back by the model's own
       reader, give a store that answers every address of the history like the one in memory *)
    let reopen =
      if not !saved then "n/a" else
        match !st.st_file with
        | None -> "n/a"
        | Some d ->
          (match open_bytes (Some (render_file tops !ents d)) with
           | None -> "UNREADABLE"
           | Some ((st2, _), _) ->
             let addrs = List.sort_uniq compare (List.map (fun (o, _) -> match o with
                 | Get a | Put (a, _) | Delete a -> a | SetCs _ -> []) ops) in
             if List.for_all (fun a ->
                 List.sort compare (x_candidates st2.st_mem.m_cache a) = List.sort compare (x_candidates !st.st_mem.m_cache a)) addrs
                && st2.st_mem.m_cs = !st.st_mem.m_cs
             then "same" else "DIFFERENT") in
    Printf.printf "%s RES %s MODE %s BYTES %s REOPEN %s\n" id (String.concat " " (List.rev !res)) mode (String.concat " " (List.rev !sums)) reopen

(* DynamicStore (credentials.NewStore) on the bytes of the file *)
let history_dynamic id =
  let allow = (next () = "1") in
  let init = (match next () with "ABSENT" -> None | "EMPTY" -> Some [] | h -> Some (str_of_hex h)) in
  let n = next_int () in
  let ops = times n parse_op in
  disable_put := false;
  match open_dynamic init with
  | None -> Printf.printf "%s LOADERR\n" id
  | Some (((st0, tops), ents0), helpers) ->
    let st = ref st0 in
    let res = ref [] and saved = ref false and ents = ref ents0 and sums = ref [] in
    List.iter (fun (o, hint) ->
        let routed = (match o with
            | Get a | Put (a, _) | Delete a -> ds_route helpers !st a <> None
            | SetCs _ -> true) in
        let saves_now = (not routed) && x_saves !st o && not ((not allow) && (match o with Put (_, _) -> true | _ -> false)) in
        if saves_now then saved := true;
        ents := retire !ents o saves_now;
        let (st', r) =
          if routed then (!st, "native") else begin
            disable_put := not allow; step_hinted !st (o, hint) end in
        st := st'; res := r :: !res;
        sums := (match st'.st_file with
            | None -> "absent"
            | Some d -> if !saved then md5 (string_of_str (render_file tops !ents d)) else "orig") :: !sums) ops;
    disable_put := false;
    Printf.printf "%s RES %s BYTES %s\n" id (String.concat " " (List.rev !res)) (String.concat " " (List.rev !sums))

(* crash cut: paths are symbolic: D1 D2 .. (the chain of config-directory levels), P (config), T (temp).
   The first token lists the mode of every level, comma separated, "-" = missing. *)
let p_cfg = str_of_hex "50" and p_tmp = str_of_hex "54"
let p_dir i = str_of_hex (Printf.sprintf "44%02x" (48 + i))
let parse_chain tok =
  let ms = String.split_on_char ',' tok in
  let chain = List.mapi (fun i _ -> p_dir i) ms in
  let dirs = List.concat (List.mapi (fun i m -> if m = "-" then [] else [ (p_dir i, n_of_int (int_of_string m)) ]) ms) in
  (chain, dirs)
let crash id =
  let (chain, dirs) = parse_chain (next ()) in
  let old = next () in
  let oldmode = next_int () in
  let k = next_int () in
  let w = next_int () in
  let n = next_int () in
  let chunks = times n next_str in
  let files = if old = "ABSENT" then [] else [ (p_cfg, { f_data = str_of_hex old; f_mode = n_of_int oldmode }) ] in
  let fs0 = { fs_files = files; fs_dirs = dirs } in
  let steps = save_steps chain p_cfg p_tmp chunks in
  let fs1 = exec_all fs0 (cut_at steps (nat_of_int k) (nat_of_int w)) in
  let show p = match fget p fs1 with
    | None -> "ABSENT"
    | Some f -> Printf.sprintf "%s/%o" (hex_of_str f.f_data) (int_of_n f.f_mode) in
  let showd = String.concat "," (List.map (fun d -> match dget d fs1 with None -> "-" | Some m -> Printf.sprintf "%o" (int_of_n m)) chain) in
  Printf.printf "%s STEPS %d DIR %s CFG %s TMP %s\n" id (List.length steps) showd (show p_cfg) (show p_tmp)

(* a save in which one system call fails: the model's error path with its clean-up *)
let io_error id =
  let (chain, dirs) = parse_chain (next ()) in
  let old = next () in
  let oldmode = next_int () in
  let phase = next () in
  let j = nat_of_int (next_int ()) in
  let n = next_int () in
  let chunks = times n next_str in
  let files = if old = "ABSENT" then [] else [ (p_cfg, { f_data = str_of_hex old; f_mode = n_of_int oldmode }) ] in
  let fs0 = { fs_files = files; fs_dirs = dirs } in
  let steps = match phase with
    | "OK" -> save_steps chain p_cfg p_tmp chunks
    | "MKDIR" -> failed_save_steps chain p_cfg p_tmp chunks (FMkdir j)
    | "CREATE" -> failed_save_steps chain p_cfg p_tmp chunks FCreate
    | "CHMOD" -> failed_save_steps chain p_cfg p_tmp chunks FChmod
    | "WRITE" -> failed_save_steps chain p_cfg p_tmp chunks (FWrite j)
    | "CLOSE" -> failed_save_steps chain p_cfg p_tmp chunks FClose
    | "RENAME" -> failed_save_steps chain p_cfg p_tmp chunks FRename
    | p -> raise (Bad ("phase " ^ p)) in
  let fs1 = exec_all fs0 steps in
  let show p = match fget p fs1 with
    | None -> "ABSENT"
    | Some f -> Printf.sprintf "%s/%o" (hex_of_str f.f_data) (int_of_n f.f_mode) in
  let showd = String.concat "," (List.map (fun d -> match dget d fs1 with None -> "-" | Some m -> Printf.sprintf "%o" (int_of_n m)) chain) in
  Printf.printf "%s DIR %s CFG %s TMP %s\n" id showd (show p_cfg) (show p_tmp)

let script id =
  let (chain, dirs) = parse_chain (next ()) in
  let n = next_int () in
  let sizes = times n next_int in
  let chunks = List.map (fun k -> List.init k (fun _ -> n_of_int 0)) sizes in
  let steps = save_steps chain p_cfg p_tmp chunks in
  let names = List.concat_map (function
      | MkdirAll (d, _) -> if List.mem_assoc d dirs then [] else ["mkdir"]
      | CreateExcl (_, _) -> ["creat"]
      | Chmod (_, _) -> ["chmod"]
      | Write (_, d) -> [Printf.sprintf "write:%d" (List.length d)]
      | Close _ -> ["close"]
      | Rename (_, _) -> ["rename"]
      | Unlink _ -> ["unlink"]) steps in
  Printf.printf "%s SCRIPT %s\n" id (String.concat " " names)

(* concurrent run: accepted when some interleaving of the threads' operations
   (each one critical section) reproduces every observed result and the final file *)
let concurrent id =
  disable_put := false;
  match parse_init () with
  | None -> raise (Bad "init")
  | Some f ->
    let nt = next_int () in
    let threads = times nt (fun () ->
        let n = next_int () in
        times n (fun () -> let (o, _) as oh = parse_op () in
                  let obs = match o with Get _ -> (match snd oh with Some h -> h | None -> "") | _ -> next () in
                  (o, obs))) in
    let _ = next () in
    let final = next () in
    (match x_open_store f with
     | None -> Printf.printf "%s LOADERR\n" id
     | Some st0 ->
       let found = ref false in
       let rec go st (ts : (op * string) list list) =
         if !found then ()
         else if List.for_all (fun t -> t = []) ts then begin
           if md5 (canon_doc st.st_file) = final then found := true
         end else
           List.iteri (fun i t ->
               match t with
               | [] -> ()
               | (o, obs) :: rest ->
                 let (st', r) = step_hinted st (o, (match o with Get _ -> Some obs | _ -> None)) in
                 if r = obs then
                   go st' (List.mapi (fun j u -> if j = i then rest else u) ts)) ts in
       go st0 threads;
       Printf.printf "%s %s\n" id (if !found then "ACCEPT" else "REJECT"))

let () =
  iter_lines (fun l ->
      match split_ws l with
      | [] -> ()
      | id :: kind :: rest ->
        toks := rest;
        (try
           match kind with
           | "H" -> history id
           | "HB" -> history_bytes id
           | "DB" -> history_dynamic id
           | "K" -> crash id
           | "KS" -> script id
           | "KE" -> io_error id
           | "S" -> concurrent id
           | "B64" -> let s = next_str () in
             Printf.printf "%s %s %s\n" id (hex_of_str (b64_encode s))
               (match b64_decode s with None -> "ERR" | Some d -> "OK:" ^ hex_of_str d)
           | "HOST" -> Printf.printf "%s HOST %s\n" id (hex_of_str (x_to_hostname (next_str ())))
           | "FB" -> let u = next_str () in let p = next_str () in let r = next_str () in let a = next_str () in
             Printf.printf "%s BYTES %s\n" id
               (hex_of_str (x_entry_bytes { c_user = u; c_pass = p; c_refresh = r; c_access = a }))
           | "J" -> let s = next_str () in
             Printf.printf "%s JQ %s JU %s\n" id (hex_of_str (json_quote s))
               (match json_unquote s with None -> "ERR" | Some t -> "OK:" ^ hex_of_str t)
           | "E" -> let u = next_str () in let p = next_str () in
             let a = x_encode_auth u p in
             Printf.printf "%s ENC %s DEC %s\n" id (hex_of_str a)
               (match x_decode_auth a with None -> "ERR" | Some (du, dp) -> hex_of_str du ^ " " ^ hex_of_str dp)
           | "X" -> (match x_decode_auth (next_str ()) with
               | None -> Printf.printf "%s ERR\n" id
               | Some (du, dp) -> Printf.printf "%s OK %s %s\n" id (hex_of_str du) (hex_of_str dp))
           | _ -> Printf.printf "%s BADKIND\n" id
         with Bad m -> Printf.printf "%s BADLINE %s\n" id m)
      | _ -> Printf.printf "BADLINE %s\n" l)
