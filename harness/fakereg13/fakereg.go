// Package fakereg13 is an in-process OCI distribution registry (no sockets) used
// by the C13 harness.  It is a line-by-line port of coq/Model/Registry.v: every
// request is first abstracted to the model's request record, handled on the
// abstract state, optionally corrupted in one field, logged, and only then turned
// into an *http.Response.  The log is replayed through the extracted Registry.v
// on every run, so the fake itself is validated against the formal model.
//
// Independently of that port, SpecCheck judges every raw HTTP request against
// the endpoint table of the distribution specification (oracle for
// "every request is one the specification allows").
package fakereg13

import (
	"crypto/sha256"
	"encoding/json"
	"fmt"
	"io"
	"net/http"
	"regexp"
	"sort"
	"strconv"
	"strings"
)

type Desc struct {
	MT, DG string
	SZ     int64
}

type Endpoint struct {
	Kind string // blob man up sess refs
	Arg  string
	ID   int64
}

func (e Endpoint) String() string {
	switch e.Kind {
	case "blob", "man", "refs":
		return e.Kind + ":" + hx(e.Arg)
	case "sess":
		return "sess:" + strconv.FormatInt(e.ID, 10)
	}
	return e.Kind
}

type Request struct {
	URL     string // the raw URL the request was sent to (url.go)
	M, Repo string
	EP      Endpoint
	Digest  *string
	Mount   *[2]string
	Accept  *string
	CType   *string
	CLen    *int64
	Range   *[2]int64
	Body    []byte
}

type Loc struct {
	Repo string
	EP   Endpoint
}

type Response struct {
	Status int
	CType  *string
	CLen   *int64
	Dig    *string
	Loc    *Loc
	AR     bool
	Subj   *string
	Refs   []Desc
	IsRefs bool
	Body   []byte
}

type Profile struct{ DigHdr, Range, CLen, Mount, Referrers bool }

type Corruption struct {
	K     int
	Field string
	Arg   string
}

type Exchange struct {
	Op         int
	Q          Request
	R          Response
	Bad        string // SpecCheck verdict ("" = allowed)
	Hit        bool   // this response was corrupted
	OrigStatus int    // status before the corruption
}

type kv struct {
	k string
	v []byte
	m string
}

type Registry struct {
	Main, Other string
	Host        string
	Scheme      string
	P           Profile
	SubjectOf   func([]byte) *Desc
	Hash        func([]byte) string
	ValidDigest func(string) bool
	ValidTag    func(string) bool
	Corrupt     *Corruption

	blobs, mans, other []kv
	tags               []kv // k=tag, m=digest
	next               int64
	open               []int64

	CurOp int
	N     int
	Log   []Exchange

	// WarnEvery > 0: every WarnEvery-th response carries Warning headers; the texts of the
	// well-formed ones (299 - "text") are recorded in SentWarnings.
	WarnEvery    int
	SentWarnings []string

	// BlobModes: behaviour of the successful blob GET bodies, cycled (see bodyMode)
	BlobModes  []BodyMode
	blobBodies int
}

func New(main, other string, p Profile) *Registry {
	return &Registry{Main: main, Other: other, P: p, next: 1, Host: "registry.example", Scheme: "https"}
}

func (g *Registry) AddOther(dg string, c []byte) { g.other = append(g.other, kv{k: dg, v: c}) }

func lookup(m []kv, k string) *kv {
	for i := range m {
		if m[i].k == k {
			return &m[i]
		}
	}
	return nil
}
func remove(m []kv, k string) []kv {
	var out []kv
	for _, e := range m {
		if e.k != k {
			out = append(out, e)
		}
	}
	return out
}
func insert(m []kv, e kv) []kv { return append([]kv{e}, remove(m, e.k)...) }

func sp(s string) *string { return &s }
func ip(i int64) *int64   { return &i }

func resp0(st int) Response   { return Response{Status: st, CLen: ip(0)} }
func respErr(st int) Response { return Response{Status: st} }

// NameUnknown is the one error code the client distinguishes on a 404; in the abstract
// response it travels as the body of the error response (as in Model/Registry.v).
const NameUnknown = "NAME_UNKNOWN"

const ctOctet = "application/octet-stream"
const mtIndex = "application/vnd.oci.image.index.v1+json"

func (g *Registry) blobResp(hd bool, d string, c *kv, rg *[2]int64) Response {
	if c == nil {
		return respErr(404)
	}
	n := int64(len(c.v))
	if g.P.Range && !hd && rg != nil {
		a, b := rg[0], rg[1]
		if a <= b && b < n {
			r := Response{Status: 206, CType: sp(ctOctet), AR: true, Body: c.v[a : b+1]}
			if g.P.CLen {
				r.CLen = ip(b + 1 - a)
			}
			if g.P.DigHdr {
				r.Dig = sp(d)
			}
			return r
		}
		return respErr(416)
	}
	r := Response{Status: 200, CType: sp(ctOctet), AR: g.P.Range}
	if g.P.CLen || hd {
		r.CLen = ip(n)
	}
	if g.P.DigHdr {
		r.Dig = sp(d)
	}
	if !hd {
		r.Body = c.v
	}
	return r
}

func (g *Registry) manDigest(rf string) (string, bool) {
	if g.ValidDigest(rf) {
		return rf, true
	}
	if t := lookup(g.tags, rf); t != nil {
		return t.m, true
	}
	return "", false
}

func (g *Registry) manResp(hd bool, rf string) Response {
	d, ok := g.manDigest(rf)
	if !ok {
		return respErr(404)
	}
	e := lookup(g.mans, d)
	if e == nil {
		return respErr(404)
	}
	r := Response{Status: 200, CType: sp(e.m)}
	if g.P.CLen || hd {
		r.CLen = ip(int64(len(e.v)))
	}
	if g.P.DigHdr {
		r.Dig = sp(d)
	}
	if !hd {
		r.Body = e.v
	}
	return r
}

func (g *Registry) openSession() Response {
	id := g.next
	g.next++
	g.open = append([]int64{id}, g.open...)
	r := resp0(202)
	r.Loc = &Loc{g.Main, Endpoint{Kind: "sess", ID: id}}
	return r
}

func (g *Registry) digOpt(r *Response, d string) {
	if g.P.DigHdr {
		r.Dig = sp(d)
	}
}

func (g *Registry) handle(q Request) Response {
	if q.Repo == g.Main {
		switch {
		case q.M == "GET" && q.EP.Kind == "blob":
			return g.blobResp(false, q.EP.Arg, lookup(g.blobs, q.EP.Arg), q.Range)
		case q.M == "HEAD" && q.EP.Kind == "blob":
			return g.blobResp(true, q.EP.Arg, lookup(g.blobs, q.EP.Arg), nil)
		case q.M == "DELETE" && q.EP.Kind == "blob":
			if lookup(g.blobs, q.EP.Arg) == nil {
				return respErr(404)
			}
			g.blobs = remove(g.blobs, q.EP.Arg)
			r := resp0(202)
			g.digOpt(&r, q.EP.Arg)
			return r
		case q.M == "POST" && q.EP.Kind == "up":
			if q.Mount != nil && g.P.Mount && q.Mount[1] == g.Other {
				if c := lookup(g.other, q.Mount[0]); c != nil {
					g.blobs = insert(g.blobs, kv{k: q.Mount[0], v: c.v})
					r := resp0(201)
					g.digOpt(&r, q.Mount[0])
					r.Loc = &Loc{g.Main, Endpoint{Kind: "blob", Arg: q.Mount[0]}}
					return r
				}
			}
			return g.openSession()
		case q.M == "PUT" && q.EP.Kind == "sess":
			isOpen := false
			for _, id := range g.open {
				if id == q.EP.ID {
					isOpen = true
				}
			}
			if !isOpen {
				return respErr(404)
			}
			if q.Digest == nil {
				return respErr(400)
			}
			d := *q.Digest
			if !(g.ValidDigest(d) && g.Hash(q.Body) == d && q.CLen != nil && *q.CLen == int64(len(q.Body))) {
				return respErr(400)
			}
			g.blobs = insert(g.blobs, kv{k: d, v: q.Body})
			var open []int64
			for _, id := range g.open {
				if id != q.EP.ID {
					open = append(open, id)
				}
			}
			g.open = open
			r := resp0(201)
			g.digOpt(&r, d)
			r.Loc = &Loc{g.Main, Endpoint{Kind: "blob", Arg: d}}
			return r
		case q.M == "GET" && q.EP.Kind == "man":
			return g.manResp(false, q.EP.Arg)
		case q.M == "HEAD" && q.EP.Kind == "man":
			return g.manResp(true, q.EP.Arg)
		case q.M == "PUT" && q.EP.Kind == "man":
			rf := q.EP.Arg
			d := g.Hash(q.Body)
			if q.CType == nil {
				return respErr(400)
			}
			if !(q.CLen != nil && *q.CLen == int64(len(q.Body))) {
				return respErr(400)
			}
			if g.ValidDigest(rf) && rf != d {
				return respErr(400)
			}
			if !g.ValidDigest(rf) && !g.ValidTag(rf) {
				return respErr(400)
			}
			g.mans = insert(g.mans, kv{k: d, v: q.Body, m: *q.CType})
			if !g.ValidDigest(rf) {
				g.tags = insert(g.tags, kv{k: rf, m: d})
			}
			r := resp0(201)
			g.digOpt(&r, d)
			r.Loc = &Loc{g.Main, Endpoint{Kind: "man", Arg: d}}
			if g.P.Referrers {
				if s := g.SubjectOf(q.Body); s != nil {
					r.Subj = sp(s.DG)
				}
			}
			return r
		case q.M == "DELETE" && q.EP.Kind == "man":
			rf := q.EP.Arg
			if !g.ValidDigest(rf) {
				return respErr(405)
			}
			if lookup(g.mans, rf) == nil {
				return respErr(404)
			}
			g.mans = remove(g.mans, rf)
			var tags []kv
			for _, t := range g.tags {
				if t.m != rf {
					tags = append(tags, t)
				}
			}
			g.tags = tags
			r := resp0(202)
			g.digOpt(&r, rf)
			return r
		case q.M == "GET" && q.EP.Kind == "refs":
			if !g.P.Referrers {
				return respErr(404)
			}
			r := Response{Status: 200, CType: sp(mtIndex), IsRefs: true}
			for _, e := range g.mans {
				if s := g.SubjectOf(e.v); s != nil && s.DG == q.EP.Arg {
					r.Refs = append(r.Refs, Desc{e.m, e.k, int64(len(e.v))})
				}
			}
			return r
		}
		return respErr(405)
	}
	if q.Repo == g.Other {
		switch {
		case q.M == "GET" && q.EP.Kind == "blob":
			return g.blobResp(false, q.EP.Arg, lookup(g.other, q.EP.Arg), q.Range)
		case q.M == "HEAD" && q.EP.Kind == "blob":
			return g.blobResp(true, q.EP.Arg, lookup(g.other, q.EP.Arg), nil)
		}
		return respErr(405)
	}
	return Response{Status: 404, Body: []byte(NameUnknown)}
}

func corrupt(k *Corruption, r *Response) {
	switch k.Field {
	case "dig-other":
		r.Dig = sp(k.Arg)
	case "dig-garbage":
		r.Dig = sp("garbage")
	case "dig-drop":
		r.Dig = nil
	case "len-inc":
		if r.CLen != nil {
			r.CLen = ip(*r.CLen + 1)
		}
	case "len-drop":
		r.CLen = nil
	case "type-other":
		r.CType = sp("application/vnd.verif.other")
	case "type-garbage":
		r.CType = sp("garbage/;=")
	case "type-drop":
		r.CType = nil
	case "status":
		n, _ := strconv.Atoi(k.Arg)
		r.Status = n
	case "loc-drop":
		r.Loc = nil
	case "name-unknown":
		r.Status = 404
		r.Body = []byte(NameUnknown)
	}
}

// ---------- HTTP <-> abstract records ----------

var (
	reSess = regexp.MustCompile(`^/v2/(.+)/blobs/uploads/([0-9]+)$`)
	reUp   = regexp.MustCompile(`^/v2/(.+)/blobs/uploads/$`)
	reBlob = regexp.MustCompile(`^/v2/(.+)/blobs/([^/]*)$`)
	reMan  = regexp.MustCompile(`^/v2/(.+)/manifests/([^/]*)$`)
	reRefs = regexp.MustCompile(`^/v2/(.+)/referrers/([^/]*)$`)
	reRng  = regexp.MustCompile(`^bytes=([0-9]+)-([0-9]+)$`)
)

func (g *Registry) abstract(req *http.Request, body []byte) (Request, bool) {
	q := Request{M: req.Method, Body: body, URL: req.URL.String()}
	p := req.URL.Path
	if m := reSess.FindStringSubmatch(p); m != nil {
		id, _ := strconv.ParseInt(m[2], 10, 64)
		q.Repo, q.EP = m[1], Endpoint{Kind: "sess", ID: id}
	} else if m := reUp.FindStringSubmatch(p); m != nil {
		q.Repo, q.EP = m[1], Endpoint{Kind: "up"}
	} else if m := reBlob.FindStringSubmatch(p); m != nil {
		q.Repo, q.EP = m[1], Endpoint{Kind: "blob", Arg: m[2]}
	} else if m := reMan.FindStringSubmatch(p); m != nil {
		q.Repo, q.EP = m[1], Endpoint{Kind: "man", Arg: m[2]}
	} else if m := reRefs.FindStringSubmatch(p); m != nil {
		q.Repo, q.EP = m[1], Endpoint{Kind: "refs", Arg: m[2]}
	} else {
		return q, false
	}
	qs := req.URL.Query()
	if qs.Has("digest") {
		q.Digest = sp(qs.Get("digest"))
	}
	if qs.Has("mount") || qs.Has("from") {
		q.Mount = &[2]string{qs.Get("mount"), qs.Get("from")}
	}
	if v := req.Header.Get("Accept"); v != "" {
		q.Accept = sp(v)
	}
	if v := req.Header.Get("Content-Type"); v != "" {
		q.CType = sp(v)
	}
	if req.Method == "PUT" {
		q.CLen = ip(req.ContentLength)
	}
	if v := req.Header.Get("Range"); v != "" {
		if m := reRng.FindStringSubmatch(v); m != nil {
			a, _ := strconv.ParseInt(m[1], 10, 64)
			b, _ := strconv.ParseInt(m[2], 10, 64)
			q.Range = &[2]int64{a, b}
		} else {
			return q, false
		}
	}
	return q, true
}

// BodyMode is how a response body hands out its bytes: at most Chunk bytes per Read call
// (0 = no limit) and the last bytes either together with io.EOF in one call (EOFWithData,
// what net/http does for a Content-Length body) or followed by a separate (0, io.EOF).
type BodyMode struct {
	Chunk       int
	EOFWithData bool
}

type body struct {
	b    []byte
	i    int
	mode BodyMode
}

func (r *body) Read(p []byte) (int, error) {
	if r.i >= len(r.b) {
		return 0, io.EOF
	}
	n := len(p)
	if r.mode.Chunk > 0 && n > r.mode.Chunk {
		n = r.mode.Chunk
	}
	n = copy(p[:n], r.b[r.i:])
	r.i += n
	if r.mode.EOFWithData && n > 0 && r.i >= len(r.b) {
		return n, io.EOF
	}
	return n, nil
}
func (r *body) Close() error { return nil }

// bodyMode picks the behaviour of the next body: BlobModes (cycled over the successful blob
// GET bodies, the ones a readSeekCloser reads) when set, else a rotation over all behaviours.
func (g *Registry) bodyMode(req *http.Request, r Response) BodyMode {
	if len(g.BlobModes) > 0 {
		if req.Method == "GET" && (r.Status == 200 || r.Status == 206) && strings.Contains(req.URL.Path, "/blobs/sha") {
			m := g.BlobModes[g.blobBodies%len(g.BlobModes)]
			g.blobBodies++
			return m
		}
		return BodyMode{}
	}
	all := []BodyMode{{0, false}, {0, true}, {3, false}, {2, true}, {1, true}, {7, false}}
	return all[(g.N+len(r.Body))%len(all)]
}

func (g *Registry) path(l Loc) string {
	base := "/v2/" + l.Repo
	switch l.EP.Kind {
	case "sess":
		return base + "/blobs/uploads/" + strconv.FormatInt(l.EP.ID, 10)
	case "blob":
		return base + "/blobs/" + l.EP.Arg
	case "man":
		return base + "/manifests/" + l.EP.Arg
	}
	return base
}

func (g *Registry) concrete(req *http.Request, r Response) *http.Response {
	resp := &http.Response{StatusCode: r.Status, Status: strconv.Itoa(r.Status) + " " + http.StatusText(r.Status),
		Proto: "HTTP/1.1", ProtoMajor: 1, ProtoMinor: 1, Header: http.Header{}, Request: req}
	b := r.Body
	if r.IsRefs && r.Status < 400 {
		type jd struct {
			MediaType string `json:"mediaType"`
			Digest    string `json:"digest"`
			Size      int64  `json:"size"`
		}
		idx := struct {
			SchemaVersion int    `json:"schemaVersion"`
			MediaType     string `json:"mediaType"`
			Manifests     []jd   `json:"manifests"`
		}{2, mtIndex, []jd{}}
		for _, d := range r.Refs {
			idx.Manifests = append(idx.Manifests, jd{d.MT, d.DG, d.SZ})
		}
		b, _ = json.Marshal(idx)
	}
	if r.Status >= 400 && string(b) == NameUnknown {
		b = []byte(`{"errors":[{"code":"NAME_UNKNOWN","message":"repository name not known to registry"}]}`)
		resp.Header.Set("Content-Type", "application/json")
	} else if r.Status >= 400 {
		code := map[int]string{400: "DIGEST_INVALID", 404: "NOT_FOUND", 405: "UNSUPPORTED", 416: "RANGE_INVALID"}[r.Status]
		if code == "" {
			code = "UNKNOWN"
		}
		b = []byte(fmt.Sprintf(`{"errors":[{"code":%q,"message":"fake registry"}]}`, code))
		resp.Header.Set("Content-Type", "application/json")
	}
	if r.CType != nil {
		resp.Header.Set("Content-Type", *r.CType)
	}
	if r.Dig != nil {
		resp.Header.Set("Docker-Content-Digest", *r.Dig)
	}
	if r.Loc != nil {
		resp.Header.Set("Location", g.path(*r.Loc))
	}
	if r.AR {
		resp.Header.Set("Accept-Ranges", "bytes")
	}
	if r.Subj != nil {
		resp.Header.Set("OCI-Subject", *r.Subj)
	}
	resp.ContentLength = -1
	if r.CLen != nil {
		resp.ContentLength = *r.CLen
	}
	if req.Method == "HEAD" {
		b = nil
	}
	resp.Body = &body{b: b, mode: g.bodyMode(req, r)}
	return resp
}

// Do implements remote.Client.
func (g *Registry) Do(req *http.Request) (*http.Response, error) {
	var b []byte
	if req.Body != nil {
		var err error
		b, err = io.ReadAll(req.Body)
		req.Body.Close()
		if err != nil {
			return nil, err
		}
	}
	bad := SpecCheck(req, b, g.Scheme, g.Host)
	q, ok := g.abstract(req, b)
	if !ok {
		if bad == "" {
			bad = "unparseable"
		}
		g.Log = append(g.Log, Exchange{Op: g.CurOp, Q: q, R: respErr(404), Bad: "unparseable:" + req.Method + " " + req.URL.String()})
		g.N++
		return g.concrete(req, respErr(404)), nil
	}
	r := g.handle(q)
	hit := false
	orig := r.Status
	if g.Corrupt != nil && g.Corrupt.K == g.N {
		corrupt(g.Corrupt, &r)
		hit = true
	}
	g.N++
	g.Log = append(g.Log, Exchange{Op: g.CurOp, Q: q, R: r, Bad: bad, Hit: hit, OrigStatus: orig})
	resp := g.concrete(req, r)
	if g.WarnEvery > 0 && g.N%g.WarnEvery == 0 {
		t1 := fmt.Sprintf("verif warning %d", g.N)
		resp.Header.Add("Warning", fmt.Sprintf("299 - %q", t1))
		resp.Header.Add("Warning", `199 - "not a 299 warning"`)
		resp.Header.Add("Warning", `299 registry "named agent"`)
		g.SentWarnings = append(g.SentWarnings, t1)
		if g.N%2 == 0 {
			t2 := fmt.Sprintf("second \"quoted\" %d", g.N)
			resp.Header.Add("Warning", fmt.Sprintf("299 - %q", t2))
			g.SentWarnings = append(g.SentWarnings, t2)
		}
	}
	return resp, nil
}

// ---------- printing (must equal ml/c13_main.ml) ----------

func hx(s string) string {
	if s == "" {
		return "-"
	}
	return fmt.Sprintf("%x", s)
}
func ostr(p *string) string {
	if p == nil {
		return "-"
	}
	return hx(*p)
}
func oint(p *int64) string {
	if p == nil {
		return "-"
	}
	return strconv.FormatInt(*p, 10)
}

func ShowDesc(d Desc) string { return fmt.Sprintf("%s/%s/%d", hx(d.MT), hx(d.DG), d.SZ) }
func ShowDescs(l []Desc) string {
	if len(l) == 0 {
		return "-"
	}
	var s []string
	for _, d := range l {
		s = append(s, ShowDesc(d))
	}
	sort.Strings(s)
	return strings.Join(s, "+")
}

func ShowReq(q Request) string {
	mt, rg := "-", "-"
	if q.Mount != nil {
		mt = hx(q.Mount[0]) + "+" + hx(q.Mount[1])
	}
	if q.Range != nil {
		rg = fmt.Sprintf("%d-%d", q.Range[0], q.Range[1])
	}
	us := sha256.Sum256([]byte(q.URL))
	return fmt.Sprintf("%s,%s,%s,u=%x,dg=%s,mt=%s,ac=%s,ct=%s,cl=%s,rg=%s,b=%s", q.M, hx(q.Repo), q.EP, us[:6], ostr(q.Digest),
		mt, ostr(q.Accept), ostr(q.CType), oint(q.CLen), rg, hx(string(q.Body)))
}

func ShowResp(r Response) string {
	cl, b, loc, ar := oint(r.CLen), hx(string(r.Body)), "-", "0"
	if r.Status >= 400 {
		cl = "-"
		if string(r.Body) != NameUnknown {
			b = "-"
		}
	}
	if r.Loc != nil {
		loc = hx(r.Loc.Repo) + "+" + r.Loc.EP.String()
	}
	if r.AR {
		ar = "1"
	}
	return fmt.Sprintf("%d,ct=%s,cl=%s,dg=%s,loc=%s,ar=%s,sj=%s,rf=%s,b=%s", r.Status, ostr(r.CType), cl, ostr(r.Dig),
		loc, ar, ostr(r.Subj), ShowDescs(r.Refs), b)
}

// ---------- independent request validator (distribution-spec endpoint table) ----------

var (
	nameRe   = `[a-z0-9]+(?:(?:\.|_|__|-+)[a-z0-9]+)*(?:/[a-z0-9]+(?:(?:\.|_|__|-+)[a-z0-9]+)*)*`
	tagRe    = `[a-zA-Z0-9_][a-zA-Z0-9._-]{0,127}`
	digestRe = `(?:sha256:[a-f0-9]{64}|sha384:[a-f0-9]{96}|sha512:[a-f0-9]{128})`
	spBlob   = regexp.MustCompile(`^/v2/` + nameRe + `/blobs/` + digestRe + `$`)
	spMan    = regexp.MustCompile(`^/v2/` + nameRe + `/manifests/(?:` + tagRe + `|` + digestRe + `)$`)
	spUp     = regexp.MustCompile(`^/v2/` + nameRe + `/blobs/uploads/$`)
	spSess   = regexp.MustCompile(`^/v2/` + nameRe + `/blobs/uploads/[0-9]+$`)
	spRefs   = regexp.MustCompile(`^/v2/` + nameRe + `/referrers/` + digestRe + `$`)
	spDig    = regexp.MustCompile(`^` + digestRe + `$`)
	spName   = regexp.MustCompile(`^` + nameRe + `$`)
)

// SpecCheck returns "" when the request is one the distribution specification
// defines (end-2 .. end-12a as used by a monolithic-upload client), else a reason.
func SpecCheck(req *http.Request, body []byte, scheme, host string) string {
	u := req.URL
	if u.Scheme != scheme {
		return "scheme " + u.Scheme
	}
	if u.Host != host {
		return "host " + u.Host
	}
	if u.Fragment != "" || u.User != nil {
		return "url decoration"
	}
	q := u.Query()
	only := func(keys ...string) bool {
		for k := range q {
			ok := false
			for _, a := range keys {
				if a == k {
					ok = true
				}
			}
			if !ok {
				return false
			}
		}
		return true
	}
	nobody := len(body) == 0 && req.Header.Get("Content-Type") == ""
	rng := req.Header.Get("Range")
	p := u.EscapedPath()
	switch {
	case spBlob.MatchString(p):
		switch req.Method {
		case "GET":
			if rng != "" {
				m := reRng.FindStringSubmatch(rng)
				if m == nil {
					return "range syntax " + rng
				}
				a, _ := strconv.ParseInt(m[1], 10, 64)
				b, _ := strconv.ParseInt(m[2], 10, 64)
				if a > b {
					return "range order " + rng
				}
			}
			if !only() || !nobody {
				return "GET blob with query/body"
			}
			return ""
		case "HEAD", "DELETE":
			if !only() || !nobody || rng != "" {
				return req.Method + " blob with query/body/range"
			}
			return ""
		}
		return "method " + req.Method + " on blob"
	case spMan.MatchString(p):
		switch req.Method {
		case "GET", "HEAD", "DELETE":
			if !only() || !nobody || rng != "" {
				return req.Method + " manifest with query/body/range"
			}
			return ""
		case "PUT":
			if !only() || rng != "" {
				return "PUT manifest with query/range"
			}
			if req.Header.Get("Content-Type") == "" {
				return "PUT manifest without Content-Type"
			}
			if req.ContentLength < 0 {
				return "PUT manifest without Content-Length"
			}
			return ""
		}
		return "method " + req.Method + " on manifest"
	case spUp.MatchString(p):
		if req.Method != "POST" {
			return "method " + req.Method + " on uploads"
		}
		if !nobody || rng != "" {
			return "POST uploads with body"
		}
		if len(q) == 0 {
			return ""
		}
		if !only("mount", "from") || !q.Has("mount") || !q.Has("from") {
			return "POST uploads query " + u.RawQuery
		}
		if !spDig.MatchString(q.Get("mount")) || !spName.MatchString(q.Get("from")) {
			return "mount parameters " + u.RawQuery
		}
		return ""
	case spSess.MatchString(p):
		if req.Method != "PUT" {
			return "method " + req.Method + " on upload session"
		}
		if !only("digest") || !spDig.MatchString(q.Get("digest")) {
			return "PUT upload digest " + u.RawQuery
		}
		if req.Header.Get("Content-Type") != "application/octet-stream" {
			return "PUT upload Content-Type " + req.Header.Get("Content-Type")
		}
		if req.ContentLength < 0 || rng != "" {
			return "PUT upload without Content-Length"
		}
		return ""
	case spRefs.MatchString(p):
		// n: oras-go's ReferrerListPageSize (the tag-list style page size; registries without
		// referrers pagination ignore it)
		if req.Method != "GET" || !nobody || rng != "" || !only("artifactType", "n") {
			return "referrers request"
		}
		return ""
	}
	return "no such endpoint: " + req.Method + " " + p
}
