// Package common holds what every property harness shares: the PRNG, the case
// writer (cases for the model, observations of the implementation, oracle
// verdicts) and the statistics that end up in the evidence file.
package common

import (
	"bufio"
	"crypto/sha256"
	"encoding/hex"
	"encoding/json"
	"flag"
	"fmt"
	"os"
	"path/filepath"
	"sort"
	"strings"
)

// ---------- PRNG (splitmix64) ----------

type Rand struct{ s uint64 }

// NewRand seeds the generator through a full avalanche of the seed: with the raw
// splitmix64 state (seed*gamma + c) consecutive seeds would produce the same stream
// shifted by one draw, so VERIF_SEED=1,2,3 would explore nearly the same cases.
func NewRand(seed uint64) *Rand {
	z := seed + 0x632BE59BD9B4E019
	z = (z ^ (z >> 30)) * 0xBF58476D1CE4E5B9
	z = (z ^ (z >> 27)) * 0x94D049BB133111EB
	z ^= z >> 31
	return &Rand{s: z}
}

func (r *Rand) U64() uint64 {
	r.s += 0x9E3779B97F4A7C15
	z := r.s
	z = (z ^ (z >> 30)) * 0xBF58476D1CE4E5B9
	z = (z ^ (z >> 27)) * 0x94D049BB133111EB
	return z ^ (z >> 31)
}

// Intn returns a value in [0, n).
func (r *Rand) Intn(n int) int {
	if n <= 0 {
		return 0
	}
	return int(r.U64() % uint64(n))
}

func (r *Rand) Bool() bool { return r.U64()&1 == 1 }

// Chance returns true with probability num/den.
func (r *Rand) Chance(num, den int) bool { return r.Intn(den) < num }

func (r *Rand) Fork() *Rand { return NewRand(r.U64()) }

func Pick[T any](r *Rand, xs []T) T { return xs[r.Intn(len(xs))] }

func Shuffle[T any](r *Rand, xs []T) {
	for i := len(xs) - 1; i > 0; i-- {
		j := r.Intn(i + 1)
		xs[i], xs[j] = xs[j], xs[i]
	}
}

// ---------- hex helpers ("-" is the empty string) ----------

func Hex(s string) string {
	if s == "" {
		return "-"
	}
	return hex.EncodeToString([]byte(s))
}

func UnHex(h string) string {
	if h == "-" {
		return ""
	}
	b, err := hex.DecodeString(h)
	if err != nil {
		panic(err)
	}
	return string(b)
}

// ---------- run context ----------

type Run struct {
	Seed   uint64
	Tier   string
	Dir    string
	Replay string
	Rand   *Rand

	cases, impl, oracle *bufio.Writer
	files               []*os.File

	next         int
	Evaluations  int
	distinct     map[[8]byte]struct{}
	Dist         map[string]int
	Samples      []any
	OracleFails  int
	Rule         string
	Extra        map[string]any
	TracesAgainstImpl int
}

func Start(prop string) *Run {
	seed := flag.Uint64("seed", 1, "PRNG seed")
	tier := flag.String("tier", "quick", "quick|thorough")
	dir := flag.String("dir", "", "output directory")
	replay := flag.String("replay", "", "replay file")
	flag.Parse()
	if *dir == "" {
		fmt.Fprintln(os.Stderr, "missing -dir")
		os.Exit(2)
	}
	if err := os.MkdirAll(*dir, 0o755); err != nil {
		panic(err)
	}
	r := &Run{Seed: *seed, Tier: *tier, Dir: *dir, Replay: *replay, Rand: NewRand(*seed),
		distinct: map[[8]byte]struct{}{}, Dist: map[string]int{}, Extra: map[string]any{}}
	open := func(name string) *bufio.Writer {
		f, err := os.Create(filepath.Join(*dir, name))
		if err != nil {
			panic(err)
		}
		r.files = append(r.files, f)
		return bufio.NewWriterSize(f, 1<<20)
	}
	r.cases, r.impl, r.oracle = open("cases.txt"), open("impl.txt"), open("oracle.txt")
	return r
}

func (r *Run) Thorough() bool { return r.Tier == "thorough" }

// Scale picks the quick or thorough budget.
func (r *Run) Scale(quick, thorough int) int {
	if r.Thorough() {
		return thorough
	}
	return quick
}

// NewID returns a fresh case identifier.
func (r *Run) NewID() string {
	r.next++
	return fmt.Sprintf("c%d", r.next)
}

// Case records the model input and the implementation's observable for one case.
// Both are single-line, space separated.
func (r *Run) Case(id, modelInput, implObs string) {
	r.Evaluations++
	fmt.Fprintf(r.cases, "%s %s\n", id, modelInput)
	fmt.Fprintf(r.impl, "%s %s\n", id, implObs)
}

// Nontrivial counts a distinct non-trivial case by its canonical form.
func (r *Run) Nontrivial(canon string) {
	h := sha256.Sum256([]byte(canon))
	var k [8]byte
	copy(k[:], h[:8])
	r.distinct[k] = struct{}{}
}

func (r *Run) Count(key string) { r.Dist[key]++ }

func (r *Run) Sample(v any) {
	if len(r.Samples) < 5 {
		r.Samples = append(r.Samples, v)
	}
}

// OracleFail records a direct violation of the property on the implementation.
// replay is a JSON-able description sufficient to re-run the case.
func (r *Run) OracleFail(id, signature, msg string, replay any) {
	r.OracleFails++
	js, _ := json.Marshal(replay)
	fmt.Fprintf(r.oracle, "%s FAIL %s %s %s\n", id, signature, strings.ReplaceAll(msg, "\n", " "), js)
}

func (r *Run) Finish() {
	for _, w := range []*bufio.Writer{r.cases, r.impl, r.oracle} {
		w.Flush()
	}
	for _, f := range r.files {
		f.Close()
	}
	keys := make([]string, 0, len(r.Dist))
	for k := range r.Dist {
		keys = append(keys, k)
	}
	sort.Strings(keys)
	dist := map[string]int{}
	for _, k := range keys {
		dist[k] = r.Dist[k]
	}
	st := map[string]any{
		"evaluations":                   r.Evaluations,
		"distinct_nontrivial":           len(r.distinct),
		"rule":                          r.Rule,
		"samples":                       r.Samples,
		"input_distribution":            dist,
		"oracle_failures":               r.OracleFails,
		"traces_validated_against_impl": r.TracesAgainstImpl,
		"seed":                          r.Seed,
		"tier":                          r.Tier,
	}
	for k, v := range r.Extra {
		st[k] = v
	}
	js, _ := json.MarshalIndent(st, "", " ")
	if err := os.WriteFile(filepath.Join(r.Dir, "stats.json"), js, 0o644); err != nil {
		panic(err)
	}
}

// ReadReplay loads the "cases" array of a replay file written by bin/check
// (values are stringified).
func ReadReplay(path string) []map[string]string {
	data, err := os.ReadFile(path)
	if err != nil {
		panic(err)
	}
	var doc struct {
		Cases []map[string]any `json:"cases"`
	}
	if err := json.Unmarshal(data, &doc); err != nil {
		panic(err)
	}
	var out []map[string]string
	for _, c := range doc.Cases {
		m := map[string]string{}
		for k, v := range c {
			switch x := v.(type) {
			case string:
				m[k] = x
			default:
				js, _ := json.Marshal(x)
				m[k] = string(js)
			}
		}
		out = append(out, m)
	}
	return out
}
