// Package crashkit10 is the crash machinery of property C10: a scripted child
// process that drives a real oci.Store, an strace runner that records the
// child's file-system system calls and kills it before its k-th system call
// inside a marked window, a parser for the recorded traces, and a raw
// (implementation independent) reader of an OCI layout directory.
package crashkit10

import (
	"crypto/sha256"
	"crypto/sha512"
	"encoding/hex"
	"encoding/json"
	"fmt"
)

// ChunkSize is the granularity at which blob contents are described (a blob
// file on disk is a sequence of whole chunks of its content, see Describe).
// It is the buffer size the OCI storage uses for copying; the number of write
// system calls is read off the recorded trace, not assumed.
const ChunkSize = 1 << 20

// Blob is one element of the content universe of a script.
type Blob struct {
	ID        int    `json:"id"`            // model name, >= 1; sha512 blobs have ids 1000..1999 (model: algorithm = id / 1000)
	Alg       string `json:"alg,omitempty"` // "" = sha256, "sha512" (ids 1000..), "sha384" (ids 2000..)
	Kind      string `json:"kind"`          // "raw" | "manifest" | "badmanifest" (manifest media type, bytes that are not JSON)
	Size      int    `json:"size"`          // raw: number of bytes
	Fill      uint64 `json:"fill"`          // raw: PRNG seed of the bytes
	JSON      string `json:"json"`          // manifest: the bytes
	MediaType string `json:"media_type"`
}

func (b Blob) Content() []byte {
	if b.Kind == "manifest" {
		return []byte(b.JSON)
	}
	if b.Kind == "badmanifest" {
		return []byte(fmt.Sprintf("{not json %d", b.Fill))
	}
	out := make([]byte, b.Size)
	s := b.Fill*0x9E3779B97F4A7C15 + 77
	for i := 0; i < len(out); i += 8 {
		s += 0x9E3779B97F4A7C15
		z := s
		z = (z ^ (z >> 30)) * 0xBF58476D1CE4E5B9
		z = (z ^ (z >> 27)) * 0x94D049BB133111EB
		z ^= z >> 31
		for j := 0; j < 8 && i+j < len(out); j++ {
			out[i+j] = byte(z >> (8 * j))
		}
	}
	return out
}

// BadContent is Content with the last byte flipped (same size, other digest).
func (b Blob) BadContent() []byte {
	c := b.Content()
	if len(c) > 0 {
		c[len(c)-1] ^= 0x5a
	}
	return c
}

func (b Blob) Hex() string {
	if b.Alg == "sha512" {
		h := sha512.Sum512(b.Content())
		return hex.EncodeToString(h[:])
	}
	if b.Alg == "sha384" {
		h := sha512.Sum384(b.Content())
		return hex.EncodeToString(h[:])
	}
	h := sha256.Sum256(b.Content())
	return hex.EncodeToString(h[:])
}
func (b Blob) AlgName() string {
	if b.Alg == "" {
		return "sha256"
	}
	return b.Alg
}
func (b Blob) Digest() string    { return b.AlgName() + ":" + b.Hex() }
func (b Blob) IsManifest() bool  { return b.Kind == "manifest" || b.Kind == "badmanifest" }
func (b Blob) Undecodable() bool { return b.Kind == "badmanifest" }

// Op is one store operation.
//
//	push     blob            Push(desc(blob), content(blob))
//	pushbad  blob            Push(desc(blob), content with the last byte flipped)
//	tag      blob ref        Tag(desc(blob), ref)
//	untag    ref             Untag(ref)
//	delete   blob            Delete(desc(blob))      (AutoGC off: plain delete)
//	saveindex                SaveIndex()
//	tagdigest   blob         Tag(desc(blob), <digest string of blob>)
//	untagdigest blob         Untag(<digest string of blob>)   (refused: a digest is not a tag)
//	gc                       GC()
//	reopen                   oci.New on the same directory (a second store object)
//
// With Script.AutoGC the store runs with AutoGC on: delete is then a cascade.
type Op struct {
	Kind string `json:"kind"`
	Blob int    `json:"blob,omitempty"`
	Ref  int    `json:"ref,omitempty"` // tag name "t<Ref>"
	// Variant: the descriptor handed to Tag/Delete carries digest and size only
	// (MediaType ""), as a caller that knows just the digest would build it.  The
	// model does not distinguish it: the blob is the same.
	Variant bool `json:"variant,omitempty"`
}

func (o Op) String() string {
	switch o.Kind {
	case "push", "pushbad", "delete":
		return fmt.Sprintf("%s:%d", o.Kind, o.Blob)
	case "tag":
		return fmt.Sprintf("tag:%d:%d", o.Blob, o.Ref)
	case "untag":
		return fmt.Sprintf("untag:%d", o.Ref)
	case "tagdigest", "untagdigest":
		return fmt.Sprintf("%s:%d", o.Kind, o.Blob)
	}
	return o.Kind
}

func RefName(r int) string { return fmt.Sprintf("t%d", r) }

// Segment is an earlier run of a process on the same directory that was killed:
// it opened the store, completed History and died before window system call K
// of Final (K is taken modulo the window length).  J is filled in by the
// harness: the number of model micro-steps of Final that were completed.
type Segment struct {
	History []Op `json:"history"`
	Final   Op   `json:"final"`
	K       int  `json:"k"`
	J       int  `json:"j,omitempty"`
	// filled in by the harness when the segment is executed: the operations in
	// the model runner's syntax (a cascade / a sweep lists what it unlinked)
	Enc      []string `json:"-"`
	FinalEnc string   `json:"-"`
}

// Script = universe + earlier crashed runs + history of completed operations of
// the last process + the operation it is interrupted in.
type Script struct {
	AutoGC bool `json:"auto_gc,omitempty"`
	// NoAutoSave: the store runs with AutoSaveIndex = false (only SaveIndex writes index.json)
	NoAutoSave bool      `json:"no_auto_save,omitempty"`
	Blobs      []Blob    `json:"blobs"`
	Pre        []Segment `json:"pre,omitempty"`
	History    []Op      `json:"history"`
	Final      Op        `json:"final"`
	// Conc: after the history, one goroutine per list runs its operations (Push, Tag,
	// Untag, SaveIndex only: the calls that hold the Store's lock for reading) concurrently
	// with the others; the process is killed at an arbitrary moment (stream "conc").
	Conc [][]Op `json:"conc,omitempty"`
}

func (s *Script) Blob(id int) *Blob {
	for i := range s.Blobs {
		if s.Blobs[i].ID == id {
			return &s.Blobs[i]
		}
	}
	return nil
}

func (s *Script) JSON() string {
	js, _ := json.Marshal(s)
	return string(js)
}

func ParseScript(data []byte) (*Script, error) {
	var s Script
	if err := json.Unmarshal(data, &s); err != nil {
		return nil, err
	}
	return &s, nil
}
