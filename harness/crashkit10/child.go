package crashkit10

import (
	"bytes"
	"context"
	"encoding/json"
	"errors"
	"fmt"
	"io"
	"os"
	"runtime"
	"syscall"

	"github.com/opencontainers/go-digest"
	ocispec "github.com/opencontainers/image-spec/specs-go/v1"
	"oras.land/oras-go/v2/content/oci"
	"oras.land/oras-go/v2/errdef"
)

const (
	MarkBegin = "/VERIF_C10_MARK_BEGIN"
	MarkEnd   = "/VERIF_C10_MARK_END"
	MarkOp    = "/VERIF_C10_MARK_OP" // before every operation of the history
)

// LockMainThread must be called from an init function of the main package:
// the main goroutine then stays on the process' first thread, so that every
// file system call of the script is issued by one thread (strace counts
// `when=` per system call name and per thread).
func LockMainThread() { runtime.LockOSThread() }

func Desc(b *Blob) ocispec.Descriptor {
	return ocispec.Descriptor{MediaType: b.MediaType, Digest: digest.Digest(b.Digest()), Size: int64(len(b.Content()))}
}

// slowReader hands out at most ReadUnit bytes per Read (like a network body), so
// that a blob of a few dozen KiB is written by several write system calls and the
// kill points include cuts in the middle of the content.
type slowReader struct {
	data []byte
	off  int
}

const ReadUnit = 16 << 10

func (r *slowReader) Read(p []byte) (int, error) {
	if r.off >= len(r.data) {
		return 0, io.EOF
	}
	n := len(r.data) - r.off
	if n > ReadUnit {
		n = ReadUnit
	}
	if n > len(p) {
		n = len(p)
	}
	copy(p, r.data[r.off:r.off+n])
	r.off += n
	return n, nil
}

func descOf(b *Blob, variant bool) ocispec.Descriptor {
	d := Desc(b)
	if variant {
		d.MediaType = ""
	}
	return d
}

// ErrName maps an error to the small enum shared with the model.
func ErrName(err error) string {
	switch {
	case err == nil:
		return "ok"
	case errors.Is(err, errdef.ErrAlreadyExists):
		return "exists"
	case errors.Is(err, errdef.ErrNotFound):
		return "notfound"
	case errors.Is(err, errdef.ErrMissingReference):
		return "missingref"
	case errors.Is(err, errdef.ErrInvalidReference):
		return "invalidref"
	}
	var syn *json.SyntaxError
	if errors.As(err, &syn) {
		return "invalid" // a manifest that does not decode
	}
	// content.ErrMismatchedDigest etc. are plain errors of package content
	msg := err.Error()
	if bytes.Contains([]byte(msg), []byte("mismatch")) {
		return "mismatch"
	}
	return "other(" + msg + ")"
}

// Do executes one operation on the store.
func Do(ctx context.Context, st *oci.Store, s *Script, o Op, dir string) error {
	switch o.Kind {
	case "gc":
		return st.GC(ctx)
	case "reopen":
		_, err := oci.New(dir)
		return err
	case "push":
		b := s.Blob(o.Blob)
		return st.Push(ctx, Desc(b), &slowReader{data: b.Content()})
	case "pushbad":
		b := s.Blob(o.Blob)
		return st.Push(ctx, Desc(b), &slowReader{data: b.BadContent()})
	case "tag":
		return st.Tag(ctx, descOf(s.Blob(o.Blob), o.Variant), RefName(o.Ref))
	case "untag":
		return st.Untag(ctx, RefName(o.Ref))
	case "tagdigest":
		b := s.Blob(o.Blob)
		return st.Tag(ctx, Desc(b), b.Digest())
	case "untagdigest":
		return st.Untag(ctx, s.Blob(o.Blob).Digest())
	case "delete":
		return st.Delete(ctx, descOf(s.Blob(o.Blob), o.Variant))
	case "saveindex":
		return st.SaveIndex()
	}
	return fmt.Errorf("unknown op %q", o.Kind)
}

func mark(p string) {
	// faccessat(AT_FDCWD, p, F_OK): a system call with no effect that is easy to find in the trace
	_ = syscall.Access(p, 0)
}

// ChildMain is the body of the crash child: open the store (default settings
// except AutoGC off), replay the history, then run the final operation between
// the two marker system calls.  Results go to stdout outside the window.
func ChildMain(dir, scriptPath string) int {
	data, err := os.ReadFile(scriptPath)
	if err != nil {
		fmt.Println("CHILD-ERROR", err)
		return 3
	}
	s, err := ParseScript(data)
	if err != nil {
		fmt.Println("CHILD-ERROR", err)
		return 3
	}
	// contents are generated before anything is traced
	for i := range s.Blobs {
		_ = s.Blobs[i].Content()
	}
	syscall.Umask(0o022) // file modes are part of the compared state
	ctx := context.Background()
	if s.Final.Kind == "init" {
		// the operation under test is the initialisation itself
		mark(MarkBegin)
		_, err := oci.New(dir)
		mark(MarkEnd)
		os.Stdout.WriteString("F init " + ErrName(err) + "\n")
		return 0
	}
	st, err := oci.New(dir)
	if err != nil {
		fmt.Println("CHILD-ERROR new:", err)
		return 4
	}
	st.AutoGC = s.AutoGC
	st.AutoSaveIndex = !s.NoAutoSave
	out := ""
	for _, o := range s.History {
		mark(MarkOp)
		out += "H " + o.String() + " " + ErrName(Do(ctx, st, s, o, dir)) + "\n"
	}
	os.Stdout.WriteString(out)
	mark(MarkBegin)
	err = Do(ctx, st, s, s.Final, dir)
	mark(MarkEnd)
	os.Stdout.WriteString("F " + s.Final.String() + " " + ErrName(err) + "\n")
	return 0
}

// ConcMain is the child of the concurrency stream: history, "READY", then one goroutine
// per operation list, all released at once.  The parent kills the process at an arbitrary
// moment after READY.
func ConcMain(dir, scriptPath string) int {
	data, err := os.ReadFile(scriptPath)
	if err != nil {
		fmt.Println("CHILD-ERROR", err)
		return 3
	}
	s, err := ParseScript(data)
	if err != nil {
		fmt.Println("CHILD-ERROR", err)
		return 3
	}
	syscall.Umask(0o022)
	ctx := context.Background()
	st, err := oci.New(dir)
	if err != nil {
		fmt.Println("CHILD-ERROR new:", err)
		return 4
	}
	st.AutoGC = false
	for _, o := range s.History {
		Do(ctx, st, s, o, dir)
	}
	start := make(chan struct{})
	done := make(chan struct{})
	for _, ops := range s.Conc {
		go func(ops []Op) {
			<-start
			for _, o := range ops {
				Do(ctx, st, s, o, dir)
			}
			done <- struct{}{}
		}(ops)
	}
	os.Stdout.WriteString("READY\n")
	close(start)
	for range s.Conc {
		<-done
	}
	// all calls have returned: index.json must be the index of the resolver
	// (C10_conc_quiescent_synced); judged by the parent when it did not kill us first
	os.Stdout.WriteString("SYNC " + SyncReport(ctx, st, dir) + "\n")
	os.Stdout.WriteString("DONE\n")
	return 0
}

// SyncReport compares the Store's resolver (Tags / Resolve) with index.json on disk.
func SyncReport(ctx context.Context, st *oci.Store, dir string) string {
	idx, status := ReadRawIndex(dir)
	if status != "ok" {
		return "index.json is " + status
	}
	mem := map[string]string{}
	err := st.Tags(ctx, "", func(tags []string) error {
		for _, t := range tags {
			d, err := st.Resolve(ctx, t)
			if err != nil {
				return fmt.Errorf("Resolve(%s): %v", t, err)
			}
			mem[t] = d.Digest.String()
		}
		return nil
	})
	if err != nil {
		return "Tags: " + err.Error()
	}
	disk := map[string]string{}
	for _, m := range idx.Manifests {
		if r, ok := m.Annotations[refNameKey]; ok {
			disk[r] = m.Digest
		} else if _, err := st.Resolve(ctx, m.Digest); err != nil {
			return "index.json has the digest-only entry " + m.Digest + " which the resolver does not know"
		}
	}
	for r, d := range mem {
		if disk[r] != d {
			return fmt.Sprintf("the resolver has %s -> %s, index.json has %q", r, d, disk[r])
		}
	}
	for r, d := range disk {
		if mem[r] != d {
			return fmt.Sprintf("index.json has %s -> %s, the resolver has %q", r, d, mem[r])
		}
	}
	return "ok"
}
