package crashkit10

import (
	"bufio"
	"bytes"
	"context"
	"errors"
	"fmt"
	"os"
	"os/exec"
	"path/filepath"
	"regexp"
	"sort"
	"strconv"
	"strings"
	"time"
)

// ErrTimeout: the traced child did not finish within ChildTimeout (a loaded
// machine); the run says nothing about the property.
var ErrTimeout = errors.New("traced child timed out")

const ChildTimeout = 180 * time.Second

// TraceSet is the set of system calls that are crash points: everything that
// reads or changes the file system (other system calls - futex, mmap, signals -
// leave the disk as the neighbouring crash point found it).
const TraceSet = "openat,open,creat,mkdirat,mkdir,unlinkat,unlink,rmdir,renameat,renameat2,rename,fchmodat,chmod,fchmod," +
	"newfstatat,fstat,stat,lstat,statx,faccessat,faccessat2,access,read,pread64,readv,write,pwrite64,writev,close," +
	"getdents64,fsync,fdatasync,ftruncate,truncate,linkat,link,symlinkat,symlink,fcntl,lseek,readlinkat,readlink," +
	"copy_file_range,sendfile,fallocate,utimensat,fchown,fchownat"

// Event is one system call of the child's main thread.
type Event struct {
	Name   string
	Args   string
	Paths  []string // quoted strings among the arguments (file names are printed in full by strace)
	Ret    int64
	OK     bool // returned >= 0
	Killed bool // "= ?": the process died at the entry of this call
	Ord    int  // ordinal of this call among the calls of the same name of this thread (1-based): strace's when=
}

// Trace is a recorded run.
type Trace struct {
	Events     []Event
	Begin, End int // indices of the marker calls (End = len(Events) when the run was killed inside the window)
	HasBegin   bool
	HasEnd     bool
	Killed     bool
	Stdout     string
}

// HistoryOps returns, per operation of the history, the events between its
// marker and the next one (or the begin marker).
func (t *Trace) HistoryOps() [][]Event {
	var out [][]Event
	start := -1
	end := t.Begin
	if !t.HasBegin {
		end = len(t.Events)
	}
	for i := 0; i < end; i++ {
		ev := t.Events[i]
		if (strings.HasPrefix(ev.Name, "faccessat") || ev.Name == "access") && len(ev.Paths) > 0 && ev.Paths[0] == MarkOp {
			if start >= 0 {
				out = append(out, t.Events[start+1:i])
			}
			start = i
		}
	}
	if start >= 0 {
		out = append(out, t.Events[start+1:end])
	}
	return out
}

// Window returns the events strictly between the markers.
func (t *Trace) Window() []Event {
	if !t.HasBegin {
		return nil
	}
	return t.Events[t.Begin+1 : t.End]
}

var lineRe = regexp.MustCompile(`^([a-z_0-9]+)\((.*)\)\s+= (-?\d+|\?|0x[0-9a-f]+)(.*)$`)
var lineUnfinished = regexp.MustCompile(`^([a-z_0-9]+)\((.*) <unfinished \.\.\.>$`)
var strRe = regexp.MustCompile(`"((?:[^"\\]|\\.)*)"`)

func parseTrace(data []byte) *Trace {
	t := &Trace{}
	ord := map[string]int{}
	sc := bufio.NewScanner(bytes.NewReader(data))
	sc.Buffer(make([]byte, 1<<20), 1<<24)
	for sc.Scan() {
		l := sc.Text()
		if strings.HasPrefix(l, "+++ killed") {
			t.Killed = true
			continue
		}
		if strings.HasPrefix(l, "---") || strings.HasPrefix(l, "+++") {
			continue
		}
		var ev Event
		if m := lineRe.FindStringSubmatch(l); m != nil {
			ev.Name, ev.Args = m[1], m[2]
			if m[3] == "?" {
				ev.Killed = true
			} else {
				v, _ := strconv.ParseInt(m[3], 0, 64)
				ev.Ret = v
				ev.OK = v >= 0
			}
		} else if m := lineUnfinished.FindStringSubmatch(l); m != nil {
			ev.Name, ev.Args, ev.Killed = m[1], m[2], true
		} else {
			continue
		}
		for _, sm := range strRe.FindAllStringSubmatch(ev.Args, -1) {
			ev.Paths = append(ev.Paths, sm[1])
		}
		ord[ev.Name]++
		ev.Ord = ord[ev.Name]
		t.Events = append(t.Events, ev)
	}
	t.End = len(t.Events)
	for i, ev := range t.Events {
		if strings.HasPrefix(ev.Name, "faccessat") || ev.Name == "access" {
			if len(ev.Paths) > 0 && ev.Paths[0] == MarkBegin {
				t.Begin, t.HasBegin = i, true
			}
			if len(ev.Paths) > 0 && ev.Paths[0] == MarkEnd {
				t.End, t.HasEnd = i, true
			}
		}
	}
	if !t.HasEnd {
		// a killed run: the window ends before the call the process died in
		t.End = len(t.Events)
		if n := len(t.Events); n > 0 && t.Events[n-1].Killed {
			t.End = n - 1
		}
	}
	return t
}

// Inject names the system call to die in: the Ord-th call named Name of the main thread.
type Inject struct {
	Name string
	Ord  int
}

// Run executes `exe child dir script` under strace (GOMAXPROCS=1; the child
// locks its main goroutine to the first thread) and returns the main thread's
// trace.  With inj != nil the process is killed at the entry of that call.
func Run(exe, dir, scriptPath, workDir string, inj *Inject) (*Trace, error) {
	prefix, err := os.MkdirTemp(workDir, "tr")
	if err != nil {
		return nil, err
	}
	defer os.RemoveAll(prefix)
	args := []string{"-ff", "-o", filepath.Join(prefix, "t"), "-e", "trace=" + TraceSet}
	if inj != nil {
		args = append(args, "-e", fmt.Sprintf("inject=%s:signal=KILL:when=%d", inj.Name, inj.Ord))
	}
	args = append(args, exe, "child", dir, scriptPath)
	ctx, cancel := context.WithTimeout(context.Background(), ChildTimeout)
	defer cancel()
	cmd := exec.CommandContext(ctx, "strace", args...)
	cmd.Env = append(os.Environ(), "GOMAXPROCS=1", "GOGC=off")
	var out, errb bytes.Buffer
	cmd.Stdout, cmd.Stderr = &out, &errb
	runErr := cmd.Run()
	if ctx.Err() != nil {
		return nil, ErrTimeout
	}
	files, _ := filepath.Glob(filepath.Join(prefix, "t.*"))
	sort.Strings(files)
	var main *Trace
	for _, f := range files {
		data, err := os.ReadFile(f)
		if err != nil {
			continue
		}
		if bytes.Contains(data, []byte(MarkBegin)) || (main == nil && bytes.Contains(data, []byte("oci-layout"))) {
			main = parseTrace(data)
			if main.HasBegin {
				break
			}
		}
	}
	if main == nil {
		return nil, fmt.Errorf("no main-thread trace (strace: %v; stderr: %s; stdout: %s)", runErr, errb.String(), out.String())
	}
	main.Stdout = out.String()
	if inj == nil && runErr != nil {
		return main, fmt.Errorf("child failed: %v: %s %s", runErr, errb.String(), out.String())
	}
	return main, nil
}

// ---------- projection of system calls onto the model's micro-steps ----------

// Namer maps paths below the layout root to the model's names.
type Namer struct {
	Root  string
	ByHex map[string]int // blob digest hex -> model id
}

func NewNamer(root string, s *Script) *Namer {
	n := &Namer{Root: filepath.Clean(root), ByHex: map[string]int{}}
	for _, b := range s.Blobs {
		n.ByHex[b.Hex()] = b.ID
	}
	return n
}

func (n *Namer) Rel(p string) (string, bool) {
	p = filepath.Clean(p)
	if p == n.Root {
		return ".", true
	}
	if strings.HasPrefix(p, n.Root+"/") {
		return p[len(n.Root)+1:], true
	}
	return "", false
}

// Name gives the model name of a path relative to the root:
// L (oci-layout), I (index.json), IT (a temporary sibling of index.json),
// B<id> (blobs/sha256/<hex>), T<id> (ingest/<hex>_<random>), directories by
// their relative path, anything else "?<rel>".
func (n *Namer) Name(rel string) string {
	switch {
	case rel == "oci-layout":
		return "L"
	case rel == "index.json":
		return "I"
	case strings.HasPrefix(rel, "index.json") && !strings.Contains(rel, "/"):
		return "IT"
	case strings.HasPrefix(rel, "oci-layout") && !strings.Contains(rel, "/"):
		return "LT"
	case rel == "blobs" || rel == "blobs/sha256" || rel == "blobs/sha512" || rel == "blobs/sha384" || rel == "ingest":
		return rel
	case strings.HasPrefix(rel, "blobs/sha256/") || strings.HasPrefix(rel, "blobs/sha512/") || strings.HasPrefix(rel, "blobs/sha384/"):
		// the hex strings of the algorithms differ in length, so one table serves all;
		// a blob filed under the wrong algorithm directory is not recognised
		want := map[string]int{"sha256": 64, "sha384": 96, "sha512": 128}[rel[len("blobs/"):len("blobs/sha256")]]
		hexName := rel[len("blobs/sha256/"):]
		if id, ok := n.ByHex[hexName]; ok && len(hexName) == want {
			return "B" + strconv.Itoa(id)
		}
	case strings.HasPrefix(rel, "ingest/"):
		base := rel[len("ingest/"):]
		if i := strings.IndexByte(base, '_'); i > 0 {
			if id, ok := n.ByHex[base[:i]]; ok {
				return "T" + strconv.Itoa(id)
			}
		}
	}
	return "?" + rel
}

// Step is a projected micro-step; Index is the position of its system call in
// the event list it was projected from.
type Step struct {
	Text  string
	Index int
}

// Project maps the successful mutating system calls among evs (paths below the
// root) to the model's micro-step vocabulary.  fds carries the descriptors
// opened for writing and is updated.
func (n *Namer) Project(evs []Event, fds map[int64]string) []Step {
	var out []Step
	emit := func(i int, f string, a ...any) { out = append(out, Step{fmt.Sprintf(f, a...), i}) }
	name := func(p string) (string, bool) {
		rel, ok := n.Rel(p)
		if !ok {
			return "", false
		}
		return n.Name(rel), true
	}
	fdOf := func(args string) int64 {
		i := strings.IndexAny(args, ",)")
		if i < 0 {
			i = len(args)
		}
		v, err := strconv.ParseInt(strings.TrimSpace(args[:i]), 10, 64)
		if err != nil {
			return -1
		}
		return v
	}
	for i, ev := range evs {
		if !ev.OK || ev.Killed {
			continue
		}
		switch ev.Name {
		case "mkdirat", "mkdir":
			if len(ev.Paths) > 0 {
				if nm, ok := name(ev.Paths[0]); ok {
					emit(i, "mkdir:%s", nm)
				}
			}
		case "openat", "open", "creat":
			if len(ev.Paths) == 0 {
				continue
			}
			nm, ok := name(ev.Paths[0])
			if !ok {
				continue
			}
			wr := strings.Contains(ev.Args, "O_WRONLY") || strings.Contains(ev.Args, "O_RDWR") || ev.Name == "creat"
			switch {
			case strings.Contains(ev.Args, "O_CREAT") && strings.Contains(ev.Args, "O_EXCL"):
				emit(i, "create:%s", nm)
			case strings.Contains(ev.Args, "O_TRUNC") || ev.Name == "creat":
				emit(i, "trunc:%s", nm)
			case wr:
				emit(i, "openw:%s", nm)
			}
			if wr {
				fds[ev.Ret] = nm
			}
		case "write", "pwrite64", "writev":
			if nm, ok := fds[fdOf(ev.Args)]; ok {
				emit(i, "write:%s", nm)
			}
		case "fchmodat", "chmod":
			if len(ev.Paths) > 0 {
				if nm, ok := name(ev.Paths[0]); ok {
					emit(i, "chmod:%s", nm)
				}
			}
		case "fchmod":
			if nm, ok := fds[fdOf(ev.Args)]; ok {
				emit(i, "chmod:%s", nm)
			}
		case "close":
			fd := fdOf(ev.Args)
			if nm, ok := fds[fd]; ok {
				emit(i, "close:%s", nm)
				delete(fds, fd)
			}
		case "renameat", "renameat2", "rename":
			if len(ev.Paths) >= 2 {
				a, ok1 := name(ev.Paths[0])
				b, ok2 := name(ev.Paths[1])
				if ok1 || ok2 {
					emit(i, "rename:%s:%s", a, b)
				}
			}
		case "unlinkat", "unlink", "rmdir":
			if len(ev.Paths) > 0 {
				if nm, ok := name(ev.Paths[0]); ok {
					emit(i, "unlink:%s", nm)
				}
			}
		case "linkat", "link", "symlinkat", "symlink", "ftruncate", "truncate", "copy_file_range", "sendfile",
			"fallocate", "fsync", "fdatasync":
			touches := false
			for _, p := range ev.Paths {
				if _, ok := name(p); ok {
					touches = true
				}
			}
			if _, ok := fds[fdOf(ev.Args)]; ok {
				touches = true
			}
			if touches {
				emit(i, "other:%s", ev.Name)
			}
		}
	}
	return out
}

// WriteSizes returns, per ingest file name (T<id>), the sizes of the write
// system calls of the LAST ingest of that blob in the trace: these are the
// chunk boundaries at which a crash can cut the file.
func (n *Namer) WriteSizes(evs []Event) map[int][]int64 {
	res := map[int][]int64{}
	fds := map[int64]int{}
	for _, ev := range evs {
		if !ev.OK {
			continue
		}
		switch ev.Name {
		case "openat":
			if len(ev.Paths) == 0 || !strings.Contains(ev.Args, "O_EXCL") {
				continue
			}
			if rel, ok := n.Rel(ev.Paths[0]); ok {
				nm := n.Name(rel)
				if strings.HasPrefix(nm, "T") {
					id, _ := strconv.Atoi(nm[1:])
					fds[ev.Ret] = id
					res[id] = []int64{}
				}
			}
		case "write":
			i := strings.IndexByte(ev.Args, ',')
			if i < 0 {
				continue
			}
			fd, _ := strconv.ParseInt(ev.Args[:i], 10, 64)
			if id, ok := fds[fd]; ok {
				res[id] = append(res[id], ev.Ret)
			}
		case "close":
			j := strings.IndexAny(ev.Args, ",)")
			if j < 0 {
				j = len(ev.Args)
			}
			fd, _ := strconv.ParseInt(ev.Args[:j], 10, 64)
			delete(fds, fd)
		}
	}
	return res
}
