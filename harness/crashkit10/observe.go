package crashkit10

import (
	"bytes"
	"crypto/sha256"
	"crypto/sha512"
	"encoding/hex"
	"encoding/json"
	"fmt"
	"os"
	"path/filepath"
	"sort"
	"strconv"
	"strings"
)

// RawIndex is the harness' own reading of index.json (no oras code involved).
type RawIndex struct {
	SchemaVersion int    `json:"schemaVersion"`
	MediaType     string `json:"mediaType"`
	Manifests     []struct {
		MediaType   string            `json:"mediaType"`
		Digest      string            `json:"digest"`
		Size        int64             `json:"size"`
		Annotations map[string]string `json:"annotations"`
	} `json:"manifests"`
}

const refNameKey = "org.opencontainers.image.ref.name"

// ReadRawIndex parses <root>/index.json.  status: "ok", "missing", "empty", "bad".
func ReadRawIndex(root string) (*RawIndex, string) {
	data, err := os.ReadFile(filepath.Join(root, "index.json"))
	if err != nil {
		return nil, "missing"
	}
	if len(data) == 0 {
		return nil, "empty"
	}
	var idx RawIndex
	dec := json.NewDecoder(bytes.NewReader(data))
	if err := dec.Decode(&idx); err != nil || idx.SchemaVersion != 2 {
		return nil, "bad"
	}
	return &idx, "ok"
}

// describeContent names the bytes of a blob/ingest file of blob b in the
// model's vocabulary "<id>:<chunks>:<g|b>": the first <chunks> write units of
// the blob's content, "b" when the last unit is the corrupted one of a
// "pushbad".  bounds are the cumulative write sizes of the recorded trace;
// without them (file written by a completed history operation) only the whole
// content is recognised.
func describeContent(b *Blob, data []byte, sizes []int64, have bool) string {
	good := b.Content()
	full := len(sizes)
	if !have {
		full = -1
	}
	if bytes.Equal(data, good) {
		if have {
			return fmt.Sprintf("%d:%d:g", b.ID, full)
		}
		return fmt.Sprintf("%d:all:g", b.ID)
	}
	if len(data) == len(good) && len(good) > 0 && bytes.Equal(data, b.BadContent()) {
		if have {
			return fmt.Sprintf("%d:%d:b", b.ID, full)
		}
		return fmt.Sprintf("%d:all:b", b.ID)
	}
	if have {
		var cum int64
		for i := 0; i <= len(sizes); i++ {
			if int64(len(data)) == cum {
				if bytes.Equal(data, good[:cum]) {
					return fmt.Sprintf("%d:%d:g", b.ID, i)
				}
				break
			}
			if i < len(sizes) {
				cum += sizes[i]
			}
		}
	}
	return fmt.Sprintf("?len%d", len(data))
}

// ObserveDir renders the directory tree below root in the model's vocabulary
// (sorted, space separated):
//
//	D:<dir>  F:L=ok|bad  F:I=[<id>@<ref>,...]|empty|bad  F:IT=...  F:B<id>=<content>:<ro|rw>  F:T<id>=<content>:<ro|rw>
//
// sizes: chunk boundaries per blob id (from the recorded trace of this script).
func ObserveDir(root string, s *Script, sizes map[int][]int64) string {
	n := NewNamer(root, s)
	var toks []string
	filepath.Walk(root, func(p string, info os.FileInfo, err error) error {
		if err != nil || p == root {
			return nil
		}
		rel, _ := n.Rel(p)
		nm := n.Name(rel)
		if info.IsDir() {
			toks = append(toks, "D:"+nm)
			return nil
		}
		data, _ := os.ReadFile(p)
		mode := "rw"
		if info.Mode().Perm()&0o222 == 0 {
			mode = "ro"
		}
		switch {
		case nm == "L" || nm == "LT":
			var l struct {
				V string `json:"imageLayoutVersion"`
			}
			switch {
			case len(data) == 0:
				toks = append(toks, "F:"+nm+"=empty")
			case json.Unmarshal(data, &l) == nil && l.V == "1.0.0":
				toks = append(toks, "F:"+nm+"=ok")
			default:
				toks = append(toks, "F:"+nm+"=bad")
			}
		case nm == "I" || nm == "IT":
			toks = append(toks, "F:"+nm+"="+describeIndex(data, n))
		case strings.HasPrefix(nm, "B") || strings.HasPrefix(nm, "T"):
			id, _ := strconv.Atoi(nm[1:])
			sz, have := sizes[id]
			toks = append(toks, "F:"+nm+"="+describeContent(s.Blob(id), data, sz, have)+":"+mode)
		default:
			toks = append(toks, "F:"+nm)
		}
		return nil
	})
	sort.Strings(toks)
	return strings.Join(toks, " ")
}

func describeIndex(data []byte, n *Namer) string {
	if len(data) == 0 {
		return "empty"
	}
	var idx RawIndex
	if err := json.Unmarshal(data, &idx); err != nil || idx.SchemaVersion != 2 {
		return "bad"
	}
	var es []string
	for _, m := range idx.Manifests {
		id := "?"
		if i := strings.IndexByte(m.Digest, ':'); i > 0 {
			if v, ok := n.ByHex[m.Digest[i+1:]]; ok {
				id = strconv.Itoa(v)
			}
		}
		ref := "-"
		if r, ok := m.Annotations[refNameKey]; ok {
			ref = "?" + r
			if strings.HasPrefix(r, "t") {
				if v, err := strconv.Atoi(r[1:]); err == nil {
					ref = strconv.Itoa(v)
				}
			}
		}
		es = append(es, id+"@"+ref)
	}
	sort.Strings(es)
	return "[" + strings.Join(es, ",") + "]"
}

// BlobFiles lists every regular file below blobs/ with whether it sits at
// blobs/<alg>/<hex> and its bytes hash (by that algorithm) to its name.  A file
// directly under blobs/, under an unknown algorithm directory or deeper is bad.
func BlobFiles(root string) (names []string, badNames []string) {
	base := filepath.Join(root, "blobs")
	filepath.Walk(base, func(p string, info os.FileInfo, err error) error {
		if err != nil || info.IsDir() {
			return nil
		}
		rel, _ := filepath.Rel(base, p)
		parts := strings.Split(rel, string(filepath.Separator))
		if len(parts) != 2 {
			badNames = append(badNames, rel)
			return nil
		}
		data, rerr := os.ReadFile(p)
		var sum string
		switch parts[0] {
		case "sha256":
			h := sha256.Sum256(data)
			sum = hex.EncodeToString(h[:])
		case "sha384":
			h := sha512.Sum384(data)
			sum = hex.EncodeToString(h[:])
		case "sha512":
			h := sha512.Sum512(data)
			sum = hex.EncodeToString(h[:])
		}
		names = append(names, parts[1])
		if rerr != nil || sum != parts[1] {
			badNames = append(badNames, rel)
		}
		return nil
	})
	return
}

// BlobPath is blobs/<alg>/<hex> of a digest string.
func BlobPath(root, dgst string) string {
	i := strings.IndexByte(dgst, ':')
	if i < 0 {
		return filepath.Join(root, "blobs", "invalid", dgst)
	}
	return filepath.Join(root, "blobs", dgst[:i], dgst[i+1:])
}
