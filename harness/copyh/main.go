package copyh

import (
	"bytes"
	"encoding/json"
	"fmt"
	"os"
	"os/exec"
	"path/filepath"
	"strings"

	"verifharness/common"
)

// Main is the entry point shared by cmd/c01 and cmd/c04.  The run happens in a
// child process: a bug in the limiter hand-off can panic in a goroutine of
// errgroup (semaphore "released more than held"), which no recover() of ours can
// catch; the parent turns such a crash into an oracle failure carrying the case
// that was running, so that bin/check reports a concrete replay.
func Main(prop, rule string, quick, thorough Budget) {
	if os.Getenv("COPYH_CHILD") == "" {
		os.Exit(Parent())
	}
	run := common.Start(prop)
	RunAll(run, prop, rule, quick, thorough)
}

// RunAll is the child part: all streams, then the statistics.  In the test binary
// (controlled schedules need testing/synctest) common.Start is called from TestMain.
func RunAll(run *common.Run, prop, rule string, quick, thorough Budget) {
	run.Rule = rule
	b := quick
	if run.Thorough() {
		b = thorough
	}
	Drive(run, prop, b)
	run.Finish()
}

func argValue(name string) string {
	for i, a := range os.Args {
		if a == "-"+name && i+1 < len(os.Args) {
			return os.Args[i+1]
		}
		if strings.HasPrefix(a, "-"+name+"=") {
			return a[len(name)+2:]
		}
	}
	return ""
}

func currentCasePath(dir string) string { return filepath.Join(dir, "current_case.json") }

// Parent runs the harness in a child process (see Main).
func Parent() int {
	cmd := exec.Command(os.Args[0], os.Args[1:]...)
	cmd.Env = append(os.Environ(), "COPYH_CHILD=1")
	var errb bytes.Buffer
	cmd.Stdout = os.Stdout
	cmd.Stderr = &errb
	err := cmd.Run()
	os.Stderr.Write(errb.Bytes())
	if err == nil {
		return 0
	}
	dir := argValue("dir")
	data, rerr := os.ReadFile(currentCasePath(dir))
	if dir == "" || rerr != nil {
		return 1 // crashed outside a case: a harness problem, reported as such
	}
	var c Case
	if json.Unmarshal(data, &c) != nil {
		return 1
	}
	msg := errb.String()
	if i := strings.Index(msg, "panic:"); i >= 0 {
		msg = msg[i:]
	} else if i := strings.Index(msg, "fatal error:"); i >= 0 {
		msg = msg[i:]
	}
	if j := strings.Index(msg, "\n"); j >= 0 {
		msg = msg[:j]
	}
	js, _ := json.Marshal(replayDoc{Case: &c, Note: "the process crashed while running this case"})
	line := fmt.Sprintf("c0 FAIL crash the copy crashed the process: %s %s\n", strings.ReplaceAll(msg, "\n", " "), js)
	os.WriteFile(filepath.Join(dir, "oracle.txt"), []byte(line), 0o644)
	os.WriteFile(filepath.Join(dir, "cases.txt"), nil, 0o644)
	os.WriteFile(filepath.Join(dir, "impl.txt"), nil, 0o644)
	st, _ := json.Marshal(map[string]any{"evaluations": 1, "distinct_nontrivial": 0, "oracle_failures": 1,
		"rule": "run aborted by a crash of the code under test", "samples": []any{}, "input_distribution": map[string]int{}})
	os.WriteFile(filepath.Join(dir, "stats.json"), st, 0o644)
	return 0
}
