package copyh

import (
	"bytes"
	"encoding/json"
	"fmt"
	"io"
	"net/http"
	"strings"
	"sync"

	"github.com/opencontainers/go-digest"
	ocispec "github.com/opencontainers/image-spec/specs-go/v1"
	"oras.land/oras-go/v2/registry/remote"
)

// fakeRegistry is a minimal in-process OCI distribution registry behind
// remote.Client (no sockets): blobs and manifests of one repository, tags,
// monolithic uploads (POST + PUT), cross-repository mount, referrers API.
// It is test infrastructure, not a model: the oracle never consults it.
type fakeRegistry struct {
	mu        sync.Mutex
	blobs     map[string][]byte // digest -> bytes
	manifests map[string]fakeManifest
	tags      map[string]string // tag -> digest
	uploads   int
	// mountable reports whether repository `from` holds the blob (cross-repo mount succeeds)
	mountable func(from string, dg string) []byte
}

type fakeManifest struct {
	mediaType string
	bytes     []byte
}

const fakeHost = "registry.verif.test"
const fakeRepo = "verif/repo"

func newFakeRegistry() *fakeRegistry {
	return &fakeRegistry{blobs: map[string][]byte{}, manifests: map[string]fakeManifest{}, tags: map[string]string{}}
}

// repository returns a remote.Repository talking to the fake.
func (f *fakeRegistry) repository() (*remote.Repository, error) {
	repo, err := remote.NewRepository(fakeHost + "/" + fakeRepo)
	if err != nil {
		return nil, err
	}
	repo.PlainHTTP = true
	repo.Client = f
	// the fake implements the referrers API: no client-side referrers index maintenance
	if err := repo.SetReferrersCapability(true); err != nil {
		return nil, err
	}
	return repo, nil
}

func (f *fakeRegistry) resp(req *http.Request, code int, hdr map[string]string, body []byte) *http.Response {
	h := http.Header{}
	for k, v := range hdr {
		h.Set(k, v)
	}
	r := &http.Response{StatusCode: code, Status: fmt.Sprintf("%d %s", code, http.StatusText(code)), Header: h,
		Proto: "HTTP/1.1", ProtoMajor: 1, ProtoMinor: 1, Request: req, ContentLength: int64(len(body))}
	if req.Method == http.MethodHead {
		if cl := h.Get("Content-Length"); cl != "" {
			fmt.Sscan(cl, &r.ContentLength)
		}
		r.Body = http.NoBody
	} else {
		r.Body = io.NopCloser(bytes.NewReader(body))
	}
	return r
}

func (f *fakeRegistry) notFound(req *http.Request) *http.Response {
	body := []byte(`{"errors":[{"code":"NOT_FOUND","message":"not found"}]}`)
	return f.resp(req, http.StatusNotFound, map[string]string{"Content-Type": "application/json"}, body)
}

// Do implements remote.Client.
func (f *fakeRegistry) Do(req *http.Request) (*http.Response, error) {
	var body []byte
	if req.Body != nil {
		b, err := io.ReadAll(req.Body)
		req.Body.Close()
		if err != nil {
			return nil, err
		}
		body = b
	}
	f.mu.Lock()
	defer f.mu.Unlock()
	p := req.URL.Path
	prefix := "/v2/" + fakeRepo + "/"
	switch {
	case p == "/v2/" || p == "/v2":
		return f.resp(req, 200, nil, nil), nil
	case !strings.HasPrefix(p, prefix):
		return f.notFound(req), nil
	}
	rest := p[len(prefix):]
	switch {
	case strings.HasPrefix(rest, "blobs/uploads/"):
		id := rest[len("blobs/uploads/"):]
		if req.Method == http.MethodPost && id == "" {
			q := req.URL.Query()
			if dg, from := q.Get("mount"), q.Get("from"); dg != "" && from != "" && f.mountable != nil {
				if b := f.mountable(from, dg); b != nil {
					f.blobs[dg] = b
					return f.resp(req, http.StatusCreated, map[string]string{"Docker-Content-Digest": dg,
						"Location": prefix + "blobs/" + dg}, nil), nil
				}
			}
			f.uploads++
			loc := fmt.Sprintf("http://%s%sblobs/uploads/u%d", fakeHost, prefix, f.uploads)
			return f.resp(req, http.StatusAccepted, map[string]string{"Location": loc}, nil), nil
		}
		if req.Method == http.MethodPut && id != "" {
			dg := req.URL.Query().Get("digest")
			if dg == "" || digest.FromBytes(body).String() != dg {
				return f.resp(req, http.StatusBadRequest, map[string]string{"Content-Type": "application/json"},
					[]byte(`{"errors":[{"code":"DIGEST_INVALID","message":"digest mismatch"}]}`)), nil
			}
			f.blobs[dg] = body
			return f.resp(req, http.StatusCreated, map[string]string{"Docker-Content-Digest": dg}, nil), nil
		}
	case strings.HasPrefix(rest, "blobs/"):
		dg := rest[len("blobs/"):]
		b, ok := f.blobs[dg]
		if !ok {
			return f.notFound(req), nil
		}
		if req.Method == http.MethodGet || req.Method == http.MethodHead {
			return f.resp(req, 200, map[string]string{"Docker-Content-Digest": dg, "Content-Type": "application/octet-stream",
				"Content-Length": fmt.Sprint(len(b))}, b), nil
		}
	case strings.HasPrefix(rest, "manifests/"):
		ref := rest[len("manifests/"):]
		switch req.Method {
		case http.MethodGet, http.MethodHead:
			dg := ref
			if t, ok := f.tags[ref]; ok {
				dg = t
			}
			m, ok := f.manifests[dg]
			if !ok {
				return f.notFound(req), nil
			}
			return f.resp(req, 200, map[string]string{"Docker-Content-Digest": dg, "Content-Type": m.mediaType,
				"Content-Length": fmt.Sprint(len(m.bytes))}, m.bytes), nil
		case http.MethodPut:
			dg := digest.FromBytes(body).String()
			if strings.Contains(ref, ":") && ref != dg {
				return f.resp(req, http.StatusBadRequest, map[string]string{"Content-Type": "application/json"},
					[]byte(`{"errors":[{"code":"DIGEST_INVALID","message":"digest mismatch"}]}`)), nil
			}
			f.manifests[dg] = fakeManifest{mediaType: req.Header.Get("Content-Type"), bytes: body}
			if !strings.Contains(ref, ":") {
				f.tags[ref] = dg
			}
			hdr := map[string]string{"Docker-Content-Digest": dg}
			var subj struct {
				Subject *ocispec.Descriptor `json:"subject"`
			}
			if json.Unmarshal(body, &subj) == nil && subj.Subject != nil {
				hdr["OCI-Subject"] = subj.Subject.Digest.String()
			}
			return f.resp(req, http.StatusCreated, hdr, nil), nil
		}
	case strings.HasPrefix(rest, "referrers/"):
		ix := ocispec.Index{MediaType: ocispec.MediaTypeImageIndex, Manifests: []ocispec.Descriptor{}}
		ix.SchemaVersion = 2
		b, _ := json.Marshal(ix)
		return f.resp(req, 200, map[string]string{"Content-Type": ocispec.MediaTypeImageIndex}, b), nil
	}
	return f.resp(req, http.StatusMethodNotAllowed, nil, nil), nil
}
