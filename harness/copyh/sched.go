package copyh

import (
	"sync"
	"testing"
	"testing/synctest"

	"verifharness/common"
)

// T is the *testing.T of the harness test binary (testing/synctest needs one).
var T *testing.T

// sched is the controlled scheduler: every delay point of the instrumented
// stores and callbacks parks on its own channel; when synctest.Wait reports
// that every goroutine of the bubble is durably blocked, exactly one parked
// operation, chosen by the PRNG, is released.  The schedule is a function of
// the case seed.
type sched struct {
	mu     sync.Mutex
	parked []chan struct{}
	rng    *common.Rand
	Steps  int
}

func (s *sched) yield() {
	ch := make(chan struct{})
	s.mu.Lock()
	s.parked = append(s.parked, ch)
	s.mu.Unlock()
	<-ch
}

// runScheduled runs fn in a synctest bubble under the scheduler; false = the
// copy is stuck (nothing parked, nothing runnable, not finished).
func runScheduled(s *sched, fn func()) bool {
	ok := true
	synctest.Test(T, func(t *testing.T) {
		done := make(chan struct{})
		go func() {
			defer close(done)
			fn()
		}()
		for {
			synctest.Wait()
			select {
			case <-done:
				return
			default:
			}
			s.mu.Lock()
			if len(s.parked) == 0 {
				s.mu.Unlock()
				ok = false
				return
			}
			i := s.rng.Intn(len(s.parked))
			ch := s.parked[i]
			s.parked = append(s.parked[:i], s.parked[i+1:]...)
			s.Steps++
			s.mu.Unlock()
			close(ch)
		}
	})
	return ok
}
