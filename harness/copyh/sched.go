package copyh

import (
	"sort"
	"sync"
	"testing"
	"testing/synctest"

	"verifharness/common"
)

// T is the *testing.T of the harness test binary (testing/synctest needs one).
var T *testing.T

// sched is the controlled scheduler: every delay point of the instrumented
// stores and callbacks parks on its own channel; when synctest.Wait reports
// that every goroutine of the bubble is durably blocked, exactly one parked
// operation, chosen by the PRNG, is released.  The schedule is a function of
// the case seed.
type sched struct {
	mu     sync.Mutex
	parked []parkedOp
	rng    *common.Rand
	Steps  int
	script []int // choices to replay (index among the parked operations in label order)
	enum   bool  // beyond the script take the first operation (enumeration) instead of a PRNG choice
	widths []int // number of parked operations at each step
	taken  []int // choice made at each step
}

type parkedOp struct {
	label string
	ch    chan struct{}
}

func (s *sched) yieldL(label string) {
	ch := make(chan struct{})
	s.mu.Lock()
	s.parked = append(s.parked, parkedOp{label, ch})
	s.mu.Unlock()
	<-ch
}

// runScheduled runs fn in a synctest bubble under the scheduler; false = the
// copy is stuck (nothing parked, nothing runnable, not finished).
func runScheduled(s *sched, fn func()) bool {
	ok := true
	synctest.Test(T, func(t *testing.T) {
		done := make(chan struct{})
		go func() {
			defer close(done)
			fn()
		}()
		for {
			synctest.Wait()
			select {
			case <-done:
				return
			default:
			}
			s.mu.Lock()
			if len(s.parked) == 0 {
				s.mu.Unlock()
				ok = false
				return
			}
			sort.SliceStable(s.parked, func(a, b int) bool { return s.parked[a].label < s.parked[b].label })
			var i int
			switch {
			case s.Steps < len(s.script):
				i = s.script[s.Steps] % len(s.parked)
			case s.enum:
				i = 0
			default:
				i = s.rng.Intn(len(s.parked))
			}
			s.widths = append(s.widths, len(s.parked))
			s.taken = append(s.taken, i)
			ch := s.parked[i].ch
			s.parked = append(s.parked[:i], s.parked[i+1:]...)
			s.Steps++
			s.mu.Unlock()
			close(ch)
		}
	})
	return ok
}
