// Package copyh is the shared harness of C01 (Copy replicates the rooted DAG and
// tags the root) and C04 (work accounting).  It runs oras.Copy / oras.CopyGraph
// on generated DAGs between instrumented stores, records the visible event
// trace (the alphabet of coq/Model/CopySpec.v), and evaluates the two
// properties' own statements with the generator's ground truth.
//
// Event tokens (one global order, taken under one mutex):
//
//	XB.n XE.n.b      dst.Exists called / returned b
//	SB.n SE.n SC.n   src.Fetch called / returned a reader / reader closed
//	PB.n.r PE.n.r.k  dst.Push (r=0) or dst.PushReference (r=1) called / returned (k ok, x already exists)
//	CB.kind.n        callback entered (returns nil);  CF.kind.n  callback entered, returns the injected error
//	TB.n TE.n        dst.Tag called / returned
//	RT.b             the call returned (1 = nil error)
package copyh

import (
	"bytes"
	"crypto/sha256"
	"hash"
	"context"
	"encoding/json"
	"errors"
	"fmt"
	"io"
	"os"
	"runtime"
	"sort"
	"strings"
	"sync"
	"sync/atomic"
	"time"

	ocispec "github.com/opencontainers/image-spec/specs-go/v1"
	oras "oras.land/oras-go/v2"
	"oras.land/oras-go/v2/content"
	"oras.land/oras-go/v2/content/file"
	"oras.land/oras-go/v2/content/memory"
	"oras.land/oras-go/v2/content/oci"
	"oras.land/oras-go/v2/errdef"
	"oras.land/oras-go/v2/registry"
	"oras.land/oras-go/v2/registry/remote"
	"golang.org/x/sync/semaphore"
	"verifharness/common"
	"verifharness/dag"
)

// DefaultConcurrency is the documented default of CopyGraphOptions.Concurrency
// ("If less than or equal to 0, a default (currently 3) is used"): the oracle's
// own constant, the model takes its copy from the Go source through gosrc2v.
const DefaultConcurrency = 3

// Case is one generated copy; it is also the replay format.
type Case struct {
	Stream   string        `json:"stream"` // main | contention | twin | cbfail
	Graph    []dag.Encoded `json:"graph"`
	Root     int           `json:"root"`    // node the source reference points to
	D0       []int         `json:"d0"`      // nodes pushed into the destination before the call (successor-closed)
	K        int           `json:"k"`       // CopyGraphOptions.Concurrency as passed
	Mode     string        `json:"mode"`    // g CopyGraph | t Copy into a Tagger | r Copy into a ReferencePusher |
	// x ExtendedCopyGraph | X ExtendedCopy (oracle only: the model's acceptor is per copyGraph root)
	Src      string        `json:"src"`     // mem | oci | ocire | file | remote (remote.Repository over an in-process registry)
	Dst      string        `json:"dst"`     // mem | oci | ocire | file | remote
	RefFetch bool          `json:"reffetch"` // the source also implements registry.ReferenceFetcher
	SrcRef   string        `json:"srcref"`
	DstRef   string        `json:"dstref"` // "" = blank
	MapRoot  int           `json:"maproot"` // -1, or the node MapRoot maps the root to
	Platform string        `json:"platform"` // "" or the architecture given to WithTargetPlatform
	PlatVar  string        `json:"platvar"`  // optional Variant of the target platform ("" = none)
	PlatFeat string        `json:"platfeat"` // optional single OSFeature of the target platform
	FailCb   string        `json:"failcb"`  // "" or pre|post|skip : this callback fails ...
	FailNode int           `json:"failnode"` // ... on this node
	Seed     uint64        `json:"seed"`    // latency PRNG
	GenSeed  uint64        `json:"genseed"` // generator seed (regenerates the case)
	Mount    bool          `json:"mount"`    // the destination also implements registry.Mounter; MountFrom returns candidates
	Titled   []int         `json:"titled"`   // nodes whose descriptor carries org.opencontainers.image.title inside the manifests that list them
	CbSet    string        `json:"cbset"`    // which of PreCopy PostCopy OnCopySkipped OnMounted MountFrom are set, 5 x 0|1 ("" = all set)
	FindSucc bool          `json:"findsucc"` // FindSuccessors set (to a function calling content.Successors) instead of nil
	MountAlways bool       `json:"mountalways"` // every candidate repository has the blob (Mount always succeeds)
	PreTag   int           `json:"pretag"`   // -1, or a pre-populated node the destination reference already points to before the call
	CancelAt int           `json:"cancelat"` // 0 none | -1 the caller's context is already ended when the call starts | -2 it ends when the
	// source reference has been resolved (before the root task starts) | k>0 it ends right after the k-th recorded event
	CancelDeadline bool    `json:"canceldeadline"` // the context ends by an expired deadline instead of cancel()
	Slow     bool          `json:"slow"`     // storage latencies of 0.2-2 ms (contention on the limiter)
	Fast     bool          `json:"fast"`     // latencies are yields only (no sleeps): the small-scope enumeration
	Script   []int         `json:"script"`   // controlled schedule given as choices (index among the parked operations, ordered by label); beyond it: first
	Enum     bool          `json:"enum"`     // schedule enumeration: choices beyond Script are 0, not PRNG
	Sched    bool          `json:"sched"`    // run under testing/synctest with a PRNG-controlled scheduler
	Thorough bool          `json:"thorough"` // generated with the thorough-tier size distribution
	OneP     bool          `json:"onep"`     // run the call with GOMAXPROCS(1): a spawned goroutine starts only when its spawner blocks or yields,
	// which opens the windows between eg.Go and the goroutine's first instruction (cancellation landing in between)
	Barrier  bool          `json:"barrier"`  // FindSuccessors (set) lines up the tasks that are inside it (a cyclic barrier of min(K,8) with a 2 ms
	// timeout): their first successors are then dispatched, and claimed with TryCommit, at the same instant
	OwnLim   bool          `json:"ownlim"`   // CopyGraph through the verif hook with a limiter the harness created: its free permits are read at every event
}

var errInjected = errors.New("verif: injected callback failure")

type dkeyT struct {
	mt   string
	dg   string
	size int64
}

func keyOf(d ocispec.Descriptor) dkeyT { return dkeyT{d.MediaType, d.Digest.String(), d.Size} }

// rec records the trace and keeps the in-flight gauges.
type rec struct {
	mu     sync.Mutex
	toks   []string
	idx    map[dkeyT]int
	quiet  atomic.Bool // prologue of Copy (MapRoot / platform selection): not part of the copy trace
	servedBad []int     // nodes for which the bytes that arrived at a successful dst.Push differ from the generator's (Model/CopyBytes.v's [served])
	refs   []string    // the reference strings given to dst.Tag / dst.PushReference
	pro    []int       // nodes read from the source in Copy's prologue (resolveRoot's FetchReference, MapRoot /
	// platform selection): outside the transition system, but inside "one copy call" for C04's counters
	srcIn  int
	dstIn  int
	srcMax int
	dstMax int
	lmu    sync.Mutex
	lat    *common.Rand
	bytes  [][]byte // generator's bytes per node (what a successful mount makes available)
	cancelAt int
	cancel   func()
	fast   bool
	slow   bool
	seed   uint64
	always bool // every Mount finds the blob in the candidate repository
	sched  *sched   // controlled schedules: every delay point parks until the scheduler releases it
	// the copy's own limiter (Case.OwnLim): at every recorded event the free permits are counted; the operations
	// in flight must be covered by the permits taken
	lim      *semaphore.Weighted
	limK     int
	limProbe int    // events probed
	limBad   string // first event at which more operations were in flight than permits taken
	frees    []int  // per recorded token: the free permits read right after it (-1: not read)
	onep     bool   // Case.OneP
}

func (r *rec) node(d ocispec.Descriptor) int {
	if i, ok := r.idx[keyOf(d)]; ok {
		return i
	}
	return -1
}

func (r *rec) ev(tok string, dsrc, ddst int) {
	r.mu.Lock()
	if tok != "" {
		r.toks = append(r.toks, tok)
		if r.cancelAt > 0 && len(r.toks) == r.cancelAt && r.cancel != nil && !strings.HasPrefix(tok, "RT.") {
			r.toks = append(r.toks, "CX") // the caller's context ends here
			r.cancel()
		}
	}
	r.srcIn += dsrc
	r.dstIn += ddst
	if r.srcIn > r.srcMax {
		r.srcMax = r.srcIn
	}
	if r.dstIn > r.dstMax {
		r.dstMax = r.dstIn
	}
	if r.lim != nil {
		// still inside r.mu: no other task can record an event, and a task between two of its events keeps its permit
		free := r.freePermits()
		r.limProbe++
		if tok != "" {
			for len(r.frees) < len(r.toks)-1 {
				r.frees = append(r.frees, -1)
			}
			r.frees = append(r.frees, free)
		}
		if taken := r.limK - free; r.limBad == "" && (r.srcIn > taken || r.dstIn > taken) {
			r.limBad = fmt.Sprintf("at event %d (%s): %d source reads and %d destination operations in flight, but only %d of %d permits taken", len(r.toks)-1, tok, r.srcIn, r.dstIn, taken, r.limK)
		}
	}
	r.mu.Unlock()
}

// freePermits counts the limiter's free permits (takes them all for an instant and gives them back).
func (r *rec) freePermits() int {
	f := 0
	for f <= r.limK && r.lim.TryAcquire(1) {
		f++
	}
	if f > 0 {
		r.lim.Release(int64(f))
	}
	return f
}

// cancelAfterResolve ends the caller's context when the source reference has just been resolved.
func (r *rec) cancelAfterResolve() {
	r.mu.Lock()
	if r.cancelAt == -2 && r.cancel != nil {
		r.cancelAt = 0
		r.toks = append(r.toks, "CX")
		r.cancel()
	}
	r.mu.Unlock()
}

// delayL is delay with a label naming the place (call site and node): under controlled schedules the
// parked operations are ordered by label, so that a schedule (a list of choices) means the same thing in
// every run of the case.
func (r *rec) delayL(label string) {
	if r.sched != nil {
		r.sched.yieldL(label)
		return
	}
	r.delay()
}

// delay varies the interleaving: nothing, yields, or a short sleep.
func (r *rec) delay() {
	if r.sched != nil {
		r.sched.yieldL("")
		return
	}
	r.lmu.Lock()
	v := r.lat.Intn(12)
	a := r.lat.Intn(64)
	r.lmu.Unlock()
	if r.onep {
		// single-P schedules: mostly run on without yielding (a yield lets every spawned goroutine start)
		if v >= 9 {
			runtime.Gosched()
		}
		return
	}
	if r.fast && v >= 8 {
		v = 4
	}
	if r.slow && v >= 6 {
		time.Sleep(time.Duration(200+28*a) * time.Microsecond)
		return
	}
	switch {
	case v < 4:
	case v < 8:
		for i := 0; i <= a%4; i++ {
			runtime.Gosched()
		}
	case v < 11:
		time.Sleep(time.Duration(1+a) * time.Microsecond)
	default:
		time.Sleep(time.Duration(50+4*a) * time.Microsecond)
	}
}

// ---- source wrapper ----

type srcW struct {
	r     *rec
	under oras.ReadOnlyTarget
}

type closeRec struct {
	io.Reader
	c    io.Closer
	once sync.Once
	f    func()
}

func (c *closeRec) Close() error {
	err := c.c.Close()
	c.once.Do(c.f)
	return err
}

func (s *srcW) Fetch(ctx context.Context, d ocispec.Descriptor) (io.ReadCloser, error) {
	ctx = context.WithoutCancel(ctx) // the stores do not see the caller's cancellation: only the copy's own control flow does
	if s.r.quiet.Load() {
		s.r.mu.Lock()
		s.r.pro = append(s.r.pro, s.r.node(d))
		s.r.mu.Unlock()
		return s.under.Fetch(ctx, d)
	}
	n := s.r.node(d)
	s.r.ev(fmt.Sprintf("SB.%d", n), 1, 0)
	s.r.delayL(fmt.Sprintf("01.%d", n))
	rc, err := s.under.Fetch(ctx, d)
	if err != nil {
		s.r.ev(fmt.Sprintf("SX.%d", n), -1, 0) // not in the model's alphabet: fails the correspondence
		return nil, err
	}
	s.r.delayL(fmt.Sprintf("02.%d", n))
	s.r.ev(fmt.Sprintf("SE.%d", n), 0, 0)
	return &closeRec{Reader: rc, c: rc, f: func() {
		s.r.delayL(fmt.Sprintf("03.%d", n))
		s.r.ev(fmt.Sprintf("SC.%d", n), -1, 0)
	}}, nil
}

func (s *srcW) Exists(ctx context.Context, d ocispec.Descriptor) (bool, error) {
	return s.under.Exists(ctx, d)
}

func (s *srcW) Resolve(ctx context.Context, ref string) (ocispec.Descriptor, error) {
	d, err := s.under.Resolve(context.WithoutCancel(ctx), ref)
	s.r.cancelAfterResolve()
	return d, err
}

// srcWG additionally implements content.PredecessorFinder (ExtendedCopy needs a graph source).
type srcWG struct{ *srcW }

func (s srcWG) Predecessors(ctx context.Context, d ocispec.Descriptor) ([]ocispec.Descriptor, error) {
	return s.under.(content.PredecessorFinder).Predecessors(ctx, d)
}

// srcWRef additionally implements registry.ReferenceFetcher (as remote repositories do).
type srcWRef struct{ *srcW }

func (s srcWRef) FetchReference(ctx context.Context, ref string) (ocispec.Descriptor, io.ReadCloser, error) {
	ctx = context.WithoutCancel(ctx)
	defer s.r.cancelAfterResolve()
	note := func(d ocispec.Descriptor) {
		s.r.mu.Lock()
		s.r.pro = append(s.r.pro, s.r.node(d)) // a source read of the root, in the prologue
		s.r.mu.Unlock()
	}
	if rf, ok := s.under.(registry.ReferenceFetcher); ok {
		d, rc, err := rf.FetchReference(ctx, ref)
		if err == nil {
			note(d)
		}
		return d, rc, err
	}
	d, err := s.under.Resolve(ctx, ref)
	if err != nil {
		return ocispec.Descriptor{}, nil, err
	}
	rc, err := s.under.Fetch(ctx, d)
	if err != nil {
		return ocispec.Descriptor{}, nil, err
	}
	note(d)
	return d, rc, nil
}

// ---- destination wrapper ----

type dstW struct {
	r     *rec
	under oras.Target
	dmu   sync.Map // digest -> *sync.Mutex
}

// lockDigest serialises the wrapper's operations on one digest, so that for two
// descriptors with the same bytes ("twins", one key in a digest-keyed store) the
// recorded order of Exists/Push events is the order of their effects.  Operations
// on different digests are not affected.
func (d *dstW) lockDigest(t ocispec.Descriptor) func() {
	if d.r.sched != nil {
		return func() {} // controlled schedules park inside operations: no blocking locks there (no twins generated)
	}
	m, _ := d.dmu.LoadOrStore(t.Digest.String(), &sync.Mutex{})
	mu := m.(*sync.Mutex)
	mu.Lock()
	return mu.Unlock
}

func (d *dstW) Fetch(ctx context.Context, t ocispec.Descriptor) (io.ReadCloser, error) {
	return d.under.Fetch(ctx, t)
}

func (d *dstW) Exists(ctx context.Context, t ocispec.Descriptor) (bool, error) {
	ctx = context.WithoutCancel(ctx)
	n := d.r.node(t)
	defer d.lockDigest(t)()
	d.r.ev(fmt.Sprintf("XB.%d", n), 0, 1)
	d.r.delayL(fmt.Sprintf("04.%d", n))
	ok, err := d.under.Exists(ctx, t)
	d.r.delayL(fmt.Sprintf("05.%d", n))
	if err != nil {
		d.r.ev(fmt.Sprintf("XX.%d", n), 0, -1)
		return ok, err
	}
	b := 0
	if ok {
		b = 1
	}
	d.r.ev(fmt.Sprintf("XE.%d.%d", n, b), 0, -1)
	return ok, nil
}

func (d *dstW) push(ctx context.Context, t ocispec.Descriptor, rd io.Reader, ref string) error {
	ctx = context.WithoutCancel(ctx)
	if ref != "" {
		d.r.mu.Lock()
		d.r.refs = append(d.r.refs, ref)
		d.r.mu.Unlock()
	}
	n := d.r.node(t)
	isRef := 0
	if ref != "" {
		isRef = 1
	}
	defer d.lockDigest(t)()
	d.r.ev(fmt.Sprintf("PB.%d.%d", n, isRef), 0, 1)
	d.r.delayL(fmt.Sprintf("06.%d", n))
	// "x" = the content was already there (ErrAlreadyExists, or an idempotent success as registries
	// answer); "k" = this push stored it
	had, _ := d.under.Exists(ctx, t)
	hr := &hashingReader{r: rd, h: sha256.New()}
	rd = hr
	var err error
	if rp, ok := d.under.(registry.ReferencePusher); ok && ref != "" {
		err = rp.PushReference(ctx, t, rd, ref)
	} else {
		err = d.under.Push(ctx, t, rd)
	}
	res := "k"
	if errors.Is(err, errdef.ErrAlreadyExists) || (err == nil && had) {
		res = "x"
	} else if err != nil {
		res = "e"
	}
	if res == "k" && n >= 0 && !bytes.Equal(hr.h.Sum(nil), sumOf(d.r.bytes[n])) {
		d.r.mu.Lock()
		d.r.servedBad = append(d.r.servedBad, n)
		d.r.mu.Unlock()
	}
	if _, ok := d.under.(registry.ReferencePusher); !ok && ref != "" && res != "e" {
		if terr := d.under.Tag(ctx, t, ref); terr != nil {
			err, res = terr, "e"
		}
	}
	d.r.delayL(fmt.Sprintf("07.%d", n))
	d.r.ev(fmt.Sprintf("PE.%d.%d.%s", n, isRef, res), 0, -1)
	return err
}

func (d *dstW) Push(ctx context.Context, t ocispec.Descriptor, rd io.Reader) error {
	return d.push(ctx, t, rd, "")
}

func (d *dstW) Tag(ctx context.Context, t ocispec.Descriptor, ref string) error {
	ctx = context.WithoutCancel(ctx)
	d.r.mu.Lock()
	d.r.refs = append(d.r.refs, ref)
	d.r.mu.Unlock()
	n := d.r.node(t)
	d.r.ev(fmt.Sprintf("TB.%d", n), 0, 1)
	d.r.delayL(fmt.Sprintf("08.%d", n))
	err := d.under.Tag(ctx, t, ref)
	d.r.delayL(fmt.Sprintf("09.%d", n))
	if err != nil {
		d.r.ev(fmt.Sprintf("TX.%d", n), 0, -1)
		return err
	}
	d.r.ev(fmt.Sprintf("TE.%d", n), 0, -1)
	return nil
}

func (d *dstW) Resolve(ctx context.Context, ref string) (ocispec.Descriptor, error) {
	return d.under.Resolve(ctx, ref)
}

// mount is the body of registry.Mounter.Mount for the wrappers: the candidate repository
// either has the blob (PRNG choice; the blob appears in the destination without any
// source read) or the content is requested through getContent and uploaded, as
// remote.Repository does after a 202 answer.
func (d *dstW) mount(ctx context.Context, t ocispec.Descriptor, fromRepo string, getContent func() (io.ReadCloser, error)) error {
	ctx = context.WithoutCancel(ctx)
	n := d.r.node(t) // no digest lock here: getContent re-enters the wrappers; mount cases have no twins
	d.r.ev(fmt.Sprintf("MB.%d", n), 0, 1)
	d.r.delayL(fmt.Sprintf("10.%d", n))
	if m, ok := d.under.(registry.Mounter); ok {
		// a real Mounter (remote.Repository): the registry decides; observe what happened
		called, cerr := false, error(nil)
		err := m.Mount(ctx, t, fromRepo, func() (io.ReadCloser, error) {
			called = true
			rc, e := getContent()
			cerr = e
			return rc, e
		})
		d.r.delayL(fmt.Sprintf("11.%d", n))
		switch {
		case !called && err == nil:
			d.r.ev(fmt.Sprintf("ME.%d.m", n), 0, -1)
		case called && cerr != nil && errors.Is(cerr, errInjected):
			d.r.ev("", 0, -1)
		case called && cerr != nil:
			d.r.ev(fmt.Sprintf("ME.%d.s", n), 0, -1)
		case called && err == nil:
			d.r.ev(fmt.Sprintf("ME.%d.c", n), 0, -1)
		default:
			d.r.ev(fmt.Sprintf("ME.%d.e", n), 0, -1)
		}
		return err
	}
	// the outcome is a function of (case seed, node, candidate), not of the order in which goroutines draw
	hit := d.r.always || common.NewRand(d.r.seed^uint64(n+1)*0x9E3779B1^uint64(len(fromRepo)+int(fromRepo[len(fromRepo)-1]))*0x85EBCA77).Intn(3) == 0
	if hit && n >= 0 {
		if err := d.under.Push(ctx, t, bytes.NewReader(d.r.bytes[n])); err != nil {
			d.r.ev(fmt.Sprintf("ME.%d.e", n), 0, -1)
			return err
		}
		d.r.delayL(fmt.Sprintf("12.%d", n))
		d.r.ev(fmt.Sprintf("ME.%d.m", n), 0, -1)
		return nil
	}
	rc, err := getContent()
	if err != nil {
		if errors.Is(err, errInjected) {
			d.r.ev("", 0, -1) // the failing PreCopy was recorded as CF; the task is dead for the model
		} else {
			d.r.ev(fmt.Sprintf("ME.%d.s", n), 0, -1)
		}
		return fmt.Errorf("cannot read source blob: %w", err)
	}
	err = d.under.Push(ctx, t, rc)
	rc.Close()
	d.r.delayL(fmt.Sprintf("13.%d", n))
	if err != nil {
		d.r.ev(fmt.Sprintf("ME.%d.e", n), 0, -1)
		return err
	}
	d.r.ev(fmt.Sprintf("ME.%d.c", n), 0, -1)
	return nil
}

// dstWMount: Tagger + Mounter; dstWRefMount: ReferencePusher + Mounter (a remote repository).
type dstWMount struct{ *dstW }

func (d dstWMount) Mount(ctx context.Context, t ocispec.Descriptor, fromRepo string, getContent func() (io.ReadCloser, error)) error {
	return d.mount(ctx, t, fromRepo, getContent)
}

type dstWRefMount struct{ dstWRef }

func (d dstWRefMount) Mount(ctx context.Context, t ocispec.Descriptor, fromRepo string, getContent func() (io.ReadCloser, error)) error {
	return d.mount(ctx, t, fromRepo, getContent)
}

// hashingReader hashes what the destination reads from the reader it was given.
type hashingReader struct {
	r io.Reader
	h hash.Hash
}

func (x *hashingReader) Read(p []byte) (int, error) {
	n, err := x.r.Read(p)
	x.h.Write(p[:n])
	return n, err
}

func sumOf(b []byte) []byte { s := sha256.Sum256(b); return s[:] }

// dstWRef additionally implements registry.ReferencePusher (push + tag in one call).
type dstWRef struct{ *dstW }

func (d dstWRef) PushReference(ctx context.Context, t ocispec.Descriptor, rd io.Reader, ref string) error {
	if ref == "" {
		return errors.New("verif: empty reference")
	}
	return d.push(ctx, t, rd, ref)
}

// barrier is a cyclic barrier with a timeout (a straggler releases nobody and waits at most 2 ms).
type barrier struct {
	mu   sync.Mutex
	n    int
	size int
	ch   chan struct{}
}

func (b *barrier) wait() {
	b.mu.Lock()
	b.n++
	if b.n >= b.size {
		close(b.ch)
		b.ch, b.n = make(chan struct{}), 0
		b.mu.Unlock()
		return
	}
	ch := b.ch
	b.mu.Unlock()
	select {
	case <-ch:
	case <-time.After(2 * time.Millisecond):
	}
}

// ---- running one case ----

// Result is everything observed about one run.
type Result struct {
	Case     *Case
	G        *dag.Graph
	Toks     []string
	Err      error
	Hang     bool
	Returned ocispec.Descriptor
	Present  []bool // underlying destination Exists per node, after the call
	BytesOK  []bool // for present nodes: fetched bytes equal the generator's bytes
	TagNode  int    // node the effective destination reference resolves to (-1 none, -2 unknown descriptor)
	SrcMax   int
	DstMax   int
	Widths, Taken []int // controlled schedule: number of parked operations at each step, and the choice made
	ExtraTag bool  // the source reference also resolves in the destination although a different destination reference was given
	ServedBad []int   // successful pushes whose bytes were not the generator's
	Refs     []string // reference strings given to dst.Tag / dst.PushReference
	Pro      []int // nodes read from the source in the prologue
	Keff     int
	Root2    int // the root after MapRoot / platform selection (ground truth), -1 if the prologue must fail
	SetupErr error
	LimProbes int    // Case.OwnLim: events at which the limiter was read
	LimBad    string // first event with more operations in flight than permits taken
	LimFree   int    // free permits after the call returned (must be all of them)
	Frees     []int  // Case.OwnLim: per token of Toks, the free permits read right after it (-1: none)
}

// CbIsSet reports whether callback kind (pre post skip mounted mountfrom) is set in this case.
func (c *Case) CbIsSet(kind string) bool {
	i := map[string]int{"pre": 0, "post": 1, "skip": 2, "mounted": 3, "mountfrom": 4}[kind]
	return len(c.CbSet) != 5 || c.CbSet[i] == '1'
}

// Mounting reports whether mountOrCopyNode can try to mount: Mounter destination and MountFrom set.
func (c *Case) Mounting() bool { return c.Mount && c.CbIsSet("mountfrom") }

func (c *Case) cbBits() string {
	if len(c.CbSet) == 5 {
		return c.CbSet
	}
	return "11111"
}

func (c *Case) EffRef() string {
	if c.DstRef == "" {
		return c.SrcRef
	}
	return c.DstRef
}

// expectedRoot: the generator's own view of MapRoot / WithTargetPlatform.
func expectedRoot(c *Case, g *dag.Graph) int {
	root := c.Root
	if c.MapRoot >= 0 {
		root = c.MapRoot
	}
	if c.Platform != "" {
		n := g.Nodes[root]
		if n.Kind == dag.KImage || n.Kind == dag.KDocker {
			// SelectManifest on a manifest: the platform is read from the config blob, which must have the
			// image-config media type of the manifest's family
			cfg := g.Nodes[n.Succ[0]]
			if n.Subject >= 0 {
				cfg = g.Nodes[n.Succ[1]]
			}
			want := ocispec.MediaTypeImageConfig
			if n.Kind == dag.KDocker {
				want = dag.MTDockerConfig
			}
			var p ocispec.Platform
			if cfg.Desc.MediaType != want || json.NewDecoder(bytes.NewReader(cfg.Bytes)).Decode(&p) != nil {
				return -1
			}
			if p.Architecture == c.Platform && p.OS == "linux" && c.PlatVar == "" && c.PlatFeat == "" {
				return root
			}
			return -1
		}
		if n.Kind != dag.KIndex && n.Kind != dag.KDockerL {
			return -1
		}
		var ix struct {
			Manifests []ocispec.Descriptor `json:"manifests"`
		}
		if err := json.Unmarshal(n.Bytes, &ix); err != nil {
			return -1
		}
		for i, m := range ix.Manifests {
			if m.Platform != nil && m.Platform.Architecture == c.Platform && m.Platform.OS == "linux" && c.PlatVar == "" && c.PlatFeat == "" {
				return n.Succ[len(n.Succ)-len(ix.Manifests)+i]
			}
		}
		return -1
	}
	return root
}

func newStore(kind, dir string) (oras.Target, func(), error) {
	switch kind {
	case "mem":
		return memory.New(), func() {}, nil
	case "oci", "ocire":
		s, err := oci.New(dir)
		return s, func() {}, err
	case "remote":
		repo, err := newFakeRegistry().repository()
		return repo, func() {}, err
	case "file":
		s, err := file.New(dir)
		if err != nil {
			return nil, nil, err
		}
		return s, func() { s.Close() }, nil
	}
	return nil, nil, fmt.Errorf("unknown store kind %q", kind)
}

func populate(ctx context.Context, st oras.Target, kind string, g *dag.Graph, ids []int, names bool) error {
	sort.Ints(ids)
	for _, i := range ids {
		n := g.Nodes[i]
		if n.Foreign() {
			continue
		}
		d := n.Desc
		if names && kind == "file" && !n.IsManifest() && i%2 == 0 {
			d.Annotations = map[string]string{ocispec.AnnotationTitle: fmt.Sprintf("blob-%d.bin", i)}
		}
		if err := st.Push(ctx, d, bytes.NewReader(n.Bytes)); err != nil && !errors.Is(err, errdef.ErrAlreadyExists) {
			return fmt.Errorf("populate %s node %d: %w", kind, i, err)
		}
	}
	return nil
}

var dirSeq atomic.Int64

func tmpDir(tag string) string {
	d, err := os.MkdirTemp("", fmt.Sprintf("c01-%s-%d-", tag, dirSeq.Add(1)))
	if err != nil {
		panic(err)
	}
	return d
}

// Execute runs the case once on the real code.
func Execute(c *Case) *Result {
	ctx := context.Background()
	g := dag.Decode(c.Graph)
	res := &Result{Case: c, G: g, TagNode: -1}
	res.Keff = c.K
	if c.K <= 0 {
		res.Keff = DefaultConcurrency
	}
	res.Root2 = expectedRoot(c, g)

	// source
	sdir, ddir := "", ""
	if c.Src != "mem" {
		sdir = tmpDir("src")
		defer os.RemoveAll(sdir)
	}
	if c.Dst != "mem" {
		ddir = tmpDir("dst")
		defer os.RemoveAll(ddir)
	}
	src, closeSrc, err := newStore(c.Src, sdir)
	if err != nil {
		res.SetupErr = err
		return res
	}
	all := make([]int, len(g.Nodes))
	for i := range all {
		all[i] = i
	}
	if err := populate(ctx, src, c.Src, g, all, true); err != nil {
		closeSrc()
		res.SetupErr = err
		return res
	}
	if err := src.Tag(ctx, g.Nodes[c.Root].Desc, c.SrcRef); err != nil {
		closeSrc()
		res.SetupErr = fmt.Errorf("tag source: %w", err)
		return res
	}
	if c.Src == "ocire" {
		closeSrc()
		src, closeSrc, err = newStore("oci", sdir)
		if err != nil {
			res.SetupErr = err
			return res
		}
	}
	defer closeSrc()

	// destination
	dst, closeDst, err := newStore(c.Dst, ddir)
	if err != nil {
		res.SetupErr = err
		return res
	}
	if err := populate(ctx, dst, c.Dst, g, append([]int(nil), c.D0...), false); err != nil {
		res.SetupErr = err
		return res
	}
	if c.PreTag >= 0 && (c.Mode == "t" || c.Mode == "r" || c.Mode == "X") {
		// the destination reference exists already and points elsewhere: Copy must move it
		if err := dst.Tag(ctx, g.Nodes[c.PreTag].Desc, c.EffRef()); err != nil {
			res.SetupErr = fmt.Errorf("pre-tag: %w", err)
			return res
		}
	}
	if c.Dst == "ocire" {
		closeDst()
		dst, closeDst, err = newStore("oci", ddir)
		if err != nil {
			res.SetupErr = err
			return res
		}
	}
	defer closeDst()

	if repo, ok := dst.(*remote.Repository); ok {
		// cross-repository mount: candidate "repo/a" holds the blobs whose digest starts with 0-5,
		// "repo/b" those starting with 0-2, "repo/c" none
		reg := repo.Client.(*fakeRegistry)
		reg.mountable = func(from, dg string) []byte {
			lim := map[string]byte{"repo/a": '5', "repo/b": '2'}[from]
			i := strings.IndexByte(dg, ':')
			if lim == 0 || i < 0 || i+1 >= len(dg) || dg[i+1] > lim {
				return nil
			}
			for _, n := range g.Nodes {
				if n.Desc.Digest.String() == dg && !n.IsManifest() {
					return n.Bytes
				}
			}
			return nil
		}
	}
	r := &rec{idx: map[dkeyT]int{}, lat: common.NewRand(c.Seed), cancelAt: c.CancelAt, fast: c.Fast, slow: c.Slow, seed: c.Seed, always: c.MountAlways, onep: c.OneP}
	for _, n := range g.Nodes {
		if _, dup := r.idx[keyOf(n.Desc)]; dup {
			res.SetupErr = fmt.Errorf("generator produced two nodes with the same descriptor (node %d)", n.ID)
			return res
		}
		r.idx[keyOf(n.Desc)] = n.ID
		r.bytes = append(r.bytes, n.Bytes)
	}
	sw := &srcW{r: r, under: src}
	dw := &dstW{r: r, under: dst}

	cb := func(kind string) func(context.Context, ocispec.Descriptor) error {
		return func(_ context.Context, d ocispec.Descriptor) error {
			n := r.node(d)
			if c.FailCb == kind && c.FailNode == n {
				r.ev(fmt.Sprintf("CF.%s.%d", kind, n), 0, 0)
				r.delayL(fmt.Sprintf("14.%d", n))
				return errInjected
			}
			r.ev(fmt.Sprintf("CB.%s.%d", kind, n), 0, 0)
			r.delayL(fmt.Sprintf("15.%d", n))
			return nil
		}
	}
	gopts := oras.CopyGraphOptions{Concurrency: c.K}
	if c.CbIsSet("pre") {
		gopts.PreCopy = cb("pre")
	}
	if c.CbIsSet("post") {
		gopts.PostCopy = cb("post")
	}
	if c.CbIsSet("skip") {
		gopts.OnCopySkipped = cb("skip")
	}
	if c.CbIsSet("mounted") {
		gopts.OnMounted = cb("mounted")
	}
	if c.CbIsSet("mountfrom") {
		gopts.MountFrom = func(_ context.Context, d ocispec.Descriptor) ([]string, error) {
			n := r.node(d)
			if c.FailCb == "mountfrom" && c.FailNode == n {
				r.ev(fmt.Sprintf("CF.mountfrom.%d", n), 0, 0)
				return nil, errInjected
			}
			r.ev(fmt.Sprintf("CB.mountfrom.%d", n), 0, 0)
			r.delayL(fmt.Sprintf("16.%d", n))
			if !c.Mount {
				return nil, nil
			}
			k := common.NewRand(c.Seed ^ uint64(n+1)*0xC2B2AE35).Intn(4) // a function of (case seed, node)
			if c.MountAlways && k == 0 {
				k = 1
			}
			return []string{"repo/a", "repo/b", "repo/c"}[:min(k, 3)], nil
		}
	}
	if c.FindSucc {
		var bar *barrier
		if c.Barrier && !c.Sched {
			bar = &barrier{size: min(res.Keff, 8), ch: make(chan struct{})}
		}
		gopts.FindSuccessors = func(ctx context.Context, f content.Fetcher, d ocispec.Descriptor) ([]ocispec.Descriptor, error) {
			ss, err := content.Successors(ctx, f, d)
			if bar != nil && err == nil && len(ss) > 0 {
				bar.wait()
			}
			return ss, err
		}
	}

	runCopy := func() {
		// the context given to Copy / CopyGraph (created here: under synctest it must belong to the bubble);
		// ctx stays alive for setup and observation
		callCtx, cancelCall := context.WithCancel(ctx)
		defer cancelCall()
		if c.CancelAt == -1 && c.CancelDeadline {
			var cf context.CancelFunc
			callCtx, cf = context.WithDeadline(ctx, time.Now().Add(-time.Second))
			defer cf()
		}
		r.mu.Lock()
		r.cancel = cancelCall
		if c.CancelAt == -1 {
			r.toks = append(r.toks, "CX")
			cancelCall()
		}
		r.mu.Unlock()
		switch c.Mode {
		case "x", "X":
			xo := oras.ExtendedCopyOptions{ExtendedCopyGraphOptions: oras.ExtendedCopyGraphOptions{CopyGraphOptions: gopts}}
			if c.Mode == "x" {
				res.Err = oras.ExtendedCopyGraph(callCtx, srcWG{sw}, dw, g.Nodes[c.Root].Desc, xo.ExtendedCopyGraphOptions)
			} else {
				res.Returned, res.Err = oras.ExtendedCopy(callCtx, srcWG{sw}, c.SrcRef, dw, c.DstRef, xo)
			}
		case "g":
			var d content.Storage = dw
			if c.Mount {
				d = dstWMount{dw}
			}
			if c.OwnLim {
				// same call as CopyGraph makes, with a limiter of the size CopyGraph would create
				r.mu.Lock()
				r.lim, r.limK = semaphore.NewWeighted(int64(res.Keff)), res.Keff
				r.mu.Unlock()
				res.Err = oras.VerifCopyGraphWithLimiter(callCtx, sw, d, g.Nodes[c.Root].Desc, r.lim, gopts)
				break
			}
			res.Err = oras.CopyGraph(callCtx, sw, d, g.Nodes[c.Root].Desc, gopts)
		default:
			opts := oras.CopyOptions{CopyGraphOptions: gopts}
			if c.MapRoot >= 0 {
				target := g.Nodes[c.MapRoot].Desc
				opts.MapRoot = func(ctx context.Context, _ content.ReadOnlyStorage, _ ocispec.Descriptor) (ocispec.Descriptor, error) {
					return target, nil
				}
			}
			if c.Platform != "" {
				tp := &ocispec.Platform{Architecture: c.Platform, OS: "linux", Variant: c.PlatVar}
				if c.PlatFeat != "" {
					tp.OSFeatures = []string{c.PlatFeat}
				}
				opts.WithTargetPlatform(tp)
			}
			if inner := opts.MapRoot; inner != nil {
				opts.MapRoot = func(ctx context.Context, s content.ReadOnlyStorage, d ocispec.Descriptor) (ocispec.Descriptor, error) {
					r.quiet.Store(true)
					defer r.quiet.Store(false)
					return inner(ctx, s, d)
				}
			}
			var s oras.ReadOnlyTarget = sw
			if c.RefFetch {
				s = srcWRef{sw}
			}
			var d oras.Target = dw
			switch {
			case c.Mode == "r" && c.Mount:
				d = dstWRefMount{dstWRef{dw}}
			case c.Mode == "r":
				d = dstWRef{dw}
			case c.Mount:
				d = dstWMount{dw}
			}
			res.Returned, res.Err = oras.Copy(callCtx, s, c.SrcRef, d, c.DstRef, opts)
		}
	}
	if c.Sched && T != nil { // (the plain binary has no testing.T: free-running instead)
		r.sched = &sched{rng: common.NewRand(c.Seed ^ 0x5ced), script: c.Script, enum: c.Enum}
		if !runScheduled(r.sched, runCopy) {
			res.Hang = true
			r.mu.Lock()
			res.Toks = append([]string(nil), r.toks...)
			r.mu.Unlock()
			return res
		}
	} else {
		if c.OneP {
			defer runtime.GOMAXPROCS(runtime.GOMAXPROCS(1))
		}
		done := make(chan struct{})
		go func() {
			defer close(done)
			runCopy()
		}()
		select {
		case <-done:
		case <-time.After(20 * time.Second):
			res.Hang = true
			r.mu.Lock()
			res.Toks = append([]string(nil), r.toks...)
			r.mu.Unlock()
			return res
		}
	}
	if res.Err == nil {
		r.ev("RT.1", 0, 0)
	} else {
		r.ev("RT.0", 0, 0)
	}
	if r.lim != nil {
		res.LimProbes, res.LimBad, res.LimFree = r.limProbe, r.limBad, r.freePermits()
		res.Frees = append([]int(nil), r.frees...)
	}
	res.Toks = r.toks
	res.Pro = r.pro
	res.Refs = r.refs
	res.ServedBad = r.servedBad
	if r.sched != nil {
		res.Widths, res.Taken = r.sched.widths, r.sched.taken
	}
	res.SrcMax, res.DstMax = r.srcMax, r.dstMax

	// observe the destination (underlying store, not the wrapper)
	res.Present = make([]bool, len(g.Nodes))
	res.BytesOK = make([]bool, len(g.Nodes))
	for _, n := range g.Nodes {
		ok, err := dst.Exists(ctx, n.Desc)
		if err != nil || !ok {
			continue
		}
		res.Present[n.ID] = true
		rc, err := dst.Fetch(ctx, n.Desc)
		if err != nil {
			continue
		}
		b, err := io.ReadAll(rc)
		rc.Close()
		res.BytesOK[n.ID] = err == nil && bytes.Equal(b, n.Bytes)
	}
	if c.Mode != "g" && c.Mode != "x" && c.DstRef != "" && c.DstRef != c.SrcRef {
		if _, err := dst.Resolve(ctx, c.SrcRef); err == nil {
			res.ExtraTag = true
		}
	}
	if c.Mode != "g" && c.Mode != "x" {
		d, err := dst.Resolve(ctx, c.EffRef())
		if err == nil {
			res.TagNode = r.node(ocispec.Descriptor{MediaType: d.MediaType, Digest: d.Digest, Size: d.Size})
			if res.TagNode < 0 {
				res.TagNode = -2
			}
		}
	}
	return res
}

// ---- projections for the model ----

// DigestKeyed: the destination identifies content by digest only.
func DigestKeyed(kind string) bool { return kind == "oci" || kind == "ocire" || kind == "remote" }

// ModelInput renders the case + trace in the line format of ml/c01_main.ml.
func ModelInput(res *Result) string {
	c, g := res.Case, res.G
	first := map[string]int{}
	var nodes []string
	for _, n := range g.Nodes {
		fl := ""
		if n.Foreign() {
			fl += "f"
		}
		if n.IsManifest() {
			fl += "m"
		}
		if fl == "" {
			fl = "-"
		}
		dk := n.ID
		if DigestKeyed(c.Dst) {
			k := n.Desc.Digest.String()
			if c.Dst == "remote" {
				k = fmt.Sprint(n.IsManifest(), k) // a registry keeps manifests and blobs apart
			}
			if f, ok := first[k]; ok {
				dk = f
			} else {
				first[k] = n.ID
			}
		}
		nodes = append(nodes, fmt.Sprintf("%s/%d/%s", fl, dk, ints(n.Succ)))
	}
	root := res.Root2
	// resolveRoot through a ReferenceFetcher leaves the resolved manifest in the proxy cache
	var cached0 []int
	// (a manifest is read completely by content.Successors; an empty blob is "completely read" too, so the
	// cache push succeeds at Close; any other blob is left unread and its cache push fails the size check)
	if c.Mode != "g" && c.RefFetch && (g.Nodes[c.Root].IsManifest() || len(g.Nodes[c.Root].Bytes) == 0) {
		cached0 = []int{c.Root}
	}
	tr := "-"
	if len(res.Toks) > 0 {
		tr = strings.Join(res.Toks, ",")
	}
	d0 := append([]int(nil), c.D0...)
	sort.Ints(d0)
	mode := c.Mode
	xn := ""
	rootField := fmt.Sprint(root)
	if c.Mode == "x" || c.Mode == "X" {
		// ExtendedCopy(Graph): copyGraph runs from every root above the node, sharing tracker, proxy and
		// limiter (the model's c_xroots); the final Tag of ExtendedCopy is outside the transition system
		mode = "g"
		var rs []string
		for _, n := range g.Nodes {
			if !n.Foreign() && len(g.Preds(n.ID)) == 0 && g.Reach(n.ID)[c.Root] {
				rs = append(rs, fmt.Sprint(n.ID))
			}
		}
		rootField = strings.Join(rs, "+")
		if c.Mode == "X" {
			xn = fmt.Sprintf("xt=%d ", c.Root) // an ExtendedCopy run, whatever its outcome
		}
		if c.Mode == "X" && len(res.Toks) >= 3 {
			k := len(res.Toks)
			if res.Toks[k-3] == fmt.Sprintf("TB.%d", c.Root) && res.Toks[k-2] == fmt.Sprintf("TE.%d", c.Root) {
				tr = strings.Join(append(append([]string(nil), res.Toks[:k-3]...), res.Toks[k-1]), ",")
				xn += fmt.Sprintf("xn=%d ", c.Root) // ExtendedCopy: TagB/TagE of this node were taken out right before the final RT (Model/CopyExt.v puts them back)
			}
		}
	}
	if c.Mounting() {
		mode += "m"
	}
	mode += "/" + c.cbBits()
	pre := linksField(g) + prologueField(res) + rflField(g) + refsField(res) + xn
	if c.PreTag >= 0 && (c.Mode == "t" || c.Mode == "r") {
		pre += fmt.Sprintf("pt=%d ", c.PreTag)
	}
	return fmt.Sprintf("%d %d %s %s %s %s %s %s %s%srp=%s:%d:%d:%d", len(g.Nodes), c.K, mode, rootField, ints(cached0),
		strings.Join(nodes, ";"), ints(d0), tr, platformField(c, g), pre, c.Stream, c.GenSeed, b2i(c.Thorough), c.Seed)
}

// prologueField renders Copy's prologue for the in-Coq check of CopyTop.prologue_fetches /
// cache_after_resolve: pr=<reffetch>:<root0>:<mapped>:<target kind n|l|i|o>:<config node|->:<config type ok>:
// <root0 is manifest>:<root0 is empty>:<observed prologue reads, '+'-separated>
func prologueField(res *Result) string {
	c, g := res.Case, res.G
	if c.Mode != "t" && c.Mode != "r" {
		return ""
	}
	mapped := c.Root
	if c.MapRoot >= 0 {
		mapped = c.MapRoot
	}
	kind, cfg, ok := "n", "-", 0
	cfgArch := "-"
	if c.Platform != "" {
		n := g.Nodes[mapped]
		switch n.Kind {
		case dag.KIndex, dag.KDockerL:
			kind = "l"
		case dag.KImage, dag.KDocker:
			kind = "i"
			cn := g.Nodes[n.Succ[0]]
			if n.Subject >= 0 {
				cn = g.Nodes[n.Succ[1]]
			}
			cfg = fmt.Sprint(cn.ID)
			want := ocispec.MediaTypeImageConfig
			if n.Kind == dag.KDocker {
				want = dag.MTDockerConfig
			}
			ok = b2i(cn.Desc.MediaType == want)
			var p ocispec.Platform
			if json.NewDecoder(bytes.NewReader(cn.Bytes)).Decode(&p) == nil && p.OS == "linux" && archID[p.Architecture] > 0 {
				cfgArch = fmt.Sprint(archID[p.Architecture])
			}
		default:
			kind = "o"
		}
	}
	obs := make([]string, len(res.Pro))
	for i, x := range res.Pro {
		obs[i] = fmt.Sprint(x)
	}
	o := strings.Join(obs, "+")
	if o == "" {
		o = "-"
	}
	r0 := g.Nodes[c.Root]
	// for an image target: wanted architecture, the config's architecture, and what Copy selected (the node it
	// returned; "-" = it failed before copying; "?" = not observable, the run failed later)
	sel := "?"
	if res.Err == nil {
		sel = fmt.Sprint(res.Root2)
		for _, n := range g.Nodes {
			if n.Desc.Digest == res.Returned.Digest && n.Desc.MediaType == res.Returned.MediaType {
				sel = fmt.Sprint(n.ID)
			}
		}
	} else if len(res.Toks) == 1 {
		sel = "-"
	}
	want := fmt.Sprintf("%d.%d.%d", archID[c.Platform], b2i(c.PlatVar != ""), b2i(c.PlatFeat != ""))
	return fmt.Sprintf("pr=%d:%d:%d:%s:%s:%d:%d:%d:%s:%s:%s:%s ", b2i(c.RefFetch), c.Root, mapped, kind, cfg, ok, b2i(r0.IsManifest()), b2i(len(r0.Bytes) == 0), o, want, cfgArch, sel)
}

// refsField renders the source / destination reference of a Copy and every reference string the
// destination was asked to set, for the in-Coq comparison with CopyTop.eff_ref:
// rs=<hex srcRef>:<hex dstRef|->:<hex used ref>+...
func refsField(res *Result) string {
	c := res.Case
	if (c.Mode != "t" && c.Mode != "r") || len(res.Refs) == 0 {
		return ""
	}
	u := make([]string, len(res.Refs))
	for i, x := range res.Refs {
		u[i] = common.Hex(x)
	}
	return fmt.Sprintf("rs=%s:%s:%s ", common.Hex(c.SrcRef), common.Hex(c.DstRef), strings.Join(u, "+"))
}

// rflField runs the real removeForeignLayers (verif hook) on a copy of every node's successor
// descriptors and renders the result for the in-Coq comparison with CopyLinks.remove_foreign_inplace:
// rfl=<node>:<ids '+'-separated|->;...   (only nodes with successors)
func rflField(g *dag.Graph) string {
	var out []string
	for _, n := range g.Nodes {
		if len(n.Succ) == 0 {
			continue
		}
		in := make([]ocispec.Descriptor, len(n.Succ))
		for i, s := range n.Succ {
			in[i] = g.Nodes[s].Desc
		}
		res := oras.VerifRemoveForeignLayers(in)
		ids := make([]string, len(res))
		for i, d := range res {
			ids[i] = "?"
			for _, m := range g.Nodes {
				if m.Desc.Digest == d.Digest && m.Desc.MediaType == d.MediaType {
					ids[i] = fmt.Sprint(m.ID)
				}
			}
		}
		o := strings.Join(ids, "+")
		if o == "" {
			o = "-"
		}
		out = append(out, fmt.Sprintf("%d:%s", n.ID, o))
	}
	if len(out) == 0 {
		return ""
	}
	return "rfl=" + strings.Join(out, ";") + " "
}

// mtConst names a media type by the Go constant the code switches on ("-" = any other media type).
var mtConst = map[string]string{
	dag.MTDockerManifest:                            "docker.MediaTypeManifest",
	dag.MTDockerManifestList:                        "docker.MediaTypeManifestList",
	ocispec.MediaTypeImageManifest:                  "ocispec.MediaTypeImageManifest",
	ocispec.MediaTypeImageIndex:                     "ocispec.MediaTypeImageIndex",
	dag.MTArtifactManifest:                          "spec.MediaTypeArtifactManifest",
	ocispec.MediaTypeImageLayerNonDistributable:     "ocispec.MediaTypeImageLayerNonDistributable",
	ocispec.MediaTypeImageLayerNonDistributableGzip: "ocispec.MediaTypeImageLayerNonDistributableGzip",
	ocispec.MediaTypeImageLayerNonDistributableZstd: "ocispec.MediaTypeImageLayerNonDistributableZstd",
	dag.MTDockerForeignLayer:                        "docker.MediaTypeForeignLayer",
}


// linksField renders every node's media type and decoded link fields (generator's ground truth:
// subject, config, layers, manifests, blobs) for the in-Coq check that the link schema regenerated
// from content.Successors, applied to these fields, yields exactly the generator's successor list,
// and that IsManifest / IsForeignLayer's tables give the node flags:  lk=<mt>|S<n>|C<n>|L<a+b>|M<..>|B<..>;...
func linksField(g *dag.Graph) string {
	var out []string
	for _, n := range g.Nodes {
		mt := mtConst[n.Desc.MediaType]
		if mt == "" {
			mt = "-"
		}
		rest := n.Succ
		subj, cfg := "-", "-"
		if n.Subject >= 0 && len(rest) > 0 {
			subj = fmt.Sprint(rest[0])
			rest = rest[1:]
		}
		var ls, ms, bs []int
		switch n.Kind {
		case dag.KImage, dag.KDocker:
			if len(rest) > 0 {
				cfg = fmt.Sprint(rest[0])
				ls = rest[1:]
			}
		case dag.KIndex, dag.KDockerL:
			ms = rest
		case dag.KArtifact:
			bs = rest
		}
		plus := func(xs []int) string {
			if len(xs) == 0 {
				return "-"
			}
			p := make([]string, len(xs))
			for i, x := range xs {
				p[i] = fmt.Sprint(x)
			}
			return strings.Join(p, "+")
		}
		out = append(out, fmt.Sprintf("%s|S%s|C%s|L%s|M%s|B%s", mt, subj, cfg, plus(ls), plus(ms), plus(bs)))
	}
	return "lk=" + strings.Join(out, ";") + " "
}

var archID = map[string]int{"": 0, "amd64": 1, "arm64": 2}

// platformField renders WithTargetPlatform's input for the model: the wanted platform and the
// index entries (node, architecture, OS) in manifest order, strings abstracted to numbers.
func platformField(c *Case, g *dag.Graph) string {
	if c.Platform == "" {
		return ""
	}
	root := c.Root
	if c.MapRoot >= 0 {
		root = c.MapRoot
	}
	n := g.Nodes[root]
	if n.Kind != dag.KIndex && n.Kind != dag.KDockerL {
		return ""
	}
	var ix struct {
		Manifests []ocispec.Descriptor `json:"manifests"`
	}
	if json.Unmarshal(n.Bytes, &ix) != nil {
		return ""
	}
	var es []string
	for i, m := range ix.Manifests {
		id := n.Succ[len(n.Succ)-len(ix.Manifests)+i]
		if m.Platform == nil {
			es = append(es, fmt.Sprintf("%d.-.0", id))
		} else {
			es = append(es, fmt.Sprintf("%d.%d.%d", id, archID[m.Platform.Architecture], 1))
		}
	}
	feat := "-"
	if c.PlatFeat != "" {
		feat = "1"
	}
	return fmt.Sprintf("pl=%d.1.0.%d.%s@%s ", archID[c.Platform], b2i(c.PlatVar != ""), feat, strings.Join(es, ","))
}

func b2i(b bool) int {
	if b {
		return 1
	}
	return 0
}

func ints(xs []int) string {
	if len(xs) == 0 {
		return "-"
	}
	s := make([]string, len(xs))
	for i, x := range xs {
		s[i] = fmt.Sprint(x)
	}
	return strings.Join(s, ",")
}

// implSel: what WithTargetPlatform selected, as far as the implementation shows it (the node Copy
// returned; "-" when Copy failed before copying).
func implSel(res *Result) string {
	if platformField(res.Case, res.G) == "" {
		return ""
	}
	if res.Err != nil && len(res.Toks) == 1 {
		return " sel=-"
	}
	if res.Err != nil {
		return fmt.Sprintf(" sel=%d", res.Root2) // failed later (injected fault): the selection is not observable
	}
	for _, n := range res.G.Nodes {
		if n.Desc.Digest == res.Returned.Digest && n.Desc.MediaType == res.Returned.MediaType {
			return fmt.Sprintf(" sel=%d", n.ID)
		}
	}
	return " sel=?"
}

// nonMT: two nodes share the destination key but not their (non-foreign) successors' keys: the graph is
// not mt_consistent for this destination, copy_result is then not determined (same rule as ml/c01_main.ml).
func nonMT(c *Case, g *dag.Graph) bool {
	key := func(n *dag.Node) string {
		if !DigestKeyed(c.Dst) {
			return fmt.Sprint("n", n.ID)
		}
		k := n.Desc.Digest.String()
		if c.Dst == "remote" {
			k = fmt.Sprint(n.IsManifest(), k)
		}
		return k
	}
	keys := func(n *dag.Node) string {
		m := map[string]bool{}
		for _, s := range n.Succ {
			if !g.Nodes[s].Foreign() {
				m[key(g.Nodes[s])] = true
			}
		}
		var ks []string
		for k := range m {
			ks = append(ks, k)
		}
		sort.Strings(ks)
		return strings.Join(ks, ",")
	}
	for i, a := range g.Nodes {
		for _, b := range g.Nodes[i+1:] {
			if key(a) == key(b) && keys(a) != keys(b) {
				return true
			}
		}
	}
	return false
}

// ImplObs is the implementation's projected observable, same shape as the model's line.
func ImplObs(res *Result) string {
	ret := "0"
	if res.Err == nil {
		ret = "1"
	}
	tag := "-"
	if (res.Case.Mode == "t" || res.Case.Mode == "r") && res.TagNode >= 0 {
		tag = fmt.Sprint(res.TagNode)
	}
	var present []int
	for i, p := range res.Present {
		if p {
			present = append(present, i)
		}
	}
	cr := "-"
	if res.Err == nil && !nonMT(res.Case, res.G) {
		cr = ints(present)
	}
	// the in-flight maxima are compared on successful runs only: after a failure the model drops the
	// dead task's operations at once, the real ones are still returning (the oracle checks the bound on every run)
	gauges := "ms=- md=-"
	if res.Err == nil {
		gauges = fmt.Sprintf("ms=%d md=%d", res.SrcMax, res.DstMax)
	}
	return fmt.Sprintf("ACC ret=%s tag=%s dst=%s cr=%s %s%s", ret, tag, ints(present), cr, gauges, implSel(res))
}
