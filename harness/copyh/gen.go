package copyh

import (
	"encoding/json"
	"fmt"
	"sort"
	"strconv"
	"strings"

	"github.com/opencontainers/go-digest"
	ocispec "github.com/opencontainers/image-spec/specs-go/v1"
	"verifharness/common"
	"verifharness/dag"
)

var arches = []string{"amd64", "arm64"}

// Generate builds the case of a stream from its own seed (so a case can be
// regenerated from "stream:genseed" alone).
func Generate(genseed uint64, stream string, thorough bool) *Case {
	if stream == "schedenum" {
		// schedule enumeration: a small graph with real fan-out (a node with >= 2 distinct successors, or a
		// shared successor), memory stores, few scheduling points
		r := common.NewRand(genseed)
		var cands []int
		for i, sg := range SmallGraphs() {
			for _, n := range sg.Nodes {
				seen := map[int]bool{}
				for _, x := range n.Succ {
					seen[x] = true
				}
				if len(seen) >= 2 && len(sg.Preds(n.ID)) == 0 && len(sg.Nodes) <= 4 {
					cands = append(cands, i)
					break
				}
			}
		}
		sg := SmallGraphs()[common.Pick(r, cands)]
		root := 0
		for _, n := range sg.Nodes {
			seen := map[int]bool{}
			for _, x := range n.Succ {
				seen[x] = true
			}
			if len(seen) >= 2 && len(sg.Preds(n.ID)) == 0 {
				root = n.ID
			}
		}
		c := &Case{Stream: stream, Graph: sg.Encode(), Root: root, MapRoot: -1, FailNode: -1, PreTag: -1,
			K: common.Pick(r, []int{2, 2, 3}), Mode: common.Pick(r, []string{"g", "t", "r"}), Src: "mem", Dst: "mem",
			SrcRef: "v1", Seed: r.U64(), GenSeed: genseed, Thorough: thorough, Sched: true, Enum: true,
			CbSet: common.Pick(r, []string{"00000", "00000", "01100"})}
		if r.Chance(1, 3) {
			c.D0 = []int{0}
		}
		return c
	}
	if stream == "small" {
		c := smallCase(genseed)
		c.GenSeed, c.Thorough = genseed, thorough
		return c
	}
	r := common.NewRand(genseed)
	o := dag.DefaultOptions()
	o.Twins = false
	if thorough {
		o.MaxNodes = 12 + r.Intn(13)
	}
	switch stream {
	case "contention", "extended":
		o.MinNodes, o.MaxNodes = 10, 20
	case "twin":
		o.Twins = true
		o.MinNodes = 4
	case "twinreach":
		o.MinNodes = 4
	case "schedenum":
		o.MinNodes, o.MaxNodes, o.Foreign = 2, 4, false
	}
	var g *dag.Graph
	for {
		g = dag.Random(r, o)
		ok, real := false, false
		for _, n := range g.Nodes {
			if n.TwinOf >= 0 {
				ok = true
			}
			if !n.Foreign() {
				real = true
			}
		}
		if real && (ok || stream != "twin") { // (a graph of foreign layers only has nothing to copy)
			break
		}
	}
	// (twins and Mount are not combined: the wrappers' Mount path takes no per-digest lock)
	remoteMount := stream == "remote" && genseed%3 == 0
	zooRoot := -1
	if (stream == "main" || stream == "rootpresent" || stream == "cancel") && r.Chance(1, 5) {
		zooRoot = addLayerZoo(r, g) // every layer media type, distributable ones after >= 2 foreign ones
	}
	wideRoot := -1
	if stream == "contention" && genseed%3 != 0 {
		wideRoot = addWideFan(r, g) // an index over 8..14 fresh image manifests: more runnable tasks than any K
	}
	var twinRoot, twinX int = -1, -1
	twinTitled := false
	if stream == "twinreach" {
		twinTitled = genseed%2 == 0
		for twinRoot < 0 {
			twinRoot, twinX = addManifestTwin(r, g, twinTitled)
			if twinRoot < 0 {
				g = dag.Random(r, o)
			}
		}
	}
	if stream != "twin" && stream != "twinreach" && stream != "mount" && stream != "sched" && stream != "schedenum" && !remoteMount && r.Chance(1, 4) {
		addBlobTwin(r, g)
	}
	c := &Case{Stream: stream, Graph: g.Encode(), MapRoot: -1, FailNode: -1, PreTag: -1, GenSeed: genseed, Seed: r.U64(), Thorough: thorough}

	var manifests, nonforeign []int
	for _, n := range g.Nodes {
		if n.Foreign() {
			continue
		}
		nonforeign = append(nonforeign, n.ID)
		if n.IsManifest() {
			manifests = append(manifests, n.ID)
		}
	}
	bigRoot := func() int {
		best, bestN := nonforeign[0], -1
		for _, i := range g.Roots() {
			if k := len(g.Reach(i)); k > bestN {
				best, bestN = i, k
			}
		}
		return best
	}
	switch {
	case zooRoot >= 0 && r.Chance(2, 3):
		c.Root = zooRoot
	case stream == "contention" && wideRoot >= 0:
		c.Root = wideRoot
	case stream == "contention":
		c.Root = bigRoot()
	case len(manifests) > 0 && r.Chance(7, 10):
		roots := []int{}
		for _, i := range g.Roots() {
			if g.Nodes[i].IsManifest() {
				roots = append(roots, i)
			}
		}
		if len(roots) > 0 && r.Chance(2, 3) {
			c.Root = common.Pick(r, roots)
		} else {
			c.Root = common.Pick(r, manifests)
		}
	default:
		c.Root = common.Pick(r, nonforeign)
	}

	// initial destination content: successor-closed at the level of nodes
	density := common.Pick(r, []int{0, 0, 10, 30, 60})
	if stream == "contention" {
		density = common.Pick(r, []int{0, 0, 10})
	}
	set := g.RandomClosedSubset(r, density)
	if r.Chance(1, 10) {
		for k := range g.Reach(c.Root) {
			set[k] = true // the root is already present
		}
	}

	c.K = common.Pick(r, []int{1, 2, 3, 4, 5, 6, 8, 0, -1})
	if stream == "contention" {
		c.K = common.Pick(r, []int{1, 2, 2, 3, 4, 5, 6, 7, 8, 0, -1})
		c.Slow = r.Chance(2, 3)
	}
	c.Mode = common.Pick(r, []string{"g", "g", "t", "t", "r"})
	c.Src = common.Pick(r, []string{"mem", "mem", "oci", "ocire", "file"})
	c.Dst = common.Pick(r, []string{"mem", "mem", "oci", "ocire", "file"})
	c.SrcRef = common.Pick(r, []string{"v1", "latest", "rel-2.0"})
	if r.Chance(3, 5) {
		c.DstRef = common.Pick(r, []string{"copy", "v1", "stable"})
	}
	if c.Mode != "g" {
		c.RefFetch = r.Bool()
		if r.Chance(1, 6) {
			c.MapRoot = common.Pick(r, nonforeign)
		}
		rootNow := c.Root
		if c.MapRoot >= 0 {
			rootNow = c.MapRoot
		}
		if k := g.Nodes[rootNow].Kind; (k == dag.KIndex || k == dag.KDockerL) && r.Chance(1, 3) {
			c.Platform = common.Pick(r, arches)
			if r.Chance(1, 5) {
				c.PlatVar = "v8" // no generated entry has a variant: nothing matches
			} else if r.Chance(1, 6) {
				c.PlatFeat = "sse4"
			}
		}
	}

	// which callbacks are set: all, none (= default options) or a random subset
	switch r.Intn(10) {
	case 0, 1, 2:
		c.CbSet = "11111"
	case 3, 4, 5:
		c.CbSet = "00000"
	default:
		bits := []byte("00000")
		for i := range bits {
			if r.Bool() {
				bits[i] = '1'
			}
		}
		c.CbSet = string(bits)
	}
	c.FindSucc = r.Chance(1, 3)

	switch stream {
	case "claim":
		// simultaneous claims: an index over 3 manifests that all list ONE config and ONE layer, the layer 6-8 times;
		// K = 8, memory stores, no latencies: syncutil.Go spawns up to 8 goroutines for the same descriptor back to
		// back and all of them call status.Tracker.TryCommit within nanoseconds.  Exactly one may win the claim
		// (one fetch, one push, one PreCopy / PostCopy per node)
		c.Root = addClaimFan(r, g)
		c.Graph = g.Encode()
		c.Mode, c.Src, c.Dst = "g", "mem", "mem"
		c.K = common.Pick(r, []int{8, 8, 6, 0})
		c.MapRoot, c.Platform, c.Mount, c.RefFetch, c.Fast, c.Slow = -1, "", false, false, true, false
		for k := range set {
			delete(set, k)
		}
	case "cancel":
		// the caller's context ends: before the call, right after the source reference was resolved (before
		// the root task starts), or after the k-th event for every k up to the length of a run
		c.MapRoot, c.Platform, c.Mount = -1, "", false
		switch r.Intn(8) {
		case 0, 1:
			c.CancelAt, c.CancelDeadline = -1, r.Bool()
		case 2, 3:
			c.CancelAt = -2
			if c.Mode == "g" {
				c.CancelAt = -1
			}
		default:
			c.CancelAt = 1 + r.Intn(8*len(g.Nodes)+4)
		}
	case "platimage":
		// WithTargetPlatform on an image-manifest root: SelectManifest reads the manifest and its config
		// blob from the source in the prologue (matching and non-matching platforms, wrong config type)
		c.Mode = common.Pick(r, []string{"t", "r"})
		c.Root = addPlatformImage(r, g)
		c.Graph = g.Encode()
		c.MapRoot, c.Mount = -1, false
		c.Platform = common.Pick(r, arches)
		c.PlatVar, c.PlatFeat = "", ""
		if c.Src == "file" || c.Src == "remote" {
			c.Src = "mem"
		}
	case "twinreach":
		// F12 without pre-population: the bytes of a reachable manifest M also occur as a blob X that
		// another reachable manifest lists as a layer; the destination starts empty (or with unrelated
		// content).  Digest-keyed destinations (OCI layout; file store when X carries a title) answer
		// Exists(M) = true once X is pushed -- in either probe order, decided by the schedule.  Memory
		// and registry destinations are the control group.
		c.Root = twinRoot
		c.MapRoot, c.Platform, c.Mount, c.RefFetch = -1, "", false, r.Bool()
		c.K = common.Pick(r, []int{1, 1, 2, 2, 3, 8, 0})
		c.Slow = r.Chance(1, 4)
		for k := range set {
			delete(set, k)
		}
		if twinTitled {
			c.Titled = []int{twinX}
			c.Dst = common.Pick(r, []string{"file", "file", "oci", "mem"})
			c.Src = common.Pick(r, []string{"mem", "oci", "ocire"}) // (a file source would want the same title on its copy of X)
		} else {
			c.Dst = common.Pick(r, []string{"oci", "oci", "ocire", "mem", "remote", "file"})
		}
		if c.Dst == "remote" && c.Mode == "t" {
			c.Mode = "r"
		}
	case "extended":
		// ExtendedCopyGraph / ExtendedCopy from a graph source (memory, OCI layout), callbacks nil or
		// set.  The node is one with several roots above it (e.g. a subject with referrers, a shared
		// blob): the roots are copied concurrently and share ONE limiter, so the in-flight bound is
		// Concurrency for the whole call; small K and slow storage make a violation visible.
		c.Mode = common.Pick(r, []string{"x", "X"})
		c.Src = common.Pick(r, []string{"mem", "mem", "oci", "ocire"})
		c.Dst = common.Pick(r, []string{"mem", "mem", "oci", "file"})
		c.RefFetch, c.MapRoot, c.Platform, c.Mount = false, -1, "", false
		c.K = common.Pick(r, []int{1, 2, 2, 3, 0})
		c.Slow = r.Chance(2, 3)
		best, bestRoots := c.Root, -1
		for _, i := range nonforeign {
			k := 0
			for _, rt := range g.Roots() {
				if g.Reach(rt)[i] {
					k++
				}
			}
			if k > bestRoots || (k == bestRoots && r.Chance(1, 3)) {
				best, bestRoots = i, k
			}
		}
		if r.Chance(4, 5) {
			c.Root = best
		}
		set = g.RandomClosedSubset(r, common.Pick(r, []int{0, 0, 10}))
		if r.Chance(1, 4) { // a failing callback somewhere in the graphs that get copied
			var ids []int
			for _, rt := range g.Roots() {
				if g.Reach(rt)[c.Root] {
					for k := range g.Reach(rt) {
						ids = append(ids, k)
					}
				}
			}
			sort.Ints(ids)
			if len(ids) > 0 {
				c.FailNode = common.Pick(r, ids)
				if set[c.FailNode] {
					c.FailCb = "skip"
				} else {
					c.FailCb = common.Pick(r, []string{"pre", "post"})
				}
			}
		}
	case "rootpresent":
		// Copy whose root is already in the destination: {Tagger, ReferencePusher} x {OnCopySkipped nil, set}
		c.Mode = common.Pick(r, []string{"t", "r"})
		for k := range g.Reach(c.Root) {
			set[k] = true
		}
		if c.MapRoot >= 0 {
			for k := range g.Reach(c.MapRoot) {
				set[k] = true
			}
		}
		c.Platform = ""
	case "twin":
		// the twin (same bytes as a manifest, as application/octet-stream) is pre-populated,
		// the manifest itself is reachable from the root
		var twins []int
		for _, n := range g.Nodes {
			if n.TwinOf >= 0 {
				twins = append(twins, n.ID)
			}
		}
		t := common.Pick(r, twins)
		a := g.Nodes[t].TwinOf
		var anc []int
		for _, i := range nonforeign {
			if g.Reach(i)[a] && i != t {
				anc = append(anc, i)
			}
		}
		c.Root = common.Pick(r, anc)
		c.MapRoot, c.Platform = -1, ""
		set = g.RandomClosedSubset(r, common.Pick(r, []int{0, 0, 10}))
		if r.Chance(1, 4) { // a failing callback somewhere in the graphs that get copied
			var ids []int
			for _, rt := range g.Roots() {
				if g.Reach(rt)[c.Root] {
					for k := range g.Reach(rt) {
						ids = append(ids, k)
					}
				}
			}
			sort.Ints(ids)
			if len(ids) > 0 {
				c.FailNode = common.Pick(r, ids)
				if set[c.FailNode] {
					c.FailCb = "skip"
				} else {
					c.FailCb = common.Pick(r, []string{"pre", "post"})
				}
			}
		}
		set[t] = true
		// every twin blob of the graph is pre-populated (they are leaves, the set stays link-closed):
		// a twin that is only reachable would be pushed during the copy and trigger the same defect
		// by a race (manifest probed after its twin blob was pushed), outside the signature's mechanism
		for _, tw := range twins {
			set[tw] = true
		}
		c.Dst = common.Pick(r, []string{"mem", "oci", "oci", "ocire", "remote"})
	case "mount":
		// Mounter destination + MountFrom candidates.  A ReferencePusher root must be a manifest
		// (a blob root falling back inside Mount is outside the model: PreCopy answers SkipNode
		// there and the real Mount fails); a Tagger blob root that gets mounted is the known
		// finding "mounted-root-untagged".
		c.Mount = true
		c.MapRoot, c.Platform = -1, ""
		if r.Chance(1, 6) {
			// a blob root whose mount always succeeds, into a ReferencePusher (or Tagger) + Mounter: OnMounted
			// must tag it (fix 5ffcc20); nothing falls back, so the unmodelled failing path is not entered
			var bl []int
			for _, i := range nonforeign {
				if !g.Nodes[i].IsManifest() && len(g.Nodes[i].Bytes) > 0 && !set[i] {
					bl = append(bl, i)
				}
			}
			if len(bl) > 0 {
				c.Root = common.Pick(r, bl)
				c.Mode = common.Pick(r, []string{"r", "r", "t"})
				c.MountAlways = true
				c.RefFetch = false
				c.CbSet = "1111" + "1"
			}
		}
		if c.Mode == "r" && !g.Nodes[c.Root].IsManifest() && !c.MountAlways {
			if len(manifests) > 0 {
				c.Root = common.Pick(r, manifests)
			} else {
				c.Mode = "t"
			}
		}
		if r.Chance(1, 5) {
			reach := g.Reach(c.Root)
			var ids []int
			for k := range reach {
				if !set[k] && !g.Nodes[k].IsManifest() && !(k == c.Root && c.Mode != "g") {
					ids = append(ids, k)
				}
			}
			sort.Ints(ids)
			if len(ids) > 0 {
				c.FailNode = common.Pick(r, ids)
				c.FailCb = common.Pick(r, []string{"mountfrom", "mounted", "pre", "post"})
			}
		}
	case "remote":
		// remote.Repository over the in-process registry as source and/or destination.  Registries tag
		// manifests only: the (mapped) root is a manifest.
		if len(manifests) == 0 {
			c.Stream = "main"
			break
		}
		if !g.Nodes[c.Root].IsManifest() {
			c.Root = common.Pick(r, manifests)
		}
		if c.MapRoot >= 0 && !g.Nodes[c.MapRoot].IsManifest() {
			c.MapRoot = common.Pick(r, manifests)
		}
		if c.Platform != "" && c.MapRoot >= 0 {
			c.Platform = ""
		}
		if k := g.Nodes[c.Root].Kind; c.Platform != "" && k != dag.KIndex && k != dag.KDockerL {
			c.Platform = ""
		}
		switch r.Intn(3) {
		case 0:
			c.Src = "remote"
		case 1:
			c.Dst = "remote"
		default:
			c.Src, c.Dst = "remote", "remote"
		}
		c.SrcRef = common.Pick(r, []string{"v1", "latest"})
		if remoteMount {
			c.Dst = "remote"
			c.Mount = true
			c.MapRoot, c.Platform = -1, ""
		}
	case "schedenum":
		// schedule enumeration: tiny graph, memory stores, few scheduling points
		c.Sched, c.Enum = true, true
		c.K = common.Pick(r, []int{1, 2, 2, 3})
		c.Src, c.Dst = "mem", "mem"
		c.MapRoot, c.Platform, c.Mount, c.RefFetch = -1, "", false, false
		c.CbSet = common.Pick(r, []string{"00000", "00000", "01100"})
		c.Root = bigRoot()
	case "sched":
		// controlled schedules (testing/synctest): contention matters, so small K
		c.Sched = true
		if r.Chance(1, 4) {
			c.CancelAt = 1 + r.Intn(6*len(g.Nodes)+4) // cancellation at a scheduler-chosen point
		}
		c.K = common.Pick(r, []int{1, 2, 2, 3, 3, 0})
		c.Src = common.Pick(r, []string{"mem", "mem", "oci"})
		c.Dst = common.Pick(r, []string{"mem", "mem", "oci"})
		if r.Chance(1, 4) {
			c.Mount = true
			c.MapRoot, c.Platform = -1, ""
			if !g.Nodes[c.Root].IsManifest() {
				if len(manifests) > 0 {
					c.Root = common.Pick(r, manifests)
				} else {
					c.Mount = false
				}
			}
		}
	case "cbfail":
		c.MapRoot, c.Platform = -1, ""
		reach := g.Reach(c.Root)
		var ids []int
		for k := range reach {
			ids = append(ids, k)
		}
		sort.Ints(ids)
		c.FailNode = common.Pick(r, ids)
		if set[c.FailNode] {
			c.FailCb = "skip"
		} else {
			c.FailCb = common.Pick(r, []string{"pre", "post"})
		}
		// C04's abort clause: half of the cases fail a node that >= 2 predecessors inside the copied graph share,
		// mostly with slow storage and K >= 2, so that one predecessor still waits for it when the callback fails
		if r.Chance(1, 2) {
			var shared []int
			for _, k := range ids {
				np := 0
				for _, p := range ids {
					if inSet(g.Nodes[p].Succ, k) {
						np++
					}
				}
				if np >= 2 && !g.Nodes[k].Foreign() {
					shared = append(shared, k)
				}
			}
			if len(shared) > 0 {
				c.FailNode = common.Pick(r, shared)
				c.FailCb = "skip"
				if !set[c.FailNode] {
					c.FailCb = common.Pick(r, []string{"pre", "post"})
				}
				c.Slow = r.Chance(2, 3)
				if c.K == 1 {
					c.K = 2
				}
			}
		}
	}
	// the destination reference may exist already, pointing at some other pre-populated content
	if (c.Mode == "t" || c.Mode == "r" || c.Mode == "X") && c.Dst != "remote" && len(set) > 0 && r.Chance(1, 3) {
		var ids []int
		for k := range set {
			if c.Dst != "oci" && c.Dst != "ocire" || true {
				ids = append(ids, k)
			}
		}
		sort.Ints(ids)
		c.PreTag = common.Pick(r, ids)
	}
	if c.FailCb != "" && !c.CbIsSet(c.FailCb) { // an injected failure needs its callback
		bits := []byte(c.cbBits())
		bits[map[string]int{"pre": 0, "post": 1, "skip": 2, "mounted": 3, "mountfrom": 4}[c.FailCb]] = '1'
		c.CbSet = string(bits)
	}
	if c.Mount && !c.CbIsSet("mountfrom") && r.Chance(3, 4) { // a Mounter is pointless without MountFrom: mostly set it
		bits := []byte(c.cbBits())
		bits[4] = '1'
		c.CbSet = string(bits)
	}
	for k := range set {
		c.D0 = append(c.D0, k)
	}
	sort.Ints(c.D0)
	// (last draw, so that the other choices of a generator seed stay what they were) CopyGraph with a limiter the
	// harness can read: permits taken vs operations in flight at every event, all permits free after the return
	if c.Mode == "g" && r.Chance(1, 2) {
		c.OwnLim = true
	}
	if stream == "contention" && wideRoot >= 0 && c.K != 1 && r.Chance(1, 2) {
		// the 8..14 manifests of the wide fan share one config blob: released together from FindSuccessors, up to K of
		// them claim it (status.Tracker.TryCommit) at the same instant -- the claim must have exactly one winner
		c.Barrier, c.FindSucc = true, true
	}
	if stream == "cbfail" && !c.Slow && c.Mode == "g" && r.Chance(2, 3) {
		// single-P schedule, (almost) no yields, limiter observed: a goroutine spawned by eg.Go starts only when
		// its spawner blocks, so a failing PreCopy cancels the group while siblings are spawned but not started
		c.OneP, c.Fast, c.OwnLim = true, true, true
		c.Src, c.Dst = "mem", "mem" // (file I/O would hand the P over at every system call)
		if c.K == 1 {
			c.K = 3
		}
		c.Root = bigRoot()
		inD0 := map[int]bool{}
		for _, k := range c.D0 {
			inD0[k] = true
		}
		var cands []int
		for k := range g.Reach(c.Root) {
			kids := map[int]bool{}
			for _, x := range g.Nodes[k].Succ {
				if !g.Nodes[x].Foreign() && !inD0[x] {
					kids[x] = true
				}
			}
			if len(kids) >= 2 && !inD0[k] {
				for x := range kids {
					cands = append(cands, x)
				}
			}
		}
		sort.Ints(cands)
		if len(cands) > 0 {
			c.FailNode, c.FailCb = common.Pick(r, cands), "pre"
			if !c.CbIsSet("pre") {
				bits := []byte(c.cbBits())
				bits[0] = '1'
				c.CbSet = string(bits)
			}
		}
	}
	return c
}

// addBlobTwin appends a blob with the bytes of an existing blob under another
// (non-manifest) media type, one or two image manifests that use it as a layer
// and sometimes an index over them: "same bytes under two media types" inside
// the mt_consistent region (both descriptors are leaves).
func addBlobTwin(r *common.Rand, g *dag.Graph) {
	var blobs, manifests []int
	for _, n := range g.Nodes {
		if (n.Kind == dag.KBlob || n.Kind == dag.KConfig) && len(n.Bytes) > 0 {
			blobs = append(blobs, n.ID)
		}
		if n.IsManifest() {
			manifests = append(manifests, n.ID)
		}
	}
	if len(blobs) == 0 {
		return
	}
	b := g.Nodes[common.Pick(r, blobs)]
	mt := "application/vnd.verif.alt.layer"
	if b.Desc.MediaType == mt {
		return
	}
	desc := func(mt string, bs []byte) ocispec.Descriptor {
		return ocispec.Descriptor{MediaType: mt, Digest: digest.FromBytes(bs), Size: int64(len(bs))}
	}
	t := &dag.Node{ID: len(g.Nodes), Kind: dag.KBlob, Bytes: b.Bytes, Desc: desc(mt, b.Bytes), Subject: -1, TwinOf: -1}
	g.Nodes = append(g.Nodes, t)
	var added []int
	for k := 0; k < 1+r.Intn(2); k++ {
		cfg := g.Nodes[common.Pick(r, blobs)]
		m := ocispec.Manifest{MediaType: ocispec.MediaTypeImageManifest, Config: cfg.Desc}
		m.SchemaVersion = 2
		nd := &dag.Node{ID: len(g.Nodes), Kind: dag.KImage, Subject: -1, TwinOf: -1, Succ: []int{cfg.ID}}
		layers := []int{t.ID}
		if r.Bool() {
			layers = append(layers, b.ID) // both media types in one manifest
		}
		if r.Bool() {
			layers = append([]int{common.Pick(r, blobs)}, layers...)
		}
		for _, l := range layers {
			m.Layers = append(m.Layers, g.Nodes[l].Desc)
			nd.Succ = append(nd.Succ, l)
		}
		m.Annotations = map[string]string{"verif.twin": fmt.Sprint(k, r.U64())}
		nd.Annotations = m.Annotations
		bs, _ := json.Marshal(m)
		nd.Bytes, nd.Desc = bs, desc(m.MediaType, bs)
		g.Nodes = append(g.Nodes, nd)
		added = append(added, nd.ID)
	}
	if r.Bool() {
		ix := ocispec.Index{MediaType: ocispec.MediaTypeImageIndex}
		ix.SchemaVersion = 2
		nd := &dag.Node{ID: len(g.Nodes), Kind: dag.KIndex, Subject: -1, TwinOf: -1}
		members := append([]int(nil), added...)
		if len(manifests) > 0 {
			members = append(members, common.Pick(r, manifests))
		}
		for _, mm := range members {
			ix.Manifests = append(ix.Manifests, g.Nodes[mm].Desc)
			nd.Succ = append(nd.Succ, mm)
		}
		bs, _ := json.Marshal(ix)
		nd.Bytes, nd.Desc = bs, desc(ix.MediaType, bs)
		g.Nodes = append(g.Nodes, nd)
	}
}

// addClaimFan appends an index over three image manifests that share one config blob and one layer; every manifest
// lists the layer 6-8 times.  Returns the index.
func addClaimFan(r *common.Rand, g *dag.Graph) int {
	desc := func(mt string, bs []byte) ocispec.Descriptor {
		return ocispec.Descriptor{MediaType: mt, Digest: digest.FromBytes(bs), Size: int64(len(bs))}
	}
	cb := []byte(fmt.Sprintf("claim-config-%x", r.U64()))
	cfg := &dag.Node{ID: len(g.Nodes), Kind: dag.KConfig, Bytes: cb, Desc: desc(ocispec.MediaTypeImageConfig, cb), Subject: -1, TwinOf: -1}
	g.Nodes = append(g.Nodes, cfg)
	lb := []byte(fmt.Sprintf("claim-layer-%x", r.U64()))
	l := &dag.Node{ID: len(g.Nodes), Kind: dag.KBlob, Bytes: lb, Desc: desc(ocispec.MediaTypeImageLayer, lb), Subject: -1, TwinOf: -1}
	g.Nodes = append(g.Nodes, l)
	ix := ocispec.Index{MediaType: ocispec.MediaTypeImageIndex}
	ix.SchemaVersion = 2
	var members []int
	for i := 0; i < 3; i++ {
		m := ocispec.Manifest{MediaType: ocispec.MediaTypeImageManifest, Config: cfg.Desc,
			Annotations: map[string]string{"verif.claim": fmt.Sprint(i)}}
		succ := []int{cfg.ID}
		for k, n := 0, 6+r.Intn(3); k < n; k++ {
			m.Layers = append(m.Layers, l.Desc)
			succ = append(succ, l.ID)
		}
		m.SchemaVersion = 2
		bs, _ := json.Marshal(m)
		im := &dag.Node{ID: len(g.Nodes), Kind: dag.KImage, Subject: -1, TwinOf: -1, Succ: succ, Bytes: bs, Desc: desc(m.MediaType, bs)}
		g.Nodes = append(g.Nodes, im)
		members = append(members, im.ID)
		ix.Manifests = append(ix.Manifests, im.Desc)
	}
	bs, _ := json.Marshal(ix)
	rt := &dag.Node{ID: len(g.Nodes), Kind: dag.KIndex, Subject: -1, TwinOf: -1, Succ: members, Bytes: bs, Desc: desc(ix.MediaType, bs)}
	g.Nodes = append(g.Nodes, rt)
	return rt.ID
}

// addLayerZoo appends an image manifest whose layer list mixes every layer media type the code
// distinguishes: two or three non-distributable (foreign) layers of different types with distributable
// layers (tar, tar+gzip, tar+zstd, docker) between and after them, in a PRNG order that always has a
// distributable layer after the second foreign one.  Returns the manifest.
func addLayerZoo(r *common.Rand, g *dag.Graph) int {
	desc := func(mt string, bs []byte) ocispec.Descriptor {
		return ocispec.Descriptor{MediaType: mt, Digest: digest.FromBytes(bs), Size: int64(len(bs))}
	}
	add := func(kind, mt, tag string) *dag.Node {
		bs := []byte(fmt.Sprintf("zoo-%s-%d-%x", tag, len(g.Nodes), r.U64()))
		n := &dag.Node{ID: len(g.Nodes), Kind: kind, Bytes: bs, Desc: desc(mt, bs), Subject: -1, TwinOf: -1}
		g.Nodes = append(g.Nodes, n)
		return n
	}
	cfg := add(dag.KConfig, ocispec.MediaTypeImageConfig, "cfg")
	foreignTypes := []string{ocispec.MediaTypeImageLayerNonDistributable, ocispec.MediaTypeImageLayerNonDistributableGzip,
		ocispec.MediaTypeImageLayerNonDistributableZstd, dag.MTDockerForeignLayer}
	plainTypes := []string{ocispec.MediaTypeImageLayer, ocispec.MediaTypeImageLayerGzip, ocispec.MediaTypeImageLayerZstd, dag.MTDockerLayer}
	common.Shuffle(r, foreignTypes)
	common.Shuffle(r, plainTypes)
	var layers []*dag.Node
	f1, f2 := add(dag.KForeign, foreignTypes[0], "f1"), add(dag.KForeign, foreignTypes[1], "f2")
	a, b := add(dag.KBlob, plainTypes[0], "a"), add(dag.KBlob, plainTypes[1], "b")
	layers = []*dag.Node{f1, a, f2, b}
	if r.Bool() {
		layers = []*dag.Node{a, f1, f2, b}
	}
	if r.Bool() {
		layers = append(layers, add(dag.KForeign, foreignTypes[2], "f3"), add(dag.KBlob, plainTypes[2], "c"))
	}
	if r.Bool() {
		layers = append(layers, add(dag.KBlob, plainTypes[3], "d"))
	}
	m := ocispec.Manifest{MediaType: ocispec.MediaTypeImageManifest, Config: cfg.Desc}
	m.SchemaVersion = 2
	im := &dag.Node{ID: len(g.Nodes), Kind: dag.KImage, Subject: -1, TwinOf: -1, Succ: []int{cfg.ID}}
	for _, l := range layers {
		m.Layers = append(m.Layers, l.Desc)
		im.Succ = append(im.Succ, l.ID)
	}
	bs, _ := json.Marshal(m)
	im.Bytes, im.Desc = bs, desc(m.MediaType, bs)
	g.Nodes = append(g.Nodes, im)
	return im.ID
}

// addWideFan appends 8..14 image manifests, each over its own fresh layer blob and a shared config, and an
// index over all of them; returns the index.
func addWideFan(r *common.Rand, g *dag.Graph) int {
	desc := func(mt string, bs []byte) ocispec.Descriptor {
		return ocispec.Descriptor{MediaType: mt, Digest: digest.FromBytes(bs), Size: int64(len(bs))}
	}
	cb := []byte(fmt.Sprintf("wide-config-%x", r.U64()))
	cfg := &dag.Node{ID: len(g.Nodes), Kind: dag.KConfig, Bytes: cb, Desc: desc(ocispec.MediaTypeImageConfig, cb), Subject: -1, TwinOf: -1}
	g.Nodes = append(g.Nodes, cfg)
	ix := ocispec.Index{MediaType: ocispec.MediaTypeImageIndex}
	ix.SchemaVersion = 2
	var members []int
	for i, w := 0, 8+r.Intn(7); i < w; i++ {
		lb := []byte(fmt.Sprintf("wide-layer-%d-%x", i, r.U64()))
		l := &dag.Node{ID: len(g.Nodes), Kind: dag.KBlob, Bytes: lb, Desc: desc(ocispec.MediaTypeImageLayer, lb), Subject: -1, TwinOf: -1}
		g.Nodes = append(g.Nodes, l)
		m := ocispec.Manifest{MediaType: ocispec.MediaTypeImageManifest, Config: cfg.Desc, Layers: []ocispec.Descriptor{l.Desc}}
		succ := []int{cfg.ID, l.ID}
		if i%2 == 1 {
			// the same layer listed 3-5 times: syncutil.Go spawns that many goroutines for ONE descriptor back to back,
			// all of which claim it (status.Tracker.TryCommit) within nanoseconds -- exactly one may win
			for k, dup := 0, 2+int(lb[len(lb)-1])%3; k < dup; k++ {
				m.Layers = append(m.Layers, l.Desc)
				succ = append(succ, l.ID)
			}
		}
		m.SchemaVersion = 2
		bs, _ := json.Marshal(m)
		im := &dag.Node{ID: len(g.Nodes), Kind: dag.KImage, Subject: -1, TwinOf: -1, Succ: succ, Bytes: bs, Desc: desc(m.MediaType, bs)}
		g.Nodes = append(g.Nodes, im)
		members = append(members, im.ID)
		ix.Manifests = append(ix.Manifests, im.Desc)
	}
	bs, _ := json.Marshal(ix)
	rt := &dag.Node{ID: len(g.Nodes), Kind: dag.KIndex, Subject: -1, TwinOf: -1, Succ: members, Bytes: bs, Desc: desc(ix.MediaType, bs)}
	g.Nodes = append(g.Nodes, rt)
	return rt.ID
}

// addPlatformImage appends a config blob that is a valid image config (architecture / os), mostly of the
// image-config media type, and an image manifest over it; returns the manifest.
func addPlatformImage(r *common.Rand, g *dag.Graph) int {
	desc := func(mt string, bs []byte) ocispec.Descriptor {
		return ocispec.Descriptor{MediaType: mt, Digest: digest.FromBytes(bs), Size: int64(len(bs))}
	}
	var blobs []int
	for _, n := range g.Nodes {
		if !n.IsManifest() && !n.Foreign() && len(n.Bytes) > 0 {
			blobs = append(blobs, n.ID)
		}
	}
	cb := []byte(fmt.Sprintf(`{"architecture":%q,"os":"linux","verif":"%d-%x"}`, common.Pick(r, arches), len(g.Nodes), r.U64()))
	mt := ocispec.MediaTypeImageConfig
	if r.Chance(1, 6) {
		mt = "application/vnd.verif.config.v1+json" // SelectManifest refuses: ErrUnsupported
	}
	cfg := &dag.Node{ID: len(g.Nodes), Kind: dag.KConfig, Bytes: cb, Desc: desc(mt, cb), Subject: -1, TwinOf: -1}
	g.Nodes = append(g.Nodes, cfg)
	m := ocispec.Manifest{MediaType: ocispec.MediaTypeImageManifest, Config: cfg.Desc, Layers: []ocispec.Descriptor{}}
	m.SchemaVersion = 2
	im := &dag.Node{ID: len(g.Nodes), Kind: dag.KImage, Subject: -1, TwinOf: -1, Succ: []int{cfg.ID}}
	for i := 0; i < r.Intn(3) && len(blobs) > 0; i++ {
		l := g.Nodes[common.Pick(r, blobs)]
		m.Layers = append(m.Layers, l.Desc)
		im.Succ = append(im.Succ, l.ID)
	}
	bs, _ := json.Marshal(m)
	im.Bytes, im.Desc = bs, desc(m.MediaType, bs)
	g.Nodes = append(g.Nodes, im)
	return im.ID
}

// addManifestTwin appends X = the bytes of an existing manifest M (one with a non-foreign successor)
// as application/octet-stream, an image manifest A with X as a layer (its descriptor titled when
// titled is set) and an index R over A and M in either order.  Returns (R, X), or (-1, -1) when the
// graph has no suitable manifest.
func addManifestTwin(r *common.Rand, g *dag.Graph, titled bool) (int, int) {
	var cands, blobs []int
	for _, n := range g.Nodes {
		if n.IsManifest() {
			for _, s := range n.Succ {
				if !g.Nodes[s].Foreign() {
					cands = append(cands, n.ID)
					break
				}
			}
		} else if !n.Foreign() && len(n.Bytes) > 0 {
			blobs = append(blobs, n.ID)
		}
	}
	if len(cands) == 0 || len(blobs) == 0 {
		return -1, -1
	}
	desc := func(mt string, bs []byte) ocispec.Descriptor {
		return ocispec.Descriptor{MediaType: mt, Digest: digest.FromBytes(bs), Size: int64(len(bs))}
	}
	m := g.Nodes[common.Pick(r, cands)]
	x := &dag.Node{ID: len(g.Nodes), Kind: dag.KBlob, Bytes: m.Bytes, Desc: desc("application/octet-stream", m.Bytes), Subject: -1, TwinOf: m.ID}
	g.Nodes = append(g.Nodes, x)
	cfg := g.Nodes[common.Pick(r, blobs)]
	am := ocispec.Manifest{MediaType: ocispec.MediaTypeImageManifest, Config: cfg.Desc}
	am.SchemaVersion = 2
	xd := x.Desc
	if titled {
		xd.Annotations = map[string]string{ocispec.AnnotationTitle: fmt.Sprintf("x-%d.bin", x.ID)}
	}
	a := &dag.Node{ID: len(g.Nodes), Kind: dag.KImage, Subject: -1, TwinOf: -1, Succ: []int{cfg.ID, x.ID}}
	am.Layers = []ocispec.Descriptor{xd}
	if r.Bool() {
		l := g.Nodes[common.Pick(r, blobs)]
		am.Layers = append(am.Layers, l.Desc)
		a.Succ = append(a.Succ, l.ID)
	}
	am.Annotations = map[string]string{"verif.twinreach": fmt.Sprint(r.U64())}
	a.Annotations = am.Annotations
	bs, _ := json.Marshal(am)
	a.Bytes, a.Desc = bs, desc(am.MediaType, bs)
	g.Nodes = append(g.Nodes, a)
	ix := ocispec.Index{MediaType: ocispec.MediaTypeImageIndex}
	ix.SchemaVersion = 2
	// M is wrapped in 0..2 further indexes: the deeper it sits, the later it is probed, so both orders
	// (M probed before / after X was pushed) occur
	top := m.ID
	for d := r.Intn(3); d > 0; d-- {
		wx := ocispec.Index{MediaType: ocispec.MediaTypeImageIndex, Manifests: []ocispec.Descriptor{g.Nodes[top].Desc}}
		wx.SchemaVersion = 2
		wx.Annotations = map[string]string{"verif.wrap": fmt.Sprint(d, r.U64())}
		w := &dag.Node{ID: len(g.Nodes), Kind: dag.KIndex, Subject: -1, TwinOf: -1, Succ: []int{top}, Annotations: wx.Annotations}
		wb, _ := json.Marshal(wx)
		w.Bytes, w.Desc = wb, desc(wx.MediaType, wb)
		g.Nodes = append(g.Nodes, w)
		top = w.ID
	}
	members := []int{a.ID, top}
	if r.Bool() {
		members = []int{top, a.ID}
	}
	rt := &dag.Node{ID: len(g.Nodes), Kind: dag.KIndex, Subject: -1, TwinOf: -1}
	for _, mm := range members {
		ix.Manifests = append(ix.Manifests, g.Nodes[mm].Desc)
		rt.Succ = append(rt.Succ, mm)
	}
	bs, _ = json.Marshal(ix)
	rt.Bytes, rt.Desc = bs, desc(ix.MediaType, bs)
	g.Nodes = append(g.Nodes, rt)
	return rt.ID, x.ID
}

// FromReplay rebuilds the cases of a replay file: either {"case": <Case JSON>} or
// {"stream": s, "genseed": n} (a regenerable case from a correspondence mismatch).
func FromReplay(path string, thorough bool) []*Case {
	var out []*Case
	for _, m := range common.ReadReplay(path) {
		if js, ok := m["case"]; ok {
			var c Case
			if err := json.Unmarshal([]byte(js), &c); err != nil {
				panic(fmt.Errorf("replay case: %w", err))
			}
			out = append(out, &c)
			continue
		}
		if s, ok := m["stream"]; ok {
			gs, err := strconv.ParseUint(strings.TrimSpace(m["genseed"]), 10, 64)
			if err != nil {
				panic(err)
			}
			th := thorough
			if t, ok := m["thorough"]; ok {
				th = t == "1" || t == "true"
			}
			out = append(out, Generate(gs, s, th))
		}
	}
	return out
}
