package copyh

import (
	"encoding/json"
	"fmt"
	"sync"

	"github.com/opencontainers/go-digest"
	ocispec "github.com/opencontainers/image-spec/specs-go/v1"
	"verifharness/dag"
)

// Small-scope enumeration (thorough tier): every DAG of up to 4 nodes built from blobs, image manifests
// (config + up to two layers, one layer possibly listed twice), indexes (one or
// two members) and artifact manifests (optional subject, at most one blob);
// crossed by the caller with every root and every successor-closed initial
// destination.

func smallDesc(mt string, bs []byte) ocispec.Descriptor {
	return ocispec.Descriptor{MediaType: mt, Digest: digest.FromBytes(bs), Size: int64(len(bs))}
}

func subsetsUpTo(xs []int, k int) [][]int {
	out := [][]int{{}}
	for i, x := range xs {
		out = append(out, []int{x})
		if k >= 2 {
			for _, y := range xs[i+1:] {
				out = append(out, []int{x, y})
			}
		}
	}
	return out
}

type smallArtifact struct {
	MediaType    string               `json:"mediaType"`
	ArtifactType string               `json:"artifactType"`
	Blobs        []ocispec.Descriptor `json:"blobs,omitempty"`
	Subject      *ocispec.Descriptor  `json:"subject,omitempty"`
}

func smallOptions(g *dag.Graph) []*dag.Node {
	id := len(g.Nodes)
	var blobs, manifests, all []int
	for _, n := range g.Nodes {
		all = append(all, n.ID)
		if n.IsManifest() {
			manifests = append(manifests, n.ID)
		} else {
			blobs = append(blobs, n.ID)
		}
	}
	var out []*dag.Node
	bb := []byte(fmt.Sprintf("small-blob-%d", id))
	out = append(out, &dag.Node{ID: id, Kind: dag.KBlob, Bytes: bb, Desc: smallDesc(ocispec.MediaTypeImageLayer, bb), Subject: -1, TwinOf: -1})
	for _, cfg := range blobs {
		var layerSets [][]int
		for _, ls := range subsetsUpTo(blobs, 2) {
			layerSets = append(layerSets, ls)
			if len(ls) == 1 {
				layerSets = append(layerSets, []int{ls[0], ls[0]})
			}
		}
		for _, ls := range layerSets {
			m := ocispec.Manifest{MediaType: ocispec.MediaTypeImageManifest, Config: g.Nodes[cfg].Desc, Layers: []ocispec.Descriptor{}}
			m.SchemaVersion = 2
			m.Annotations = map[string]string{"verif.small": fmt.Sprint(id)} // distinct bytes per position
			nd := &dag.Node{ID: id, Kind: dag.KImage, Subject: -1, TwinOf: -1, Succ: []int{cfg}, Annotations: m.Annotations}
			for _, l := range ls {
				m.Layers = append(m.Layers, g.Nodes[l].Desc)
				nd.Succ = append(nd.Succ, l)
			}
			bs, _ := json.Marshal(m)
			nd.Bytes, nd.Desc = bs, smallDesc(m.MediaType, bs)
			out = append(out, nd)
		}
	}
	for _, ms := range subsetsUpTo(manifests, 2) {
		if len(ms) == 0 {
			continue
		}
		ix := ocispec.Index{MediaType: ocispec.MediaTypeImageIndex, Manifests: []ocispec.Descriptor{}}
		ix.SchemaVersion = 2
		ix.Annotations = map[string]string{"verif.small": fmt.Sprint(id)}
		nd := &dag.Node{ID: id, Kind: dag.KIndex, Subject: -1, TwinOf: -1}
		for _, m := range ms {
			ix.Manifests = append(ix.Manifests, g.Nodes[m].Desc)
			nd.Succ = append(nd.Succ, m)
		}
		bs, _ := json.Marshal(ix)
		nd.Bytes, nd.Desc = bs, smallDesc(ix.MediaType, bs)
		out = append(out, nd)
	}
	for _, subj := range append([]int{-1}, all...) {
		for _, bl := range subsetsUpTo(blobs, 1) {
			a := smallArtifact{MediaType: dag.MTArtifactManifest, ArtifactType: fmt.Sprintf("application/vnd.verif.small.%d", id)}
			nd := &dag.Node{ID: id, Kind: dag.KArtifact, Subject: subj, TwinOf: -1, ArtifactType: a.ArtifactType}
			if subj >= 0 {
				d := g.Nodes[subj].Desc
				a.Subject = &d
				nd.Succ = append(nd.Succ, subj)
			}
			for _, b := range bl {
				a.Blobs = append(a.Blobs, g.Nodes[b].Desc)
				nd.Succ = append(nd.Succ, b)
			}
			bs, _ := json.Marshal(a)
			nd.Bytes, nd.Desc = bs, smallDesc(a.MediaType, bs)
			out = append(out, nd)
		}
	}
	return out
}

var (
	smallOnce sync.Once
	smallAll  []*dag.Graph
)

// SmallGraphs returns the enumeration (computed once).
func SmallGraphs() []*dag.Graph {
	smallOnce.Do(func() {
		var rec func(g *dag.Graph, depth int)
		count4 := 0
		rec = func(g *dag.Graph, depth int) {
			if len(g.Nodes) > 0 {
				if len(g.Nodes) == 4 {
					count4++
				}
				smallAll = append(smallAll, g) // every graph of up to 4 nodes
			}
			if depth == 4 {
				return
			}
			for _, nd := range smallOptions(g) {
				g2 := &dag.Graph{Nodes: append(append([]*dag.Node(nil), g.Nodes...), nd)}
				rec(g2, depth+1)
			}
		}
		rec(&dag.Graph{}, 0)
	})
	return smallAll
}

// SmallCases enumerates (graph, root, closed initial destination, destination kind)
// as generator seeds of the stream "small".
func SmallCases() []uint64 {
	var out []uint64
	for gi, g := range SmallGraphs() {
		n := len(g.Nodes)
		for root := 0; root < n; root++ {
			for mask := 0; mask < 1<<n; mask++ {
				set := map[int]bool{}
				for i := 0; i < n; i++ {
					if mask&(1<<i) != 0 {
						set[i] = true
					}
				}
				if !g.Closed(set) {
					continue
				}
				for dst := 0; dst < 2; dst++ {
					if dst == 1 && n == 4 {
						continue // the 4-node graphs: memory destination only (volume); OCI layout up to 3 nodes
					}
					out = append(out, ((uint64(gi)*8+uint64(root))*64+uint64(mask))*2+uint64(dst))
				}
			}
		}
	}
	return out
}

func smallCase(code uint64) *Case {
	dst := int(code % 2)
	code /= 2
	mask := int(code % 64)
	code /= 64
	root := int(code % 8)
	gi := int(code / 8)
	g := SmallGraphs()[gi]
	c := &Case{Stream: "small", Graph: g.Encode(), Root: root, MapRoot: -1, FailNode: -1, PreTag: -1,
		K: 1 + (gi+root+mask)%3, Mode: []string{"g", "t", "r"}[(gi+mask)%3], Src: "mem", Dst: []string{"mem", "oci"}[dst],
		SrcRef: "v1", RefFetch: (gi+root)%2 == 0, Seed: uint64(gi)*7919 + uint64(mask), Fast: true,
		CbSet: []string{"11111", "00000", "10100", "01011"}[(gi+root+mask)%4]}
	if mask%2 == 0 {
		c.DstRef = "copy"
	}
	for i := range g.Nodes {
		if mask&(1<<i) != 0 {
			c.D0 = append(c.D0, i)
		}
	}
	return c
}
