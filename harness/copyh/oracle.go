package copyh

import (
	"crypto/sha256"
	"encoding/binary"
	"encoding/json"
	"errors"
	"os"
	"fmt"
	"sort"
	"strconv"
	"strings"

	"verifharness/common"
	"verifharness/dag"
)

type replayDoc struct {
	Case *Case  `json:"case"`
	Note string `json:"note,omitempty"`
}

// keySim is the oracle's own simulation of what a digest-keyed destination ends
// up holding when a copy skips every node whose digest is already present: used
// only to recognise the mechanism of the known finding (F12) precisely.
func keySim(g *dag.Graph, d0 []int, root int) map[string]bool {
	have := map[string]bool{}
	for _, i := range d0 {
		have[g.Nodes[i].Desc.Digest.String()] = true
	}
	var visit func(i int)
	visit = func(i int) {
		n := g.Nodes[i]
		if have[n.Desc.Digest.String()] {
			return
		}
		for _, s := range n.Succ {
			if !g.Nodes[s].Foreign() {
				visit(s)
			}
		}
		have[n.Desc.Digest.String()] = true
	}
	visit(root)
	return have
}

func inSet(xs []int, x int) bool {
	for _, y := range xs {
		if x == y {
			return true
		}
	}
	return false
}

// OracleC01 evaluates C01's statement on one run.  Ground truth: the generator's
// edge list, bytes and expected (mapped) root.  Returns the number of failures.
func OracleC01(run *common.Run, id string, res *Result) int {
	c, g := res.Case, res.G
	rp := replayDoc{Case: c}
	fails := 0
	fail := func(sig, msg string) {
		fails++
		run.OracleFail(id, sig, msg, rp)
	}
	if res.Hang {
		fail("hang", "Copy did not return within 20s (re-confirmed on a fresh run)")
		return fails
	}
	if res.Err != nil {
		return 0 // C01 speaks about successful returns only (an unexpected error breaks the correspondence)
	}
	if res.Root2 < 0 {
		fail("returned-root", "Copy succeeded although MapRoot/platform selection has no valid result")
		return fails
	}
	reach := g.Reach(res.Root2)
	if c.Mode == "x" || c.Mode == "X" {
		// ExtendedCopy: the graphs of all roots above the node (ancestors without predecessors)
		reach = map[int]bool{}
		for _, n := range g.Nodes {
			if !n.Foreign() && len(g.Preds(n.ID)) == 0 && g.Reach(n.ID)[res.Root2] {
				for k := range g.Reach(n.ID) {
					reach[k] = true
				}
			}
		}
	}
	var missing, bad []int
	for i := range reach {
		if !res.Present[i] {
			missing = append(missing, i)
		} else if !res.BytesOK[i] {
			bad = append(bad, i)
		}
	}
	sort.Ints(missing)
	sort.Ints(bad)
	if len(missing) > 0 {
		sig := "closure-missing"
		if f12Explains(res, missing) {
			sig = "twin-digest-exists"
		}
		fail(sig, fmt.Sprintf("copy %s->%s mode=%s root=%d returned nil but reachable nodes %v are not in the destination (d0=%v graph=%v)",
			c.Src, c.Dst, c.Mode, res.Root2, missing, c.D0, g.Describe()))
	}
	if len(res.ServedBad) > 0 {
		fail("pushed-bytes-differ", fmt.Sprintf("the destination accepted bytes for nodes %v that are not the source's", res.ServedBad))
	}
	if len(bad) > 0 {
		fail("bytes-differ", fmt.Sprintf("nodes %v are present with different bytes", bad))
	}
	if c.Mode != "g" && c.Mode != "x" {
		want := g.Nodes[res.Root2].Desc
		got := res.Returned
		if got.MediaType != want.MediaType || got.Digest != want.Digest || got.Size != want.Size {
			fail("returned-root", fmt.Sprintf("Copy returned %s %s, expected node %d (%s %s)", got.MediaType, got.Digest, res.Root2, want.MediaType, want.Digest))
		}
		if res.ExtraTag && !(c.PreTag >= 0 && false) {
			fail("extra-tag", fmt.Sprintf("the source reference %q also resolves in the destination although the destination reference is %q", c.SrcRef, c.DstRef))
		}
		if res.TagNode != res.Root2 {
			sig := "tag-wrong"
			// known finding: a non-manifest root that was mounted (OnMounted is not wrapped by prepareCopy)
			if c.Mounting() && !g.Nodes[res.Root2].IsManifest() && res.TagNode == -1 {
				for _, t := range res.Toks {
					if t == fmt.Sprintf("ME.%d.m", res.Root2) {
						sig = "mounted-root-untagged"
					}
				}
			}
			fail(sig, fmt.Sprintf("destination reference %q resolves to node %d, Copy returned node %d (mode=%s dst=%s rootPresent=%v)",
				c.EffRef(), res.TagNode, res.Root2, c.Mode, c.Dst, inSet(c.D0, res.Root2)))
		}
	}
	return fails
}

// digestKeyedFor: does the destination answer Exists(any descriptor with t's digest) = true once
// node t is stored?  OCI layouts: always (blobs/<alg>/<hex>).  File store: when t was pushed with a
// title (digestToPath).  Memory store and registries (manifests and blobs apart): no.
func digestKeyedFor(c *Case, t int) bool {
	switch c.Dst {
	case "oci", "ocire":
		return true
	case "file":
		return inSet(c.Titled, t)
	}
	return false
}

// f12Explains recognises the mechanism of the known finding twin-digest-exists, and nothing else:
// dst.Exists(M) answered true for a manifest M that is not in the destination as such (neither
// pre-populated nor pushed before the answer) because content with the same digest under another
// media type is (pre-populated, or pushed earlier in this very call), so M's sub-DAG was skipped;
// and every missing node is owed to such a skip (it is not reachable from the root once the
// falsely-present manifests are cut off).
func f12Explains(res *Result, missing []int) bool {
	c, g := res.Case, res.G
	stored := map[int]int{}
	for i, s := range res.Toks {
		t := parseTok(s)
		if (t.op == "PE" && t.b == "k") || (t.op == "ME" && (t.a == "m" || t.a == "c")) {
			if _, ok := stored[t.n]; !ok {
				stored[t.n] = i
			}
		}
	}
	fs := map[int]bool{}
	for i, s := range res.Toks {
		t := parseTok(s)
		if t.op != "XE" || t.a != "1" || t.n < 0 || !g.Nodes[t.n].IsManifest() || inSet(c.D0, t.n) {
			continue
		}
		if at, ok := stored[t.n]; ok && at < i {
			continue
		}
		for _, w := range g.Nodes {
			if w.ID == t.n || w.Desc.Digest != g.Nodes[t.n].Desc.Digest || w.Desc.MediaType == g.Nodes[t.n].Desc.MediaType {
				continue
			}
			at, ok := stored[w.ID]
			if digestKeyedFor(c, w.ID) && (inSet(c.D0, w.ID) || (ok && at < i)) {
				fs[t.n] = true
			}
		}
	}
	if len(fs) == 0 {
		return false
	}
	owed := map[int]bool{}
	var visit func(i int)
	visit = func(i int) {
		if owed[i] || g.Nodes[i].Foreign() || fs[i] {
			return
		}
		owed[i] = true
		for _, s := range g.Nodes[i].Succ {
			visit(s)
		}
	}
	visit(res.Root2)
	for _, m := range missing {
		if owed[m] {
			return false
		}
	}
	return true
}

type tok struct {
	op   string
	kind string
	n    int
	a, b string
}

func parseTok(s string) tok {
	if s == "CX" { // the caller's context ended
		return tok{op: "CX", n: -1}
	}
	p := strings.Split(s, ".")
	t := tok{op: p[0], n: -1}
	switch p[0] {
	case "CB", "CF":
		t.kind = p[1]
		t.n, _ = strconv.Atoi(p[2])
	case "RT":
		t.a = p[1]
	default:
		t.n, _ = strconv.Atoi(p[1])
		if len(p) > 2 {
			t.a = p[2]
		}
		if len(p) > 3 {
			t.b = p[3]
		}
	}
	return t
}

// OracleC04 evaluates C04's statement on one run, from the wrappers' gauges and
// the recorded trace (independent of the Coq model).
func OracleC04(run *common.Run, id string, res *Result) int {
	c, g := res.Case, res.G
	rp := replayDoc{Case: c}
	fails := 0
	fail := func(sig, msg string) {
		fails++
		run.OracleFail(id, sig, msg, rp)
	}
	if res.Hang {
		fail("hang", "Copy did not return within 20s (re-confirmed on a fresh run)")
		return fails
	}
	if res.SrcMax > res.Keff {
		fail("inflight-src", fmt.Sprintf("%d source reads in flight, Concurrency=%d (effective %d)", res.SrcMax, c.K, res.Keff))
	}
	if res.DstMax > res.Keff {
		fail("inflight-dst", fmt.Sprintf("%d destination operations in flight, Concurrency=%d (effective %d)", res.DstMax, c.K, res.Keff))
	}
	if c.OwnLim {
		// the limiter itself (read through the verif hook): no operation without a permit, no permit lost
		if res.LimBad != "" {
			fail("op-without-permit", res.LimBad)
		}
		if res.LimFree != res.Keff {
			fail("permit-leak", fmt.Sprintf("%d of %d permits are free after the call returned", res.LimFree, res.Keff))
		}
	}
	N := len(g.Nodes)
	type pos []int
	cnt := map[string]pos{}
	add := func(k string, n, i int) {
		key := k + "." + strconv.Itoa(n)
		cnt[key] = append(cnt[key], i)
	}
	injected := false
	var failedNodes []int // nodes one of whose callbacks returned an error
	for i, s := range res.Toks {
		t := parseTok(s)
		if t.op != "RT" && t.op != "CX" && t.n < 0 {
			fail("unknown-descriptor", fmt.Sprintf("event %s on a descriptor that is not a node of the source graph (altered media type / size / digest?)", s))
		}
		switch t.op {
		case "SB", "PB":
			add(t.op, t.n, i)
		case "PE":
			add("PEany", t.n, i)
			if t.b == "k" {
				add("PEk", t.n, i)
			}
		case "XE":
			if t.a == "1" {
				add("XE1", t.n, i)
			} else {
				add("XE0", t.n, i)
			}
		case "MB":
			add("MB", t.n, i)
		case "ME":
			if t.a == "c" {
				add("PEk", t.n, i) // uploaded inside Mount: a transfer like a push
				add("PEany", t.n, i)
			}
			if t.a == "m" {
				add("MEm", t.n, i)
			}
		case "CB":
			add("CB"+t.kind, t.n, i)
		case "CF":
			injected = true
			failedNodes = append(failedNodes, t.n)
		}
	}
	at := func(k string, n int) pos { return cnt[k+"."+strconv.Itoa(n)] }
	proReads := map[int]int{}
	for _, n := range res.Pro {
		proReads[n]++
	}
	for n := 0; n < N; n++ {
		if tot := len(at("SB", n)) + proReads[n]; tot > 1 {
			sig := "double-fetch"
			// known finding prologue-read-twice: exactly one read in Copy's prologue and one in copyGraph, by one of
			// the two prologue mechanisms that do not feed the proxy cache: (a) WithTargetPlatform on an
			// image-manifest root (SelectManifest reads the manifest and its config with caching stopped),
			// (b) resolveRoot through a ReferenceFetcher for a root that is not a manifest (the opened reader is
			// closed unread, the cache push fails; copy.go carries a TODO)
			if len(at("SB", n)) == 1 && proReads[n] == 1 {
				root0 := c.Root
				if c.MapRoot >= 0 {
					root0 = c.MapRoot
				}
				rn := g.Nodes[root0]
				platOnImage := c.Platform != "" && (rn.Kind == dag.KImage || rn.Kind == dag.KDocker) &&
					(n == root0 || (len(rn.Succ) > 0 && (n == rn.Succ[0] || (rn.Subject >= 0 && len(rn.Succ) > 1 && n == rn.Succ[1]))))
				refBlobRoot := c.RefFetch && (c.Mode == "t" || c.Mode == "r") && n == c.Root && !g.Nodes[n].IsManifest() && len(g.Nodes[n].Bytes) > 0
				if platOnImage || refBlobRoot {
					sig = "prologue-read-twice"
				}
			}
			fail(sig, fmt.Sprintf("node %d (%s) read from the source %d times in one call (%d in the prologue, %d while copying)", n, g.Nodes[n].Kind, tot, proReads[n], len(at("SB", n))))
		}
		if len(at("PB", n)) > 1 {
			fail("double-push", fmt.Sprintf("node %d (%s) pushed %d times", n, g.Nodes[n].Kind, len(at("PB", n))))
		}
		pre, post, skip := at("CBpre", n), at("CBpost", n), at("CBskip", n)
		if len(pre) > 1 || len(post) > 1 || len(skip) > 1 {
			fail("callback-count", fmt.Sprintf("node %d: %d PreCopy, %d PostCopy, %d OnCopySkipped", n, len(pre), len(post), len(skip)))
			continue
		}
		if pk := at("PEk", n); len(pk) > 0 && res.Err == nil {
			pb := at("PB", n)
			if len(pb) == 0 {
				pb = pk // uploaded inside Mount: PreCopy is invoked by getContent, after Mount was called
			}
			wantPre, wantPost := b2i(c.CbIsSet("pre")), b2i(c.CbIsSet("post"))
			if len(pre) != wantPre || len(post) != wantPost {
				fail("callback-count", fmt.Sprintf("transferred node %d: %d PreCopy (want %d), %d PostCopy (want %d)", n, len(pre), wantPre, len(post), wantPost))
			} else if (wantPre == 1 && !(pre[0] < pb[0])) || (wantPost == 1 && !(pk[0] < post[0])) {
				fail("callback-order", fmt.Sprintf("node %d: PreCopy@%v Push@%d..%d PostCopy@%v", n, pre, pb[0], pk[0], post))
			}
			if len(skip) != 0 {
				fail("callback-count", fmt.Sprintf("node %d transferred and reported skipped", n))
			}
		}
		if mm := at("MEm", n); len(mm) > 0 {
			mo := at("CBmounted", n)
			if len(mm) > 1 || len(mo) > 1 || (res.Err == nil && len(mo) != b2i(c.CbIsSet("mounted"))) || len(pre) != 0 || len(post) != 0 {
				fail("callback-count", fmt.Sprintf("mounted node %d: %d mounts, %d OnMounted, %d PreCopy, %d PostCopy", n, len(mm), len(mo), len(pre), len(post)))
			} else if len(mo) == 1 && mo[0] < mm[0] {
				fail("callback-order", fmt.Sprintf("node %d: OnMounted before Mount returned", n))
			}
		}
		if len(post) == 1 {
			for _, s := range g.Nodes[n].Succ {
				if g.Nodes[s].Foreign() {
					continue
				}
				ok := false
				for _, k := range []string{"CBpost", "CBskip", "CBmounted"} {
					if p := at(k, s); len(p) > 0 && p[0] < post[0] {
						ok = true
					}
				}
				// a nil callback cannot notify: the store event that precedes it stands in
				for k, cbk := range map[string]string{"PEany": "post", "XE1": "skip", "MEm": "mounted"} {
					if p := at(k, s); !c.CbIsSet(cbk) && len(p) > 0 && p[0] < post[0] {
						ok = true
					}
				}
				if !ok {
					fail("callback-order", fmt.Sprintf("PostCopy of node %d before the terminal notification of its successor %d", n, s))
				}
			}
		}
	}
	// "an error returned by a callback aborts the copy": a node whose callback failed never completes, so no
	// predecessor of it may be copied -- at any time of the run (copyGraph.fn closes the tracker's done channel
	// only on success; a predecessor passes its successor wait only through closed channels).
	// Theorem C04_failed_successor_blocks_predecessors.
	for _, fn := range failedNodes {
		if fn < 0 || fn >= N || g.Nodes[fn].Foreign() {
			continue
		}
		for p := 0; p < N; p++ {
			isPred := false
			for _, s := range g.Nodes[p].Succ {
				if s == fn {
					isPred = true
				}
			}
			if !isPred {
				continue
			}
			var what []string
			for _, k := range []string{"CBpre", "CBpost", "CBmounted", "CBmountfrom", "MB"} {
				if len(at(k, p)) > 0 {
					what = append(what, k)
				}
			}
			if len(at("XE0", p)) > 0 && len(at("PB", p)) > 0 {
				what = append(what, "push")
			}
			if len(what) > 0 {
				fail("copy-past-failed-successor", fmt.Sprintf("a callback of node %d returned an error, yet its predecessor %d was copied (%s)", fn, p, strings.Join(what, ",")))
			}
		}
	}
	if injected && !errors.Is(res.Err, errInjected) {
		fail("callback-error-lost", fmt.Sprintf("callback %s on node %d returned an error, the copy returned %v", c.FailCb, c.FailNode, res.Err))
	}
	return fails
}

// Budget of one harness run.
type Budget struct {
	Main, Contention, Twin, CbFail, Mount, Remote, RootPresent, Extended, TwinReach, PlatImage, Cancel int
	Claim                                 int // tiny graphs in which up to 8 goroutines claim one descriptor at the same instant (TryCommit)
	Sched, SchedReps, SchedEnum, SchedEnumCap int // graphs run under testing/synctest with the PRNG-controlled scheduler, extra schedules per graph
	Small                                 bool // small-scope enumeration (graphs <= 3 nodes, sampled 4-node graphs) x roots x closed subsets
	Reps                           int // extra schedules (latency seeds) per generated case
}

// Drive generates / replays cases, runs them, writes model input + implementation
// observable, and applies the property's oracle.
func Drive(run *common.Run, prop string, b Budget) {
	oracle := OracleC01
	if prop == "C04" {
		oracle = OracleC04
	}
	// root PRNG of this run.  common.NewRand(seed) starts consecutive seeds one draw apart (the
	// splitmix64 state is seed * increment), so seeds 1,2,3 would generate the same cases shifted
	// by one; hash the seed instead.
	h := sha256.Sum256([]byte(fmt.Sprintf("copyh/%s/%d", prop, run.Seed)))
	rootRand := common.NewRand(binary.LittleEndian.Uint64(h[:8]))
	selfTested := map[uint64]bool{}
	var lastRes *Result
	confirmedHangs, stopped := 0, false
	one := func(c *Case) {
		if stopped {
			return
		}
		id := run.NewID()
		if js, err := json.Marshal(c); err == nil {
			os.WriteFile(currentCasePath(run.Dir), js, 0o644)
		}
		res := Execute(c)
		lastRes = res
		if res.SetupErr == nil && res.G != nil && !selfTested[c.GenSeed^uint64(len(c.Graph))] {
			// the generator's edge list must be what content.Successors decodes (ground truth sanity)
			selfTested[c.GenSeed^uint64(len(c.Graph))] = true
			if err := res.G.SelfTest(); err != nil {
				// content.Successors disagrees with the generator's edge list (the link kinds of the property)
				run.OracleFail(id, "successors-differ", fmt.Sprintf("content.Successors vs the generator's links (stream %s): %v", c.Stream, err), replayDoc{Case: c})
			}
		}
		if res.SetupErr != nil {
			panic(fmt.Errorf("harness setup failed (not a property failure): %w", res.SetupErr))
		}
		g := res.G
		run.Count("stream=" + c.Stream)
		run.Count("pair=" + c.Src + "->" + c.Dst)
		run.Count("mode=" + c.Mode)
		run.Count("K=" + strconv.Itoa(c.K))
		run.Count(fmt.Sprintf("nodes=%02d-%02d", len(g.Nodes)/4*4, len(g.Nodes)/4*4+3))
		for _, n := range g.Nodes {
			if n.Desc.MediaType == "application/vnd.verif.alt.layer" {
				run.Count("blob-twin(same bytes, two blob media types)")
				if res.Root2 >= 0 && g.Reach(res.Root2)[n.ID] {
					run.Count("blob-twin reachable")
				}
			}
		}
		if c.MapRoot >= 0 {
			run.Count("maproot")
		}
		if c.Mount {
			run.Count("dst-mounter")
		}
		if c.Sched {
			run.Count("controlled-schedule(synctest)")
		}
		if c.Barrier {
			run.Count("FindSuccessors barrier (simultaneous claims of a shared successor)")
		}
		if c.OneP {
			run.Count("single-P schedule (GOMAXPROCS 1)")
		}
		if c.OwnLim && res.LimProbes > 0 {
			run.Count("limiter read at every event (verif hook)")
			run.Extra["limiter_probes"] = maxInt(run.Extra["limiter_probes"], 0) + res.LimProbes
		}
		if c.Stream == "twinreach" && res.Err == nil && (c.Dst == "oci" || c.Dst == "ocire" || (c.Dst == "file" && len(c.Titled) > 0)) {
			miss := false
			for i := range g.Reach(res.Root2) {
				if !res.Present[i] {
					miss = true
				}
			}
			if miss {
				run.Count("twinreach defect order")
			} else {
				run.Count("twinreach harmless order")
			}
		}
		if c.Stream == "platimage" && res.Err == nil {
			run.Count("platform on image manifest: selected")
		}
		switch c.cbBits() {
		case "11111":
			run.Count("callbacks=all-set")
		case "00000":
			run.Count("callbacks=all-nil(default options)")
		default:
			run.Count("callbacks=mixed")
		}
		if c.FindSucc {
			run.Count("FindSuccessors set")
		}
		if (c.Mode == "t" || c.Mode == "r") && res.Root2 >= 0 && inSet(c.D0, res.Root2) {
			hook := "set"
			if !c.CbIsSet("skip") {
				hook = "nil"
			}
			run.Count("matrix root-present/" + map[string]string{"t": "Tagger", "r": "ReferencePusher"}[c.Mode] + "/OnCopySkipped-" + hook)
		}
		if c.Platform != "" {
			run.Count("platform")
		}
		if c.RefFetch {
			run.Count("src-reference-fetcher")
		}
		if c.DstRef == "" && c.Mode != "g" {
			run.Count("blank-dstref")
		}
		if res.Root2 >= 0 && inSet(c.D0, res.Root2) {
			run.Count("root-present")
		}
		if res.Err != nil {
			run.Count("returned-error")
		}
		if c.Stream == "contention" && res.Keff >= 4 {
			run.Extra["contention_max_inflight_K>=4"] = maxInt(run.Extra["contention_max_inflight_K>=4"], max(res.SrcMax, res.DstMax))
		}
		run.Extra[fmt.Sprintf("max_inflight_seen_K=%d", res.Keff)] = maxInt(run.Extra[fmt.Sprintf("max_inflight_seen_K=%d", res.Keff)], max(res.SrcMax, res.DstMax))
		run.Extra["max_src_inflight_seen"] = maxInt(run.Extra["max_src_inflight_seen"], res.SrcMax)
		run.Extra["max_dst_inflight_seen"] = maxInt(run.Extra["max_dst_inflight_seen"], res.DstMax)
		if res.Hang {
			// a wall-clock watchdog on a shared machine: report only what a fresh run confirms
			res2 := Execute(c)
			if res2.SetupErr == nil && !res2.Hang {
				run.Count("hang not reproduced (load)")
				res = res2
			} else {
				oracle(run, id, res)
				// a wedge is reported with its replay; two confirmed ones end the run (every further case of the
				// kind would cost two watchdog periods): no check may take hours because the code deadlocks
				if confirmedHangs++; confirmedHangs >= 2 {
					stopped = true
				}
				return
			}
		}
		if c.PreTag >= 0 {
			run.Count("destination reference pre-existing")
		}
		if c.CancelAt != 0 {
			when := map[bool]string{true: "after k events", false: "before the root task starts"}[c.CancelAt > 0]
			out := "error"
			if res.Err == nil {
				out = "success"
			}
			run.Count("context ended " + when + " -> " + out)
		}
		if c.MountAlways {
			run.Count("blob root mounted into ReferencePusher/Tagger+Mounter")
		}
		if c.Mode == "x" || c.Mode == "X" {
			run.Count("extended-copy")
			nroots := 0
			for _, n := range g.Nodes {
				if !n.Foreign() && len(g.Preds(n.ID)) == 0 && g.Reach(n.ID)[res.Root2] {
					nroots++
				}
			}
			run.Count(fmt.Sprintf("extended-copy roots=%d", min(nroots, 4)))
		}
		if c.Dst == "file" && len(c.Titled) > 0 {
			// a file-store destination is digest-keyed for titled blobs only and not symmetrically (a titled
			// blob answers for every descriptor with its digest, not the other way round): outside the
			// model's symmetric key -- judged by the oracle only
			run.Count("file-dst-titled-twin (oracle only)")
			run.Case(id, "0 0 u 0 - - - - rp="+c.Stream, "UNJUDGED")
			oracle(run, id, res)
			return
		}
		if prop == "C04" && c.OwnLim && c.Mode == "g" && len(res.Frees) > 0 {
			// C04's runner also judges the semaphore readings (Model/CopyPermit.v): each one travels as the token
			// TB.<free> right after the event it was taken at (CopyGraph never calls dst.Tag: the token is unused)
			saved := res.Toks
			var with []string
			for i, t := range saved {
				with = append(with, t)
				if i < len(res.Frees) && res.Frees[i] >= 0 { // (the one after RT.* is the reading after the return: all free)
					with = append(with, fmt.Sprintf("TB.%d", res.Frees[i]))
					run.Extra["limiter_readings_in_model_input"] = maxInt(run.Extra["limiter_readings_in_model_input"], 0) + 1
				}
			}
			res.Toks = with
			line := ModelInput(res)
			res.Toks = saved
			run.Case(id, line, implLine(res))
		} else {
			run.Case(id, ModelInput(res), implLine(res))
		}
		run.TracesAgainstImpl++
		oracle(run, id, res)
		// non-trivial: the run met a present node, a shared node, a duplicate or foreign successor, or a subject edge
		if res.Root2 >= 0 {
			reach := g.Reach(res.Root2)
			nt := false
			parents := map[int]int{}
			for i := range reach {
				if inSet(c.D0, i) {
					nt = true
				}
				seen := map[int]bool{}
				for _, s := range g.Nodes[i].Succ {
					if seen[s] || g.Nodes[s].Foreign() {
						nt = true
					}
					if !seen[s] {
						parents[s]++
					}
					seen[s] = true
				}
				if g.Nodes[i].Subject >= 0 {
					nt = true
				}
			}
			for _, k := range parents {
				if k > 1 {
					nt = true
				}
			}
			if nt && len(reach) >= 3 {
				run.Nontrivial(fmt.Sprintf("%v|%d|%v|%s|%s|%s|%d|%d|%s", g.Describe(), res.Root2, c.D0, c.Mode, c.Src, c.Dst, res.Keff, c.MapRoot, c.Platform))
				run.Sample(map[string]any{"graph": g.Describe(), "root": res.Root2, "d0": c.D0, "mode": c.Mode,
					"pair": c.Src + "->" + c.Dst, "K": c.K, "events": len(res.Toks)})
			}
		}
	}
	_ = lastRes
	if run.Replay != "" {
		for _, c := range FromReplay(run.Replay, run.Thorough()) {
			one(c)
			for i := 0; i < run.Scale(15, 60); i++ { // the interleaving is free-running: try more schedules
				c2 := *c
				c2.Seed = c.Seed + uint64(i+1)*7919
				one(&c2)
			}
		}
		return
	}
	stream := func(name string, n int) {
		for i := 0; i < n; i++ {
			c := Generate(rootRand.U64(), name, run.Thorough())
			one(c)
			for k := 0; k < b.Reps; k++ {
				c2 := *c
				c2.Seed = c.Seed + uint64(k+1)*104729
				one(&c2)
			}
		}
	}
	// enumeration of controlled schedules on small graphs: depth-first over the choices at every quiescent
	// point (stateless: each schedule is a fresh run of the case with a longer script)
	if T != nil && b.SchedEnum > 0 {
		exhaustive, capped, total := 0, 0, 0
		for i := 0; i < b.SchedEnum; i++ {
			base := Generate(rootRand.U64(), "schedenum", run.Thorough())
			stack := [][]int{{}}
			n := 0
			for len(stack) > 0 && n < b.SchedEnumCap {
				script := stack[len(stack)-1]
				stack = stack[:len(stack)-1]
				c := *base
				c.Script = script
				one(&c)
				n++
				res := lastRes
				if res == nil || res.Hang {
					break
				}
				for j := len(res.Widths) - 1; j >= len(script); j-- {
					for a := 1; a < res.Widths[j]; a++ {
						alt := append(append([]int(nil), res.Taken[:j]...), a)
						stack = append(stack, alt)
					}
				}
			}
			total += n
			if len(stack) == 0 {
				exhaustive++
			} else {
				capped++
			}
		}
		run.Extra["schedule_enumeration_graphs_exhausted"] = exhaustive
		run.Extra["schedule_enumeration_graphs_capped"] = capped
		run.Extra["schedule_enumeration_runs"] = total
	}
	stream("main", b.Main)
	stream("contention", b.Contention)
	stream("cbfail", b.CbFail)
	stream("rootpresent", b.RootPresent)
	stream("extended", b.Extended)
	stream("mount", b.Mount)
	stream("remote", b.Remote)
	stream("cancel", b.Cancel)
	stream("platimage", b.PlatImage)
	stream("claim", b.Claim)
	stream("twin", b.Twin)
	stream("twinreach", b.TwinReach)
	if T != nil {
		// controlled schedules: several PRNG-chosen release orders per graph
		for i := 0; i < b.Sched; i++ {
			c := Generate(rootRand.U64(), "sched", run.Thorough())
			one(c)
			for k := 0; k < b.SchedReps; k++ {
				c2 := *c
				c2.Seed = c.Seed + uint64(k+1)*15485863
				one(&c2)
			}
		}
	}
	if b.Small {
		codes := SmallCases()
		run.Extra["small_scope_graphs"] = len(SmallGraphs())
		run.Extra["small_scope_cases"] = len(codes)
		for _, code := range codes {
			one(Generate(code, "small", run.Thorough()))
		}
	}
	os.Remove(currentCasePath(run.Dir))

	if stopped {
		return // ended early after confirmed wedges (reported as oracle failures): the floors do not apply
	}
	// coverage floors: a run whose streams did not reach the situations they exist for must not pass silently
	// (reported as a harness failure = layer R, not as a property violation)
	floor := func(what string, got, want int) {
		if got < want {
			panic(fmt.Sprintf("coverage floor not reached: %s: %d < %d", what, got, want))
		}
	}
	if b.Contention >= 100 {
		got, _ := run.Extra["contention_max_inflight_K>=4"].(int)
		floor("contention stream: peak operations in flight for some K >= 4 (otherwise the bound is only exercised for K <= 3)", got, 4)
	}
	if b.RootPresent >= 60 {
		for _, m := range []string{"Tagger", "ReferencePusher"} {
			for _, h := range []string{"nil", "set"} {
				floor("matrix root-present/"+m+"/OnCopySkipped-"+h, run.Dist["matrix root-present/"+m+"/OnCopySkipped-"+h], 5)
			}
		}
	}
	if b.TwinReach >= 60 {
		floor("twinreach stream: runs in which the manifest was probed after its twin blob was stored", run.Dist["twinreach defect order"], 1)
		floor("twinreach stream: runs in which the manifest was probed first", run.Dist["twinreach harmless order"], 1)
	}
	if b.PlatImage >= 30 {
		floor("platimage stream: successful platform selection on an image manifest", run.Dist["platform on image manifest: selected"], 1)
	}
	if T != nil && b.Sched > 0 {
		floor("controlled schedules", run.Dist["controlled-schedule(synctest)"], b.Sched)
	}
	if prop == "C04" && b.Main+b.Contention >= 100 {
		floor("CopyGraph runs whose limiter was read at every event", run.Dist["limiter read at every event (verif hook)"], 30)
	}
}

func implLine(res *Result) string {
	if res.Root2 < 0 && res.Err != nil && len(res.Toks) == 1 {
		return "PROLOGUE-ERR" + implSel(res)
	}
	return ImplObs(res)
}

func maxInt(a any, b int) int {
	if x, ok := a.(int); ok && x > b {
		return x
	}
	return b
}
