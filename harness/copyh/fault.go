package copyh

// Fault-injection harness of C02 (spec-level part): oras.CopyGraph / oras.Copy /
// oras.ExtendedCopyGraph between instrumented stores with
//
//   - faults keyed by (operation, node, before/after the side effect): an injected
//     error, or a cancellation of the call's context, at dst.Exists, src.Fetch,
//     dst.Push / PushReference, src.Predecessors, the user callbacks and MapRoot;
//   - an already-cancelled context;
//   - a MONITOR on the destination wrapper: at every completed push, every successor
//     (the generator's edge list) must exist in the underlying store -- independent of
//     the Coq model;
//   - watchdog, goroutine count back to baseline, link-closure after every outcome,
//     "a fired fault surfaces as an error", and a fault-free rerun that must complete
//     the graph;
//   - free-running goroutines with PRNG latencies (slow nodes sleep longer) and, in the
//     test binary, PRNG-controlled schedules under testing/synctest in which the
//     operations of "slow" nodes are released last.
//
// Additional event tokens (alphabet of coq/Model/CopyFault.v):
//
//	XX.n       dst.Exists returned an error
//	SX.n       src.Fetch returned an error
//	PX.n.r.s   dst.Push (r=0) / PushReference (r=1) returned an error; s=1: the content was stored
//	FX.n       the FindSuccessors callback failed for n
//	SR.n       Read() of the stream fetched for n failed outside a destination Push / Mount (the proxy
//	           reading a manifest for FindSuccessors); inside a Push / Mount that operation reports it
//	TX.n.s     dst.Tag returned an error; s=1: the reference was set
//	MX.n.s     dst.Mount returned an error of its own; s=1: the blob was stored (mounted / uploaded)
//	QK / QX    a prologue operation (MapRoot, Predecessors) returned / failed
//	CN         the context of the call is about to be cancelled

import (
	"bytes"
	"context"
	"crypto/sha256"
	"encoding/base64"
	"encoding/binary"
	"encoding/json"
	"errors"
	"fmt"
	"io"
	"os"
	"os/exec"
	"path/filepath"
	"runtime"
	"sort"
	"strconv"
	"strings"
	"sync"
	"testing"
	"testing/synctest"
	"time"

	"github.com/opencontainers/go-digest"
	ocispec "github.com/opencontainers/image-spec/specs-go/v1"
	oras "oras.land/oras-go/v2"
	"oras.land/oras-go/v2/content"
	"oras.land/oras-go/v2/errdef"
	"verifharness/common"
	"verifharness/dag"
)

// Fault is one injection point.
type Fault struct {
	Op     string `json:"op"`     // exists | fetch | read | findsucc | push | tag | mount | pred | pre | post | skip | mountfrom | mounted | maproot
	Node   int    `json:"node"`   // node id (-1 for maproot)
	After  bool   `json:"after"`  // after the side effect of the real operation (else before it)
	Cancel bool   `json:"cancel"` // cancel the context of the call instead of returning an error
}

func (f Fault) String() string {
	s := fmt.Sprintf("%s@%d", f.Op, f.Node)
	if f.After {
		s += "+after"
	}
	if f.Cancel {
		s += "+cancel"
	}
	return s
}

// FCase is one generated fault run; it is also the replay format.
type FCase struct {
	Stream    string        `json:"stream"`
	Graph     []dag.Encoded `json:"graph"`
	API       string        `json:"api"`  // g CopyGraph | t Copy into a Tagger | r Copy into a ReferencePusher | x ExtendedCopyGraph
	Root      int           `json:"root"` // the root (g, t, r) or the node ExtendedCopyGraph starts from (x)
	D0        []int         `json:"d0"`
	K         int           `json:"k"`
	Src       string        `json:"src"` // mem | oci
	Dst       string        `json:"dst"`
	Faults    []Fault       `json:"faults"`
	PreCancel bool          `json:"precancel"` // the context is cancelled before the call
	CancelAt  int           `json:"cancelat"`  // controlled schedule only: cancel the context at this quiescent point (0 = never):
	//                                             every goroutine of the call is blocked then (parked operation, Acquire, done channel)
	Cut       []int         `json:"cut"`       // ExtendedCopyGraph: FindPredecessors answers "none" for these nodes (they become roots
	//                                             although other roots reach them: nested roots)
	RefFetch  bool          `json:"reffetch"`  // Copy: the source is a registry.ReferenceFetcher (resolveRoot reads the root through it
	//                                             and leaves a manifest root in the proxy cache)
	CustomFS  bool          `json:"customfs"`  // CopyGraphOptions.FindSuccessors is set (content.Successors behind a fault point)
	NilCb     string        `json:"nilcb"`     // "" (all callbacks set) or 5 bits: PreCopy PostCopy OnCopySkipped OnMounted MountFrom set
	MapRoot   bool          `json:"maproot"`   // Copy gets an (identity) MapRoot: a prologue fault point
	Mount     bool          `json:"mount"`     // the destination is a registry.Mounter and MountFrom is set (g, t, x)
	Sched     bool          `json:"sched"`     // controlled schedule under testing/synctest
	Slow      []int         `json:"slow"`      // nodes whose operations are slow (free-running) / released last (controlled)
	Seed      uint64        `json:"seed"`      // latency / schedule PRNG
	GenSeed   uint64        `json:"genseed"`
	Thorough  bool          `json:"thorough"`
}

var errFault = errors.New("verif: injected fault")

// ---- controlled scheduler with priorities ----

type fparked struct {
	ch   chan struct{}
	slow bool
}

type fsched struct {
	mu     sync.Mutex
	parked []fparked
	rng    *common.Rand
	Steps  int
}

func (s *fsched) yield(slow bool) {
	ch := make(chan struct{})
	s.mu.Lock()
	s.parked = append(s.parked, fparked{ch, slow})
	s.mu.Unlock()
	<-ch
}

// release one parked operation: a fast one with probability 15/16 when there is one
func (s *fsched) releaseOne() bool {
	s.mu.Lock()
	defer s.mu.Unlock()
	if len(s.parked) == 0 {
		return false
	}
	var fast []int
	for i, p := range s.parked {
		if !p.slow {
			fast = append(fast, i)
		}
	}
	i := 0
	if len(fast) > 0 && s.rng.Intn(16) != 0 {
		i = fast[s.rng.Intn(len(fast))]
	} else {
		i = s.rng.Intn(len(s.parked))
	}
	ch := s.parked[i].ch
	s.parked = append(s.parked[:i], s.parked[i+1:]...)
	s.Steps++
	close(ch)
	return true
}

// runFScheduled runs fn in a synctest bubble; stuck = at some quiescent point nothing was
// parked and the call had not returned (then unstick() is called once, to let the goroutines go).
func runFScheduled(s *fsched, fn func(), unstick func(), atQuiescent func(k int)) (stuck bool) {
	synctest.Test(T, func(t *testing.T) {
		done := make(chan struct{})
		go func() {
			defer close(done)
			fn()
		}()
		quiescent := 0
		for {
			synctest.Wait()
			select {
			case <-done:
				return
			default:
			}
			quiescent++
			if quiescent > 300000 {
				// a livelock (operations keep coming, the call never returns) counts as a hang too: cancel the
				// context once; if that does not end it either, give up (synctest reports the leftover goroutines)
				if !stuck {
					stuck = true
					unstick()
				}
				if quiescent > 400000 {
					return
				}
			}
			atQuiescent(quiescent)
			if !s.releaseOne() {
				if stuck {
					return // still stuck after the cancellation: synctest reports the deadlock (process crash -> FParent)
				}
				stuck = true
				unstick()
			}
		}
	})
	return stuck
}

// ---- one call under instrumentation ----

type fcall struct {
	*rec
	c      *FCase
	g      *dag.Graph
	faults []Fault
	fired  []bool
	fmu    sync.Mutex
	nfired int
	cancel context.CancelFunc
	fs     *fsched
	slow   map[int]bool
	under  oras.Target // the destination's underlying store (monitor)
	viol   []string    // monitor: pushes that completed before a successor was present
	extraFired []string
	seed   uint64
	pushing map[int]int // nodes whose fetched stream is being consumed by a destination Push / Mount
}

func (f *fcall) pause(n int) {
	if f.fs != nil {
		f.fs.yield(f.slow[n])
		return
	}
	if f.slow[n] {
		f.lmu.Lock()
		a := f.lat.Intn(3)
		f.lmu.Unlock()
		time.Sleep(time.Duration(400+300*a) * time.Microsecond)
		return
	}
	f.rec.delay()
}

// hit reports whether an error must be injected at this point; a cancellation fault
// cancels the context (recorded first) and lets the operation go on.
func (f *fcall) hit(op string, n int, after bool) bool {
	f.fmu.Lock()
	idx := -1
	for i, ft := range f.faults {
		if !f.fired[i] && ft.Op == op && ft.Node == n && (ft.After == after || isCallback(op)) {
			idx = i
			break
		}
	}
	if idx < 0 {
		f.fmu.Unlock()
		return false
	}
	f.fired[idx] = true
	f.nfired++
	ft := f.faults[idx]
	f.fmu.Unlock()
	if ft.Cancel {
		f.ev("CN", 0, 0)
		f.cancel()
		return false
	}
	return true
}

func fhash(seed, a uint64, tag string) uint64 {
	h := sha256.Sum256([]byte(fmt.Sprintf("%d/%d/%s", seed, a, tag)))
	return binary.LittleEndian.Uint64(h[:8])
}

func isCallback(op string) bool {
	return op == "pre" || op == "post" || op == "skip" || op == "maproot" || op == "resolve" || op == "mountfrom" || op == "mounted"
}

type fsrc struct{ f *fcall; under content.ReadOnlyGraphStorage }

func (s *fsrc) Fetch(ctx context.Context, d ocispec.Descriptor) (io.ReadCloser, error) {
	f := s.f
	n := f.node(d)
	f.ev(fmt.Sprintf("SB.%d", n), 1, 0)
	f.pause(n)
	if f.hit("fetch", n, false) {
		f.ev(fmt.Sprintf("SX.%d", n), -1, 0)
		return nil, errFault
	}
	rc, err := s.under.Fetch(ctx, d)
	if err != nil {
		f.ev(fmt.Sprintf("SX.%d", n), -1, 0)
		return nil, err
	}
	if f.hit("fetch", n, true) {
		rc.Close()
		f.ev(fmt.Sprintf("SX.%d", n), -1, 0)
		return nil, errFault
	}
	f.pause(n)
	f.ev(fmt.Sprintf("SE.%d", n), 0, 0)
	return &closeRec{Reader: &faultReader{r: rc, f: f, n: n, half: d.Size / 2}, c: rc, f: func() {
		f.pause(n)
		f.ev(fmt.Sprintf("SC.%d", n), -1, 0)
	}}, nil
}

// faultReader delivers the "read" faults: an error from Read() of a fetched stream at the first
// read (before) or after half of the bytes (after).  When the stream is being consumed by a
// destination Push / Mount the failure is reported by that operation (PX / MX token); otherwise
// (the proxy reading a manifest for FindSuccessors) the token SR.n is logged here.
type faultReader struct {
	r         io.Reader
	f         *fcall
	n         int
	half      int64
	delivered int64
	started   bool
	afterSeen bool
	failed    bool
}

func (fr *faultReader) fail() (int, error) {
	fr.failed = true
	fr.f.fmu.Lock()
	inPush := fr.f.pushing[fr.n] > 0
	fr.f.fmu.Unlock()
	if !inPush {
		fr.f.ev(fmt.Sprintf("SR.%d", fr.n), 0, 0)
	}
	return 0, errFault
}

func (fr *faultReader) Read(p []byte) (int, error) {
	if fr.failed {
		return 0, errFault
	}
	if !fr.started {
		fr.started = true
		if fr.f.hit("read", fr.n, false) {
			return fr.fail()
		}
	}
	if !fr.afterSeen && fr.delivered >= fr.half {
		fr.afterSeen = true
		if fr.f.hit("read", fr.n, true) {
			return fr.fail()
		}
	}
	if !fr.afterSeen && int64(len(p)) > fr.half-fr.delivered {
		p = p[:fr.half-fr.delivered]
	}
	k, err := fr.r.Read(p)
	fr.delivered += int64(k)
	return k, err
}

func (f *fcall) setPushing(n int, d int) {
	f.fmu.Lock()
	f.pushing[n] += d
	f.fmu.Unlock()
}

func (s *fsrc) Exists(ctx context.Context, d ocispec.Descriptor) (bool, error) {
	return s.under.Exists(ctx, d)
}

func (s *fsrc) Predecessors(ctx context.Context, d ocispec.Descriptor) ([]ocispec.Descriptor, error) {
	f := s.f
	n := f.node(d)
	f.pause(n)
	if f.hit("pred", n, false) {
		f.ev("QX", 0, 0)
		return nil, errFault
	}
	ps, err := s.under.Predecessors(ctx, d)
	if err != nil {
		f.ev("QX", 0, 0)
		return nil, err
	}
	if f.hit("pred", n, true) {
		f.ev("QX", 0, 0)
		return nil, errFault
	}
	f.ev("QK", 0, 0)
	return ps, nil
}

// fsrcT adds Resolve (oras.ReadOnlyTarget) for Copy.
type fsrcT struct {
	*fsrc
	t oras.ReadOnlyTarget
	f *fcall
}

func (s fsrcT) Resolve(ctx context.Context, ref string) (ocispec.Descriptor, error) {
	f := s.f
	f.pause(-1)
	if f.hit("resolve", -1, false) {
		f.ev("QX", 0, 0)
		return ocispec.Descriptor{}, errFault
	}
	d, err := s.t.Resolve(ctx, ref)
	if err != nil {
		f.ev("QX", 0, 0)
		return d, err
	}
	f.ev("QK", 0, 0)
	return d, nil
}

// fsrcTRef additionally implements registry.ReferenceFetcher (as remote repositories do): resolveRoot
// fetches the root by reference and reads it (content.Successors) while the proxy caches it.  Prologue
// fault points: the FetchReference call ("resolve") and the reading of the root stream ("rootread").
type fsrcTRef struct{ fsrcT }

type prologueReader struct {
	r         io.ReadCloser
	f         *fcall
	half      int64
	delivered int64
	started   bool
	afterSeen bool
	failed    bool
}

func (pr *prologueReader) Read(p []byte) (int, error) {
	if pr.failed {
		return 0, errFault
	}
	fail := false
	if !pr.started {
		pr.started = true
		fail = pr.f.hit("rootread", -1, false)
	}
	if !fail && !pr.afterSeen && pr.delivered >= pr.half {
		pr.afterSeen = true
		fail = pr.f.hit("rootread", -1, true)
	}
	if fail {
		pr.failed = true
		pr.f.ev("QX", 0, 0)
		return 0, errFault
	}
	if !pr.afterSeen && int64(len(p)) > pr.half-pr.delivered {
		p = p[:pr.half-pr.delivered]
	}
	k, err := pr.r.Read(p)
	pr.delivered += int64(k)
	return k, err
}

func (pr *prologueReader) Close() error { return pr.r.Close() }

func (s fsrcTRef) FetchReference(ctx context.Context, ref string) (ocispec.Descriptor, io.ReadCloser, error) {
	f := s.f
	f.pause(-1)
	if f.hit("resolve", -1, false) {
		f.ev("QX", 0, 0)
		return ocispec.Descriptor{}, nil, errFault
	}
	d, err := s.t.Resolve(ctx, ref)
	if err != nil {
		f.ev("QX", 0, 0)
		return d, nil, err
	}
	rc, err := s.t.Fetch(ctx, d)
	if err != nil {
		f.ev("QX", 0, 0)
		return d, nil, err
	}
	f.ev("QK", 0, 0)
	return d, &prologueReader{r: rc, f: f, half: d.Size / 2}, nil
}

type fdst struct {
	f   *fcall
	dmu sync.Map // digest -> *sync.Mutex
}

// lockDigest serialises the wrapper's operations on one digest (free-running mode), so that for two
// descriptors with the same bytes ("twins": one key in a digest-keyed store) the recorded order of the
// Exists / Push events is the order of their effects.  Controlled schedules generate no twins.
func (d *fdst) lockDigest(t ocispec.Descriptor) func() {
	if d.f.fs != nil {
		return func() {}
	}
	m, _ := d.dmu.LoadOrStore(t.Digest.String(), &sync.Mutex{})
	mu := m.(*sync.Mutex)
	mu.Lock()
	return mu.Unlock
}

func (d *fdst) Fetch(ctx context.Context, t ocispec.Descriptor) (io.ReadCloser, error) {
	return d.f.under.Fetch(ctx, t)
}

func (d *fdst) Resolve(ctx context.Context, ref string) (ocispec.Descriptor, error) {
	return d.f.under.Resolve(ctx, ref)
}

func (d *fdst) Exists(ctx context.Context, t ocispec.Descriptor) (bool, error) {
	f := d.f
	n := f.node(t)
	defer d.lockDigest(t)()
	f.ev(fmt.Sprintf("XB.%d", n), 0, 1)
	f.pause(n)
	if f.hit("exists", n, false) {
		f.ev(fmt.Sprintf("XX.%d", n), 0, -1)
		return false, errFault
	}
	ok, err := f.under.Exists(ctx, t)
	if err == nil && f.hit("exists", n, true) {
		err = errFault
	}
	f.pause(n)
	if err != nil {
		f.ev(fmt.Sprintf("XX.%d", n), 0, -1)
		return false, err
	}
	b := 0
	if ok {
		b = 1
	}
	f.ev(fmt.Sprintf("XE.%d.%d", n, b), 0, -1)
	f.snapshot()
	return ok, nil
}

// snapshot (controlled schedules only: the segment between two parks is atomic w.r.t. the other operations):
// the content of the underlying destination as a token DS.<id>+<id>+... for the model runner, which compares
// it with the destination of the transition system at that event (intermediate-state correspondence)
func (f *fcall) snapshot() {
	if f.fs == nil {
		return
	}
	var ids []string
	for _, nd := range f.g.Nodes {
		if nd.Foreign() {
			continue
		}
		if ok, err := f.under.Exists(context.Background(), nd.Desc); err == nil && ok {
			ids = append(ids, fmt.Sprint(nd.ID))
		}
	}
	tok := "DS.-"
	if len(ids) > 0 {
		tok = "DS." + strings.Join(ids, "+")
	}
	f.ev(tok, 0, 0)
}

// monitor: the push of node n has just completed in the underlying store
func (f *fcall) monitor(n int) {
	if n < 0 {
		return
	}
	var missing []int
	for _, s := range f.g.Nodes[n].Succ {
		if f.g.Nodes[s].Foreign() {
			continue
		}
		ok, err := f.under.Exists(context.Background(), f.g.Nodes[s].Desc)
		if err != nil || !ok {
			missing = append(missing, s)
		}
	}
	if len(missing) > 0 {
		f.fmu.Lock()
		f.viol = append(f.viol, fmt.Sprintf("push of node %d completed while its successors %v are absent from the destination", n, missing))
		f.fmu.Unlock()
	}
}

func (d *fdst) push(ctx context.Context, t ocispec.Descriptor, rd io.Reader, ref string) error {
	f := d.f
	n := f.node(t)
	isRef := 0
	if ref != "" {
		isRef = 1
	}
	defer d.lockDigest(t)()
	f.ev(fmt.Sprintf("PB.%d.%d", n, isRef), 0, 1)
	f.pause(n)
	if f.hit("push", n, false) {
		f.ev(fmt.Sprintf("PX.%d.%d.0", n, isRef), 0, -1)
		return errFault
	}
	had, _ := f.under.Exists(context.Background(), t)
	f.setPushing(n, 1)
	err := f.under.Push(ctx, t, rd)
	f.setPushing(n, -1)
	res := "k"
	if errors.Is(err, errdef.ErrAlreadyExists) || (err == nil && had) {
		res = "x"
	} else if err != nil {
		res = "e"
	}
	if ref != "" && res != "e" {
		if terr := f.under.Tag(ctx, t, ref); terr != nil {
			err, res = terr, "e"
		}
	}
	if res == "e" {
		f.pause(n)
		f.ev(fmt.Sprintf("PX.%d.%d.0", n, isRef), 0, -1)
		return err
	}
	f.monitor(n)
	if f.hit("push", n, true) {
		f.pause(n)
		f.ev(fmt.Sprintf("PX.%d.%d.1", n, isRef), 0, -1)
		f.snapshot()
		return errFault
	}
	f.pause(n)
	f.ev(fmt.Sprintf("PE.%d.%d.%s", n, isRef, res), 0, -1)
	f.snapshot()
	return err
}

func (d *fdst) Push(ctx context.Context, t ocispec.Descriptor, rd io.Reader) error {
	return d.push(ctx, t, rd, "")
}

func (d *fdst) Tag(ctx context.Context, t ocispec.Descriptor, ref string) error {
	f := d.f
	n := f.node(t)
	f.ev(fmt.Sprintf("TB.%d", n), 0, 1)
	f.pause(n)
	if f.hit("tag", n, false) {
		f.ev(fmt.Sprintf("TX.%d.0", n), 0, -1)
		return errFault
	}
	err := f.under.Tag(ctx, t, ref)
	f.pause(n)
	if err != nil {
		f.ev(fmt.Sprintf("TX.%d.0", n), 0, -1)
		return err
	}
	if f.hit("tag", n, true) {
		f.ev(fmt.Sprintf("TX.%d.1", n), 0, -1)
		return errFault
	}
	f.ev(fmt.Sprintf("TE.%d", n), 0, -1)
	return nil
}

type fdstRef struct{ *fdst }

func (d fdstRef) PushReference(ctx context.Context, t ocispec.Descriptor, rd io.Reader, ref string) error {
	if ref == "" {
		return errors.New("verif: empty reference")
	}
	return d.push(ctx, t, rd, ref)
}

// fdstMount additionally implements registry.Mounter.  The candidate repository either has the
// blob (PRNG choice: it appears in the destination without any source read) or the content is
// requested through getContent and uploaded, as remote.Repository does after a 202 answer.
type fdstMount struct{ *fdst }

func (d fdstMount) Mount(ctx context.Context, t ocispec.Descriptor, fromRepo string, getContent func() (io.ReadCloser, error)) error {
	f := d.f
	n := f.node(t)
	f.ev(fmt.Sprintf("MB.%d", n), 0, 1)
	f.pause(n)
	if f.hit("mount", n, false) {
		f.ev(fmt.Sprintf("MX.%d.0", n), 0, -1)
		return errFault
	}
	mounted := fhash(f.seed, uint64(n+1), fromRepo)%3 == 0 // (a function of the case, not of the interleaving: replays reproduce)
	if mounted && n >= 0 {
		if err := f.under.Push(ctx, t, bytes.NewReader(f.g.Nodes[n].Bytes)); err != nil && !errors.Is(err, errdef.ErrAlreadyExists) {
			f.ev(fmt.Sprintf("MX.%d.0", n), 0, -1)
			return err
		}
		f.monitor(n)
		f.pause(n)
		if f.hit("mount", n, true) {
			f.ev(fmt.Sprintf("MX.%d.1", n), 0, -1)
			return errFault
		}
		f.ev(fmt.Sprintf("ME.%d.m", n), 0, -1)
		return nil
	}
	rc, err := getContent()
	if err != nil {
		if err.Error() == "skip source" {
			f.ev(fmt.Sprintf("ME.%d.s", n), 0, -1) // not the last candidate: try the next one
		} else {
			f.ev("", 0, -1) // the failing PreCopy (CF) / src.Fetch (SX) was recorded: the task is dead for the model
		}
		return fmt.Errorf("cannot read source blob: %w", err)
	}
	f.setPushing(n, 1)
	err = f.under.Push(ctx, t, rc)
	f.setPushing(n, -1)
	rc.Close()
	if err != nil && !errors.Is(err, errdef.ErrAlreadyExists) {
		f.pause(n)
		f.ev(fmt.Sprintf("MX.%d.0", n), 0, -1)
		return err
	}
	f.monitor(n)
	f.pause(n)
	if f.hit("mount", n, true) {
		f.ev(fmt.Sprintf("MX.%d.1", n), 0, -1)
		return errFault
	}
	f.ev(fmt.Sprintf("ME.%d.c", n), 0, -1)
	return nil
}

// FCall is what one call (first run or rerun) showed.
type FCall struct {
	Toks    []string
	Err     error
	Hang    bool
	Stuck   bool // controlled schedule: nothing parked, nothing runnable, not returned
	Fired   int
	FiredL  []string
	Viol    []string
	Leak    int
	Present []bool
	BytesOK []bool
	TagNode int
}

// FResult of a case: the faulty call and the fault-free rerun.
type FResult struct {
	Case     *FCase
	G        *dag.Graph
	Roots    []int // roots of the call (generator's ground truth)
	First    *FCall
	Rerun    *FCall
	SetupErr error
}

const (
	fSrcRef = "v1"
	fDstRef = "copy"
)

// FRoots: the roots of the call from the generator's edge list (ExtendedCopyGraph: the
// ancestors of the start node that have no predecessor).
func FRoots(c *FCase, g *dag.Graph) []int {
	if c.API != "x" {
		return []int{c.Root}
	}
	seen := map[int]bool{}
	var roots []int
	var up func(i int)
	up = func(i int) {
		if seen[i] {
			return
		}
		seen[i] = true
		ps := g.Preds(i)
		if inSet(c.Cut, i) {
			ps = nil
		}
		if len(ps) == 0 {
			roots = append(roots, i)
		}
		for _, p := range ps {
			up(p)
		}
	}
	up(c.Root)
	sort.Ints(roots)
	return roots
}

// fAncestors: the nodes findRoots visits (Predecessors fault points).
func fAncestors(c *FCase, g *dag.Graph) []int {
	seen := map[int]bool{}
	var up func(i int)
	up = func(i int) {
		if seen[i] {
			return
		}
		seen[i] = true
		if inSet(c.Cut, i) {
			return
		}
		for _, p := range g.Preds(i) {
			up(p)
		}
	}
	up(c.Root)
	var out []int
	for i := range seen {
		out = append(out, i)
	}
	sort.Ints(out)
	return out
}

func observe(ctx context.Context, dst oras.Target, g *dag.Graph, r *rec, tagged bool, call *FCall) {
	call.Present = make([]bool, len(g.Nodes))
	call.BytesOK = make([]bool, len(g.Nodes))
	call.TagNode = -1
	for _, n := range g.Nodes {
		ok, err := dst.Exists(ctx, n.Desc)
		if err != nil || !ok {
			continue
		}
		call.Present[n.ID] = true
		rc, err := dst.Fetch(ctx, n.Desc)
		if err != nil {
			continue
		}
		b, err := io.ReadAll(rc)
		rc.Close()
		call.BytesOK[n.ID] = err == nil && bytes.Equal(b, n.Bytes)
	}
	if tagged {
		if d, err := dst.Resolve(ctx, fDstRef); err == nil {
			call.TagNode = r.node(ocispec.Descriptor{MediaType: d.MediaType, Digest: d.Digest, Size: d.Size})
			if call.TagNode < 0 {
				call.TagNode = -2
			}
		}
	}
}

// runCall performs one call of the case's API with the given faults.
func runCall(c *FCase, g *dag.Graph, src, dst oras.Target, faults []Fault, preCancel bool, cancelAt int, seed uint64, watchdog time.Duration) *FCall {
	r := &rec{idx: map[dkeyT]int{}, lat: common.NewRand(seed)}
	for _, n := range g.Nodes {
		r.idx[keyOf(n.Desc)] = n.ID
	}
	f := &fcall{rec: r, c: c, g: g, faults: faults, fired: make([]bool, len(faults)), slow: map[int]bool{}, under: dst, seed: seed, pushing: map[int]int{}}
	for _, s := range c.Slow {
		f.slow[s] = true
	}
	// the context is created inside do() (under testing/synctest: inside the bubble)
	var ctx context.Context
	var cmu sync.Mutex
	var cancelFn context.CancelFunc
	cancel := func() {
		cmu.Lock()
		cf := cancelFn
		cmu.Unlock()
		if cf != nil {
			cf()
		}
	}
	defer cancel()
	f.cancel = cancel
	gs, ok := src.(content.ReadOnlyGraphStorage)
	if !ok {
		panic("source is not a graph storage")
	}
	sw := &fsrc{f: f, under: gs}
	dw := &fdst{f: f}
	cb := func(kind string) func(context.Context, ocispec.Descriptor) error {
		return func(_ context.Context, d ocispec.Descriptor) error {
			n := f.node(d)
			if f.hit(kind, n, false) {
				f.ev(fmt.Sprintf("CF.%s.%d", kind, n), 0, 0)
				f.pause(n)
				return errFault
			}
			f.ev(fmt.Sprintf("CB.%s.%d", kind, n), 0, 0)
			f.pause(n)
			return nil
		}
	}
	gopts := oras.CopyGraphOptions{Concurrency: c.K, PreCopy: cb("pre"), PostCopy: cb("post"), OnCopySkipped: cb("skip")}
	if c.CustomFS {
		// a user FindSuccessors: content.Successors behind a fault point "findsucc" (before: nothing fetched yet;
		// after: the successors are known, none is dispatched)
		gopts.FindSuccessors = func(ctx context.Context, fetcher content.Fetcher, d ocispec.Descriptor) ([]ocispec.Descriptor, error) {
			n := f.node(d)
			if f.hit("findsucc", n, false) {
				f.ev(fmt.Sprintf("FX.%d", n), 0, 0)
				return nil, errFault
			}
			su, err := content.Successors(ctx, fetcher, d)
			if err != nil {
				return nil, err // (the failing fetch / read was logged as SX / SR)
			}
			if f.hit("findsucc", n, true) {
				f.ev(fmt.Sprintf("FX.%d", n), 0, 0)
				return nil, errFault
			}
			return su, nil
		}
	}
	isSet := func(i int) bool { return len(c.NilCb) != 5 || c.NilCb[i] == '1' }
	if !isSet(0) {
		gopts.PreCopy = nil
	}
	if !isSet(1) {
		gopts.PostCopy = nil
	}
	if !isSet(2) {
		gopts.OnCopySkipped = nil
	}
	if c.Mount {
		if isSet(3) {
			gopts.OnMounted = cb("mounted")
		}
		gopts.MountFrom = func(_ context.Context, d ocispec.Descriptor) ([]string, error) {
			n := f.node(d)
			if f.hit("mountfrom", n, false) {
				f.ev(fmt.Sprintf("CF.mountfrom.%d", n), 0, 0)
				f.pause(n)
				return nil, errFault
			}
			f.ev(fmt.Sprintf("CB.mountfrom.%d", n), 0, 0)
			f.pause(n)
			k := int(fhash(f.seed, uint64(n+1), "mountfrom") % 4)
			return []string{"repo/a", "repo/b", "repo/c"}[:k], nil
		}
	}
	var gdst content.Storage = dw
	if c.Mount {
		gdst = fdstMount{dw}
	}
	call := &FCall{TagNode: -1}
	do := func() {
		c0, cf := context.WithCancel(context.Background())
		defer cf() // (inside the bubble under testing/synctest)
		cmu.Lock()
		ctx, cancelFn = c0, cf
		cmu.Unlock()
		if preCancel {
			f.ev("CN", 0, 0)
			cancel()
		}
		switch c.API {
		case "g":
			call.Err = oras.CopyGraph(ctx, sw, gdst, g.Nodes[c.Root].Desc, gopts)
		case "x":
			xo := oras.ExtendedCopyGraphOptions{CopyGraphOptions: gopts}
			if len(c.Cut) > 0 {
				// a filtering FindPredecessors: the cut nodes have "no predecessors" and become roots, although
				// other roots reach them (the case extendedcopy.go's region.End() before copyGraph is written for)
				xo.FindPredecessors = func(ctx context.Context, s content.ReadOnlyGraphStorage, d ocispec.Descriptor) ([]ocispec.Descriptor, error) {
					ps, err := s.Predecessors(ctx, d)
					if err != nil {
						return nil, err
					}
					if inSet(c.Cut, f.node(d)) {
						return nil, nil
					}
					return ps, nil
				}
			}
			call.Err = oras.ExtendedCopyGraph(ctx, sw, gdst, g.Nodes[c.Root].Desc, xo)
		default:
			opts := oras.CopyOptions{CopyGraphOptions: gopts}
			if c.MapRoot {
				opts.MapRoot = func(_ context.Context, _ content.ReadOnlyStorage, root ocispec.Descriptor) (ocispec.Descriptor, error) {
					f.pause(-1)
					if f.hit("maproot", -1, false) {
						f.ev("QX", 0, 0)
						return ocispec.Descriptor{}, errFault
					}
					f.ev("QK", 0, 0)
					return root, nil
				}
			}
			var d oras.Target = dw
			if c.API == "r" {
				d = fdstRef{dw}
			} else if c.Mount {
				d = fdstMount{dw}
			}
			var cs oras.ReadOnlyTarget = fsrcT{sw, src, f}
			if c.RefFetch {
				cs = fsrcTRef{fsrcT{sw, src, f}}
			}
			_, call.Err = oras.Copy(ctx, cs, fSrcRef, d, fDstRef, opts)
		}
		// the return is logged at once: a straggler goroutine that outlives the call logs AFTER it
		// and the transition system rejects the trace (nothing follows Ret)
		if call.Err == nil {
			r.ev("RT.1", 0, 0)
		} else {
			r.ev("RT.0", 0, 0)
		}
	}
	base := runtime.NumGoroutine()
	if c.Sched && T != nil {
		f.fs = &fsched{rng: common.NewRand(seed ^ 0x5ced)}
		call.Stuck = runFScheduled(f.fs, do, cancel, func(k int) {
			if cancelAt > 0 && k == cancelAt {
				// the call has not returned (checked by the caller of this hook) and every goroutine is blocked
				f.fmu.Lock()
				f.nfired++
				f.extraFired = append(f.extraFired, fmt.Sprintf("cancel-at-quiescent-point@%d", k))
				f.fmu.Unlock()
				f.ev("CN", 0, 0)
				cancel()
			}
		})
	} else {
		done := make(chan struct{})
		go func() {
			defer close(done)
			do()
		}()
		select {
		case <-done:
		case <-time.After(watchdog):
			call.Hang = true
			cancel()
			r.mu.Lock()
			call.Toks = append([]string(nil), r.toks...)
			r.mu.Unlock()
			return call
		}
		// goroutines back to the baseline (grace period: the machine is loaded)
		for i := 0; i < 500 && runtime.NumGoroutine() > base; i++ {
			time.Sleep(time.Duration(1+i/10) * time.Millisecond)
		}
		if n := runtime.NumGoroutine(); n > base {
			call.Leak = n - base
		}
	}
	r.mu.Lock()
	call.Toks = append([]string(nil), r.toks...)
	r.mu.Unlock()
	call.Fired = f.nfired
	for i, ft := range faults {
		if f.fired[i] {
			call.FiredL = append(call.FiredL, ft.String())
		}
	}
	call.FiredL = append(call.FiredL, f.extraFired...)
	if preCancel {
		call.Fired++
		call.FiredL = append(call.FiredL, "precancel")
	}
	call.Viol = f.viol
	observe(context.Background(), dst, g, r, c.API == "t" || c.API == "r", call)
	return call
}

// ExecuteF runs the case: the faulty call, then the fault-free rerun on the same stores.
func ExecuteF(c *FCase, watchdog time.Duration) *FResult {
	ctx := context.Background()
	g := dag.Decode(c.Graph)
	res := &FResult{Case: c, G: g, Roots: FRoots(c, g)}
	sdir, ddir := "", ""
	if c.Src != "mem" {
		sdir = tmpDir("fsrc")
		defer os.RemoveAll(sdir)
	}
	if c.Dst != "mem" {
		ddir = tmpDir("fdst")
		defer os.RemoveAll(ddir)
	}
	src, closeSrc, err := newStore(c.Src, sdir)
	if err != nil {
		res.SetupErr = err
		return res
	}
	defer closeSrc()
	all := make([]int, len(g.Nodes))
	for i := range all {
		all[i] = i
	}
	if err := populate(ctx, src, c.Src, g, all, false); err != nil {
		res.SetupErr = err
		return res
	}
	if c.API == "t" || c.API == "r" {
		if err := src.Tag(ctx, g.Nodes[c.Root].Desc, fSrcRef); err != nil {
			res.SetupErr = fmt.Errorf("tag source: %w", err)
			return res
		}
	}
	dst, closeDst, err := newStore(c.Dst, ddir)
	if err != nil {
		res.SetupErr = err
		return res
	}
	defer closeDst()
	if err := populate(ctx, dst, c.Dst, g, append([]int(nil), c.D0...), false); err != nil {
		res.SetupErr = err
		return res
	}
	res.First = runCall(c, g, src, dst, c.Faults, c.PreCancel, c.CancelAt, c.Seed, watchdog)
	if res.First.Hang {
		return res
	}
	res.Rerun = runCall(c, g, src, dst, nil, false, 0, c.Seed^0x9e3779b97f4a7c15, watchdog)
	return res
}

// ---- projections for the model (ml/c02_main.ml) ----

func fModelInput(c *FCase, g *dag.Graph, roots []int, d0 []int, toks []string, rp string) string {
	var nodes []string
	first := map[string]int{}
	for _, n := range g.Nodes {
		fl := ""
		if n.Foreign() {
			fl += "f"
		}
		if n.IsManifest() {
			fl += "m"
		}
		if fl == "" {
			fl = "-"
		}
		dk := n.ID
		if DigestKeyed(c.Dst) {
			k := n.Desc.Digest.String()
			if c.Dst == "remote" {
				k = fmt.Sprint(n.IsManifest(), k) // a registry keeps manifests and blobs apart
			}
			if f0, ok := first[k]; ok {
				dk = f0
			} else {
				first[k] = n.ID
			}
		}
		nodes = append(nodes, fmt.Sprintf("%s/%d/%s", fl, dk, ints(n.Succ)))
	}
	tr := "-"
	if len(toks) > 0 {
		tr = strings.Join(toks, ",")
	}
	d := append([]int(nil), d0...)
	sort.Ints(d)
	api := c.API
	if c.Mount {
		api += "m"
	}
	// resolveRoot through a ReferenceFetcher leaves the resolved manifest in the proxy cache (a manifest is read
	// completely by content.Successors; an empty blob is "completely read" too; any other blob is left unread
	// and its cache push fails the size check)
	if c.RefFetch && (c.API == "t" || c.API == "r") && (g.Nodes[c.Root].IsManifest() || len(g.Nodes[c.Root].Bytes) == 0) {
		api += "c"
	}
	if len(c.NilCb) == 5 {
		api += "/" + c.NilCb
	}
	return fmt.Sprintf("%d %d %s %s %s %s %s %s", len(g.Nodes), c.K, api, ints(roots), strings.Join(nodes, ";"), ints(d), tr, rp)
}

func presentList(p []bool) []int {
	var out []int
	for i, b := range p {
		if b {
			out = append(out, i)
		}
	}
	return out
}

func closedPresent(g *dag.Graph, p []bool) (int, int) {
	for _, n := range g.Nodes {
		if !p[n.ID] {
			continue
		}
		for _, s := range n.Succ {
			if !g.Nodes[s].Foreign() && !p[s] {
				return n.ID, s
			}
		}
	}
	return -1, -1
}

func fImplObs(c *FCase, g *dag.Graph, call *FCall) string {
	ret := "0"
	if call.Err == nil {
		ret = "1"
	}
	cl := "1"
	if a, _ := closedPresent(g, call.Present); a >= 0 {
		cl = "0"
	}
	tag := "-"
	if (c.API == "t" || c.API == "r") && call.TagNode >= 0 {
		tag = fmt.Sprint(call.TagNode)
	}
	return fmt.Sprintf("ACC ret=%s tag=%s dst=%s closed=%s", ret, tag, ints(presentList(call.Present)), cl)
}

func rpToken(c *FCase) string {
	js, _ := json.Marshal(struct {
		Stream   string `json:"stream"`
		GenSeed  uint64 `json:"genseed"`
		Thorough bool   `json:"thorough"`
		Seed     uint64 `json:"seed"`
		Variant  string `json:"variant,omitempty"`
	}{c.Stream, c.GenSeed, c.Thorough, c.Seed, variantOf(c)})
	return "rp=J" + base64.RawURLEncoding.EncodeToString(js)
}

// variantOf: the thorough "exh" stream derives its cases from a generated base case by
// replacing the fault plan; the replay then carries the plan itself.
func variantOf(c *FCase) string {
	if c.Stream != "exh" {
		return ""
	}
	js, _ := json.Marshal(struct {
		F []Fault `json:"f"`
		S bool    `json:"s"`
	}{c.Faults, c.Sched})
	return string(js)
}

// ---- generator ----

func fDesc(mt string, bs []byte) ocispec.Descriptor {
	return ocispec.Descriptor{MediaType: mt, Digest: digest.FromBytes(bs), Size: int64(len(bs))}
}

// sharedGraph: blobs, image manifests over (config + layers) drawn from the blobs with much
// sharing, one index over all manifests (and sometimes an index over that): the shape
// R -> A, B; A -> C, D; B -> C and its relatives.
func sharedGraph(r *common.Rand, tag uint64) *dag.Graph {
	g := &dag.Graph{}
	nb := 2 + r.Intn(4)
	for i := 0; i < nb; i++ {
		bs := []byte(fmt.Sprintf("shared-blob-%d-%d-%d", tag, i, r.U64()))
		g.Nodes = append(g.Nodes, &dag.Node{ID: i, Kind: dag.KBlob, Bytes: bs, Desc: fDesc(ocispec.MediaTypeImageLayer, bs), Subject: -1, TwinOf: -1})
	}
	nm := 2 + r.Intn(3)
	var ms []int
	for j := 0; j < nm; j++ {
		id := len(g.Nodes)
		cfg := r.Intn(nb)
		m := ocispec.Manifest{MediaType: ocispec.MediaTypeImageManifest, Config: g.Nodes[cfg].Desc, Layers: []ocispec.Descriptor{}}
		m.SchemaVersion = 2
		m.Annotations = map[string]string{"verif.shared": fmt.Sprintf("%d-%d", tag, id)}
		nd := &dag.Node{ID: id, Kind: dag.KImage, Subject: -1, TwinOf: -1, Succ: []int{cfg}, Annotations: m.Annotations}
		for k, nl := 0, r.Intn(3); k < nl; k++ {
			l := r.Intn(nb)
			m.Layers = append(m.Layers, g.Nodes[l].Desc)
			nd.Succ = append(nd.Succ, l)
		}
		bs, _ := json.Marshal(m)
		nd.Bytes, nd.Desc = bs, fDesc(m.MediaType, bs)
		g.Nodes = append(g.Nodes, nd)
		ms = append(ms, id)
	}
	mkIndex := func(members []int) int {
		id := len(g.Nodes)
		ix := ocispec.Index{MediaType: ocispec.MediaTypeImageIndex, Manifests: []ocispec.Descriptor{}}
		ix.SchemaVersion = 2
		ix.Annotations = map[string]string{"verif.shared": fmt.Sprintf("%d-%d", tag, id)}
		nd := &dag.Node{ID: id, Kind: dag.KIndex, Subject: -1, TwinOf: -1}
		for _, m := range members {
			ix.Manifests = append(ix.Manifests, g.Nodes[m].Desc)
			nd.Succ = append(nd.Succ, m)
		}
		bs, _ := json.Marshal(ix)
		nd.Bytes, nd.Desc = bs, fDesc(ix.MediaType, bs)
		g.Nodes = append(g.Nodes, nd)
		return id
	}
	top := mkIndex(ms)
	if r.Chance(1, 4) {
		mkIndex([]int{top, ms[0]})
	}
	return g
}

// shared2 roles: node ids of the two-level sharing shape
//
//	R -> M1, G, G2 ;  M1 -> X ;  P -> X ;  G -> P, Q, S ;  G2 -> P
//
// P is a shared NON-LEAF node (claimed under one of G / G2, awaited by the other in another frame),
// its successor X is claimed elsewhere (M1) and may be slow, Q is the sibling of P whose transfer
// fails, S a slow sibling that keeps G's syncutil.Go from returning.
type shared2Roles struct{ X, P, Q, S, M1, G, G2, R int }

func shared2Graph(r *common.Rand, tag uint64) (*dag.Graph, shared2Roles, []int) {
	g := &dag.Graph{}
	blob := func(name string) int {
		id := len(g.Nodes)
		bs := []byte(fmt.Sprintf("shared2-%s-%d-%d-%d", name, tag, id, r.U64()))
		g.Nodes = append(g.Nodes, &dag.Node{ID: id, Kind: dag.KBlob, Bytes: bs, Desc: fDesc(ocispec.MediaTypeImageLayer, bs), Subject: -1, TwinOf: -1})
		return id
	}
	image := func(cfg int, layers ...int) int {
		id := len(g.Nodes)
		m := ocispec.Manifest{MediaType: ocispec.MediaTypeImageManifest, Config: g.Nodes[cfg].Desc, Layers: []ocispec.Descriptor{}}
		m.SchemaVersion = 2
		m.Annotations = map[string]string{"verif.shared2": fmt.Sprintf("%d-%d", tag, id)}
		nd := &dag.Node{ID: id, Kind: dag.KImage, Subject: -1, TwinOf: -1, Succ: []int{cfg}, Annotations: m.Annotations}
		for _, l := range layers {
			m.Layers = append(m.Layers, g.Nodes[l].Desc)
			nd.Succ = append(nd.Succ, l)
		}
		bs, _ := json.Marshal(m)
		nd.Bytes, nd.Desc = bs, fDesc(m.MediaType, bs)
		g.Nodes = append(g.Nodes, nd)
		return id
	}
	index := func(members ...int) int {
		id := len(g.Nodes)
		ix := ocispec.Index{MediaType: ocispec.MediaTypeImageIndex, Manifests: []ocispec.Descriptor{}}
		ix.SchemaVersion = 2
		ix.Annotations = map[string]string{"verif.shared2": fmt.Sprintf("%d-%d", tag, id)}
		nd := &dag.Node{ID: id, Kind: dag.KIndex, Subject: -1, TwinOf: -1}
		for _, m := range members {
			ix.Manifests = append(ix.Manifests, g.Nodes[m].Desc)
			nd.Succ = append(nd.Succ, m)
		}
		bs, _ := json.Marshal(ix)
		nd.Bytes, nd.Desc = bs, fDesc(ix.MediaType, bs)
		g.Nodes = append(g.Nodes, nd)
		return id
	}
	var ro shared2Roles
	var extra []int // descendants of S / X: more candidates for "slow"
	ro.X = blob("x")
	// Q and S: a blob, or a small image manifest (then its config is a further place for the fault / the delay)
	mk := func(name string) (int, int) {
		b := blob(name)
		if r.Bool() {
			return image(b), b
		}
		return b, -1
	}
	var qc, sc int
	ro.Q, qc = mk("q")
	ro.S, sc = mk("s")
	_ = qc
	if sc >= 0 {
		extra = append(extra, sc)
	}
	if r.Chance(1, 3) {
		ro.P = image(ro.X, blob("pl"))
	} else {
		ro.P = image(ro.X)
	}
	ro.M1 = image(ro.X)
	gm := []int{ro.P, ro.Q, ro.S}
	common.Shuffle(r, gm)
	ro.G = index(gm...)
	if r.Chance(1, 3) {
		ro.G2 = index(ro.P, image(blob("g2c")))
	} else {
		ro.G2 = index(ro.P)
	}
	rm := []int{ro.M1, ro.G, ro.G2}
	common.Shuffle(r, rm)
	ro.R = index(rm...)
	return g, ro, extra
}

// distinctDigests: no two nodes with one digest, except blob twins (same bytes under two blob media types:
// both leaves, so mt_consistent holds) when allowTwins
func distinctDigests(g *dag.Graph, allowTwins bool) bool {
	seen := map[string]*dag.Node{}
	for _, n := range g.Nodes {
		k := n.Desc.Digest.String()
		if o, dup := seen[k]; dup {
			if !allowTwins || n.IsManifest() || o.IsManifest() || len(n.Succ) > 0 || len(o.Succ) > 0 || n.Desc.MediaType == o.Desc.MediaType {
				return false
			}
		}
		seen[k] = n
	}
	return true
}

var fOps = []string{"exists", "exists", "fetch", "fetch", "read", "read", "push", "push", "push", "pre", "post", "skip"}

// GenerateF builds the case of a stream from its seed.
func GenerateF(genseed uint64, stream string, thorough bool) *FCase {
	r := common.NewRand(genseed)
	c := &FCase{Stream: stream, GenSeed: genseed, Thorough: thorough}
	if stream == "shared2" || stream == "schedshared2" {
		return generateShared2(r, c)
	}
	var g *dag.Graph
	twins := false
	shared := stream == "shared" || stream == "schedshared" || ((stream == "exh") && r.Chance(1, 2))
	for {
		if shared {
			g = sharedGraph(r, genseed)
		} else {
			o := dag.DefaultOptions()
			o.Twins = false
			if thorough && stream != "exh" {
				o.MaxNodes = 10 + r.Intn(10)
			}
			if stream == "exh" {
				o.MaxNodes = 8
			}
			g = dag.Random(r, o)
			if stream == "rand" && r.Chance(1, 5) {
				addBlobTwin(r, g) // same bytes under two blob media types, referenced by further manifests
				twins = true
			}
		}
		real := false
		for _, n := range g.Nodes {
			if !n.Foreign() {
				real = true
			}
		}
		if real && distinctDigests(g, twins) {
			break
		}
	}
	c.Graph = g.Encode()
	c.Seed = r.U64()
	var manifests, nonforeign []int
	for _, n := range g.Nodes {
		if n.Foreign() {
			continue
		}
		nonforeign = append(nonforeign, n.ID)
		if n.IsManifest() {
			manifests = append(manifests, n.ID)
		}
	}
	c.API = common.Pick(r, []string{"g", "g", "g", "t", "r", "x", "x"})
	bigRoot := func() int {
		best, bestN := nonforeign[0], -1
		for _, i := range g.Roots() {
			if k := len(g.Reach(i)); k > bestN {
				best, bestN = i, k
			}
		}
		return best
	}
	switch {
	case c.API == "x":
		c.Root = common.Pick(r, nonforeign)
	case shared || r.Chance(1, 2):
		c.Root = bigRoot()
	case len(manifests) > 0 && r.Chance(4, 5):
		c.Root = common.Pick(r, manifests)
	default:
		c.Root = common.Pick(r, nonforeign)
	}
	set := g.RandomClosedSubset(r, common.Pick(r, []int{0, 0, 0, 10, 30}))
	for k := range set {
		c.D0 = append(c.D0, k)
	}
	sort.Ints(c.D0)
	c.K = common.Pick(r, []int{1, 2, 2, 3, 3, 8, 0})
	c.Src = common.Pick(r, []string{"mem", "mem", "mem", "oci"})
	c.Dst = common.Pick(r, []string{"mem", "mem", "mem", "oci"})
	if (c.API == "t" || c.API == "r") && r.Chance(1, 3) {
		c.MapRoot = true
	}
	c.Sched = stream == "sched" || stream == "schedshared"
	// a remote.Repository over the in-process registry as destination (free-running only; registries tag
	// manifests only, so Copy needs a manifest root; the harness-side Mounter wrapper is not combined with it)
	if !c.Sched && r.Chance(1, 6) && (c.API == "g" || c.API == "x" || g.Nodes[c.Root].IsManifest()) {
		c.Dst = "remote"
	}
	if !c.Sched && c.API != "x" && r.Chance(1, 8) && (c.API == "g" || g.Nodes[c.Root].IsManifest()) {
		c.Src = "remote"
	}
	// the file store (blobs without a title go to its in-memory fallback storage), free-running only
	if !c.Sched && c.Dst != "remote" && r.Chance(1, 10) {
		c.Dst = "file"
	}
	if !c.Sched && c.Src != "remote" && r.Chance(1, 12) {
		c.Src = "file"
	}
	if c.API != "r" && c.Dst != "remote" && !twins && r.Chance(1, 4) {
		// (twins and Mount are not combined, as in C01: the model's Mount path has no "already there" answer)
		c.Mount = true
	}
	if (c.API == "t" || c.API == "r") && r.Chance(1, 3) {
		c.RefFetch = true
	}
	if r.Chance(1, 4) {
		c.CustomFS = true
	}
	if r.Chance(1, 4) {
		// some callbacks are nil (their invocations are inserted by the model's elaboration)
		bs := []byte("11111")
		for i := 0; i < 4; i++ {
			if r.Bool() {
				bs[i] = '0'
			}
		}
		c.NilCb = string(bs)
	}

	if c.API == "x" && r.Chance(1, 2) {
		// nested roots: cut the upward walk at one or two ancestors that do have predecessors
		var cand []int
		for _, a := range fAncestors(c, g) {
			if len(g.Preds(a)) > 0 {
				cand = append(cand, a)
			}
		}
		for i := 0; i < 2 && len(cand) > 0; i++ {
			if i == 0 || r.Chance(1, 3) {
				c.Cut = append(c.Cut, common.Pick(r, cand))
			}
		}
		sort.Ints(c.Cut)
	}
	if c.Sched && r.Chance(1, 5) {
		c.CancelAt = 1 + r.Intn(40)
	}
	roots := FRoots(c, g)
	reach := map[int]bool{}
	for _, rt := range roots {
		for k := range g.Reach(rt) {
			reach[k] = true
		}
	}
	var todo []int // reachable nodes that are not in the initial destination: they will be worked on
	var rl []int
	for k := range reach {
		rl = append(rl, k)
		if !set[k] {
			todo = append(todo, k)
		}
	}
	sort.Ints(rl)
	sort.Ints(todo)
	pickNode := func() int {
		if len(todo) > 0 && r.Chance(4, 5) {
			return common.Pick(r, todo)
		}
		return common.Pick(r, rl)
	}
	randomFault := func() Fault {
		ft := Fault{Op: common.Pick(r, fOps), Node: pickNode(), After: r.Bool(), Cancel: r.Chance(1, 4)}
		if c.API == "x" && r.Chance(1, 5) {
			ft.Op, ft.Node = "pred", common.Pick(r, fAncestors(c, g))
		}
		if c.MapRoot && r.Chance(1, 3) {
			ft.Op, ft.Node, ft.After = "maproot", -1, false
		}
		if c.API == "t" && r.Chance(1, 6) {
			ft.Op, ft.Node = "tag", c.Root
		}
		if (c.API == "t" || c.API == "r") && r.Chance(1, 10) {
			ft.Op, ft.Node, ft.After = "resolve", -1, false
		}
		if c.RefFetch && r.Chance(1, 8) {
			ft.Op, ft.Node = "rootread", -1
		}
		if c.CustomFS && ft.Node >= 0 && r.Chance(1, 4) {
			ft.Op = "findsucc"
		}
		if c.Mount && ft.Node >= 0 && !g.Nodes[ft.Node].IsManifest() && r.Chance(3, 4) {
			ft.Op = common.Pick(r, []string{"mount", "mount", "mountfrom", "mounted", "pre", "fetch"})
		}
		if set[ft.Node] && (ft.Op == "push" || ft.Op == "fetch" || ft.Op == "pre" || ft.Op == "post") && r.Chance(2, 3) {
			ft.Op = common.Pick(r, []string{"exists", "skip"})
		}
		return ft
	}
	if shared {
		// a failing transfer of a shared node while a sibling is slow
		parents := map[int][]int{}
		for _, n := range g.Nodes {
			seen := map[int]bool{}
			for _, s := range n.Succ {
				if !seen[s] && reach[n.ID] {
					parents[s] = append(parents[s], n.ID)
				}
				seen[s] = true
			}
		}
		var sh []int
		for s, ps := range parents {
			if len(ps) >= 2 && !set[s] {
				sh = append(sh, s)
			}
		}
		sort.Ints(sh)
		if len(sh) > 0 {
			v := common.Pick(r, sh)
			c.Faults = append(c.Faults, Fault{Op: common.Pick(r, []string{"push", "push", "fetch", "exists", "pre", "post"}), Node: v, After: r.Bool()})
			// slow: siblings of v under one of its parents
			p := common.Pick(r, parents[v])
			for _, s := range g.Nodes[p].Succ {
				if s != v && r.Chance(3, 4) {
					c.Slow = append(c.Slow, s)
				}
			}
			if c.K == 1 {
				c.K = 2
			}
		} else {
			c.Faults = append(c.Faults, randomFault())
		}
		if r.Chance(1, 4) {
			c.Faults = append(c.Faults, randomFault())
		}
	} else {
		switch {
		case r.Chance(1, 12): // fault-free: must succeed
		case r.Chance(1, 15):
			c.PreCancel = true
		default:
			for i, n := 0, 1+r.Intn(3); i < n; i++ {
				c.Faults = append(c.Faults, randomFault())
			}
		}
		if r.Chance(1, 3) {
			for i, n := 0, 1+r.Intn(2); i < n; i++ {
				c.Slow = append(c.Slow, common.Pick(r, rl))
			}
		}
	}
	return c
}

// generateShared2: two-level sharing.  The transfer of Q (a sibling of the shared non-leaf node P)
// fails while P waits for its successor X, which was claimed elsewhere; S keeps the group of
// P's parent G busy, so that the other parent G2 (another frame, context not yet cancelled) looks at
// P's done channel.  The property demands that G2 is NOT pushed (P is absent).
func generateShared2(r *common.Rand, c *FCase) *FCase {
	g, ro, extra := shared2Graph(r, c.GenSeed)
	c.Graph = g.Encode()
	c.Seed = r.U64()
	c.API = common.Pick(r, []string{"g", "g", "g", "t", "x"})
	c.Root = ro.R
	if c.API == "x" {
		c.Root = common.Pick(r, []int{ro.X, ro.P, ro.Q})
	}
	c.K = common.Pick(r, []int{8, 8, 8, 4, 0, 3})
	c.Src = common.Pick(r, []string{"mem", "mem", "mem", "oci"})
	c.Dst = common.Pick(r, []string{"mem", "mem", "mem", "oci"})
	c.Sched = c.Stream == "schedshared2"
	// the failing transfer: Q itself, or a successor of Q (then Q's own syncutil.Go fails)
	fn := ro.Q
	if su := g.Nodes[ro.Q].Succ; len(su) > 0 && r.Chance(1, 3) {
		fn = su[0]
	}
	op := common.Pick(r, []string{"push", "push", "push", "fetch", "read", "exists", "pre", "post"})
	c.Faults = []Fault{{Op: op, Node: fn, After: r.Bool() && op != "push"}}
	// slow: the grandchild claimed elsewhere and the other sibling (+ its descendants), sometimes M1 too
	switch v := r.Intn(8); {
	case v < 4:
		// X (claimed elsewhere) is slow: P sits in its wait when its context is cancelled
		c.Slow = append(c.Slow, ro.X)
	case v < 6:
		// P itself is late: when it reaches its wait, X is done AND its context is cancelled (the select may
		// take either arm; after the done arm, region.Start fails)
		c.Slow = append(c.Slow, ro.P)
	default:
		// few permits, all held by Q (about to fail) and the slow S: P is blocked in region.Start when
		// its context is cancelled
		c.K = common.Pick(r, []int{2, 2, 3})
		if op == "exists" || op == "pre" {
			c.Faults[0].Op = "push"
			c.Faults[0].After = false
		}
	}
	if r.Chance(7, 8) {
		c.Slow = append(c.Slow, ro.S)
		c.Slow = append(c.Slow, extra...)
	}
	if r.Chance(1, 4) {
		c.Slow = append(c.Slow, ro.M1)
	}
	if r.Chance(1, 8) {
		c.Faults = append(c.Faults, Fault{Op: common.Pick(r, fOps), Node: common.Pick(r, []int{ro.S, ro.X, ro.M1, ro.G2}), After: r.Bool(), Cancel: r.Chance(1, 3)})
	}
	return c
}

// allPlacements: every single fault placement of the case (thorough "exh" stream).
func allPlacements(c *FCase, g *dag.Graph) []Fault {
	roots := FRoots(c, g)
	reach := map[int]bool{}
	for _, rt := range roots {
		for k := range g.Reach(rt) {
			reach[k] = true
		}
	}
	var rl []int
	for k := range reach {
		rl = append(rl, k)
	}
	sort.Ints(rl)
	var out []Fault
	for _, n := range rl {
		for _, op := range []string{"exists", "fetch", "read", "push"} {
			for _, after := range []bool{false, true} {
				for _, cn := range []bool{false, true} {
					out = append(out, Fault{Op: op, Node: n, After: after, Cancel: cn})
				}
			}
		}
		for _, op := range []string{"pre", "post", "skip"} {
			for _, cn := range []bool{false, true} {
				out = append(out, Fault{Op: op, Node: n, Cancel: cn})
			}
		}
	}
	if c.API == "x" {
		for _, n := range fAncestors(c, g) {
			for _, after := range []bool{false, true} {
				for _, cn := range []bool{false, true} {
					out = append(out, Fault{Op: "pred", Node: n, After: after, Cancel: cn})
				}
			}
		}
	}
	if c.MapRoot {
		out = append(out, Fault{Op: "maproot", Node: -1}, Fault{Op: "maproot", Node: -1, Cancel: true})
	}
	if c.API == "t" || c.API == "r" {
		out = append(out, Fault{Op: "resolve", Node: -1}, Fault{Op: "resolve", Node: -1, Cancel: true})
	}
	if c.CustomFS {
		for _, n := range rl {
			for _, after := range []bool{false, true} {
				for _, cn := range []bool{false, true} {
					out = append(out, Fault{Op: "findsucc", Node: n, After: after, Cancel: cn})
				}
			}
		}
	}
	if c.RefFetch {
		out = append(out, Fault{Op: "rootread", Node: -1}, Fault{Op: "rootread", Node: -1, After: true}, Fault{Op: "rootread", Node: -1, Cancel: true})
	}
	if c.API == "t" {
		for _, after := range []bool{false, true} {
			for _, cn := range []bool{false, true} {
				out = append(out, Fault{Op: "tag", Node: c.Root, After: after, Cancel: cn})
			}
		}
	}
	if c.Mount {
		for _, n := range rl {
			if g.Nodes[n].IsManifest() {
				continue
			}
			for _, cn := range []bool{false, true} {
				out = append(out, Fault{Op: "mount", Node: n, Cancel: cn}, Fault{Op: "mount", Node: n, After: true, Cancel: cn},
					Fault{Op: "mountfrom", Node: n, Cancel: cn}, Fault{Op: "mounted", Node: n, Cancel: cn})
			}
		}
	}
	return out
}

// FFromReplay rebuilds the cases of a replay file: {"case": <FCase JSON>} or the
// regenerable form {"stream","genseed","thorough","seed","variant"}.
func FFromReplay(path string, thorough bool) []*FCase {
	var out []*FCase
	for _, m := range common.ReadReplay(path) {
		if js, ok := m["case"]; ok {
			var c FCase
			if err := json.Unmarshal([]byte(js), &c); err != nil {
				panic(fmt.Errorf("replay case: %w", err))
			}
			out = append(out, &c)
			continue
		}
		if s, ok := m["stream"]; ok {
			gs, err := strconv.ParseUint(strings.TrimSpace(m["genseed"]), 10, 64)
			if err != nil {
				panic(err)
			}
			th := thorough
			if t, ok := m["thorough"]; ok {
				th = t == "1" || t == "true"
			}
			c := GenerateF(gs, s, th)
			if sd, ok := m["seed"]; ok {
				if v, err := strconv.ParseUint(strings.TrimSpace(sd), 10, 64); err == nil {
					c.Seed = v
				}
			}
			if v, ok := m["variant"]; ok && v != "" {
				var vv struct {
					F []Fault `json:"f"`
					S bool    `json:"s"`
				}
				if json.Unmarshal([]byte(v), &vv) == nil {
					c.Faults, c.Sched, c.PreCancel = vv.F, vv.S, false
				}
			}
			out = append(out, c)
		}
	}
	return out
}

// ---- oracle + driver ----

type fReplayDoc struct {
	Case *FCase `json:"case"`
	Note string `json:"note,omitempty"`
}

// FBudget of one harness run.
type FBudget struct {
	Rand, Shared      int // free-running cases
	Shared2, SchedShared2 int // two-level sharing (a shared non-leaf node), free-running / controlled
	Sched, SchedShared int // controlled schedules (test binary only)
	Reps              int // extra schedules per generated case
	Exh               int // base cases whose every single fault placement is run (x ExhReps schedules)
	ExhReps           int
	Exh2              int // base cases (<= 5 reachable nodes) whose every PAIR of error placements is run (capped per base)
}

const FRule = "distinct (graph, API, root, initial destination, K, stores, fault plan) in which at least one fault or cancellation fired and the call's roots reach >= 3 nodes"

// DriveF generates / replays cases, runs them, writes model input + implementation
// observable for the faulty call and for the rerun, and applies C02's oracle.
func DriveF(run *common.Run, b FBudget) {
	h := sha256.Sum256([]byte(fmt.Sprintf("copyh/C02/%d", run.Seed)))
	rootRand := common.NewRand(binary.LittleEndian.Uint64(h[:8]))
	watchdog := 20 * time.Second
	stop := false // a confirmed hang costs 80 s of wall clock: one is enough for the verdict
	one := func(c *FCase) int {
		if stop {
			return 0
		}
		id := run.NewID()
		if js, err := json.Marshal(c); err == nil {
			os.WriteFile(currentCasePath(run.Dir), js, 0o644)
		}
		res := ExecuteF(c, watchdog)
		if res.SetupErr != nil {
			panic(fmt.Errorf("harness setup failed (not a property failure): %w", res.SetupErr))
		}
		if res.First.Hang || (res.Rerun != nil && res.Rerun.Hang) {
			// the machine is loaded: a hang must reproduce with a longer watchdog before it is reported
			res2 := ExecuteF(c, 60*time.Second)
			if res2.SetupErr == nil && !res2.First.Hang && (res2.Rerun == nil || !res2.Rerun.Hang) {
				run.Count("watchdog-not-reproduced")
				res = res2
			}
		}
		g := res.G
		rp := fReplayDoc{Case: c}
		fails := 0
		fail := func(sig, msg string) {
			fails++
			run.OracleFail(id, sig, msg, rp)
		}
		desc := fmt.Sprintf("nilcb=%q cut=%v cancelat=%d mounter=%v api=%s root=%d roots=%v K=%d %s->%s d0=%v faults=%v precancel=%v slow=%v sched=%v graph=%v",
			c.NilCb, c.Cut, c.CancelAt, c.Mount, c.API, c.Root, res.Roots, c.K, c.Src, c.Dst, c.D0, c.Faults, c.PreCancel, c.Slow, c.Sched, g.Describe())
		run.Count("stream=" + c.Stream)
		run.Count("api=" + c.API)
		run.Count("pair=" + c.Src + "->" + c.Dst)
		run.Count("K=" + strconv.Itoa(c.K))
		if c.Sched && T != nil {
			run.Count("controlled-schedule(synctest)")
		}
		if c.Mount {
			run.Count("dst-mounter")
		}
		if len(c.NilCb) == 5 {
			run.Count("nil-callbacks")
		}
		if c.RefFetch {
			run.Count("src-reference-fetcher")
		}
		if c.CustomFS {
			run.Count("custom-FindSuccessors")
		}
		{
			dg := map[string]bool{}
			for _, nd := range g.Nodes {
				if dg[nd.Desc.Digest.String()] {
					run.Count("blob-twin(same bytes, two media types)")
					if DigestKeyed(c.Dst) {
						run.Count("blob-twin into a digest-keyed destination")
					}
					break
				}
				dg[nd.Desc.Digest.String()] = true
			}
		}
		if len(c.Cut) > 0 {
			run.Count("nested-roots(FindPredecessors cut)")
			nested := false
			for _, a := range res.Roots {
				for _, b := range res.Roots {
					if a != b && g.Reach(a)[b] {
						nested = true
					}
				}
			}
			if nested {
				run.Count("nested-roots: a root is reachable from another root")
			}
		}
		if c.CancelAt > 0 {
			run.Count("cancel-at-quiescent-point planned")
		}
		if c.PreCancel {
			run.Count("pre-cancelled-context")
		}
		for _, ft := range c.Faults {
			k := "fault-planned=" + ft.Op
			if ft.Cancel {
				k += "+cancel"
			} else if ft.After && !isCallback(ft.Op) {
				k += "+after"
			}
			run.Count(k)
		}
		first := res.First
		if first.Hang {
			fail("hang", "the call did not return within the watchdog (20 s, reproduced with 60 s): "+desc+" trace="+strings.Join(first.Toks, ","))
			stop = true
			return fails
		}
		if first.Stuck {
			fail("hang", "controlled schedule: the call is stuck (no operation in flight, nothing runnable, not returned): "+desc+" trace="+strings.Join(first.Toks, ","))
		}
		for _, s := range first.FiredL {
			run.Count("fired=" + strings.SplitN(s, "@", 2)[0] + map[bool]string{true: "+cancel", false: ""}[strings.HasSuffix(s, "+cancel")])
		}
		d0 := append([]int(nil), c.D0...)
		run.Case(id, fModelInput(c, g, res.Roots, d0, first.Toks, rpToken(c)), fImplObs(c, g, first))
		run.TracesAgainstImpl++
		// 1. push ordering (monitor) and closure after the outcome
		for _, v := range first.Viol {
			fail("push-before-successors", v+": "+desc)
		}
		if a, s := closedPresent(g, first.Present); a >= 0 {
			fail("not-closed-after", fmt.Sprintf("after the call (err=%v) node %d is in the destination, its successor %d is not: %s", first.Err, a, s, desc))
		}
		// 2. failures surface
		if first.Fired > 0 && first.Err == nil {
			fail("fault-not-surfaced", fmt.Sprintf("faults %v fired before completion but the call returned nil: %s", first.FiredL, desc))
		}
		if first.Fired == 0 && first.Err != nil {
			fail("error-without-fault", fmt.Sprintf("no fault fired but the call returned %v: %s", first.Err, desc))
		}
		if first.Err != nil && first.Fired > 0 {
			onlyErr := true
			for _, fl := range first.FiredL {
				if strings.HasSuffix(fl, "+cancel") || strings.HasPrefix(fl, "precancel") || strings.HasPrefix(fl, "cancel-at") {
					onlyErr = false
				}
			}
			if onlyErr {
				if errors.Is(first.Err, errFault) {
					run.Count("error-identity: injected error returned")
				} else {
					run.Count("error-identity: OTHER error returned although only injected errors fired")
					run.Sample(map[string]any{"error_identity": fmt.Sprint(first.Err), "fired": first.FiredL, "case": desc})
				}
			}
		}
		if first.Err == nil {
			run.Count("first-call=ok")
		} else if errors.Is(first.Err, errFault) {
			run.Count("first-call=injected-error")
		} else if errors.Is(first.Err, context.Canceled) {
			run.Count("first-call=context-canceled")
		} else {
			run.Count("first-call=other-error")
		}
		if first.Leak > 0 {
			fail("goroutine-leak", fmt.Sprintf("%d goroutines more than before the call, 5 s after it returned: %s", first.Leak, desc))
		}
		// 3. the rerun completes the graph
		rr := res.Rerun
		if rr != nil {
			if rr.Hang {
				fail("hang", "the fault-free rerun did not return within the watchdog: "+desc)
				stop = true
				return fails
			}
			if rr.Stuck {
				fail("hang", "controlled schedule: the fault-free rerun is stuck: "+desc)
			}
			run.Case(id+"r", fModelInput(c, g, res.Roots, presentList(first.Present), rr.Toks, rpToken(c)), fImplObs(c, g, rr))
			run.TracesAgainstImpl++
			for _, v := range rr.Viol {
				fail("push-before-successors", "rerun: "+v+": "+desc)
			}
			if rr.Err != nil {
				fail("retry-failed", fmt.Sprintf("the fault-free rerun returned %v: %s", rr.Err, desc))
			} else {
				var missing, bad []int
				for _, rt := range res.Roots {
					for k := range g.Reach(rt) {
						if !rr.Present[k] {
							missing = append(missing, k)
						} else if !rr.BytesOK[k] {
							bad = append(bad, k)
						}
					}
				}
				sort.Ints(missing)
				sort.Ints(bad)
				if len(missing) > 0 {
					fail("retry-incomplete", fmt.Sprintf("after the fault-free rerun the reachable nodes %v are missing (first call: err=%v present=%v): %s",
						missing, first.Err, presentList(first.Present), desc))
				}
				if len(bad) > 0 {
					fail("retry-bytes", fmt.Sprintf("after the rerun nodes %v hold other bytes: %s", bad, desc))
				}
				if (c.API == "t" || c.API == "r") && rr.TagNode != c.Root {
					fail("retry-untagged", fmt.Sprintf("after the rerun the destination reference resolves to node %d, want %d: %s", rr.TagNode, c.Root, desc))
				}
			}
			if a, s := closedPresent(g, rr.Present); a >= 0 {
				fail("not-closed-after", fmt.Sprintf("after the rerun node %d is present, its successor %d is not: %s", a, s, desc))
			}
			if rr.Leak > 0 {
				fail("goroutine-leak", fmt.Sprintf("rerun: %d goroutines more than before the call: %s", rr.Leak, desc))
			}
		}
		nreach := map[int]bool{}
		for _, rt := range res.Roots {
			for k := range g.Reach(rt) {
				nreach[k] = true
			}
		}
		if first.Fired > 0 && len(nreach) >= 3 {
			run.Nontrivial(fmt.Sprintf("%v|%s|%d|%v|%d|%s|%s|%v|%v", g.Describe(), c.API, c.Root, c.D0, c.K, c.Src, c.Dst, c.Faults, c.PreCancel))
			if len(first.Toks) > 12 && first.Err != nil && len(presentList(first.Present)) > len(c.D0) {
				run.Sample(map[string]any{"graph": g.Describe(), "api": c.API, "root": c.Root, "roots": res.Roots, "d0": c.D0, "K": c.K,
					"pair": c.Src + "->" + c.Dst, "fired": first.FiredL, "error": fmt.Sprint(first.Err), "present_after": presentList(first.Present),
					"events": len(first.Toks), "sched": c.Sched})
			}
		}
		return fails
	}
	if run.Replay != "" {
		for _, c := range FFromReplay(run.Replay, run.Thorough()) {
			if one(c) > 0 {
				continue
			}
			for i := 0; i < run.Scale(40, 200); i++ { // other schedules of the same case
				c2 := *c
				c2.Seed = c.Seed + uint64(i+1)*7919
				if one(&c2) > 0 {
					break
				}
			}
		}
		os.Remove(currentCasePath(run.Dir))
		return
	}
	stream := func(name string, n, reps int) {
		for i := 0; i < n; i++ {
			c := GenerateF(rootRand.U64(), name, run.Thorough())
			one(c)
			for k := 0; k < reps; k++ {
				c2 := *c
				c2.Seed = c.Seed + uint64(k+1)*104729
				one(&c2)
			}
		}
	}
	stream("rand", b.Rand, b.Reps)
	stream("shared", b.Shared, b.Reps)
	stream("shared2", b.Shared2, b.Reps)
	if T != nil {
		stream("sched", b.Sched, b.Reps)
		stream("schedshared", b.SchedShared, b.Reps)
		stream("schedshared2", b.SchedShared2, b.Reps)
	}
	for i := 0; i < b.Exh; i++ {
		base := GenerateF(rootRand.U64(), "exh", run.Thorough())
		g := dag.Decode(base.Graph)
		pls := allPlacements(base, g)
		run.Extra["exhaustive_single_placements"] = maxInt(run.Extra["exhaustive_single_placements"], 0) + len(pls)
		for _, pl := range pls {
			for k := 0; k < b.ExhReps; k++ {
				c2 := *base
				c2.Faults, c2.PreCancel = []Fault{pl}, false
				c2.Sched = T != nil && k%2 == 1
				c2.Seed = base.Seed + uint64(k)*104729
				one(&c2)
			}
		}
	}
	for i, tries := 0, 0; i < b.Exh2 && tries < 50*b.Exh2; tries++ {
		base := GenerateF(rootRand.U64(), "exh", run.Thorough())
		g := dag.Decode(base.Graph)
		nreach := map[int]bool{}
		for _, rt := range FRoots(base, g) {
			for k := range g.Reach(rt) {
				nreach[k] = true
			}
		}
		if len(nreach) < 3 || len(nreach) > 5 {
			continue
		}
		i++
		var pls []Fault
		for _, pl := range allPlacements(base, g) {
			if !pl.Cancel {
				pls = append(pls, pl)
			}
		}
		n := 0
		for a := 0; a < len(pls) && n < 1500; a++ {
			for bb := a + 1; bb < len(pls) && n < 1500; bb++ {
				if pls[a].Node == pls[bb].Node && pls[a].Op == pls[bb].Op {
					continue
				}
				c2 := *base
				c2.Faults, c2.PreCancel = []Fault{pls[a], pls[bb]}, false
				c2.Sched = T != nil && n%2 == 1
				c2.Seed = base.Seed + uint64(n)*104729
				one(&c2)
				n++
			}
		}
		run.Extra["exhaustive_double_placements"] = maxInt(run.Extra["exhaustive_double_placements"], 0) + n
	}
	os.Remove(currentCasePath(run.Dir))
}

// FRunAll is the child part (see FParent).
func FRunAll(run *common.Run, quick, thorough FBudget) {
	run.Rule = FRule
	b := quick
	if run.Thorough() {
		b = thorough
	}
	DriveF(run, b)
	run.Finish()
	if run.Replay == "" {
		// coverage floors: a run that silently exercised nothing must not pass (exit 3 = layer R broken)
		var low []string
		need := func(key string, min int) {
			if run.Dist[key] < min {
				low = append(low, fmt.Sprintf("%s=%d (< %d)", key, run.Dist[key], min))
			}
		}
		floor := func(budget int) int { return (budget + 1) / 2 }
		need("stream=rand", floor(b.Rand))
		need("stream=shared", floor(b.Shared))
		need("stream=shared2", floor(b.Shared2))
		if T != nil {
			need("stream=sched", floor(b.Sched))
			need("stream=schedshared", floor(b.SchedShared))
			need("stream=schedshared2", floor(b.SchedShared2))
			need("controlled-schedule(synctest)", floor(b.Sched+b.SchedShared+b.SchedShared2))
		}
		total := b.Rand + b.Shared + b.Shared2
		need("first-call=injected-error", total/4)
		need("first-call=context-canceled", total/40)
		need("first-call=ok", total/100)
		for _, k := range []string{"fired=push", "fired=fetch", "fired=exists", "fired=pre", "fired=post"} {
			need(k, total/60)
		}
		need("api=x", total/20)
		need("api=t", total/40)
		need("api=r", total/60)
		if len(low) > 0 && run.OracleFails == 0 {
			fmt.Fprintf(os.Stderr, "C02 harness: coverage floor not reached: %s\n", strings.Join(low, "; "))
			os.Exit(3)
		}
	}
}

// FParent runs the harness in a child process: a crash of the code under test (a panic in a
// goroutine of errgroup, a synctest deadlock) becomes an oracle failure carrying the case.
func FParent() int {
	cmd := exec.Command(os.Args[0], os.Args[1:]...)
	cmd.Env = append(os.Environ(), "COPYH_CHILD=1")
	var errb bytes.Buffer
	cmd.Stdout = os.Stdout
	cmd.Stderr = &errb
	err := cmd.Run()
	os.Stderr.Write(errb.Bytes())
	if err == nil {
		return 0
	}
	dir := argValue("dir")
	data, rerr := os.ReadFile(currentCasePath(dir))
	if dir == "" || rerr != nil {
		return 1
	}
	var c FCase
	if json.Unmarshal(data, &c) != nil {
		return 1
	}
	msg := errb.String()
	if strings.Contains(msg, "harness setup failed") {
		return 1 // (an unwritable TMPDIR, a malformed replay ...: a harness problem, not a verdict about the code)
	}
	sig := "crash"
	if strings.Contains(msg, "deadlock") {
		sig = "hang"
	}
	if i := strings.Index(msg, "panic:"); i >= 0 {
		msg = msg[i:]
	} else if i := strings.Index(msg, "fatal error:"); i >= 0 {
		msg = msg[i:]
	}
	if j := strings.Index(msg, "\n"); j >= 0 {
		msg = msg[:j]
	}
	js, _ := json.Marshal(fReplayDoc{Case: &c, Note: "the process crashed while running this case"})
	line := fmt.Sprintf("c0 FAIL %s the call crashed the process: %s %s\n", sig, strings.ReplaceAll(msg, "\n", " "), js)
	os.WriteFile(filepath.Join(dir, "oracle.txt"), []byte(line), 0o644)
	os.WriteFile(filepath.Join(dir, "cases.txt"), nil, 0o644)
	os.WriteFile(filepath.Join(dir, "impl.txt"), nil, 0o644)
	st, _ := json.Marshal(map[string]any{"evaluations": 1, "distinct_nontrivial": 0, "oracle_failures": 1,
		"rule": "run aborted by a crash of the code under test", "samples": []any{}, "input_distribution": map[string]int{}})
	os.WriteFile(filepath.Join(dir, "stats.json"), st, 0o644)
	return 0
}
