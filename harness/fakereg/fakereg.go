// Package fakereg is a small in-process OCI registry served through an
// http.RoundTripper (no sockets).  It implements the *listing* endpoints
//
//	GET /v2/_catalog
//	GET /v2/<name>/tags/list
//	GET /v2/<name>/referrers/<digest>
//
// plus a minimal read-only manifest endpoint (GET/HEAD /v2/<name>/manifests/<ref>
// over the Manifests map), enough for the referrers tag schema,
//
// with explicit, recorded server-side choices (a "split oracle"): how long
// each page is, what form the Link header takes, which extra parameters it
// carries, whether artifactType filtering is applied and how it is announced,
// how large the JSON document is and what follows it.  Every request/response
// pair is logged as an Exchange carrying the generator's ground truth (the
// page, the intended link target, the number of body bytes the client really
// consumed), so that a harness can (a) replay the server's answers to a model
// of the client and (b) judge the client independently of any model.
//
// Other paths are passed to Fallback (404 when nil); later properties (C13,
// C14) extend the registry there or add handlers of their own.
//
// Usage:
//
//	reg := fakereg.New("reg.test")
//	reg.Tags["repo"] = fakereg.Names("a", "b", "c")
//	reg.Decide = func(x *fakereg.Exchange) fakereg.Decision { return fakereg.Decision{M: 2} }
//	repo.Client = reg.Client()
package fakereg

import (
	"bytes"
	"crypto/sha256"
	"encoding/json"
	"fmt"
	"io"
	"net/http"
	"net/url"
	"sort"
	"strconv"
	"strings"
)

// Item is one listed entry: a tag, a repository name, or a referrer (Name is
// then its digest string and ArtifactType its artifact type).
type Item struct {
	Name         string
	ArtifactType string
}

// Names builds items without artifact type.
func Names(ns ...string) []Item {
	out := make([]Item, len(ns))
	for i, n := range ns {
		out[i] = Item{Name: n}
	}
	return out
}

// KV is one query parameter.
type KV struct{ K, V string }

// Link header forms (Decision.Variant).
const (
	LinkAbsolute     = iota // scheme://host/path?query
	LinkAbsolutePath        // /path?query
	LinkPathRelative        // ./lastsegment?query
	LinkQueryOnly           // ?query
	LinkSchemeRel           // //host/path?query
	NumLinkVariants
)

// Decision is everything the registry is free to choose for one response.
type Decision struct {
	M        int    // wished page length; clamped to [1, min(Cap, n)]
	Variant  int    // Link form
	Trailer  string // text after '>' (e.g. `; rel="next"`)
	Extra    []KV   // further parameters of the link, placed after "last"
	RawQuery bool   // write the link query in pair order instead of url.Values.Encode order
	Filter   bool   // filter by artifactType without announcing it
	FHdr     string // OCI-Filters-Applied header ("" = absent)
	FAnn     string // filtersApplied annotation ("" = absent)
	NullBody int    // an EMPTY page is written as 1: `null`, 2: `{"tags":null}` (resp. repositories / manifests)
	LeadWS   int    // pairs of white space bytes before the document (they count as part of it)
	TrailDoc bool   // a second JSON document follows the first (after Pad)
	DocLen   int    // if larger than the natural size: pad the JSON document (inside) to this size
	Pad      int    // bytes of white space after the document

	// malformed / failure stream
	Status    int     // 0 = 200
	RawLink   *string // replaces the Link header verbatim
	RawBody   *string // replaces the body verbatim
	CType     string  // replaces the Content-Type of a referrers response
	ErrorCode string  // error code of a non-200 body (default "UNKNOWN")
	NoDigest  bool    // manifest endpoint: omit the Docker-Content-Digest header

	// further Link material (RFC 8288 allows several link-values and several header lines)
	PostSame  []string // link-values appended to the next link's line after a comma, e.g. `<u>; rel="first"`
	PostLines []string // further Link header lines after the line with the next link
	// raw query fragments appended verbatim to the link query, e.g. "tok=a;b" or "t=%zz" (legal URL
	// text that url.ParseQuery rejects); their ground truth is ParseQueryLenient
	RawPairs   []string
	AltPath    bool // the next link points to the sibling path of the request path (".../~p" <-> plain)
	Redirect   bool // answer the request with a 307 to the sibling path <path>/~p first (one hop)
	PreFirst   int  // 0: none; 1: a rel="first" link-value BEFORE the next link in the same line; 2: in a header line of its own before it
	NoProgress bool // internal: set when RawLink is used (no ground truth for the target)
}

// Exchange is one logged request/response pair.
type Exchange struct {
	Kind     byte // 'T' tags, 'K' catalog, 'R' referrers, 'M' manifest
	Repo     string
	Path     string     // request path
	SentPath string     // the path the client asked for (differs from Path after Decision.Redirect)
	RawQuery string     // the raw query of the request exactly as received
	Body     []byte     // the response body (kept when shorter than 8 KiB)
	Query    url.Values // request query as received
	Dec      Decision
	Status   int
	Page     []Item   // items in the body (after server-side filtering)
	Unfilt   []Item   // the page before filtering
	More     bool     // items remain after this page
	Link     string   // first Link header line ("" = absent): what http.Header.Get returns
	Links    []string // all Link header lines
	HasLink  bool     // a well-formed link with ground truth was issued
	Text     string   // the text between '<' and '>' of the NEXT link
	TPath    string   // intended next target path
	TQuery   []KV     // intended next target query (pair order)
	// ground truth of the first link-value of the first line when that is NOT the next link (PreFirst)
	PreText  string
	PreQuery []KV
	CType    string // Content-Type sent
	JSONOK   bool   // body is a well-formed document of the expected shape
	DocLen   int    // size of the JSON document
	TotalLen int    // size of the body
	FHdr     string
	FAnn     string
	body     *countingBody
}

// BytesRead is the number of body bytes the client consumed.
func (x *Exchange) BytesRead() int { return x.body.n }

type countingBody struct {
	r      *bytes.Reader
	n      int
	closed bool
}

func (b *countingBody) Read(p []byte) (int, error) {
	n, err := b.r.Read(p)
	b.n += n
	return n, err
}
func (b *countingBody) Close() error { b.closed = true; return nil }

// Manifest is a stored manifest.
type Manifest struct {
	MediaType string
	Content   []byte
}

// Registry is the fake registry.  Not safe for concurrent use.
type Registry struct {
	Host      string
	Scheme    string              // scheme written into absolute links
	Cap       int                 // server-imposed maximum page length (>= 1)
	Tags      map[string][]Item   // repository -> tags in the registry's order
	Repos     []Item              // catalog in the registry's order
	Referrers map[string][]Item   // repository + "@" + subject digest -> referrers in the registry's order
	Manifests map[string]Manifest // repository + "@" + tag or digest -> manifest
	// CursorKey is the query key of the continuation the registry writes into its next links and
	// reads back ("" = "last", the key clients use for the start value).  With another key the
	// cursor is opaque to the client: its value is CursorSalt + <name of the last item>, and the
	// next link carries no "last" at all.
	CursorKey  string
	CursorSalt string
	// Hidden names are held but never shown (e.g. no permission): a page window that consists of
	// hidden entries only is an EMPTY page, with a Link when items remain.
	Hidden map[string]bool
	// NoReferrersAPI makes the referrers endpoint answer 404 (code NOT_FOUND), like a registry without it
	NoReferrersAPI bool
	// Decide is the split oracle; x has Kind, Repo, Path and Query filled in.
	Decide         func(x *Exchange) Decision
	Log            []*Exchange
	Redirects      int // redirect hops issued
	redirectedFrom string
	MaxRequests    int               // safety against servers that make no progress (then 508)
	Fallback       http.RoundTripper // other paths
}

// New returns an empty registry with a large cap and one-page answers.
func New(host string) *Registry {
	return &Registry{Host: host, Scheme: "http", Cap: 1 << 30, Tags: map[string][]Item{}, Referrers: map[string][]Item{}, Manifests: map[string]Manifest{},
		Decide: func(*Exchange) Decision { return Decision{M: 1 << 30} }, MaxRequests: 500}
}

// Client returns an http.Client speaking to the registry.
func (r *Registry) Client() *http.Client { return &http.Client{Transport: r} }

// After is the registry's meaning of `last`: the items following the entry
// named last; for an unknown name, the items from the first one that is
// greater than last in string order (for a sorted list: all greater items).
// The result is always a suffix of items.
func After(items []Item, last string) []Item {
	if last == "" {
		return items
	}
	for i, it := range items {
		if it.Name == last {
			return items[i+1:]
		}
	}
	for i, it := range items {
		if it.Name > last {
			return items[i:]
		}
	}
	return nil
}

// FilterApplied is the distribution-spec reading of a comma separated filter list.
func FilterApplied(list, name string) bool {
	if list == "" {
		return false
	}
	for _, f := range strings.Split(list, ",") {
		if f == name {
			return true
		}
	}
	return false
}

// PageLen is the length of the page the registry serves for wish m, request parameter n (<= 0: absent).
func PageLen(m, cap, n int) int {
	lim := cap
	if n > 0 && n < lim {
		lim = n
	}
	if m > lim {
		m = lim
	}
	if m < 1 {
		m = 1
	}
	return m
}

// RoundTrip implements http.RoundTripper.
func (r *Registry) RoundTrip(req *http.Request) (*http.Response, error) {
	if req.Body != nil {
		req.Body.Close()
	}
	p := req.URL.Path
	x := &Exchange{Path: p, Query: ParseQueryLenient(req.URL.RawQuery), RawQuery: req.URL.RawQuery}
	// listings are also served under the sibling path <path>/~p (Decision.AltPath)
	alt := strings.HasSuffix(p, "/~p")
	p = strings.TrimSuffix(p, "/~p")
	var items []Item
	switch {
	case (req.Method == http.MethodGet || req.Method == http.MethodHead) && strings.HasPrefix(p, "/v2/") && strings.Contains(p, "/manifests/"):
		return r.manifest(req, x), nil
	case req.Method != http.MethodGet:
	case p == "/v2/_catalog":
		x.Kind, items = 'K', r.Repos
	case strings.HasPrefix(p, "/v2/") && strings.HasSuffix(p, "/tags/list"):
		x.Kind, x.Repo = 'T', strings.TrimSuffix(strings.TrimPrefix(p, "/v2/"), "/tags/list")
		its, ok := r.Tags[x.Repo]
		if !ok {
			return r.fail(req, x, http.StatusNotFound, "NAME_UNKNOWN"), nil
		}
		items = its
	case strings.HasPrefix(p, "/v2/") && strings.Contains(p, "/referrers/"):
		i := strings.LastIndex(p, "/referrers/")
		x.Kind, x.Repo = 'R', p[len("/v2/"):i]
		items = r.Referrers[x.Repo+"@"+p[i+len("/referrers/"):]]
		if r.NoReferrersAPI {
			r.Log = append(r.Log, x)
			return r.fail(req, x, http.StatusNotFound, "NOT_FOUND"), nil
		}
	}
	if x.Kind == 0 {
		if r.Fallback != nil {
			return r.Fallback.RoundTrip(req)
		}
		return r.fail(req, x, http.StatusNotFound, "UNSUPPORTED"), nil
	}
	r.Log = append(r.Log, x)
	if r.MaxRequests > 0 && len(r.Log) > r.MaxRequests {
		return r.fail(req, x, http.StatusLoopDetected, "UNKNOWN"), nil
	}
	d := r.Decide(x)
	x.Dec = d
	x.SentPath = x.Path
	if r.redirectedFrom != "" {
		x.SentPath, r.redirectedFrom = r.redirectedFrom, ""
	} else if d.Redirect && !alt {
		// one redirect hop to the sibling path: the answer (and the base of its relative links)
		// then belongs to a URL other than the one the client asked for
		r.Log = r.Log[:len(r.Log)-1]
		r.redirectedFrom = x.Path
		r.Redirects++
		loc := url.URL{Scheme: r.Scheme, Host: r.Host, Path: x.Path + "/~p", RawQuery: req.URL.RawQuery}
		h := http.Header{}
		h.Set("Location", loc.String())
		return &http.Response{Status: "307 Temporary Redirect", StatusCode: 307, Proto: "HTTP/1.1", ProtoMajor: 1, ProtoMinor: 1,
			Header: h, Body: http.NoBody, Request: req}, nil
	}
	if d.Status != 0 && d.Status != http.StatusOK {
		code := d.ErrorCode
		if code == "" {
			code = "UNKNOWN"
		}
		return r.fail(req, x, d.Status, code), nil
	}

	// the page
	ck := r.CursorKey
	if ck == "" {
		ck = "last"
	}
	cur := x.Query.Get("last")
	if ck != "last" && x.Query.Has(ck) {
		cur = strings.TrimPrefix(x.Query.Get(ck), r.CursorSalt)
	}
	rest := After(items, cur)
	n, _ := strconv.Atoi(x.Query.Get("n"))
	m := PageLen(d.M, r.Cap, n)
	if m > len(rest) {
		m = len(rest)
	}
	x.Unfilt = rest[:m:m]
	x.More = m < len(rest)
	x.Page = x.Unfilt
	if len(r.Hidden) > 0 {
		x.Page = nil
		for _, it := range x.Unfilt {
			if !r.Hidden[it.Name] {
				x.Page = append(x.Page, it)
			}
		}
	}
	shown := x.Page
	at := x.Query.Get("artifactType")
	if x.Kind == 'R' && at != "" && (d.Filter || FilterApplied(d.FHdr, "artifactType") || FilterApplied(d.FAnn, "artifactType")) {
		x.Page = nil
		for _, it := range shown {
			if it.ArtifactType == at {
				x.Page = append(x.Page, it)
			}
		}
	}
	x.FHdr, x.FAnn = d.FHdr, d.FAnn

	h := http.Header{}
	// the link
	if x.More {
		x.TPath = x.Path
		if d.AltPath {
			if alt {
				x.TPath = p
			} else {
				x.TPath = p + "/~p"
			}
		}
		cv := x.Unfilt[m-1].Name
		if ck != "last" {
			cv = r.CursorSalt + cv
		}
		x.TQuery = append([]KV{{ck, cv}}, d.Extra...)
		for _, raw := range d.RawPairs {
			for k, vs := range ParseQueryLenient(raw) {
				for _, v := range vs {
					x.TQuery = append(x.TQuery, KV{k, v})
				}
			}
		}
		keys := make([]string, 0, len(x.Query))
		for k := range x.Query {
			if k != "last" && k != ck {
				keys = append(keys, k)
			}
		}
		sort.Strings(keys)
		for _, k := range keys {
			for _, v := range x.Query[k] {
				x.TQuery = append(x.TQuery, KV{k, v})
			}
		}
		x.Text = r.render(req.URL, x.TPath, x.TQuery, d)
		x.HasLink = true
		line := "<" + x.Text + ">" + d.Trailer
		for _, v := range d.PostSame {
			line += ", " + v
		}
		if d.PreFirst != 0 {
			// a link back to the first page, placed before the next link
			for _, kv := range x.TQuery {
				if kv.K != "last" && kv.K != ck {
					x.PreQuery = append(x.PreQuery, kv)
				}
			}
			x.PreText = r.render(req.URL, x.Path, x.PreQuery, d)
			pre := "<" + x.PreText + `>; rel="first"`
			if d.PreFirst == 1 {
				x.Links = []string{pre + ", " + line}
			} else {
				x.Links = []string{pre, line}
			}
		} else {
			x.Links = []string{line}
		}
		x.Links = append(x.Links, d.PostLines...)
	}
	if d.RawLink != nil {
		x.Links, x.HasLink, x.Text = nil, false, ""
		if *d.RawLink != "" {
			x.Links = []string{*d.RawLink}
		}
	}
	for _, l := range x.Links {
		h.Add("Link", l)
	}
	if len(x.Links) > 0 {
		x.Link = x.Links[0]
	}

	// the body
	var body []byte
	switch x.Kind {
	case 'T':
		body = marshal(map[string]any{"name": x.Repo, "tags": names(x.Page)})
		h.Set("Content-Type", "application/json")
	case 'K':
		body = marshal(map[string]any{"repositories": names(x.Page)})
		h.Set("Content-Type", "application/json")
	case 'R':
		ms := make([]map[string]any, 0, len(x.Page))
		for _, it := range x.Page {
			e := map[string]any{"mediaType": "application/vnd.oci.image.manifest.v1+json", "digest": it.Name, "size": 2}
			if it.ArtifactType != "" {
				e["artifactType"] = it.ArtifactType
			}
			ms = append(ms, e)
		}
		idx := map[string]any{"schemaVersion": 2, "mediaType": "application/vnd.oci.image.index.v1+json", "manifests": ms}
		if d.FAnn != "" {
			idx["annotations"] = map[string]string{"org.opencontainers.referrers.filtersApplied": d.FAnn}
		}
		body = marshal(idx)
		ct := "application/vnd.oci.image.index.v1+json"
		if d.CType != "" {
			ct = d.CType
		}
		h.Set("Content-Type", ct)
		x.CType = ct
		if d.FHdr != "" {
			h.Set("OCI-Filters-Applied", d.FHdr)
		}
	}
	x.JSONOK = true
	if len(x.Page) == 0 && d.NullBody != 0 {
		// how encoders of nil slices write an empty page
		key := map[byte]string{'T': "tags", 'K': "repositories", 'R': "manifests"}[x.Kind]
		switch d.NullBody {
		case 1:
			body = []byte("null")
		default:
			body = []byte(`{"` + key + `":null}`)
		}
	}
	if d.DocLen > len(body) && body[len(body)-1] == '}' {
		// white space before the closing brace keeps the document self-delimited
		body = append(append(body[:len(body)-1:len(body)-1], bytes.Repeat([]byte{' '}, d.DocLen-len(body))...), '}')
	}
	if d.LeadWS > 0 {
		body = append(bytes.Repeat([]byte{' ', '\n'}, d.LeadWS), body...)
	}
	x.DocLen = len(body)
	if d.RawBody != nil {
		body, x.JSONOK, x.DocLen = []byte(*d.RawBody), false, len(*d.RawBody)
	}
	if d.Pad > 0 {
		body = append(body, bytes.Repeat([]byte{'\n'}, d.Pad)...)
	}
	if d.TrailDoc && d.RawBody == nil {
		// a second document after the first: a stream decoder must not look at it
		body = append(body, []byte(`{"tags":["zzz"],"repositories":["zzz"],"manifests":[{"mediaType":"x","digest":"sha256:00","size":1}]}`)...)
	}
	x.TotalLen = len(body)
	if len(body) < 8192 {
		x.Body = body
	}
	x.Status = http.StatusOK
	x.body = &countingBody{r: bytes.NewReader(body)}
	return &http.Response{Status: "200 OK", StatusCode: 200, Proto: "HTTP/1.1", ProtoMajor: 1, ProtoMinor: 1,
		Header: h, Body: x.body, ContentLength: int64(len(body)), Request: req}, nil
}

// manifest serves GET/HEAD /v2/<name>/manifests/<ref>.
func (r *Registry) manifest(req *http.Request, x *Exchange) *http.Response {
	p := req.URL.Path
	i := strings.LastIndex(p, "/manifests/")
	x.Kind, x.Repo = 'M', p[len("/v2/"):i]
	r.Log = append(r.Log, x)
	d := r.Decide(x)
	x.Dec = d
	m, ok := r.Manifests[x.Repo+"@"+p[i+len("/manifests/"):]]
	if !ok {
		return r.fail(req, x, http.StatusNotFound, "MANIFEST_UNKNOWN")
	}
	if d.Status != 0 && d.Status != http.StatusOK {
		return r.fail(req, x, d.Status, "UNKNOWN")
	}
	h := http.Header{}
	h.Set("Content-Type", m.MediaType)
	if !d.NoDigest {
		h.Set("Docker-Content-Digest", "sha256:"+fmt.Sprintf("%x", sha256.Sum256(m.Content)))
	}
	body := m.Content
	if req.Method == http.MethodHead {
		body = nil
	}
	x.Status, x.JSONOK, x.DocLen, x.TotalLen = http.StatusOK, true, len(m.Content), len(m.Content)
	x.body = &countingBody{r: bytes.NewReader(body)}
	return &http.Response{Status: "200 OK", StatusCode: 200, Proto: "HTTP/1.1", ProtoMajor: 1, ProtoMinor: 1,
		Header: h, Body: x.body, ContentLength: int64(len(m.Content)), Request: req}
}

// ParseQueryLenient reads a raw query the way a registry may: pairs separated by '&', key and
// value separated by the first '='; what cannot be unescaped is taken literally.  (Unlike
// url.ParseQuery it neither rejects ';' nor drops a pair with a malformed escape.)
func ParseQueryLenient(raw string) url.Values {
	v := url.Values{}
	for _, seg := range strings.Split(raw, "&") {
		if seg == "" {
			continue
		}
		k, val, _ := strings.Cut(seg, "=")
		if u, err := url.QueryUnescape(k); err == nil {
			k = u
		}
		if u, err := url.QueryUnescape(val); err == nil {
			val = u
		}
		v.Add(k, val)
	}
	return v
}

// render writes the link text for target path tpath and query q in the form d.Variant.  Pairs
// that stem from d.RawPairs are written verbatim, everything else escaped.
func (r *Registry) render(u *url.URL, tpath string, q []KV, d Decision) string {
	rawOf := map[KV]string{}
	for _, raw := range d.RawPairs {
		k, val, _ := strings.Cut(raw, "=")
		for kk, vs := range ParseQueryLenient(raw) {
			for _, v := range vs {
				rawOf[KV{kk, v}] = k + "=" + val
			}
		}
	}
	pairs := append([]KV(nil), q...)
	if !d.RawQuery {
		sort.SliceStable(pairs, func(i, j int) bool { return pairs[i].K < pairs[j].K })
	}
	parts := make([]string, len(pairs))
	for i, kv := range pairs {
		if raw, ok := rawOf[kv]; ok {
			parts[i] = raw
		} else {
			parts[i] = url.QueryEscape(kv.K) + "=" + url.QueryEscape(kv.V)
		}
	}
	qs := strings.Join(parts, "&")
	ep := (&url.URL{Path: tpath}).EscapedPath()
	same := tpath == u.Path
	switch d.Variant % NumLinkVariants {
	case LinkAbsolutePath:
		return ep + "?" + qs
	case LinkPathRelative:
		if !same { // relative to the directory of the request path
			if strings.HasPrefix(tpath, u.Path+"/") {
				return "./" + ep[strings.LastIndexByte((&url.URL{Path: u.Path}).EscapedPath(), '/')+1:] + "?" + qs
			}
			return "../" + ep[strings.LastIndexByte(ep, '/')+1:] + "?" + qs
		}
		return "./" + ep[strings.LastIndexByte(ep, '/')+1:] + "?" + qs
	case LinkQueryOnly:
		if same {
			return "?" + qs
		}
		return ep + "?" + qs
	case LinkSchemeRel:
		return "//" + r.Host + ep + "?" + qs
	}
	return r.Scheme + "://" + r.Host + ep + "?" + qs
}

func (r *Registry) fail(req *http.Request, x *Exchange, status int, code string) *http.Response {
	body := marshal(map[string]any{"errors": []map[string]string{{"code": code, "message": "fakereg"}}})
	x.Status, x.TotalLen, x.DocLen = status, len(body), len(body)
	x.body = &countingBody{r: bytes.NewReader(body)}
	h := http.Header{}
	h.Set("Content-Type", "application/json")
	return &http.Response{Status: fmt.Sprintf("%d %s", status, http.StatusText(status)), StatusCode: status,
		Proto: "HTTP/1.1", ProtoMajor: 1, ProtoMinor: 1, Header: h, Body: x.body, ContentLength: int64(len(body)), Request: req}
}

func names(items []Item) []string {
	out := make([]string, len(items))
	for i, it := range items {
		out[i] = it.Name
	}
	return out
}

func marshal(v any) []byte {
	b, err := json.Marshal(v)
	if err != nil {
		panic(err)
	}
	return b
}

var _ io.ReadCloser = (*countingBody)(nil)
