package fakereg

import (
	"encoding/json"
	"net/http"
	"testing"
)

// TestPaging walks a three-item tag list one item per page by following the
// Link targets recorded in the exchange log.
func TestPaging(t *testing.T) {
	reg := New("reg.test")
	reg.Tags["repo"] = Names("a", "b", "c")
	reg.Decide = func(x *Exchange) Decision { return Decision{M: 1, Variant: len(reg.Log), Trailer: `; rel="next"`} }
	u := "http://reg.test/v2/repo/tags/list"
	var got []string
	for i := 0; i < 5 && u != ""; i++ {
		resp, err := reg.Client().Get(u)
		if err != nil || resp.StatusCode != http.StatusOK {
			t.Fatalf("GET %s: %v %v", u, resp, err)
		}
		var page struct{ Tags []string }
		if err := json.NewDecoder(resp.Body).Decode(&page); err != nil {
			t.Fatal(err)
		}
		got = append(got, page.Tags...)
		x := reg.Log[len(reg.Log)-1]
		u = ""
		if x.HasLink {
			next, err := resp.Request.URL.Parse(x.Text)
			if err != nil {
				t.Fatal(err)
			}
			u = next.String()
		}
	}
	if len(got) != 3 || got[0] != "a" || got[2] != "c" || len(reg.Log) != 3 {
		t.Fatalf("got %v after %d requests", got, len(reg.Log))
	}
}
